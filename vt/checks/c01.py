"""C01 - voxel and physical coordinates convert consistently for every image geometry.

Tie: the axis map is the generated table DarsiaGen.IndexingTables (re-tabulated from the running
interpret_indexing by this check, same tabulation as C20); the arithmetic of
CoordinateSystem.coordinate / .voxel, Image.opposite_corner / .voxel_size / default origin and the typed
points is tied to DarsiaModel.Coord by a differential correspondence that is EXACT on the dyadic stream
(every float operation exact) and compares voxel indices exactly / measures the float error on the general stream.
A quarter of the geometries are examined after an in-place history (touch / reset_origin / origin and dimensions assignments) on the same image
object; batches are checked to be the map of the single form with one point per row (N = 1 and 1-d images included).
The oracle evaluates the property statement on the implementation: every voxel of the image plus a halo,
single and batch call forms, scalar / vector / series payloads, default and far user origins.
"""
from __future__ import annotations

import json
import sys
from fractions import Fraction

import numpy as np

from ..lib.core import flist, fmts, frac
from ..lib.impl import Raised, call
from . import c20

LEVEL = "proof"
CLAIM = dict(
    category="proof",
    text="Theorems in DarsiaProps.C01 about the executable model DarsiaModel.Coord (rational arithmetic), for every dimension 1-3, "
    "every shape, positive dimensions, arbitrary origin and every integer voxel inside or outside the image: coord_zero, "
    "coord_opposite, coord_step (orientation table regenerated from the running interpret_indexing and proved to be a permutation "
    "and the documented one), voxel_of_inside (every point with offset in [0,1) of a voxel converts back to it), center_roundtrip, "
    "batch_roundtrip (lists of any length; the model's batch IS mapM of the single form by definition - that numpy's batch equals the map of the single form is observed), typed_roundtrip / constructors_idempotent for the typed points, default_origin_box, "
    "center_stable (float bridge: quotient error < 1/2 voxel cannot change a centre's index). Remaining public surface (round 2): coordinate_vector_linear, "
    "num_voxels_length (num_voxels(length(n)) = n; num_voxels(L) voxels cover L with < 1 voxel to spare), ceil_bridge, min_max_coordinate + voxel_in_domain (bounding box, "
    "reversed axes), matrix_indexing_false_involutive, check_equal_refl, check_equal_symm_of_symm, npclose_not_symmetric (witness: numpy's isclose is not symmetric), "
    "inplace_ops_preserve_wellformedness (reset_origin(), origin / dimensions assignments keep the geometry well formed, so all theorems apply to the current fields), reset_origin_default, coordinate_dtype_agnostic (near-definitional: the model is over Q; the tie now covers every numpy dtype the functions accept - uint8..uint64, int8..int64, float32 (float32 precision), float64, tuples, unsigned shape arrays), typed_subselection (__getitem__ of the typed arrays: result class and values; its third conjunct - selection commutes with conversion - is the naturality of row selection, not specific to the coordinate system). Tie: generated axis table + "
    "differential correspondence model vs implementation (coordinate, voxel, opposite_corner, voxel_size, default origin, typed points, coordinate_vector, length, num_voxels, "
    "min/max_coordinate, Image.domain, voxels/coordinates, make_* incl. matrix_indexing=False and batch assertions, check_equal_coordinatesystems incl. error classes), exact on dyadic geometries, index-exact with measured float error "
    "(recorded, must stay < 2^-20 voxel) on general geometries with origins up to 1e6 voxel sizes away.",
    note="STATUS OF CLAUSES (round 7): failing inputs are claimed only for the stated clauses (round trips, unit step / flipped rows, voxel 0 at the origin - also of the image returned by reset_origin -, typed getitem commuting with conversion, batch = single within 16 ulp*scale, wrong values on accepted dtypes); clauses that encode the current surface (check_equal_coordinatesystems, coordinate_vector, num_voxels, domain, min/max_coordinate, lower-corner membership, voxel-of-image-outside, Voxel(matrix_indexing=False), default origin, reset_origin's returned value, constructor history, typed-array class) are TIE-BROKEN marks; refused dtypes are observations; an unevaluable result is a HARNESS-EXCEPTION mark; tolerances are >= 4 ulp*scale on the dyadic stream too; history origins are within 1e6 voxel sizes (2e5 h on the general stream); float arithmetic itself is not modelled: the general stream compares voxel indices at centres and at offsets >= 2^-10 voxel from "
    "a face and records the measured error of the implementation's quotient; numpy IEEE semantics trusted. History independence (no stale cached coordinate system) is OBSERVED (hist correspondence on dyadic geometries + oracle on images with in-place histories), not proved: "
    "the model's state is just the fields, like the code's property that rebuilds the CoordinateSystem on every access.",
    technique="Lean 4 proof (parametric in the axis map; generated wf obligation by decide) + differential correspondence + oracle search",
)

EPS = Fraction(1, 2**52)
PAYLOADS = ("scalar", "vector", "series", "vector-series")


# ---------------------------------------------------------------------------
# geometry generation


def _dy(rng, kmax=7, mmax=6):
    return Fraction(rng.randint(1, kmax), 2 ** rng.randint(0, mmax))


def gen_geometry(rng, dim, shape, regime):
    """Return dict(dim, shape, dims(list of float), origin(list of float)|None, dyadic: bool)."""
    if regime in ("dy-default", "dy-user", "dy-far"):
        h = [_dy(rng) for _ in range(dim)]
        dims = [float(h[p] * shape[p]) for p in range(dim)]
        if regime != "dy-far" and all(x.is_integer() for x in dims) and rng.random() < 0.6:
            dims = [int(x) for x in dims]  # integer-typed dimensions (and hence an integer-typed DEFAULT origin array)
        if regime == "dy-default":
            origin = None
        elif regime == "dy-user":
            origin = [float(Fraction(rng.randint(-200, 200), 2 ** rng.randint(0, 4))) for _ in range(dim)]
            if rng.random() < 0.3:  # integer-typed origin (an int array inside the image): conversions must not inherit the dtype
                origin = [rng.randint(-200, 200) for _ in range(dim)]

        else:
            # origin about 1e6 voxel sizes away, still exactly representable together with every coordinate
            origin = [None] * dim
            am = AXMAP[dim]
            for i in range(dim):
                p = am[i][0]
                origin[i] = float(rng.choice([-1, 1]) * (rng.randint(900000, 1000000) * h[p]) + Fraction(rng.randint(-8, 8), 8) * h[p])
        return dict(dim=dim, shape=list(shape), dims=dims, origin=origin, dyadic=True, regime=regime)
    # general floats
    if regime == "gen-mixed":
        dims = [10 ** rng.uniform(-4, -3) if rng.random() < 0.5 else 10 ** rng.uniform(3, 4) for _ in range(dim)]
    else:
        dims = [10 ** rng.uniform(-4, 4) for _ in range(dim)]
    if regime == "gen-default":
        origin = None
    elif regime == "gen-user":
        origin = [rng.uniform(-10, 10) * dims[AXMAP[dim][i][0]] for i in range(dim)]
    else:  # gen-far, gen-mixed: up to 1e6 voxel sizes away
        origin = []
        for i in range(dim):
            p = AXMAP[dim][i][0]
            origin.append(rng.choice([-1, 1]) * rng.uniform(1e5, 1e6) * dims[p] / shape[p])
    return dict(dim=dim, shape=list(shape), dims=dims, origin=origin, dyadic=False, regime=regime)


REGIMES = ("dy-default", "dy-user", "dy-far", "gen-default", "gen-user", "gen-far", "gen-mixed")
AXMAP = {1: [(0, False)], 2: [(1, False), (0, True)], 3: [(1, False), (2, True), (0, True)]}  # documented orientation
"""The documented orientation (docstrings of coordinatesystem.py / interpret_indexing): the ORACLE's reference."""


def rand_shape(rng, dim, cap):
    pool = [1, 1, 2, 3, 3, 4, 5, 5, 6, 7, 7] + [rng.randint(1, cap)]
    return tuple(min(cap, rng.choice(pool)) for _ in range(dim))


def make_image(d, g, payload="scalar"):
    dim, shape = g["dim"], tuple(g["shape"])
    series = "series" in payload
    vector = "vector" in payload
    full = shape + ((3,) if series else ()) + ((2,) if vector else ())
    arr = np.zeros(full, dtype=float)
    dims0, origin0 = g.get("built_dims", g["dims"]), g.get("built_origin", g["origin"])
    kw = dict(space_dim=dim, dimensions=list(dims0), scalar=not vector, series=series)
    if series:
        kw["time"] = [0.0, 1.0, 2.0]
    if origin0 is not None:
        kw["origin"] = list(origin0)
    img = call(d.Image, arr, **kw)
    if isinstance(img, Raised) or not g.get("history"):
        return img
    r = call(apply_history, d, img, g["history"])
    return r if isinstance(r, Raised) else img


def apply_history(d, img, history):
    """In-place life of ONE image object before it is examined: conversions are requested (so anything cached is
    populated), then the origin / dimensions are changed through the public means, possibly several times."""
    for op in history:
        if op == "touch":
            cs = img.coordinatesystem
            cs.coordinate(np.zeros(img.space_dim))
            cs.voxel(np.asarray(img.origin, dtype=float))
            img.opposite_corner
            img.voxel_size
        elif op == "reset_origin":
            img.reset_origin()
        elif op[0] == "set_origin":
            img.origin = d.Coordinate(np.array(op[1], dtype=float))
        elif op[0] == "update_origin":
            img.update_metadata(origin=d.Coordinate(np.array(op[1], dtype=float)))
        elif op[0] == "set_dimensions":
            img.dimensions = list(op[1])
        else:
            raise ValueError(op)


def eff_geometry(g):
    """The geometry an image has after its history: (dims, origin or None for the default origin)."""
    dims, origin = list(g["dims"]), g["origin"]
    for op in g.get("history") or []:
        if op == "reset_origin":
            origin = None
        elif op != "touch" and op[0] in ("set_origin", "update_origin"):
            origin = list(op[1])
        elif op != "touch" and op[0] == "set_dimensions":
            if origin is None:  # the default origin was fixed when the image was built / last reset: it does not follow the dimensions
                origin = [float(dims[AXMAP[g["dim"]][i][0]]) if AXMAP[g["dim"]][i][1] else 0.0 for i in range(g["dim"])]
            dims = list(op[1])
    return dims, origin


def with_history(rng, g):
    """Attach a random in-place history to a geometry (dyadic values stay dyadic)."""
    dim = g["dim"]
    def new_origin():
        if g["dyadic"]:
            return [float(Fraction(rng.randint(-400, 400), 8)) for _ in range(dim)]
        # within the quantifier: at most 1e6 voxel sizes of the MATCHING axis away (2e5 here: a later change of the dimensions must not push it beyond)
        return [rng.uniform(-2e5, 2e5) * g["dims"][AXMAP[dim][i][0]] / g["shape"][AXMAP[dim][i][0]] for i in range(dim)]
    steps = ["touch"]
    for _ in range(rng.randint(1, 3)):
        k = rng.random()
        if k < 0.4:
            steps.append("reset_origin")
        elif k < 0.7:
            steps.append(["set_origin", new_origin()])
        elif k < 0.85:
            steps.append(["update_origin", new_origin()])
        else:
            steps.append(["set_dimensions", [x * rng.choice([2.0, 4.0]) for x in g["dims"]]])  # larger voxels only: the origin stays within 1e6 voxel sizes
            if "reset_origin" not in steps[1:]:
                pass
        steps.append("touch")
    h = dict(g, history=steps)
    return h


def cs_tokens(g, origin):
    return f"{g['dim']} {flist(g['shape'])} {flist(g['dims'])} {flist(origin)}"


def halo_voxels(shape, halo):
    grids = np.meshgrid(*[np.arange(-halo, n + halo) for n in shape], indexing="ij")
    return np.stack([x.ravel() for x in grids], axis=1)


def exact_coord(g, origin, v):
    """Exact rational coordinate of the (possibly fractional) voxel v under the documented orientation."""
    out = []
    for i in range(g["dim"]):
        p, r = AXMAP[g["dim"]][i]
        h = frac(g["dims"][p]) / g["shape"][p]
        out.append(frac(origin[i]) + (-1 if r else 1) * frac(v[p]) * h)
    return out


def zone(v, shape):
    if any(x < 0 for x in v):
        return "halo-negative"
    if any(x >= n for x, n in zip(v, shape)):
        return "halo-beyond"
    return "inside"


# ---------------------------------------------------------------------------
# property oracle on the implementation


def effective(g):
    """g with dims/origin replaced by what the history leaves (the history itself is kept for make_image)."""
    if not g.get("history"):
        return g
    dims, origin = eff_geometry(g)
    return dict(g, dims=dims, origin=origin, built_dims=g.get("built_dims", g["dims"]), built_origin=g.get("built_origin", g["origin"]))


def check_case(d, case):
    """Evaluate ONE clause of the property on the implementation. Returns (holds, observed, required).
    `case` is a JSON-able dict; the same function serves the search and --replay."""
    g = case["geometry"]
    img = make_image(d, g, case.get("payload", "scalar"))
    g = effective(g)
    if isinstance(img, Raised):
        return False, f"Image(...) raises {img}", "image can be built"
    cs = call(lambda: img.coordinatesystem)
    if isinstance(cs, Raised):
        return False, f"coordinatesystem raises {cs}", "coordinate system can be built"
    dim = g["dim"]
    clause = case["clause"]
    origin = [float(x) for x in np.asarray(img.origin)]
    dyadic = g.get("dyadic", False)

    def tol(scale):
        return 4 * EPS * scale  # also on dyadic geometries: an equivalent evaluation order may differ in the last bit

    if clause == "zero":
        got = call(cs.coordinate, [0] * dim)
        if isinstance(got, Raised):
            return False, repr(got), "origin"
        return bool(np.array_equal(np.asarray(got), np.asarray(img.origin))), list(map(float, np.asarray(got))), origin
    if clause == "opposite":
        got = call(lambda: img.opposite_corner)
        if isinstance(got, Raised):
            return False, repr(got), "origin +- dimensions"
        got = [float(x) for x in np.asarray(got)]
        ok = len(got) == dim
        req = []
        for i in range(dim):
            p, r = AXMAP[dim][i]
            want = (-1 if r else 1) * frac(g["dims"][p])
            req.append(float(frac(origin[i]) + want))
            if ok and abs(frac(got[i]) - frac(origin[i]) - want) > tol(abs(frac(origin[i])) + abs(want)):
                ok = False
        return ok, got, req
    if clause == "step":
        v, a = case["voxel"], case["axis"]
        w = list(v)
        w[a] += 1
        c0, c1 = call(cs.coordinate, list(v)), call(cs.coordinate, w)
        if isinstance(c0, Raised) or isinstance(c1, Raised):
            return False, f"{c0!r} {c1!r}", "coordinates"
        diff = [frac(float(x)) - frac(float(y)) for x, y in zip(np.asarray(c1), np.asarray(c0))]
        ok, req = True, []
        for i in range(dim):
            p, r = AXMAP[dim][i]
            h = frac(g["dims"][p]) / g["shape"][p]
            want = ((-1 if r else 1) * h) if p == a else Fraction(0)
            req.append(float(want))
            scale = abs(frac(origin[i])) + (abs(v[p]) + 2) * h
            if abs(diff[i] - want) > tol(scale):
                ok = False
        return ok, [float(x) for x in diff], req
    if clause == "roundtrip":
        v, t, form = case["voxel"], case["offset"], case.get("form", "list")
        p = [float(Fraction(a) + Fraction(b)) for a, b in zip(v, t)]
        arg = {"list": p, "tuple": tuple(p), "array": np.array(p), "batch": np.array([p, p])}[form]
        c = call(cs.coordinate, arg)
        if isinstance(c, Raised):
            return False, f"coordinate raises {c}", list(v)
        # voxel() accepts arrays (incl. the Coordinate returned above) and lists; a tuple is refused (AssertionError), see `form` correspondence
        back = call(cs.voxel, [float(x) for x in np.asarray(c)] if form == "list" else (np.asarray(c) if form == "tuple" else c))
        if isinstance(back, Raised):
            return False, f"voxel raises {back}", list(v)
        back = np.asarray(back)
        got = back[0] if form == "batch" else back
        return bool(np.array_equal(got, np.array(v))), [int(x) for x in np.ravel(got)], list(v)
    if clause == "dtype":
        return dtype_case(d, cs, g, origin, case["op"], case["dtype"], case["rows"])
    if clause == "getitem":
        batches = typed_batches(d, cs, case["voxels"])
        kind, arr, ecls, acls = [b for b in batches if b[0] == case["kind"]][0]
        form, key = case["form"], case["key"]
        npkey = key if form == "int" else np.array(key, dtype=(bool if form == "mask" else int))
        got = call(lambda: arr[npkey])
        want_cls = ecls if form == "int" else acls
        if isinstance(got, Raised) or not isinstance(got, want_cls) or not np.array_equal(np.asarray(got), np.asarray(arr)[npkey]):
            return False, f"{type(got).__name__} {got!r}"[:200], f"{want_cls.__name__} {np.asarray(arr)[npkey].tolist()}"
        if kind != "coord":
            conv = call(lambda: got.to_coordinate(cs))
            want = np.asarray(arr.to_coordinate(cs))[npkey]
            return (not isinstance(conv, Raised)) and bool(np.array_equal(np.asarray(conv), want)), repr(conv)[:200], want.tolist()
        return True, "ok", "ok"
    if clause == "reset-returned":
        im2 = make_image(d, case["geometry"], case.get("payload", "scalar"))
        ret = call(im2.reset_origin, True)
        want = [float(g["dims"][AXMAP[dim][i][0]]) if AXMAP[dim][i][1] else 0.0 for i in range(dim)]
        if isinstance(ret, Raised) or ret is None:
            return False, repr(ret), want
        got_o = [float(x) for x in np.asarray(ret.origin)]
        return got_o == want, got_o, want
    if clause == "batch":
        # batch = map of single: N points in, N points out (one per row, also for N = 1 and for 1-d images), same values
        V = np.array(case["voxels"], dtype=float).reshape(-1, dim)
        pts = V + np.array([float(Fraction(x)) for x in case["offset"]])
        kind = case.get("kind", "array")
        arg = pts if kind == "array" else d.make_voxel_center(np.floor(pts)) if kind == "VoxelCenterArray" else pts
        c = call(cs.coordinate, arg)
        if isinstance(c, Raised):
            return False, f"coordinate(batch of {len(V)}) raises {c}", "one coordinate per row"
        if np.asarray(c).shape != V.shape:
            return False, f"coordinate(batch of shape {V.shape}) has shape {np.asarray(c).shape}", f"shape {V.shape}"
        back = call(cs.voxel, c) if kind != "CoordinateArray.to_voxel" else call(lambda: d.make_coordinate(np.asarray(c)).to_voxel(cs))
        if isinstance(back, Raised):
            return False, f"voxel(batch of {len(V)}) raises {back}", "one voxel per row"
        if np.asarray(back).shape != V.shape:
            return False, f"voxel(batch of shape {V.shape}) has shape {np.asarray(back).shape} ({type(back).__name__})", f"shape {V.shape}"
        singles = [call(cs.voxel, np.asarray(c)[k]) for k in range(len(V))]
        if any(isinstance(x, Raised) for x in singles) or not np.array_equal(np.asarray(back), np.array([np.asarray(x) for x in singles]).reshape(V.shape)):
            return False, [[int(y) for y in r] for r in np.asarray(back)], "the single-point results row by row"
        return bool(np.array_equal(np.asarray(back), np.floor(pts).astype(int))), [[int(y) for y in r] for r in np.asarray(back)], np.floor(pts).astype(int).tolist()
    if clause == "typed":
        v, path = case["voxel"], case["path"]
        vi = np.array(v, dtype=int)
        ctr = vi + 0.5
        if path == "Voxel.to_voxel_center":
            got, req = call(lambda: d.make_voxel(vi).to_voxel_center()), ctr
        elif path == "VoxelCenter.to_voxel":
            got, req = call(lambda: d.make_voxel(vi).to_voxel_center().to_voxel()), vi
        elif path == "make_voxel_center(centres)":
            got, req = call(lambda: d.make_voxel_center(ctr)), ctr
        elif path == "make_voxel(centres)":
            got, req = call(lambda: d.make_voxel(ctr)), vi
        elif path == "VoxelCenter.to_coordinate.to_voxel":
            got, req = call(lambda: d.make_voxel(vi).to_voxel_center().to_coordinate(cs).to_voxel(cs)), vi
        elif path == "VoxelCenter.to_coordinate.to_voxel_center":
            got, req = call(lambda: d.make_voxel(vi).to_voxel_center().to_coordinate(cs).to_voxel_center(cs)), ctr
        elif path == "VoxelCenter.to_coordinate":
            got = call(lambda: d.make_voxel(vi).to_voxel_center().to_coordinate(cs))
            req = call(cs.coordinate, ctr)
            if isinstance(req, Raised):
                return False, repr(req), "coordinate"
            req = np.asarray(req)
        elif path == "Coordinate.to_voxel":
            x = call(cs.coordinate, ctr)
            if isinstance(x, Raised):
                return False, repr(x), list(v)
            got, req = call(lambda: d.make_coordinate(np.asarray(x)).to_voxel(cs)), vi
        else:
            raise ValueError(path)
        if isinstance(got, Raised):
            return False, repr(got), [float(x) for x in np.ravel(req)]
        ok = np.asarray(got).shape == np.asarray(req).shape and bool(np.array_equal(np.asarray(got), req))
        return ok, [float(x) for x in np.ravel(np.asarray(got))], [float(x) for x in np.ravel(req)]
    if clause == "surface":
        class _C:  # collect failures of the surface oracle for this geometry
            def __init__(self):
                import random
                self.rng, self.f = random.Random(0), []
            def count(self, *a, **k):
                pass
            def fail(self, sig, what, rep):
                self.f.append((sig, what))
        c = _C()
        st = {}
        for _ in range(20):
            oracle_surface(c, d, g, case.get("payload", "scalar"), img, cs, origin, st)
        return (not c.f), [x[1][:200] for x in c.f[:3]], "no failure of the coordinate-system surface clauses"
    raise ValueError(clause)


def fail_case(ctx, d, case, sig, what):
    ok, obs, req = check_case(d, case)
    if ok and case.get("clause") == "roundtrip" and "batch_voxels" in case:
        # the vectorised detection and the single evaluation disagree: re-evaluate as a batch so that the replay reproduces it
        case = {**case, "clause": "batch", "voxels": case["batch_voxels"]}
        ok, obs, req = check_case(d, case)
        sig, what = sig + ":batch-only", what + " (seen in the batch call form only)"
    elif ok:
        sig, what = sig + ":batch-only", what + " (seen in the batch call form only)"
    ctx.fail(sig, f"{what}: observed {obs}, required {req}", {**case, "observed": obs, "required": req})


TYPED_PATHS = ("Voxel.to_voxel_center", "VoxelCenter.to_voxel", "make_voxel_center(centres)", "make_voxel(centres)",
               "VoxelCenter.to_coordinate", "VoxelCenter.to_coordinate.to_voxel", "VoxelCenter.to_coordinate.to_voxel_center",
               "Coordinate.to_voxel")


def oracle_surface(ctx, d, g, payload, img, cs, origin, stats):
    """The remaining public surface, as properties of the implementation (consequences of the affine map)."""
    rng = ctx.rng
    dim, shape = g["dim"], g["shape"]
    dy = g["dyadic"]
    base = dict(geometry=g, payload=payload, clause="surface")
    scale = [abs(frac(origin[i])) + frac(g["dims"][AXMAP[dim][i][0]]) * 8 for i in range(dim)]

    def close(a, b, i):
        return abs(frac(float(a)) - frac(float(b))) <= 16 * EPS * scale[i]

    # coordinate_vector is the linear part of coordinate
    v = np.array([rng.randint(-2, n + 2) for n in shape], dtype=float)
    w = np.array([rng.randint(-12, 12) / 4 for _ in shape])
    cv = call(cs.coordinate_vector, w)
    c1, c0 = call(cs.coordinate, v + w), call(cs.coordinate, v)
    ctx.count(("surface", "coordinate_vector", json.dumps(g)))
    if isinstance(cv, Raised) or isinstance(c1, Raised) or isinstance(c0, Raised) or not all(
            close(np.asarray(cv)[i], float(frac(float(np.asarray(c1)[i])) - frac(float(np.asarray(c0)[i]))), i) for i in range(dim)):
        ctx.fail(f"C01:coordinate_vector!=coordinate-difference:dim={dim}", f"coordinate_vector({w.tolist()}) = {cv!r} but coordinate(v+w) - coordinate(v) = {np.asarray(c1) - np.asarray(c0)} at v={v.tolist()}",
                 {**base, "voxel": v.tolist(), "vector": w.tolist()})
    # num_voxels(length(n)) = n and the bounding box
    for i, axis in enumerate("xyz"[:dim]):
        n = rng.randint(0, 9)
        L = call(cs.length, n, axis)
        back = L if isinstance(L, Raised) else call(cs.num_voxels, L, axis)
        ctx.count(("surface", "length-num_voxels", json.dumps(g), axis))
        if isinstance(back, Raised) or int(back) != n:
            if dy or isinstance(back, Raised):
                ctx.fail(f"C01:num_voxels(length(n))!=n:dim={dim}", f"axis {axis}: length({n}) = {L!r}, num_voxels of it = {back!r}", {**base, "axis": axis, "n": n})
            else:
                stats["num_voxels_float_off_by_one"] = stats.get("num_voxels_float_off_by_one", 0) + 1
        elif not dy:
            stats["num_voxels_float_exact"] = stats.get("num_voxels_float_exact", 0) + 1
        # a length strictly between n and n+1 voxels touches n+1 voxels
        p_ = AXMAP[dim][i][0]
        fr = rng.choice([0.25, 0.5, 0.75])
        Lf = (n + fr) * (g["dims"][p_] / shape[p_])
        k = call(cs.num_voxels, Lf, axis)
        if isinstance(k, Raised) or int(k) != n + 1:
            ctx.fail(f"C01:num_voxels(length between n and n+1)!=n+1:dim={dim}", f"axis {axis}: num_voxels({Lf!r}) = {k!r} for a length of {n + fr} voxels", {**base, "axis": axis, "n": n})
    mn, mx = call(lambda: cs.min_coordinate), call(lambda: cs.max_coordinate)
    ctx.count(("surface", "min-max", json.dumps(g)))
    if isinstance(mn, Raised) or isinstance(mx, Raised):
        ctx.fail(f"C01:min_coordinate:raises", f"{mn!r} {mx!r}", base)
    else:
        mn, mx = np.asarray(mn), np.asarray(mx)
        dom = cs.domain
        for i, axis in enumerate("xyz"[:dim]):
            p = AXMAP[dim][i][0]
            if not close(mx[i] - mn[i] if not dy else float(frac(float(mx[i])) - frac(float(mn[i]))), g["dims"][p], i):
                ctx.fail(f"C01:max_coordinate-min_coordinate!=dimensions:dim={dim}", f"axis {axis}: max - min = {mx[i] - mn[i]!r}, physical dimension {g['dims'][p]!r}", {**base, "axis": axis})
            if dom[axis + "min"] != mn[i] or dom[axis + "max"] != mx[i]:
                ctx.fail(f"C01:domain!=min/max_coordinate", f"domain {dom} vs min {mn.tolist()} max {mx.tolist()}", base)
        corners = np.array([[rng.choice([0, n, rng.randint(0, n)]) for n in shape] for _ in range(4)], dtype=float)
        cc = call(cs.coordinate, corners)
        if not isinstance(cc, Raised):
            cc = np.asarray(cc)
            for row, vrow in zip(cc, corners):
                for i in range(dim):
                    t = 0 if dy else 16 * EPS * scale[i]
                    if frac(float(row[i])) < frac(float(mn[i])) - t or frac(float(row[i])) > frac(float(mx[i])) + t:
                        ctx.fail(f"C01:voxel-of-image-outside-[min,max]_coordinate:dim={dim}", f"voxel position {vrow.tolist()} has coordinate {row.tolist()} outside [{mn.tolist()}, {mx.tolist()}]", {**base, "voxel": vrow.tolist()})
    # check_equal_coordinatesystems is reflexive (same object and an independently built equal image)
    img2 = make_image(d, g, payload)
    for other in (cs, None if isinstance(img2, Raised) else img2.coordinatesystem):
        if other is None:
            continue
        for ex in (False, True):
            r = call(d.check_equal_coordinatesystems, cs, other, ex)
            ctx.count(("surface", "check_equal-refl", json.dumps(g), ex, other is cs))
            if isinstance(r, Raised) or not bool(r[0]) or list(r[1]) != []:
                ctx.fail(f"C01:check_equal_coordinatesystems:not-reflexive", f"check_equal_coordinatesystems(cs, equal cs, exclude_size={ex}) = {r!r}", {**base, "exclude_size": ex})
    # ... and detects a clear difference in dimensions / shape / origin, naming the field, in both argument orders
    for mode, field in (("dims", "dimensions"), ("shape", "shape"), ("origin", "coordinate_of_origin_voxel")):
        g2 = variant_geometry(rng, g, mode)
        img3 = None if g2 is None else make_image(d, g2, "scalar")
        if img3 is None or isinstance(img3, Raised):
            continue
        for a_, b_ in ((cs, img3.coordinatesystem), (img3.coordinatesystem, cs)):
            r = call(d.check_equal_coordinatesystems, a_, b_, False)
            ctx.count(("surface", "check_equal-diff", json.dumps(g), mode))
            if isinstance(r, Raised) or bool(r[0]) or field not in r[1]:
                ctx.fail(f"C01:check_equal_coordinatesystems:misses-{field}", f"coordinate systems differing in {mode} (geometry {g2}): check_equal_coordinatesystems = {r!r}", {**base, "other": g2})
    # Voxel(matrix_indexing=False) reverses the component order; twice is the identity
    raw = np.array([rng.randint(-40, 40) / 8 for _ in range(dim)])
    once = call(d.make_voxel, raw, matrix_indexing=False)
    twice = once if isinstance(once, Raised) else call(d.make_voxel, np.asarray(once), matrix_indexing=False)
    ctx.count(("surface", "matrix_indexing=False", json.dumps(g)))
    if isinstance(twice, Raised) or not np.array_equal(np.asarray(once), np.floor(raw)[::-1].astype(int)) or not np.array_equal(np.asarray(twice), np.floor(raw).astype(int)):
        ctx.fail(f"C01:Voxel(matrix_indexing=False):dim={dim}", f"make_voxel({raw.tolist()}, matrix_indexing=False) = {once!r}, applied twice {twice!r}", {**base, "raw": raw.tolist()})


def typed_batches(d, cs, vrows):
    """The three typed batches of the voxels `vrows`: (kind token, array object, element class, array class)."""
    V = d.make_voxel(np.array(vrows))
    C = V.to_voxel_center()
    X = C.to_coordinate(cs)
    return (("vox", V, d.Voxel, d.VoxelArray), ("ctr", C, d.VoxelCenter, d.VoxelCenterArray), ("coord", X, d.Coordinate, d.CoordinateArray))


def getitem_keys(rng, n):
    idx = [rng.randrange(-n, n) for _ in range(rng.randint(1, 4))]
    mask = [rng.random() < 0.5 for _ in range(n)]
    return (("int", rng.randrange(-n, n)), ("idx", idx), ("mask", mask))


def oracle_getitem(ctx, d, g, cs, vox, base):
    """Sub-selection of typed batches: class of the result, values, and selection commutes with conversion."""
    rng = ctx.rng
    dim = g["dim"]
    rows = [[int(x) for x in vox[rng.randrange(len(vox))]] for _ in range(rng.randint(2, 5))]
    n = len(rows)
    batches = call(typed_batches, d, cs, rows)
    if isinstance(batches, Raised):
        return
    for kind, arr, ecls, acls in batches:
        plain = np.asarray(arr)
        full_coord = np.asarray(arr.to_coordinate(cs))  # the whole batch converted: the reference for any sub-batch
        for form, key in getitem_keys(rng, n):
            npkey = key if form == "int" else np.array(key, dtype=(bool if form == "mask" else int))
            got = call(lambda: arr[npkey])
            ctx.count(("getitem", kind, form, json.dumps(g)))
            want_cls = ecls if form == "int" else acls
            case = {**base, "clause": "getitem", "voxels": rows, "kind": kind, "form": form, "key": key}
            if isinstance(got, Raised) or not isinstance(got, want_cls) or not np.array_equal(np.asarray(got), plain[npkey]):
                ctx.fail(f"C01:typed-array[{form}]:{kind}:class-or-values", f"{acls.__name__}[{form} key {key}] of the batch of voxels {rows}: got {type(got).__name__} {np.asarray(got).tolist() if not isinstance(got, Raised) else got!r}, "
                         f"required {want_cls.__name__} {plain[npkey].tolist()}", case)
                continue
            if kind != "coord":
                conv = call(lambda: got.to_coordinate(cs))
                if isinstance(conv, Raised) or not np.array_equal(np.asarray(conv), full_coord[npkey]):
                    ctx.fail(f"C01:typed-array[{form}]:{kind}:selection-does-not-commute-with-to_coordinate",
                             f"{acls.__name__}[{form} key {key}].to_coordinate(cs) = {np.asarray(conv).tolist() if not isinstance(conv, Raised) else conv!r} but the same rows of the converted batch are {full_coord[npkey].tolist()} (voxels {rows})", case)


OBS: dict = {}
"""Observations outside the statement / quantifier (recorded in the evidence, never a verdict)."""
# Clauses that encode the CURRENT convention / formula / class / extra API (they are what the Lean model says, not what the property states):
# a difference there is a broken tie (mark), never a claimed failing input.
SOFT = ("C01:check_equal_coordinatesystems", "C01:coordinate_vector", "C01:num_voxels", "C01:max_coordinate", "C01:domain", "C01:min_coordinate",
        "C01:voxel-of-image-outside", "C01:Voxel(matrix_indexing=False)", "C01:reset_origin(return_image=True)", "C01:default-origin", "C01:construct")


def is_soft(sig):
    return sig.startswith(SOFT) or ":lower-corner" in sig or (sig.startswith("C01:typed-array[") and sig.endswith(":class-or-values"))


DTYPES = ("uint8", "uint16", "uint32", "uint64", "int8", "int16", "int32", "int64", "float32", "float64")


def dtype_case(d, cs, g, origin, op, dtype, rows):
    """One op on a raw ndarray of the given dtype; expected = the affine map on the same numbers (exact rationals).
    Returns (holds, observed, required). rows: small non-negative integers (representable in every dtype)."""
    dim, shape = g["dim"], g["shape"]
    dy = g.get("dyadic", False)
    arr = np.array(rows, dtype=np.dtype(dtype))
    scale = [abs(frac(origin[i])) + frac(g["dims"][AXMAP[dim][i][0]]) * 64 for i in range(dim)]

    # float32 index arrays: numpy (value-based casting of the float64 scalars origin / voxel size) evaluates the affine map in float32,
    # so the result carries float32 precision - inherent to numpy, not a DarSIA defect; compared with the float32 unit roundoff
    eps_ = Fraction(1, 2 ** 23) if dtype == "float32" else EPS

    def close(a, b, i):
        return abs(frac(float(a)) - b) <= 16 * eps_ * scale[i]

    if op == "coordinate":
        got = call(cs.coordinate, arr)
        want = [exact_coord(g, origin, [frac(x) for x in r]) for r in rows]
    elif op == "coordinate_vector":
        got = call(cs.coordinate_vector, arr)
        want = [[(-1 if AXMAP[dim][i][1] else 1) * frac(r[AXMAP[dim][i][0]]) * frac(g["dims"][AXMAP[dim][i][0]]) / shape[AXMAP[dim][i][0]] for i in range(dim)] for r in rows]
    elif op == "coordinate(tuple)":
        got = call(cs.coordinate, tuple(int(x) for x in rows[0]))
        want = [exact_coord(g, origin, [frac(x) for x in rows[0]])]
    elif op == "opposite_corner(shape array)":
        got = call(cs.coordinate, np.array(shape, dtype=np.dtype(dtype)))
        want = [exact_coord(g, origin, [frac(x) for x in shape])]
    else:
        raise ValueError(op)
    if isinstance(got, Raised):
        return False, repr(got), [[float(x) for x in r] for r in want]
    gotm = np.atleast_2d(np.asarray(got, dtype=float))
    if gotm.shape != (len(want), dim):
        return False, f"shape {np.asarray(got).shape}", [[float(x) for x in r] for r in want]
    ok = all(close(gotm[k][i], want[k][i], i) for k in range(len(want)) for i in range(dim))
    return ok, gotm.tolist(), [[float(x) for x in r] for r in want]


def oracle_dtypes(ctx, d, g, cs, origin, base):
    """coordinate / coordinate_vector / opposite corner on raw index arrays of EVERY numeric dtype numpy offers (unsigned ones included:
    reversed axes must not wrap around), tuples and the unsigned shape array: same value as on the same numbers in exact arithmetic."""
    rng = ctx.rng
    dim, shape = g["dim"], g["shape"]
    rows = [[rng.randint(0, min(100, n_ + 2)) for n_ in shape] for _ in range(rng.randint(1, 3))]
    if all(x == 0 for r in rows for x in r):
        rows[0][0] = 1
    for dtype in DTYPES:
        for op in ("coordinate", "coordinate_vector", "opposite_corner(shape array)") + (("coordinate(tuple)",) if dtype == "int64" else ()):
            ok, obs, req = dtype_case(d, cs, g, origin, op, dtype, rows)
            ctx.count(("dtype", op, dtype, json.dumps(g)))
            if not ok and isinstance(obs, str) and obs.startswith("!"):
                OBS["dtype-refused:" + dtype] = OBS.get("dtype-refused:" + dtype, 0) + 1  # refusing an index dtype is outside the statement
            elif not ok:
                kindc = "unsigned" if dtype.startswith("uint") else "signed" if dtype.startswith("int") else "float"
                ctx.fail(f"C01:dtype:{op}:{kindc}", f"{op} on a {dtype} array {rows if 'shape' not in op else shape}: observed {obs}, required {req}",
                         {**base, "clause": "dtype", "op": op, "dtype": dtype, "rows": rows, "observed": obs, "required": req})


def oracle_geometry(ctx, d, g, payload, halo, stats):
    """All clauses of the statement on one geometry; vectorised, failures confirmed by check_case."""
    rng = ctx.rng
    dim, shape = g["dim"], g["shape"]
    img = make_image(d, g, payload)
    g = effective(g)
    base = dict(geometry=g, payload=payload)
    cs = img if isinstance(img, Raised) else call(lambda: img.coordinatesystem)
    if isinstance(cs, Raised):
        ctx.fail(f"C01:construct:dim={dim}:{payload}", f"image / coordinate system cannot be built: {cs}", {**base, "clause": "zero"})
        return
    origin = [float(x) for x in np.asarray(img.origin)]
    for clause in ("zero", "opposite"):
        ok, obs, req = check_case(d, {**base, "clause": clause})
        ctx.count((clause, json.dumps(g), payload))
        if not ok:
            ctx.fail(f"C01:{clause}:dim={dim}", f"{clause}: observed {obs}, required {req}", {**base, "clause": clause, "observed": obs, "required": req})
    # default origin: the image occupies [0, D] on every Cartesian axis
    if g["origin"] is None:
        for i in range(dim):
            p, r = AXMAP[dim][i]
            want = g["dims"][p] if r else 0.0
            if origin[i] != want:
                ctx.fail(f"C01:default-origin:dim={dim}:axis={i}", f"default origin {origin} but axis {i} (matrix axis {p}, reversed={r}) requires {want}",
                         {**base, "clause": "zero", "observed": origin})
    vox = halo_voxels(shape, halo)
    # steps: every matrix axis from a few voxels
    for a in range(dim):
        v = [int(x) for x in vox[rng.randrange(len(vox))]]
        case = {**base, "clause": "step", "voxel": v, "axis": a}
        ok, obs, req = check_case(d, case)
        ctx.count(("step", json.dumps(g), a))
        if not ok:
            ctx.fail(f"C01:step:dim={dim}:axis={a}", f"one voxel step along matrix axis {a}: coordinate moved by {obs}, required {req}", {**case, "observed": obs, "required": req})
    # round trips: centres, interior offsets, and (dyadic only) the lower corner / just below the upper face
    offsets = [("centre", np.full((len(vox), dim), 0.5))]
    k = 2 ** 10
    offsets.append(("interior", np.array([[rng.randint(1, k - 1) / k for _ in range(dim)] for _ in range(len(vox))])))
    if not g["dyadic"]:
        # ANY interior offset at least 2^-19 voxel away from a face: the measured coordinate error is required (TIE-BROKEN otherwise) to stay
        # below 2^-20 voxel, and center_stable-style reasoning (floor_stable) then gives the same index - the float bridge for interior points
        lo_ = 2.0 ** -19
        offsets.append(("interior-random", np.array([[rng.uniform(lo_, 1 - lo_) for _ in range(dim)] for _ in range(len(vox))])))
        offsets.append(("interior-near-face", np.array([[rng.choice([lo_, 1 - lo_]) for _ in range(dim)] for _ in range(len(vox))])))
    if g["dyadic"]:
        offsets.append(("lower-corner", np.zeros((len(vox), dim))))
        offsets.append(("below-upper-face", np.full((len(vox), dim), 1 - 2.0 ** -8)))
    for name, off in offsets:
        pts = vox + off
        c = call(cs.coordinate, pts)
        back = c if isinstance(c, Raised) else call(cs.voxel, c)
        ctx.count(("roundtrip", json.dumps(g), payload, name, halo), n=len(vox))
        if isinstance(back, Raised) or np.asarray(back).shape != vox.shape:
            bad = [0]
        else:
            bad = np.nonzero(np.any(np.asarray(back) != vox, axis=1))[0]
            # measured float error of the coordinates in voxel units (general stream)
            if not g["dyadic"] and name == "centre":
                cc = np.asarray(c)
                for idx in {0, len(vox) - 1, rng.randrange(len(vox))}:
                    ex = exact_coord(g, origin, [frac(float(x)) for x in pts[idx]])
                    for i in range(dim):
                        p = AXMAP[dim][i][0]
                        h = frac(g["dims"][p]) / shape[p]
                        stats["max_err_voxels"] = max(stats["max_err_voxels"], float(abs(frac(float(cc[idx, i])) - ex[i]) / h))
        if len(bad):
            idx = int(bad[0])
            v = [int(x) for x in vox[idx]]
            case = {**base, "clause": "roundtrip", "voxel": v, "offset": [str(Fraction(float(x))) for x in off[idx]], "form": "list",
                    "batch_voxels": [[int(x) for x in r_] for r_ in vox[max(0, idx - 1): idx + 2]] if name in ("centre", "lower-corner") else [v]}
            fail_case(ctx, d, case, f"C01:voxel(coordinate(v+t))!=v:dim={dim}:{zone(v, shape)}:{name}",
                      f"point at offset {name} of voxel {v} does not convert back to it")
        # single call forms agree with the batch form on a few points
        if name in ("centre", "interior") and not isinstance(back, Raised):
            for idx in {0, len(vox) - 1, rng.randrange(len(vox)), rng.randrange(len(vox))}:
                for form in ("list", "tuple", "array"):
                    v = [int(x) for x in vox[idx]]
                    case = {**base, "clause": "roundtrip", "voxel": v, "offset": [str(Fraction(float(x))) for x in off[idx]], "form": form}
                    ok, obs, req = check_case(d, case)
                    ctx.count(("single", json.dumps(g), name, form, idx))
                    if not ok:
                        ctx.fail(f"C01:voxel(coordinate(v+t))!=v:dim={dim}:{zone(v, shape)}:{name}:form={form}",
                                 f"single-point call form {form}: voxel {v} offset {name} converts to {obs}", {**case, "observed": obs, "required": req})
                    # batch == single on the coordinates themselves
                    p = vox[idx] + off[idx]
                    single = call(cs.coordinate, list(map(float, p)))
                    if isinstance(single, Raised) or not np.allclose(np.asarray(single, dtype=float), np.asarray(c, dtype=float)[idx], rtol=0,
                                                                     atol=float(16 * EPS * max(abs(frac(o_)) + frac(D_) * 64 for o_, D_ in zip(origin, g["dims"])))):
                        ctx.fail(f"C01:batch!=single:coordinate:dim={dim}", "coordinate() of a batch row differs from the single-point call",
                                 {**case, "observed": repr(single), "required": [float(x) for x in np.asarray(c)[idx]]})
    # reset_origin(return_image=True) returns an image whose coordinate system is reset as well
    im2 = make_image(d, g, payload)
    if not isinstance(im2, Raised):
        ret = call(im2.reset_origin, True)
        ctx.count(("reset_origin-returned", json.dumps(g)))
        if isinstance(ret, Raised) or ret is None:
            ctx.fail(f"C01:reset_origin(return_image=True):raises", f"{ret!r}", {**base, "clause": "reset-returned"})
        else:
            want = [float(g["dims"][AXMAP[dim][i][0]]) if AXMAP[dim][i][1] else 0.0 for i in range(dim)]
            got_o = [float(x) for x in np.asarray(ret.origin)]
            z = call(lambda: ret.coordinatesystem.coordinate([0] * dim))
            if isinstance(z, Raised) or [float(x) for x in np.asarray(z)] != got_o:
                ctx.fail(f"C01:zero:returned-by-reset_origin:dim={dim}", f"image returned by reset_origin(return_image=True): voxel 0 at {z!r}, its origin {got_o}",
                         {**base, "clause": "reset-returned", "observed": repr(z), "required": got_o})
            if got_o != want:
                ctx.fail(f"C01:reset_origin(return_image=True):returned-image-not-reset:dim={dim}",
                         f"the image returned by reset_origin(return_image=True) has origin {got_o} (voxel 0 at {z!r}), the reset origin is {want}; the receiver itself has {[float(x) for x in np.asarray(im2.origin)]}",
                         {**base, "clause": "reset-returned", "observed": got_o, "required": want})
    # batch = map of single, with one point per row: N = 1, N = 2 and a larger batch; arrays and typed arrays
    for nb in (1, 2, min(len(vox), 7)):
        rows = [[int(x) for x in vox[rng.randrange(len(vox))]] for _ in range(nb)]
        for kind in ("array", "CoordinateArray.to_voxel", "VoxelCenterArray"):
            case = {**base, "clause": "batch", "voxels": rows, "offset": ["1/2"] * dim, "kind": kind}
            ok, obs, req = check_case(d, case)
            ctx.count(("batch", json.dumps(g), nb, kind))
            if not ok:
                ctx.fail(f"C01:batch!=map-of-single:{kind}:dim={dim}:N={'1' if nb == 1 else '>1'}",
                         f"batch of {nb} voxel centre(s) {rows} through coordinate()/voxel() ({kind}): observed {obs}, required {req}", {**case, "observed": obs, "required": req})
    oracle_surface(ctx, d, g, payload, img, cs, origin, stats)
    oracle_getitem(ctx, d, g, cs, vox, base)
    oracle_dtypes(ctx, d, g, cs, origin, base)
    # typed points: a negative, an inside and a beyond voxel, single and batch
    picks = {}
    for row in vox:
        picks.setdefault(zone(row, shape), [int(x) for x in row])
    for z, v in picks.items():
        for path in TYPED_PATHS:
            case = {**base, "clause": "typed", "voxel": v, "path": path}
            ok, obs, req = check_case(d, case)
            ctx.count(("typed", dim, path, z, json.dumps(g)))
            if not ok:
                cls = "negative-index" if z == "halo-negative" else "nonnegative-index"
                ctx.fail(f"C01:typed:{path}:{cls}", f"typed point path {path} at voxel {v}: observed {obs}, required {req}", {**case, "observed": obs, "required": req})
    # typed batch: arrays of voxels through the same paths
    vb = vox[:: max(1, len(vox) // 7)]
    for path, fn, req in (
        ("VoxelCenter.to_voxel", lambda: d.make_voxel(vb).to_voxel_center().to_voxel(), vb),
        ("VoxelCenter.to_coordinate.to_voxel", lambda: d.make_voxel(vb).to_voxel_center().to_coordinate(cs).to_voxel(cs), vb),
        ("VoxelCenter.to_coordinate.to_voxel_center", lambda: d.make_voxel(vb).to_voxel_center().to_coordinate(cs).to_voxel_center(cs), vb + 0.5),
    ):
        got = call(fn)
        ctx.count(("typed-batch", dim, path, json.dumps(g)))
        if isinstance(got, Raised) or np.asarray(got).shape != req.shape or not np.array_equal(np.asarray(got), req):
            rows = [0] if isinstance(got, Raised) or np.asarray(got).shape != req.shape else np.nonzero(np.any(np.asarray(got) != req, axis=1))[0]
            v = [int(x) for x in vb[int(rows[0])]]
            cls = "negative-index" if zone(v, shape) == "halo-negative" else "nonnegative-index"
            fail_case(ctx, d, {**base, "clause": "typed", "voxel": v, "path": path}, f"C01:typed:{path}:{cls}", f"typed batch path {path} fails at voxel {v}")


# ---------------------------------------------------------------------------
# correspondence model <-> implementation


def pts_tokens(rows):
    """Length-prefixed list of points for a model request; an array that is not one-point-per-row yields a token the driver rejects
    (-> a reported correspondence difference), never an exception."""
    rows = np.asarray(rows)
    if rows.ndim != 2:
        return f"!shape{tuple(rows.shape)}".replace(" ", "")
    return f"{len(rows)} " + " ".join(flist(r) for r in rows)


def vec(x, f=fmts):
    """A 1-d result as numbers; anything else as a canonical `!shape(...)` token."""
    x = np.asarray(x)
    if x.ndim != 1:
        return f"!shape{tuple(x.shape)}".replace(" ", "")
    return f(x)


def show_rows(rows, f=fmts):
    rows = np.asarray(rows)
    if rows.ndim != 2:  # a batch must come back as one point per row; anything else is reported as data, never a crash
        return f"!shape{tuple(rows.shape)}"
    return " ; ".join(f(r) for r in rows)


def int_rows(rows):
    rows = np.asarray(rows)
    if rows.ndim != 2:
        return f"!shape{tuple(rows.shape)}"
    return " ; ".join(" ".join(str(int(x)) for x in r) for r in rows)


def variant_geometry(rng, g, mode):
    """A second geometry for check_equal_coordinatesystems: equal, or differing clearly (far from the allclose band) in one field."""
    h = {k_: v_ for k_, v_ in g.items() if k_ not in ("history", "built_dims", "built_origin")}
    h = dict(h, shape=list(g["shape"]), dims=list(g["dims"]))
    k = rng.randrange(g["dim"])
    if mode == "dims":
        h["dims"][k] = g["dims"][k] * 2
    elif mode == "shape":
        h["shape"][k] = g["shape"][k] + 1
    elif mode == "origin":
        # a shift well outside numpy's relative tolerance (1e-5) also for origins 1e6 voxel sizes away
        h["origin"] = [x + ((1.0 + abs(x) / 64) if i == k else 0.0) for i, x in enumerate(g["origin"] if g["origin"] is not None else [0.0] * g["dim"])]
        if g["origin"] is None:  # keep the default of the reversed axes and shift one component
            return None
    elif mode == "dim":
        nd = rng.choice([x for x in (1, 2, 3) if x != g["dim"]])
        h = dict(dim=nd, shape=[2] * nd, dims=[1.0] * nd, origin=None, dyadic=True, regime="dy-default")
    return h


def surface_lines(ctx, d, g, img, cs, tok, origin, lines, impl):
    """Correspondence for the remaining public surface (dyadic geometries: exact)."""
    rng = ctx.rng
    dim, shape = g["dim"], g["shape"]

    def show(r, f):
        return repr(r) if isinstance(r, Raised) else f(r)

    w = [rng.randint(-24, 24) / 4 for _ in range(dim)]
    lines.append(f"cvec {tok} {flist(w)}")
    impl.append(show(call(cs.coordinate_vector, np.array(w)), lambda r: fmts(np.asarray(r))))
    for i, axis in enumerate("xyz"):
        if i > dim:
            break
        p = AXMAP[dim][i][0] if i < dim else 0
        hp = frac(g["dims"][p]) / shape[p]
        num = rng.randint(-3, 9)
        lines.append(f"length {tok} {num} {i}")
        impl.append(show(call(cs.length, num, axis), lambda r: fmts([r])))
        ln = float(hp * Fraction(rng.randint(0, 40), 4))
        lines.append(f"numvoxax {tok} {fmts([ln])} {i}")
        impl.append(show(call(cs.num_voxels, ln, axis), lambda r: str(int(r))))
    lines.append(f"mincoord {tok}")
    impl.append(show(call(lambda: cs.min_coordinate), lambda r: fmts(np.asarray(r))))
    lines.append(f"maxcoord {tok}")
    impl.append(show(call(lambda: cs.max_coordinate), lambda r: fmts(np.asarray(r))))
    lines.append(f"imgdomain {tok}")
    impl.append(show(call(lambda: img.domain), lambda r: fmts(list(r))))
    if int(np.prod(shape)) <= 64:
        lines.append(f"voxels {tok}")
        impl.append(show(call(lambda: cs.voxels), lambda r: int_rows(np.asarray(r))))
        lines.append(f"coords {tok}")
        impl.append(show(call(lambda: cs.coordinates), lambda r: show_rows(np.asarray(r))))
    raw = [rng.randint(-40, 40) / 8 for _ in range(dim)]
    lines.append(f"mkrev vox {flist(raw)}")
    impl.append(show(call(d.make_voxel, np.array(raw), matrix_indexing=False), lambda r: " ".join(str(int(x)) for x in np.asarray(r))))
    lines.append(f"mkrev ctr {flist(raw)}")
    impl.append(show(call(d.make_voxel_center, np.array(raw), matrix_indexing=False), lambda r: fmts(np.asarray(r))))
    width = rng.choice([dim, dim, 1, 2, 3, 4])
    pts = [[rng.randint(-40, 40) / 8 for _ in range(width)] for _ in range(rng.randint(1, 3))]
    for mi in (True, False):
        lines.append(f"mkb vox {int(mi)} {pts_tokens(pts)}")
        impl.append(show(call(d.make_voxel, np.array(pts), matrix_indexing=mi), lambda r: int_rows(np.asarray(r))))
        lines.append(f"mkb ctr {int(mi)} {pts_tokens(pts)}")
        impl.append(show(call(d.make_voxel_center, np.array(pts), matrix_indexing=mi), lambda r: show_rows(np.asarray(r))))
    lines.append(f"mkb coord 1 {pts_tokens(pts)}")
    impl.append(show(call(d.make_coordinate, np.array(pts)), lambda r: show_rows(np.asarray(r))))
    # Image.slice by Cartesian name at a physical cut position vs by matrix index (model DarsiaModel.Slice, theorem C20.slice_name_eq_index):
    # the payload encodes the voxel index, so the selected (axis, index) is read off the returned array
    if dim >= 1:
        grids = np.meshgrid(*[np.arange(n_) for n_ in shape], indexing="ij")
        code = sum(gr * (16 ** k_) for k_, gr in enumerate(grids)).astype(float)
        kw = dict(space_dim=dim, dimensions=list(g["dims"]), scalar=True, origin=list(origin))
        simg = call(d.Image, code, **kw)

        def selected(res, p_hint=None):
            if isinstance(res, Raised):
                return repr(res)
            arr_ = np.asarray(res.img)
            # when several axes fit (equal extents and identical data, e.g. extent 1) the selections are indistinguishable: prefer the hinted one
            for p_ in ([p_hint] if p_hint is not None else []) + [q_ for q_ in range(dim) if q_ != p_hint]:
                if arr_.shape != tuple(n_ for q_, n_ in enumerate(shape) if q_ != p_):
                    continue
                digits = (arr_.astype(np.int64) // (16 ** p_)) % 16
                if digits.size and np.all(digits == digits.ravel()[0]):
                    full = np.take(code, int(digits.ravel()[0]), axis=p_)
                    if np.array_equal(full, arr_):
                        return f"{p_} {int(digits.ravel()[0])}"
            return "!not-a-slice"

        if not isinstance(simg, Raised):
            for i, name in enumerate("xyz"[:dim]):
                p_, r_ = AXMAP[dim][i]
                v_ = rng.randrange(shape[p_])
                t_ = Fraction(rng.randint(0, 31), 32)
                cut = float(frac(origin[i]) + (-1 if r_ else 1) * (v_ + t_) * (frac(g["dims"][p_]) / shape[p_]))
                lines.append(f"slicen {name} {tok} {fmts([cut])}")
                impl.append(selected(call(simg.slice, cut, name), p_))
                lines.append(f"slicei {tok} {p_} {v_}")
                impl.append(selected(call(simg.slice, v_, p_), p_))
    for mode in ("same", "dims", "shape", "origin", "dim"):
        g2 = variant_geometry(rng, g, mode)
        if g2 is None:
            continue
        img2 = make_image(d, g2, "scalar")
        if isinstance(img2, Raised):
            continue
        o2 = [float(x) for x in np.asarray(img2.origin)]
        for ex in (False, True):
            for (ga, ia, oa, gb, ib, ob) in ((g, img, origin, g2, img2, o2), (g2, img2, o2, g, img, origin)):
                r = call(d.check_equal_coordinatesystems, ia.coordinatesystem, ib.coordinatesystem, ex)
                lines.append(f"cseq {cs_tokens(ga, oa)} {cs_tokens(gb, ob)} {int(ex)}")
                impl.append(show(r, lambda r: f"{int(bool(r[0]))} | " + " ".join(r[1])))


def _corr_geometry(ctx, d, g, payload, halo, stats, lines, impl, gen_lines, gen_meta):
    """Correspondence requests / implementation responses of ONE geometry (appended in pairs)."""
    dim, shape = g["dim"], g["shape"]
    img = make_image(d, g, payload)
    g = effective(g)
    cs = img if isinstance(img, Raised) else call(lambda: img.coordinatesystem)
    if isinstance(cs, Raised):
        ctx.mark("CORR-BROKEN", {"correspondence": "coord", "geometry": g, "error": repr(cs)})
        return
    origin = [float(x) for x in np.asarray(img.origin)]
    tok = cs_tokens(g, origin)
    vox = halo_voxels(shape, halo)
    if len(vox) > 150:
        vox = vox[sorted(ctx.rng.sample(range(len(vox)), 150))]
    if g["dyadic"]:
        off = np.array([[ctx.rng.randint(0, 31) / 32 for _ in range(dim)] for _ in range(len(vox))])
        off[0] = 0.0
    else:
        off = np.full((len(vox), dim), 0.5)
    pts = vox + off
    c = call(cs.coordinate, pts)
    b = c if isinstance(c, Raised) else call(cs.voxel, c)
    if g["origin"] is None:
        lines.append(f"dorigin {dim} {flist(g['dims'])}")
        impl.append(fmts(origin))
    if g["dyadic"]:
        lines.append(f"coord {tok} {pts_tokens(pts)}")
        impl.append(repr(c) if isinstance(c, Raised) else show_rows(np.asarray(c)))
        lines.append(f"opp {tok}")
        o = call(lambda: img.opposite_corner)
        impl.append(repr(o) if isinstance(o, Raised) else fmts(np.asarray(o)))
        lines.append(f"vsize {tok}")
        impl.append(fmts(img.voxel_size))
        # typed points, incl. negative voxels
        v = [int(x) for x in vox[ctx.rng.randrange(len(vox))]]
        ctr = np.array(v) + 0.5
        for conv, meth in (("toCoord", "to_coordinate"), ("toVoxel", "to_voxel"), ("toCenter", "to_voxel_center")):
            for kind, obj, enc in (("vox", d.make_voxel(np.array(v)), flist(v)), ("ctr", d.make_voxel(np.array(v)).to_voxel_center(), flist(ctr)),
                                   ("coord", d.make_coordinate(np.asarray(c)[0]) if not isinstance(c, Raised) else None, None)):
                if obj is None:
                    continue
                if kind == "coord":
                    enc = flist(np.asarray(c)[0])
                r = call(getattr(obj, meth), cs)
                lines.append(f"pt {conv} {tok} {kind} {enc}")
                if isinstance(r, Raised):
                    impl.append(repr(r))
                else:
                    k = "coord" if isinstance(r, d.Coordinate) else "vox" if isinstance(r, d.Voxel) else "ctr" if isinstance(r, d.VoxelCenter) else "?"
                    impl.append(f"{k} {fmts(np.asarray(r))}")
        # BasePoint.to(cls, cs): every source kind x every target class (single and array classes), and a foreign class
        srcs = [("vox", d.make_voxel(np.array(v)), flist(v)), ("ctr", d.make_voxel(np.array(v)).to_voxel_center(), flist(ctr))]
        if not isinstance(c, Raised):
            srcs.append(("coord", d.make_coordinate(np.asarray(c)[0]), flist(np.asarray(c)[0])))
        for kind, obj, enc in srcs:
            for tk, cls in (("coord", d.Coordinate), ("coord", d.CoordinateArray), ("vox", d.Voxel), ("vox", d.VoxelArray),
                            ("ctr", d.VoxelCenter), ("ctr", d.VoxelCenterArray), ("other", np.ndarray)):
                r = call(obj.to, cls, cs)
                lines.append(f"ptto {tk} {tok} {kind} {enc}")
                if isinstance(r, Raised):
                    impl.append(repr(r))
                else:
                    k = "coord" if isinstance(r, d.Coordinate) else "vox" if isinstance(r, d.Voxel) else "ctr" if isinstance(r, d.VoxelCenter) else "?"
                    impl.append(f"{k} {fmts(np.asarray(r))}")
        # __getitem__ of the typed arrays: int key, index array, boolean mask, anything else (slice)
        grows = [[int(x) for x in vox[ctx.rng.randrange(len(vox))]] for _ in range(ctx.rng.randint(2, 4))]
        gb = call(typed_batches, d, cs, grows)
        if not isinstance(gb, Raised):
            for gkind, garr, _, _ in gb:
                enc_rows = pts_tokens(np.asarray(garr))
                for form, key in getitem_keys(ctx.rng, len(grows)) + (("other", slice(0, 1)),):
                    npkey = key if form in ("int", "other") else np.array(key, dtype=(bool if form == "mask" else int))
                    r = call(lambda: garr[npkey])
                    ktok = f"int {key}" if form == "int" else f"idx {flist(key)}" if form == "idx" else f"mask {len(key)} " + " ".join(str(int(b_)) for b_ in key) if form == "mask" else "other"
                    lines.append(f"getitem {gkind} {ktok} {enc_rows}")
                    if form == "other":
                        impl.append("!NotImplementedError" if type(r) is np.ndarray else f"!typed-{type(r).__name__}")  # plain ndarray: outside the modelled keys
                    elif isinstance(r, Raised):
                        impl.append(repr(r))
                    else:
                        cls = type(r)
                        rk = ("elem " if cls in (d.Coordinate, d.Voxel, d.VoxelCenter) else "arr " if cls in (d.CoordinateArray, d.VoxelArray, d.VoxelCenterArray) else "plain ")
                        kn = "coord" if isinstance(r, d.Coordinate) else "vox" if isinstance(r, d.Voxel) else "ctr" if isinstance(r, d.VoxelCenter) else "?"
                        vals = np.atleast_2d(np.asarray(r))
                        impl.append(rk + kn + " | " + show_rows(vals))
        # call forms: coordinate(list | tuple | array), voxel(list | tuple | array)
        pv_ = [float(x) for x in pts[0]]
        for f_, arg in (("list", pv_), ("tuple", tuple(pv_)), ("array", np.array(pv_))):
            r = call(cs.coordinate, arg)
            lines.append(f"form coordinate {f_} {tok} {flist(pv_)}")
            impl.append(repr(r) if isinstance(r, Raised) else fmts(np.asarray(r)))
            if not isinstance(c, Raised):
                x_ = [float(x) for x in np.asarray(c)[0]]
                r = call(cs.voxel, {"list": x_, "tuple": tuple(x_), "array": np.array(x_)}[f_])
                lines.append(f"form voxel {f_} {tok} {flist(x_)}")
                impl.append(repr(r) if isinstance(r, Raised) else " ".join(str(int(y)) for y in np.asarray(r)))
        raw = [ctx.rng.randint(-40, 40) / 8 for _ in range(dim)]
        for k, fn in (("vox", d.make_voxel), ("ctr", d.make_voxel_center)):
            r = call(fn, np.array(raw))
            lines.append(f"mk {k} {flist(raw)}")
            impl.append(repr(r) if isinstance(r, Raised) else fmts(np.asarray(r)))
        surface_lines(ctx, d, g, img, cs, tok, origin, lines, impl)
        if g.get("history"):
            # the in-place life of this image object against the stateless model (coordinatesystem = function of the current fields)
            g0 = {k_: v_ for k_, v_ in g.items() if k_ not in ("history", "built_dims", "built_origin")}
            g0 = dict(g0, dims=g["built_dims"], origin=g["built_origin"])
            img0 = make_image(d, g0, payload)
            o0 = [float(x) for x in np.asarray(img0.origin)]
            ops = []
            for op in g["history"]:
                ops.append("touch" if op == "touch" else "reset" if op == "reset_origin" else
                           ("origin " + flist(op[1])) if op[0] in ("set_origin", "update_origin") else ("dims " + flist(op[1])))
            lines.append(f"hist {cs_tokens(g0, o0)} {len(ops)} " + " ".join(ops))
            z, opp = call(cs.coordinate, [0] * dim), call(lambda: img.opposite_corner)
            impl.append(fmts(img.dimensions) + " | " + fmts(np.asarray(img.origin)) + " | " +
                        (repr(z) if isinstance(z, Raised) else fmts(np.asarray(z))) + " | " + (repr(opp) if isinstance(opp, Raised) else fmts(np.asarray(opp))))
    else:
        # general stream: the model evaluates the exact rational coordinates; measured, not diffed
        gen_lines.append(f"coord {tok} {pts_tokens(pts)}")
        gen_meta.append((g, c))
    if not isinstance(c, Raised):
        # voxel() on the coordinates the implementation produced (exact rationals of the floats):
        # indices must agree exactly (centres / dyadic points are >= measured error away from a face)
        lines.append(f"voxel {tok} {pts_tokens(np.asarray(c))}")
        impl.append(repr(b) if isinstance(b, Raised) else show_rows(np.asarray(b), lambda r: " ".join(str(int(x)) for x in r)))


def correspondence(ctx, d, geoms, halo, stats):
    lines, impl = [], []
    gen_lines, gen_meta = [], []
    for g, payload in geoms:
        try:
            _corr_geometry(ctx, d, g, payload, halo, stats, lines, impl, gen_lines, gen_meta)
        except Exception as e:  # noqa: BLE001 - a result of unexpected shape / type must become a reported difference, never a harness crash
            k_ = min(len(lines), len(impl))
            del lines[k_:], impl[k_:]
            k_ = min(len(gen_lines), len(gen_meta))
            del gen_lines[k_:], gen_meta[k_:]
            lines.append("harness-guard " + json.dumps(g, default=str).replace(" ", ""))
            impl.append(f"!implementation-result-not-formattable:{type(e).__name__}:{str(e)[:80]}".replace(" ", "_"))
    ctx.correspond("coordinate-system", lines, impl, driver="C01")
    if gen_lines:
        got = ctx.model(gen_lines, "C01")
        for (g, c), resp in zip(gen_meta, got):
            if isinstance(c, Raised) or resp.startswith("!"):
                ctx.mark("CORR-BROKEN", {"correspondence": "coordinate(general)", "geometry": g, "model": resp[:100], "impl": repr(c)[:100]})
                continue
            rows = [[Fraction(t) for t in row.split()] for row in resp.split(" ; ")]
            cc = np.asarray(c)
            for k in range(len(rows)):
                for i in range(g["dim"]):
                    p = AXMAP[g["dim"]][i][0]
                    h = frac(g["dims"][p]) / g["shape"][p]
                    stats["max_err_voxels_model"] = max(stats["max_err_voxels_model"], float(abs(frac(float(cc[k, i])) - rows[k][i]) / h))
            ctx.count(("coord-general", json.dumps(g)))


# ---------------------------------------------------------------------------


def geometries(ctx):
    rng = ctx.rng
    out = []
    if ctx.big:
        # every shape <= 6 per axis in 1-3-D, each under every regime once (payload cycles)
        n = 0
        for dim in (1, 2, 3):
            for shape in np.ndindex(*([6] * dim)):
                shape = tuple(s + 1 for s in shape)
                for regime in REGIMES:
                    out.append((gen_geometry(rng, dim, shape, regime), PAYLOADS[n % 4]))
                    n += 1
        for _ in range(300):
            dim = rng.choice((1, 2, 3))
            out.append((gen_geometry(rng, dim, rand_shape(rng, dim, 12 if dim < 3 else 9), rng.choice(REGIMES)), rng.choice(PAYLOADS)))
    else:
        n = 0
        for dim in (1, 2, 3):
            for regime in REGIMES:
                for _ in range(19):
                    out.append((gen_geometry(rng, dim, rand_shape(rng, dim, 7), regime), PAYLOADS[n % 4]))
                    n += 1
    out = [(with_history(rng, g), pl) if (k % 4 == 1) else (g, pl) for k, (g, pl) in enumerate(out)]
    return out


def run(ctx):
    import darsia as d

    hard_fail = ctx.fail

    def routed(sig, what, rep_):
        if sig.startswith("C01:implementation-result-unusable"):
            ctx.mark("HARNESS-EXCEPTION", {"correspondence": sig, "what": str(what)[:300]})
        elif is_soft(sig):
            ctx.mark("TIE-BROKEN", {"correspondence": sig, "what": str(what)[:300]})
        else:
            hard_fail(sig, what, rep_)

    ctx.fail = routed

    # corpus first
    corpus = ctx_corpus(ctx)
    for case in corpus:
        ok, obs, req = check_case(d, case)
        if not ok:
            ctx.fail(case.get("signature", "C01:corpus"), f"corpus case fails: observed {obs}, required {req}", case)
    t = c20.tabulate(d)
    ctx.write_gen("IndexingTables", c20.emit(t))
    ctx.prove("C01")
    # the oracle's reference orientation is the documented one; the generated table is compared with it
    for dim in (1, 2, 3):
        for i, a in enumerate("xyz"[:dim]):
            got = t["interpret"][(a, "ijk"[:dim])]
            ctx.count(("table", dim, a))
            if got != AXMAP[dim][i]:
                ctx.fail(f"C01:interpret_indexing({a},{'ijk'[:dim]})", f"interpret_indexing('{a}','{'ijk'[:dim]}') = {got!r}, documented orientation {AXMAP[dim][i]}",
                         {"call": ["interpret_indexing", a, "ijk"[:dim]], "observed": repr(got), "required": list(AXMAP[dim][i])})
    geoms = geometries(ctx)
    stats = {"max_err_voxels": 0.0, "max_err_voxels_model": 0.0}
    ncorr = ctx.pick(140, 700)
    step = max(1, len(geoms) // ncorr)
    correspondence(ctx, d, geoms[::step], ctx.pick(1, 2), stats)
    dist = {}
    for g, payload in geoms:
        r_ = call(oracle_geometry, ctx, d, g, payload, 2, stats)
        if isinstance(r_, Raised):  # a result of unexpected shape / type broke an oracle clause: that IS a failing input, not a harness error
            ctx.fail(f"C01:implementation-result-unusable:{type(r_.exc).__name__}", f"an oracle clause could not evaluate the implementation's result on this geometry: {r_.exc!r}",
                     {"geometry": effective(g), "payload": payload, "clause": "surface"})
        key = f"dim{g['dim']}:{g['regime']}:{payload}"
        dist[key] = dist.get(key, 0) + 1
    ctx.sample({"geometry": geoms[0][0], "payload": geoms[0][1]})
    ctx.cov["geometries"] = len(geoms)
    ctx.cov["distribution"] = dist
    ctx.cov["measured_float_error_voxel_units"] = stats
    if max(stats["max_err_voxels"], stats["max_err_voxels_model"]) >= 2.0 ** -20:
        ctx.mark("TIE-BROKEN", {"float_error_voxels": stats, "bound": 2.0 ** -20,
                                "meaning": "the float error of coordinate() exceeds the bound under which the general stream's offsets are safely inside a voxel"})
    ctx.notes.append("num_voxels(length(n, axis), axis) on general (non-dyadic) floats returns n+1 instead of n in a few percent of the geometries "
                     "(counters num_voxels_float_*): ceil of the float quotient n*h/h = n(1+eps). Exact in the rational model (num_voxels_length); "
                     "recorded, not part of the property's statement.")
    ctx.cov["observations_outside_statement"] = dict(OBS)
    ctx.cov["exhaustive"] = bool(ctx.big)
    ctx.cov["rule"] = ("thorough: every shape <= 6 per axis in 1-3-D x 7 dimension/origin regimes + 300 random larger shapes, every voxel + halo 2; "
                       "quick: 399 random geometries; distinct = (clause, geometry, payload, offset class, call form)")
    ctx.assumptions += ["numpy float64 arithmetic is IEEE-754 (exactness of the dyadic stream)",
                        "general stream: offsets are >= 2^-10 voxel from a face; measured coordinate error (recorded) must stay < 2^-20 voxel",
                        "axis table regenerated from the running interpret_indexing on every run (G1)"]


def ctx_corpus(ctx):
    from ..lib.core import VERIF

    out = []
    cdir = VERIF / "corpus" / "C01"
    if cdir.is_dir():
        for f in sorted(cdir.glob("*.json")):
            data = json.loads(f.read_text())
            out.append(data.get("replay", data))
    return out


def replay(data):
    import darsia as d

    case = data.get("replay", data)
    if "clause" not in case:
        print(json.dumps(case, indent=1))
        return 0
    ok, obs, req = check_case(d, case)
    print(f"C01 replay clause={case['clause']} geometry={case['geometry']} voxel={case.get('voxel')} path={case.get('path', case.get('form'))}")
    print(f"  observed: {obs}\n  required: {req}\n  property {'HOLDS' if ok else 'FAILS'} on this input")
    return 0 if ok else 1
