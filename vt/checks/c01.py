"""C01 - voxel and physical coordinates convert consistently for every image geometry.

Tie: the axis map is the generated table DarsiaGen.IndexingTables (re-tabulated from the running
interpret_indexing by this check, same tabulation as C20); the arithmetic of
CoordinateSystem.coordinate / .voxel, Image.opposite_corner / .voxel_size / default origin and the typed
points is tied to DarsiaModel.Coord by a differential correspondence that is EXACT on the dyadic stream
(every float operation exact) and compares voxel indices exactly / measures the float error on the general stream.
The oracle evaluates the property statement on the implementation: every voxel of the image plus a halo,
single and batch call forms, scalar / vector / series payloads, default and far user origins.
"""
from __future__ import annotations

import json
import sys
from fractions import Fraction

import numpy as np

from ..lib.core import flist, fmts, frac
from ..lib.impl import Raised, call
from . import c20

LEVEL = "proof"
CLAIM = dict(
    category="proof",
    text="Theorems in DarsiaProps.C01 about the executable model DarsiaModel.Coord (rational arithmetic), for every dimension 1-3, "
    "every shape, positive dimensions, arbitrary origin and every integer voxel inside or outside the image: coord_zero, "
    "coord_opposite, coord_step (orientation table regenerated from the running interpret_indexing and proved to be a permutation "
    "and the documented one), voxel_of_inside (every point with offset in [0,1) of a voxel converts back to it), center_roundtrip, "
    "batch_roundtrip (lists of any length), typed_roundtrip / constructors_idempotent for the typed points, default_origin_box, "
    "center_stable (float bridge: quotient error < 1/2 voxel cannot change a centre's index). Tie: generated axis table + "
    "differential correspondence model vs implementation, exact on dyadic geometries, index-exact with measured float error "
    "(recorded, must stay < 2^-20 voxel) on general geometries with origins up to 1e6 voxel sizes away.",
    note="float arithmetic itself is not modelled: the general stream compares voxel indices at centres and at offsets >= 2^-10 voxel from "
    "a face and records the measured error of the implementation's quotient; numpy IEEE semantics trusted; Voxel(matrix_indexing=False) not covered.",
    technique="Lean 4 proof (parametric in the axis map; generated wf obligation by decide) + differential correspondence + oracle search",
)

EPS = Fraction(1, 2**52)
PAYLOADS = ("scalar", "vector", "series", "vector-series")


# ---------------------------------------------------------------------------
# geometry generation


def _dy(rng, kmax=7, mmax=6):
    return Fraction(rng.randint(1, kmax), 2 ** rng.randint(0, mmax))


def gen_geometry(rng, dim, shape, regime):
    """Return dict(dim, shape, dims(list of float), origin(list of float)|None, dyadic: bool)."""
    if regime in ("dy-default", "dy-user", "dy-far"):
        h = [_dy(rng) for _ in range(dim)]
        dims = [float(h[p] * shape[p]) for p in range(dim)]
        if regime == "dy-default":
            origin = None
        elif regime == "dy-user":
            origin = [float(Fraction(rng.randint(-200, 200), 2 ** rng.randint(0, 4))) for _ in range(dim)]
        else:
            # origin about 1e6 voxel sizes away, still exactly representable together with every coordinate
            origin = [None] * dim
            am = AXMAP[dim]
            for i in range(dim):
                p = am[i][0]
                origin[i] = float(rng.choice([-1, 1]) * (rng.randint(900000, 1048576) * h[p]) + Fraction(rng.randint(-8, 8), 8) * h[p])
        return dict(dim=dim, shape=list(shape), dims=dims, origin=origin, dyadic=True, regime=regime)
    # general floats
    if regime == "gen-mixed":
        dims = [10 ** rng.uniform(-4, -3) if rng.random() < 0.5 else 10 ** rng.uniform(3, 4) for _ in range(dim)]
    else:
        dims = [10 ** rng.uniform(-4, 4) for _ in range(dim)]
    if regime == "gen-default":
        origin = None
    elif regime == "gen-user":
        origin = [rng.uniform(-10, 10) * dims[AXMAP[dim][i][0]] for i in range(dim)]
    else:  # gen-far, gen-mixed: up to 1e6 voxel sizes away
        origin = []
        for i in range(dim):
            p = AXMAP[dim][i][0]
            origin.append(rng.choice([-1, 1]) * rng.uniform(1e5, 1e6) * dims[p] / shape[p])
    return dict(dim=dim, shape=list(shape), dims=dims, origin=origin, dyadic=False, regime=regime)


REGIMES = ("dy-default", "dy-user", "dy-far", "gen-default", "gen-user", "gen-far", "gen-mixed")
AXMAP = {1: [(0, False)], 2: [(1, False), (0, True)], 3: [(1, False), (2, True), (0, True)]}  # documented orientation
"""The documented orientation (docstrings of coordinatesystem.py / interpret_indexing): the ORACLE's reference."""


def rand_shape(rng, dim, cap):
    pool = [1, 1, 2, 3, 3, 4, 5, 5, 6, 7, 7] + [rng.randint(1, cap)]
    return tuple(min(cap, rng.choice(pool)) for _ in range(dim))


def make_image(d, g, payload="scalar"):
    dim, shape = g["dim"], tuple(g["shape"])
    series = "series" in payload
    vector = "vector" in payload
    full = shape + ((3,) if series else ()) + ((2,) if vector else ())
    arr = np.zeros(full, dtype=float)
    kw = dict(space_dim=dim, dimensions=list(g["dims"]), scalar=not vector, series=series)
    if series:
        kw["time"] = [0.0, 1.0, 2.0]
    if g["origin"] is not None:
        kw["origin"] = list(g["origin"])
    return call(d.Image, arr, **kw)


def cs_tokens(g, origin):
    return f"{g['dim']} {flist(g['shape'])} {flist(g['dims'])} {flist(origin)}"


def halo_voxels(shape, halo):
    grids = np.meshgrid(*[np.arange(-halo, n + halo) for n in shape], indexing="ij")
    return np.stack([x.ravel() for x in grids], axis=1)


def exact_coord(g, origin, v):
    """Exact rational coordinate of the (possibly fractional) voxel v under the documented orientation."""
    out = []
    for i in range(g["dim"]):
        p, r = AXMAP[g["dim"]][i]
        h = frac(g["dims"][p]) / g["shape"][p]
        out.append(frac(origin[i]) + (-1 if r else 1) * frac(v[p]) * h)
    return out


def zone(v, shape):
    if any(x < 0 for x in v):
        return "halo-negative"
    if any(x >= n for x, n in zip(v, shape)):
        return "halo-beyond"
    return "inside"


# ---------------------------------------------------------------------------
# property oracle on the implementation


def check_case(d, case):
    """Evaluate ONE clause of the property on the implementation. Returns (holds, observed, required).
    `case` is a JSON-able dict; the same function serves the search and --replay."""
    g = case["geometry"]
    img = make_image(d, g, case.get("payload", "scalar"))
    if isinstance(img, Raised):
        return False, f"Image(...) raises {img}", "image can be built"
    cs = call(lambda: img.coordinatesystem)
    if isinstance(cs, Raised):
        return False, f"coordinatesystem raises {cs}", "coordinate system can be built"
    dim = g["dim"]
    clause = case["clause"]
    origin = [float(x) for x in np.asarray(img.origin)]
    dyadic = g.get("dyadic", False)

    def tol(scale):
        return Fraction(0) if dyadic else 4 * EPS * scale

    if clause == "zero":
        got = call(cs.coordinate, [0] * dim)
        if isinstance(got, Raised):
            return False, repr(got), "origin"
        return bool(np.array_equal(np.asarray(got), np.asarray(img.origin))), list(map(float, np.asarray(got))), origin
    if clause == "opposite":
        got = call(lambda: img.opposite_corner)
        if isinstance(got, Raised):
            return False, repr(got), "origin +- dimensions"
        got = [float(x) for x in np.asarray(got)]
        ok = len(got) == dim
        req = []
        for i in range(dim):
            p, r = AXMAP[dim][i]
            want = (-1 if r else 1) * frac(g["dims"][p])
            req.append(float(frac(origin[i]) + want))
            if ok and abs(frac(got[i]) - frac(origin[i]) - want) > tol(abs(frac(origin[i])) + abs(want)):
                ok = False
        return ok, got, req
    if clause == "step":
        v, a = case["voxel"], case["axis"]
        w = list(v)
        w[a] += 1
        c0, c1 = call(cs.coordinate, list(v)), call(cs.coordinate, w)
        if isinstance(c0, Raised) or isinstance(c1, Raised):
            return False, f"{c0!r} {c1!r}", "coordinates"
        diff = [frac(float(x)) - frac(float(y)) for x, y in zip(np.asarray(c1), np.asarray(c0))]
        ok, req = True, []
        for i in range(dim):
            p, r = AXMAP[dim][i]
            h = frac(g["dims"][p]) / g["shape"][p]
            want = ((-1 if r else 1) * h) if p == a else Fraction(0)
            req.append(float(want))
            scale = abs(frac(origin[i])) + (abs(v[p]) + 2) * h
            if abs(diff[i] - want) > tol(scale):
                ok = False
        return ok, [float(x) for x in diff], req
    if clause == "roundtrip":
        v, t, form = case["voxel"], case["offset"], case.get("form", "list")
        p = [float(Fraction(a) + Fraction(b)) for a, b in zip(v, t)]
        arg = {"list": p, "tuple": tuple(p), "array": np.array(p), "batch": np.array([p, p])}[form]
        c = call(cs.coordinate, arg)
        if isinstance(c, Raised):
            return False, f"coordinate raises {c}", list(v)
        back = call(cs.voxel, c if form != "tuple" else np.asarray(c))
        if isinstance(back, Raised):
            return False, f"voxel raises {back}", list(v)
        back = np.asarray(back)
        got = back[0] if form == "batch" else back
        return bool(np.array_equal(got, np.array(v))), [int(x) for x in np.ravel(got)], list(v)
    if clause == "typed":
        v, path = case["voxel"], case["path"]
        vi = np.array(v, dtype=int)
        ctr = vi + 0.5
        if path == "Voxel.to_voxel_center":
            got, req = call(lambda: d.make_voxel(vi).to_voxel_center()), ctr
        elif path == "VoxelCenter.to_voxel":
            got, req = call(lambda: d.make_voxel(vi).to_voxel_center().to_voxel()), vi
        elif path == "make_voxel_center(centres)":
            got, req = call(lambda: d.make_voxel_center(ctr)), ctr
        elif path == "make_voxel(centres)":
            got, req = call(lambda: d.make_voxel(ctr)), vi
        elif path == "VoxelCenter.to_coordinate.to_voxel":
            got, req = call(lambda: d.make_voxel(vi).to_voxel_center().to_coordinate(cs).to_voxel(cs)), vi
        elif path == "VoxelCenter.to_coordinate.to_voxel_center":
            got, req = call(lambda: d.make_voxel(vi).to_voxel_center().to_coordinate(cs).to_voxel_center(cs)), ctr
        elif path == "VoxelCenter.to_coordinate":
            got = call(lambda: d.make_voxel(vi).to_voxel_center().to_coordinate(cs))
            req = call(cs.coordinate, ctr)
            if isinstance(req, Raised):
                return False, repr(req), "coordinate"
            req = np.asarray(req)
        elif path == "Coordinate.to_voxel":
            x = call(cs.coordinate, ctr)
            if isinstance(x, Raised):
                return False, repr(x), list(v)
            got, req = call(lambda: d.make_coordinate(np.asarray(x)).to_voxel(cs)), vi
        else:
            raise ValueError(path)
        if isinstance(got, Raised):
            return False, repr(got), [float(x) for x in np.ravel(req)]
        ok = np.asarray(got).shape == np.asarray(req).shape and bool(np.array_equal(np.asarray(got), req))
        return ok, [float(x) for x in np.ravel(np.asarray(got))], [float(x) for x in np.ravel(req)]
    raise ValueError(clause)


def fail_case(ctx, d, case, sig, what):
    ok, obs, req = check_case(d, case)
    if ok:  # the vectorised detection and the single evaluation disagree: batch-vs-single inconsistency
        sig, what = sig + ":batch-only", what + " (seen in the batch call form only)"
    ctx.fail(sig, f"{what}: observed {obs}, required {req}", {**case, "observed": obs, "required": req})


TYPED_PATHS = ("Voxel.to_voxel_center", "VoxelCenter.to_voxel", "make_voxel_center(centres)", "make_voxel(centres)",
               "VoxelCenter.to_coordinate", "VoxelCenter.to_coordinate.to_voxel", "VoxelCenter.to_coordinate.to_voxel_center",
               "Coordinate.to_voxel")


def oracle_geometry(ctx, d, g, payload, halo, stats):
    """All clauses of the statement on one geometry; vectorised, failures confirmed by check_case."""
    rng = ctx.rng
    dim, shape = g["dim"], g["shape"]
    base = dict(geometry=g, payload=payload)
    img = make_image(d, g, payload)
    cs = img if isinstance(img, Raised) else call(lambda: img.coordinatesystem)
    if isinstance(cs, Raised):
        ctx.fail(f"C01:construct:dim={dim}:{payload}", f"image / coordinate system cannot be built: {cs}", {**base, "clause": "zero"})
        return
    origin = [float(x) for x in np.asarray(img.origin)]
    for clause in ("zero", "opposite"):
        ok, obs, req = check_case(d, {**base, "clause": clause})
        ctx.count((clause, json.dumps(g), payload))
        if not ok:
            ctx.fail(f"C01:{clause}:dim={dim}", f"{clause}: observed {obs}, required {req}", {**base, "clause": clause, "observed": obs, "required": req})
    # default origin: the image occupies [0, D] on every Cartesian axis
    if g["origin"] is None:
        for i in range(dim):
            p, r = AXMAP[dim][i]
            want = g["dims"][p] if r else 0.0
            if origin[i] != want:
                ctx.fail(f"C01:default-origin:dim={dim}:axis={i}", f"default origin {origin} but axis {i} (matrix axis {p}, reversed={r}) requires {want}",
                         {**base, "clause": "zero", "observed": origin})
    vox = halo_voxels(shape, halo)
    # steps: every matrix axis from a few voxels
    for a in range(dim):
        v = [int(x) for x in vox[rng.randrange(len(vox))]]
        case = {**base, "clause": "step", "voxel": v, "axis": a}
        ok, obs, req = check_case(d, case)
        ctx.count(("step", json.dumps(g), a))
        if not ok:
            ctx.fail(f"C01:step:dim={dim}:axis={a}", f"one voxel step along matrix axis {a}: coordinate moved by {obs}, required {req}", {**case, "observed": obs, "required": req})
    # round trips: centres, interior offsets, and (dyadic only) the lower corner / just below the upper face
    offsets = [("centre", np.full((len(vox), dim), 0.5))]
    k = 2 ** 10
    offsets.append(("interior", np.array([[rng.randint(1, k - 1) / k for _ in range(dim)] for _ in range(len(vox))])))
    if g["dyadic"]:
        offsets.append(("lower-corner", np.zeros((len(vox), dim))))
        offsets.append(("below-upper-face", np.full((len(vox), dim), 1 - 2.0 ** -8)))
    for name, off in offsets:
        pts = vox + off
        c = call(cs.coordinate, pts)
        back = c if isinstance(c, Raised) else call(cs.voxel, c)
        ctx.count(("roundtrip", json.dumps(g), payload, name, halo), n=len(vox))
        if isinstance(back, Raised) or np.asarray(back).shape != vox.shape:
            bad = [0]
        else:
            bad = np.nonzero(np.any(np.asarray(back) != vox, axis=1))[0]
            # measured float error of the coordinates in voxel units (general stream)
            if not g["dyadic"] and name == "centre":
                cc = np.asarray(c)
                for idx in {0, len(vox) - 1, rng.randrange(len(vox))}:
                    ex = exact_coord(g, origin, [frac(float(x)) for x in pts[idx]])
                    for i in range(dim):
                        p = AXMAP[dim][i][0]
                        h = frac(g["dims"][p]) / shape[p]
                        stats["max_err_voxels"] = max(stats["max_err_voxels"], float(abs(frac(float(cc[idx, i])) - ex[i]) / h))
        if len(bad):
            idx = int(bad[0])
            v = [int(x) for x in vox[idx]]
            case = {**base, "clause": "roundtrip", "voxel": v, "offset": [str(Fraction(float(x))) for x in off[idx]], "form": "list"}
            fail_case(ctx, d, case, f"C01:voxel(coordinate(v+t))!=v:dim={dim}:{zone(v, shape)}:{name}",
                      f"point at offset {name} of voxel {v} does not convert back to it")
        # single call forms agree with the batch form on a few points
        if name in ("centre", "interior") and not isinstance(back, Raised):
            for idx in {0, len(vox) - 1, rng.randrange(len(vox)), rng.randrange(len(vox))}:
                for form in ("list", "tuple", "array"):
                    v = [int(x) for x in vox[idx]]
                    case = {**base, "clause": "roundtrip", "voxel": v, "offset": [str(Fraction(float(x))) for x in off[idx]], "form": form}
                    ok, obs, req = check_case(d, case)
                    ctx.count(("single", json.dumps(g), name, form, idx))
                    if not ok:
                        ctx.fail(f"C01:voxel(coordinate(v+t))!=v:dim={dim}:{zone(v, shape)}:{name}:form={form}",
                                 f"single-point call form {form}: voxel {v} offset {name} converts to {obs}", {**case, "observed": obs, "required": req})
                    # batch == single on the coordinates themselves
                    p = vox[idx] + off[idx]
                    single = call(cs.coordinate, list(map(float, p)))
                    if isinstance(single, Raised) or not np.array_equal(np.asarray(single), np.asarray(c)[idx]):
                        ctx.fail(f"C01:batch!=single:coordinate:dim={dim}", "coordinate() of a batch row differs from the single-point call",
                                 {**case, "observed": repr(single), "required": [float(x) for x in np.asarray(c)[idx]]})
    # typed points: a negative, an inside and a beyond voxel, single and batch
    picks = {}
    for row in vox:
        picks.setdefault(zone(row, shape), [int(x) for x in row])
    for z, v in picks.items():
        for path in TYPED_PATHS:
            case = {**base, "clause": "typed", "voxel": v, "path": path}
            ok, obs, req = check_case(d, case)
            ctx.count(("typed", dim, path, z, json.dumps(g)))
            if not ok:
                cls = "negative-index" if z == "halo-negative" else "nonnegative-index"
                ctx.fail(f"C01:typed:{path}:{cls}", f"typed point path {path} at voxel {v}: observed {obs}, required {req}", {**case, "observed": obs, "required": req})
    # typed batch: arrays of voxels through the same paths
    vb = vox[:: max(1, len(vox) // 7)]
    for path, fn, req in (
        ("VoxelCenter.to_voxel", lambda: d.make_voxel(vb).to_voxel_center().to_voxel(), vb),
        ("VoxelCenter.to_coordinate.to_voxel", lambda: d.make_voxel(vb).to_voxel_center().to_coordinate(cs).to_voxel(cs), vb),
        ("VoxelCenter.to_coordinate.to_voxel_center", lambda: d.make_voxel(vb).to_voxel_center().to_coordinate(cs).to_voxel_center(cs), vb + 0.5),
    ):
        got = call(fn)
        ctx.count(("typed-batch", dim, path, json.dumps(g)))
        if isinstance(got, Raised) or np.asarray(got).shape != req.shape or not np.array_equal(np.asarray(got), req):
            rows = [0] if isinstance(got, Raised) or np.asarray(got).shape != req.shape else np.nonzero(np.any(np.asarray(got) != req, axis=1))[0]
            v = [int(x) for x in vb[int(rows[0])]]
            cls = "negative-index" if zone(v, shape) == "halo-negative" else "nonnegative-index"
            fail_case(ctx, d, {**base, "clause": "typed", "voxel": v, "path": path}, f"C01:typed:{path}:{cls}", f"typed batch path {path} fails at voxel {v}")


# ---------------------------------------------------------------------------
# correspondence model <-> implementation


def pts_tokens(rows):
    return f"{len(rows)} " + " ".join(flist(r) for r in rows)


def show_rows(rows, f=fmts):
    return " ; ".join(f(r) for r in rows)


def correspondence(ctx, d, geoms, halo, stats):
    lines, impl = [], []
    gen_lines, gen_meta = [], []
    for g, payload in geoms:
        dim, shape = g["dim"], g["shape"]
        img = make_image(d, g, payload)
        cs = img if isinstance(img, Raised) else call(lambda: img.coordinatesystem)
        if isinstance(cs, Raised):
            ctx.mark("CORR-BROKEN", {"correspondence": "coord", "geometry": g, "error": repr(cs)})
            continue
        origin = [float(x) for x in np.asarray(img.origin)]
        tok = cs_tokens(g, origin)
        vox = halo_voxels(shape, halo)
        if len(vox) > 150:
            vox = vox[sorted(ctx.rng.sample(range(len(vox)), 150))]
        if g["dyadic"]:
            off = np.array([[ctx.rng.randint(0, 31) / 32 for _ in range(dim)] for _ in range(len(vox))])
            off[0] = 0.0
        else:
            off = np.full((len(vox), dim), 0.5)
        pts = vox + off
        c = call(cs.coordinate, pts)
        b = c if isinstance(c, Raised) else call(cs.voxel, c)
        if g["origin"] is None:
            lines.append(f"dorigin {dim} {flist(g['dims'])}")
            impl.append(fmts(origin))
        if g["dyadic"]:
            lines.append(f"coord {tok} {pts_tokens(pts)}")
            impl.append(repr(c) if isinstance(c, Raised) else show_rows(np.asarray(c)))
            lines.append(f"opp {tok}")
            o = call(lambda: img.opposite_corner)
            impl.append(repr(o) if isinstance(o, Raised) else fmts(np.asarray(o)))
            lines.append(f"vsize {tok}")
            impl.append(fmts(img.voxel_size))
            # typed points, incl. negative voxels
            v = [int(x) for x in vox[ctx.rng.randrange(len(vox))]]
            ctr = np.array(v) + 0.5
            for conv, meth in (("toCoord", "to_coordinate"), ("toVoxel", "to_voxel"), ("toCenter", "to_voxel_center")):
                for kind, obj, enc in (("vox", d.make_voxel(np.array(v)), flist(v)), ("ctr", d.make_voxel(np.array(v)).to_voxel_center(), flist(ctr)),
                                       ("coord", d.make_coordinate(np.asarray(c)[0]) if not isinstance(c, Raised) else None, None)):
                    if obj is None:
                        continue
                    if kind == "coord":
                        enc = flist(np.asarray(c)[0])
                    r = call(getattr(obj, meth), cs)
                    lines.append(f"pt {conv} {tok} {kind} {enc}")
                    if isinstance(r, Raised):
                        impl.append(repr(r))
                    else:
                        k = "coord" if isinstance(r, d.Coordinate) else "vox" if isinstance(r, d.Voxel) else "ctr" if isinstance(r, d.VoxelCenter) else "?"
                        impl.append(f"{k} {fmts(np.asarray(r))}")
            raw = [ctx.rng.randint(-40, 40) / 8 for _ in range(dim)]
            for k, fn in (("vox", d.make_voxel), ("ctr", d.make_voxel_center)):
                r = call(fn, np.array(raw))
                lines.append(f"mk {k} {flist(raw)}")
                impl.append(repr(r) if isinstance(r, Raised) else fmts(np.asarray(r)))
        else:
            # general stream: the model evaluates the exact rational coordinates; measured, not diffed
            gen_lines.append(f"coord {tok} {pts_tokens(pts)}")
            gen_meta.append((g, c))
        if not isinstance(c, Raised):
            # voxel() on the coordinates the implementation produced (exact rationals of the floats):
            # indices must agree exactly (centres / dyadic points are >= measured error away from a face)
            lines.append(f"voxel {tok} {pts_tokens(np.asarray(c))}")
            impl.append(repr(b) if isinstance(b, Raised) else show_rows(np.asarray(b), lambda r: " ".join(str(int(x)) for x in r)))
    ctx.correspond("coordinate-system", lines, impl, driver="C01")
    if gen_lines:
        got = ctx.model(gen_lines, "C01")
        for (g, c), resp in zip(gen_meta, got):
            if isinstance(c, Raised) or resp.startswith("!"):
                ctx.mark("CORR-BROKEN", {"correspondence": "coordinate(general)", "geometry": g, "model": resp[:100], "impl": repr(c)[:100]})
                continue
            rows = [[Fraction(t) for t in row.split()] for row in resp.split(" ; ")]
            cc = np.asarray(c)
            for k in range(len(rows)):
                for i in range(g["dim"]):
                    p = AXMAP[g["dim"]][i][0]
                    h = frac(g["dims"][p]) / g["shape"][p]
                    stats["max_err_voxels_model"] = max(stats["max_err_voxels_model"], float(abs(frac(float(cc[k, i])) - rows[k][i]) / h))
            ctx.count(("coord-general", json.dumps(g)))


# ---------------------------------------------------------------------------


def geometries(ctx):
    rng = ctx.rng
    out = []
    if ctx.big:
        # every shape <= 6 per axis in 1-3-D, each under every regime once (payload cycles)
        n = 0
        for dim in (1, 2, 3):
            for shape in np.ndindex(*([6] * dim)):
                shape = tuple(s + 1 for s in shape)
                for regime in REGIMES:
                    out.append((gen_geometry(rng, dim, shape, regime), PAYLOADS[n % 4]))
                    n += 1
        for _ in range(300):
            dim = rng.choice((1, 2, 3))
            out.append((gen_geometry(rng, dim, rand_shape(rng, dim, 12 if dim < 3 else 9), rng.choice(REGIMES)), rng.choice(PAYLOADS)))
    else:
        n = 0
        for dim in (1, 2, 3):
            for regime in REGIMES:
                for _ in range(19):
                    out.append((gen_geometry(rng, dim, rand_shape(rng, dim, 7), regime), PAYLOADS[n % 4]))
                    n += 1
    return out


def run(ctx):
    import darsia as d

    # corpus first
    corpus = ctx_corpus(ctx)
    for case in corpus:
        ok, obs, req = check_case(d, case)
        if not ok:
            ctx.fail(case.get("signature", "C01:corpus"), f"corpus case fails: observed {obs}, required {req}", case)
    t = c20.tabulate(d)
    ctx.write_gen("IndexingTables", c20.emit(t))
    ctx.prove("C01")
    # the oracle's reference orientation is the documented one; the generated table is compared with it
    for dim in (1, 2, 3):
        for i, a in enumerate("xyz"[:dim]):
            got = t["interpret"][(a, "ijk"[:dim])]
            ctx.count(("table", dim, a))
            if got != AXMAP[dim][i]:
                ctx.fail(f"C01:interpret_indexing({a},{'ijk'[:dim]})", f"interpret_indexing('{a}','{'ijk'[:dim]}') = {got!r}, documented orientation {AXMAP[dim][i]}",
                         {"call": ["interpret_indexing", a, "ijk"[:dim]], "observed": repr(got), "required": list(AXMAP[dim][i])})
    geoms = geometries(ctx)
    stats = {"max_err_voxels": 0.0, "max_err_voxels_model": 0.0}
    ncorr = ctx.pick(140, 700)
    step = max(1, len(geoms) // ncorr)
    correspondence(ctx, d, geoms[::step], ctx.pick(1, 2), stats)
    dist = {}
    for g, payload in geoms:
        oracle_geometry(ctx, d, g, payload, 2, stats)
        key = f"dim{g['dim']}:{g['regime']}:{payload}"
        dist[key] = dist.get(key, 0) + 1
    ctx.sample({"geometry": geoms[0][0], "payload": geoms[0][1]})
    ctx.cov["geometries"] = len(geoms)
    ctx.cov["distribution"] = dist
    ctx.cov["measured_float_error_voxel_units"] = stats
    if max(stats.values()) >= 2.0 ** -20:
        ctx.mark("TIE-BROKEN", {"float_error_voxels": stats, "bound": 2.0 ** -20,
                                "meaning": "the float error of coordinate() exceeds the bound under which the general stream's offsets are safely inside a voxel"})
    ctx.cov["exhaustive"] = bool(ctx.big)
    ctx.cov["rule"] = ("thorough: every shape <= 6 per axis in 1-3-D x 7 dimension/origin regimes + 300 random larger shapes, every voxel + halo 2; "
                       "quick: 399 random geometries; distinct = (clause, geometry, payload, offset class, call form)")
    ctx.assumptions += ["numpy float64 arithmetic is IEEE-754 (exactness of the dyadic stream)",
                        "general stream: offsets are >= 2^-10 voxel from a face; measured coordinate error (recorded) must stay < 2^-20 voxel",
                        "axis table regenerated from the running interpret_indexing on every run (G1)"]


def ctx_corpus(ctx):
    from ..lib.core import VERIF

    out = []
    cdir = VERIF / "corpus" / "C01"
    if cdir.is_dir():
        for f in sorted(cdir.glob("*.json")):
            data = json.loads(f.read_text())
            out.append(data.get("replay", data))
    return out


def replay(data):
    import darsia as d

    case = data.get("replay", data)
    if "clause" not in case:
        print(json.dumps(case, indent=1))
        return 0
    ok, obs, req = check_case(d, case)
    print(f"C01 replay clause={case['clause']} geometry={case['geometry']} voxel={case.get('voxel')} path={case.get('path', case.get('form'))}")
    print(f"  observed: {obs}\n  required: {req}\n  property {'HOLDS' if ok else 'FAILS'} on this input")
    return 0 if ok else 1
