"""C05 - computed Wasserstein distances behave like an optimal-transport cost.

Proved (DarsiaProps.C05, abstract seminorm, all shapes): the cost functional is non-negative, even and absolutely
homogeneous in the flux, linear in a constant cell weight; feasibility is preserved by reversal / scaling; hence the
discrete minimum is 0 for equal distributions, symmetric, positively homogeneous; any mass-conserving flux costs at
least the minimum; on 1-D grids the mass-conserving flux is unique (prefix sums) and exists for equal masses; the EMD
rescaling formula; the front-end dispatch table (G1).
Observed only (oracle on the real solvers, this file): that the values returned by Newton / Bregman are the cost of a
mass-conserving flux (reconstructed from the returned cell fluxes) and obey the laws; thin n x 1 (x 1) grids; the
first-moment bound; cv2.EMD.
"""
from __future__ import annotations

import itertools
import json
import math
import multiprocessing as mp
import warnings
from fractions import Fraction

import numpy as np

from ..lib.core import flist, fmt, frac
from ..lib.impl import Raised, call, err_class

LEVEL = "other"
CLAIM = dict(
    category="other",
    text="Partly proved, partly observed. PROVED in Lean (DarsiaProps.C05, any shape/voxel sizes/quadrature with non-negative weights/"
    "cell weights, norm abstracted to a seminorm): cost >= 0, cost(-u) = cost(u), cost(s u) = |s| cost(u), cost linear in a constant "
    "weight; mass conservation is preserved by reversal and scaling; therefore the discrete minimum is 0 for identical distributions, "
    "symmetric, positively homogeneous in the masses and in a constant weight, and every mass-conserving flux (converged or not) "
    "costs at least the minimum; on 1-D grids the mass-conserving flux is unique (prefix sums) so every method/mobility must return "
    "its cost; FIRST-MOMENT BOUND |k|*||sum_c x_c vol f_c||_2 <= cost(u) for every mass-conserving flux, real quadrature nodes, "
    "Euclidean norm per quadrature point (proved to be a seminorm), for every rule with non-negative weights of total 1 and first "
    "moments 1/2 - discharged from C15's theorems for gauss_reference_cell of every accepted order (incl. order 0 and 'max') and the "
    "corner rule, dims 1-3 (discrete integration by parts via div_adjoint + Jensen); THIN GRIDS in generic dimension (unique_flux_thin, "
    "thin_cost_unique: n x 1, 1 x n, n x 1 x 1, ... any mass-conserving flux is THE flux and has THE cost); WEAK DUALITY "
    "(potential_lower_bound: a potential p with a cell field g in the Euclidean unit ball, face-coupled, bounds the cost of every "
    "mass-conserving flux from below, all L1 modes) - the harness finds (p, g) by LP, makes it exactly rational, the Lean model "
    "re-checks the hypotheses exactly (certOK) and every reported distance, converged or not, is compared with that certified bound "
    "on grids with <= 6 cycles; EMD rescaling algebra; dispatch table "
    "re-tabulated from the code. OBSERVED by metamorphic runs of the real Newton/"
    "Bregman/cv2 back-ends (not proved: the iterations themselves): returned distance = independently recomputed cost of the flux "
    "recovered from the returned cell fluxes, which conserves mass; identical -> 0; swap; x2^k and generic scaling (Bregman with "
    "the regularisation parameter L scaled along - with fixed L its unconverged iterates are not homogeneous: known finding); constant "
    "weight; first-moment bound (also proved, see above); 1-D and thin n x 1 (x 1) grids against the closed form for every method x mobility x L1 mode; "
    "front-end = back-end; EMD single-cell moves, symmetry, scaling, first-moment bound.",
    note="Round 7 (false-alarm direction): failing inputs are claimed only for stated clauses (raises on in-quantifier inputs, first moment, thin closed form, identical -> 0, swap, scaling, constant weight, below the certified minimum, front-end != back-end beyond 1e-9, rule facts, EMD laws, zero / non-finite distance at extreme scales); everything derived from info['flux'], the dispatch spy, rule identity, option variants, EMD series are TIE-BROKEN marks, oracle exceptions HARNESS marks, input modification / preprocess / amg-cg extreme-scale deviations observations; known-finding percentages are gross-error backstops. Round 5: for DEFAULT-L Bregman the sentence 'scales linearly when both masses are multiplied' is NOT enforced beyond the two bounded known "
    "signatures (unconverged <= 100 %, flagged-converged <= 15 %); it is enforced exactly under joint scaling of (masses, L, regularization), for "
    "Newton with all options fixed (1e-5), on thin grids, and weight-only scaling (all options fixed) for Newton and Bregman (1e-5, measured 1e-15). "
    "For RAVIART_THOMAS the certified lower bound is the midpoint dual, up to ~15 % below the scipy minimum: a distance in that gap passes the "
    "'never below the minimum' clause and is stopped only by 'distance = cost of a mass-conserving flux' (checked to 1e-9 / 1e-8, Anderson "
    "variants 3e-8 / 3e-7). A missing dual certificate or a skipped front-end/back-end comparison is a TIE-BROKEN mark. The 'dispatch' "
    "correspondence is an emitter self-check; dispatch_total is the statement. Thorough enumerates every thin size 2..40. Round 4 batch 3: the cyclic-grid and thin-grid runs cycle through documented solver option variants (bregman_update at various iterations, "
    "bregman_homogeneous, Anderson acceleration, full / flux_reduced formulation; iterative linear back-ends are C08's and excluded); the "
    "RAVIART_THOMAS rule is compared with an independent Gauss-Legendre tensor rule and the closed forms use independent rules for all three "
    "modes; EMD is also run on space-time images (per-slice results and per-slice signatures). Not covered: convergence of Newton/Bregman to the minimum (C04/C08 own the solver internals; how far a flagged-converged run lies "
    "above the scipy minimum of its own functional is recorded in the evidence as an observation - up to 26 % seen - and NOT enforced: the property "
    "only says never smaller); mass-only scaling is "
    "enforced for Newton (1e-5) and on thin grids, for Bregman it is a BOUNDED known finding (unconverged <= 100 %, flagged-converged <= 15 %, "
    "measured 66 % / 4.7 %); min_symm/min_smul/min_weight_smul are conditional on a given minimum of a rational-valued seminorm cost; "
    "dispatch_total covers nine tabulated spellings; EMD.__call__ internals (normalisation, float32 signatures, cv2.EMD) are not modelled, "
    "only its rescaling formula and its observable laws - REPLACED in round 4: "
    "EMD.__call__'s own arithmetic IS modelled (normalisation, signature rows [weight, col*del_x, row*del_y], rescaling by integral*cell volume; "
    "sigOf tied exactly on dyadic images through the private helpers, loudly noted if they disappear) around an ABSTRACT cv2.EMD with the "
    "transport-metric contract IsW1 (symmetric, Euclidean distance between point masses, first-moment bound on unit-mass signatures): "
    "emd_call_single_move, emd_call_symm, emd_call_smul (needs no contract), emd_call_first_moment are proved from it; that cv2.EMD "
    "meets the contract is observed by the oracle only; the CORNER rule has its exact dual (one dual vector per cell and corner, "
    "potential_lower_bound_rule / potential_lower_bound_corners, certificates found by LP, made exactly rational and re-checked by certRuleOK: "
    "gap to the scipy minimum 0.2 %), so the 'never below the true minimum' clause is tight for CONSTANT_SUBCELL_PROJECTION and "
    "CONSTANT_CELL_PROJECTION; for the Gauss rule (RAVIART_THOMAS) the same theorem applies but its coupling weights w_q*pt_q are irrational, "
    "so no exactly-rational certificate exists (would need a Q(sqrt d) certificate checker): there the certified lower bound is the dual of "
    "the midpoint-rule cost (tight to 0.2 % for CONSTANT_CELL_PROJECTION, 6-16 % below the scipy upper bound for the Gauss / corner rules, "
    "whose exact dual needs one dual vector per quadrature point); cv2.EMD itself.",
    technique="Lean 4 proof (algebra of the cost functional and constraint) + metamorphic oracle on the real solvers + 1-D closed-form correspondence",
)

L1 = ["RAVIART_THOMAS", "CONSTANT_SUBCELL_PROJECTION", "CONSTANT_CELL_PROJECTION"]
MOB = ["CELL_BASED", "CELL_BASED_ARITHMETIC", "CELL_BASED_HARMONIC", "SUBCELL_BASED", "FACE_BASED"]
METHODS = {"newton": "newton", "bregman": "bregman", "cv2emd": "cv2.emd", "newtonCap": "Newton", "bregmanUpper": "BREGMAN",
           "cv2emdUpper": "CV2.EMD", "sinkhorn": "sinkhorn", "emd": "emd", "empty": ""}
TOL_EXACT = 1e-9   # swap, power-of-two scaling, identical: the iterations are equivariant up to rounding (observed <= 2e-15)
TOL_GEN = 1e-7     # generic scaling factors: input rounding 1e-16 amplified through <= 200 iterations (observed <= 2e-15)
TOL_MASSONLY_NEWTON = 1e-3  # loose cap (round 7), measured 1e-7 / 5e-7; # masses scaled, absolute clamp eps NOT scaled: unconverged Newton/SUBCELL runs on compact data deviate by 1e-7
BREGMAN_FIXED_L_BOUND = {False: 4.0, True: 0.5}  # gross-error backstops (>= 4x the largest clean-tree values: 66 % / 7.2 %), not measurements;  # measured: unconverged <= 0.66, flagged-converged (tolerances 1e-6..1e-8) <= 0.047
ANDERSON_SLACK = 30.0  # was 1e3 before fix fdff869; the mixture of earlier iterates inherits the conditioning-limited accuracy of their
# direct solves on degenerate-mobility inputs (measured 2.7e-9 on the 1-D 'centre-zero' input, i.e. 2.7 x the plain tolerance)
TOL_GEN_BREGMAN = 1e-3  # loose cap (round 7): the effect is not bounded by rounding, measured maxima are in the evidence; # the shrink step thresholds (max(.,0)): under a non-power-of-two factor rounding can flip a face in / out of the
# active set of an unconverged iterate (measured 3e-6 on 4x5 after 200 iterations); power-of-two factors stay at 1e-9
EXTREME_TOL_DIRECT = 1e-3  # loose cap (round 7), measured 7.7e-9;    # 8 unconverged Newton iterations at masses x 2^30: measured 7.7e-9 on 12x12 (rounding, different pivoting)
EXTREME_TOL_ITERATIVE = 1e-4  # amg / cg with default (relative 1e-6) linear tolerances: distance reproduced to 6 digits at small scales (measured)
EXTREME_LARGE_BOUND = 0.05    # known: at masses x 2^20 .. 2^30 amg / cg Newton distances deviate by up to 1.5 % (measured), see findings
TOL_TIE = 1e-9     # returned distance vs independently recomputed cost of the returned flux
TOL_FEAS = 1e-8    # mass conservation of the returned flux relative to max|rhs| (direct linear solves; observed <= 1e-13)


# ---------------------------------------------------------------------------------------------- helpers on the implementation


def options(l1, mob, num_iter, L=None, extra=None):
    from darsia.measure.wasserstein import L1Mode, MobilityMode

    o = {"l1_mode": L1Mode[l1], "mobility_mode": MobilityMode[mob], "num_iter": num_iter, "tol_residual": 1e-10, "tol_increment": 1e-10,
         "tol_distance": 1e-10, "linear_solver": "direct", "formulation": "pressure", "return_info": True}
    if L is not None:
        o["L"] = L
    if extra:
        o.update(extra)
    return o


# the iterative linear back-ends (amg, cg) are deliberately NOT among the variants: with them mass conservation holds only to the
# linear solver's own tolerance / iteration budget (C08's subject); every variant below solves its linear systems directly
VARIANTS = {"newton": ["plain", "aa2", "aa3r", "full", "fluxred"],
            "bregman": ["plain", "upd3", "updall", "upd0", "homog", "aa2", "aa3r", "full", "fluxred"]}


def variant_slack(tag):
    """Anderson acceleration replaces the iterate by a least-squares combination of earlier iterates: mass conservation and the
    closed forms then hold to the conditioning of that small problem (observed 3e-9), not to rounding"""
    return ANDERSON_SLACK if tag.startswith("aa") else 1.0


def variant_options(tag):
    """documented solver options that change HOW the iteration runs, never what a result means: re-computed Bregman weights
    (bregman_update at various iterations, homogeneous), Anderson acceleration, linear-system formulation, linear solver"""
    return {
        "plain": {}, "upd3": {"bregman_update": lambda it: it % 3 == 0}, "updall": {"bregman_update": lambda it: True},
        "upd0": {"bregman_update": lambda it: it == 0}, "homog": {"bregman_update": lambda it: it % 4 == 0, "bregman_homogeneous": True},
        "aa2": {"aa_depth": 2}, "aa3r": {"aa_depth": 3, "aa_restart": 4}, "full": {"formulation": "full"},
        "fluxred": {"formulation": "flux_reduced"}, "amg": {"linear_solver": "amg"}, "cg": {"linear_solver": "cg"},
    }[tag]


def route(ctx, sig, what, rp):
    """fail only for STATED clauses; MARK: = model/code tie broken (no failing input claimed); HARNESS: = the harness could not
    process a result; OBS: = outside statement and quantifier, recorded only"""
    if sig.startswith("MARK:"):
        ctx.mark("TIE-BROKEN", {"correspondence": sig[5:], "what": what[:400], "detail": {k: rp[k] for k in list(rp)[:10]} if isinstance(rp, dict) else {}})
    elif sig.startswith("HARNESS:"):
        ctx.mark("HARNESS-EXCEPTION", {"where": sig[8:], "what": what[:400]})
    elif sig.startswith("OBS:"):
        obs = ctx.cov.setdefault("observations_outside_the_statement", [])
        if len(obs) < 30:
            obs.append({"what": sig[4:], "detail": what[:300]})
    else:
        ctx.fail(sig, what, rp)


def image(d, arr, dims):
    return d.Image(np.array(arr, dtype=float), space_dim=np.ndim(arr), dimensions=list(dims), scalar=True)


def solve(d, m1, m2, dims, method, opts, weight=None):
    """distance, info through the unified front-end; exceptions as data."""
    with warnings.catch_warnings():
        warnings.simplefilter("ignore")
        w = None if weight is None else image(d, weight, dims)
        r = call(d.wasserstein_distance, image(d, m1, dims), image(d, m2, dims), method, weight=w, options=opts)
    return r


def quadrature(d, l1, dim):
    if l1 == "RAVIART_THOMAS":
        pts, w = d.quadrature.gauss_reference_cell(dim, "max")
    elif l1 == "CONSTANT_SUBCELL_PROJECTION":
        pts, w = d.quadrature.reference_cell_corners(dim)
    else:
        pts, w = d.quadrature.gauss_reference_cell(dim, 0)
    return np.asarray(pts, dtype=float).reshape(len(w), dim), np.asarray(w, dtype=float)


def recover_flux(cell_flux, shape):
    """flat face fluxes from the returned cell-centre fluxes: centre value = (u_hi + u_lo)/2, u_lo = 0 in the first layer."""
    dim = len(shape)
    out = []
    for a in range(dim):
        comp = np.moveaxis(np.asarray(cell_flux)[..., a], a, 0)
        n = shape[a]
        U = np.zeros((max(n - 1, 0),) + comp.shape[1:])
        prev = np.zeros(comp.shape[1:])
        for k in range(n - 1):
            U[k] = 2 * comp[k] - prev
            prev = U[k]
        out.append(np.moveaxis(U, 0, a).ravel("F"))
    return out


def rt0(U_axes, shape, pt):
    """cell flux (shape + (dim,)) of the RT0 reconstruction at reference point pt (own implementation)."""
    dim = len(shape)
    cf = np.zeros(tuple(shape) + (dim,))
    for a in range(dim):
        fs = list(shape)
        fs[a] -= 1
        Ua = np.asarray(U_axes[a]).reshape(fs, order="F")
        lo = [slice(None)] * dim
        hi = [slice(None)] * dim
        lo[a] = slice(0, shape[a] - 1)
        hi[a] = slice(1, shape[a])
        cf[tuple(lo) + (a,)] += pt[a] * Ua
        cf[tuple(hi) + (a,)] += (1 - pt[a]) * Ua
    return cf


def cost_indep(d, U_axes, shape, hs, l1, weight=None):
    pts, w = quadrature(d, l1, len(shape))  # the implementation's rule; any rule with the checked facts keeps every stated law
    dens = np.zeros(tuple(shape))
    for p, wq in zip(pts, w):
        cf = rt0(U_axes, shape, p)
        if weight is not None:
            cf = cf * np.asarray(weight)[..., None]
        dens += wq * np.sqrt(np.sum(cf ** 2, axis=-1))
    return float(np.prod(hs) * dens.sum())


def divergence(U_axes, shape, hs):
    dim = len(shape)
    div = np.zeros(tuple(shape))
    vol = float(np.prod(hs))
    for a in range(dim):
        fs = list(shape)
        fs[a] -= 1
        Ua = np.asarray(U_axes[a]).reshape(fs, order="F") * (vol / hs[a])
        lo = [slice(None)] * dim
        hi = [slice(None)] * dim
        lo[a] = slice(0, shape[a] - 1)
        hi[a] = slice(1, shape[a])
        div[tuple(lo)] += Ua
        div[tuple(hi)] -= Ua
    return div


def first_moment(m1, m2, hs):
    f = np.asarray(m2) - np.asarray(m1)
    vol = float(np.prod(hs))
    mom = []
    for a in range(f.ndim):
        x = (np.arange(f.shape[a]) + 0.5) * hs[a]
        sh = [1] * f.ndim
        sh[a] = -1
        mom.append(float(np.sum(f * x.reshape(sh)) * vol))
    return float(np.sqrt(np.sum(np.square(mom))))


def closed_form_thin(d, m1, m2, hs, l1, weight_const=1.0):
    """cost of the unique mass-conserving flux on a grid with one non-trivial axis."""
    shape = np.shape(m1)
    axis = int(np.argmax(shape))
    f = (np.asarray(m2) - np.asarray(m1)).ravel("F")
    vol = float(np.prod(hs))
    U = np.cumsum(vol * f)[:-1] / (vol / hs[axis])
    U_axes = [U if a == axis else np.zeros(0) for a in range(len(shape))]
    return weight_const * cost_indep(d, U_axes, shape, hs, l1), U


# ---------------------------------------------------------------------------------------------- worker: one metamorphic case


def gen_pair(rng, shape, kind):
    n = int(np.prod(shape))
    if kind == "compact":
        m1 = np.zeros(n)
        m2 = np.zeros(n)
        k = max(1, n // 3)
        m1[rng.sample(range(n), k)] = [rng.randint(1, 8) / 4 for _ in range(k)]
        m2[rng.sample(range(n), k)] = [rng.randint(1, 8) / 4 for _ in range(k)]
    else:
        m1 = np.array([rng.uniform(0.1, 1.1) for _ in range(n)])
        m2 = np.array([rng.uniform(0.1, 1.1) for _ in range(n)])
    m2 = m2 * (m1.sum() / m2.sum())
    return m1.reshape(shape, order="F"), m2.reshape(shape, order="F")


def bregman_scale_signature(e, both_converged):
    """the known finding is bounded: a larger deviation has a different signature and is a violation"""
    kind = "converged" if both_converged else "unconverged"
    bound = BREGMAN_FIXED_L_BOUND[both_converged]
    pct = f"{int(round(bound * 100))}%"
    return f"C05:scale:bregman:fixed-L:{kind}:dev<={pct}" if e <= bound else f"C05:scale:bregman:fixed-L:{kind}:dev>{pct}"


def run_case(cfg):
    """All clauses for one (grid, pair, method, modes). Returns dict(fails=[(sig, what, replay)], n=#solves, stats)."""
    import darsia as d

    shape, hs = tuple(cfg["shape"]), list(cfg["hs"])
    dims = [s * h for s, h in zip(shape, hs)]
    m1, m2 = np.array(cfg["m1"]), np.array(cfg["m2"])
    method, l1, mob, ni = cfg["method"], cfg["l1"], cfg["mob"], cfg["num_iter"]
    thin = sum(1 for s in shape if s > 1) <= 1
    fails, stats, n = [], {}, 0
    degenerate = False
    base_rp = {k: cfg[k] for k in ("shape", "hs", "m1", "m2", "method", "l1", "mob", "num_iter")}

    def fail(sig, what, **kw):
        fails.append((sig, what, {**base_rp, "clause": sig, **kw}))

    EPS = float(np.finfo(float).eps)

    def go(a, b, L=None, weight=None, reg=1.0):
        # `regularization` (absolute clamp of flux norms, default eps) and Bregman's `L` are dimensional parameters of the
        # iterations: the homogeneity laws of the (possibly unconverged) iterates are joint in (masses, L, regularization)
        nonlocal n
        n += 1
        return solve(d, a, b, dims, method, options(l1, mob, ni, L=L, extra={"regularization": EPS * reg}), weight=weight)

    cls = f"{method}:{mob}:{l1}:dim={len(shape)}"
    r = go(m1, m2, L=1.0)
    if isinstance(r, Raised):
        kind = "thin-grid" if thin else "general"
        fail(f"C05:{kind}:raises:mobility={mob}:{method}", f"wasserstein_distance({method}) on grid {shape} raises {r}: {str(r.exc)[:120]}")
        return dict(fails=fails, n=n, stats=stats)
    dist, info = r
    dist = float(dist)
    scale = max(first_moment(m1, m2, hs), float(np.abs(m2 - m1).sum() * np.prod(hs) * min(hs)), 1e-300)
    # (i) the returned distance is the cost of a mass-conserving flux
    try:
        U_axes = recover_flux(info["flux"], shape)
        allU = np.concatenate([np.ravel(u) for u in U_axes]) if U_axes else np.zeros(0)
        degenerate = bool(allU.size and np.any(np.abs(allU) <= 1e-9 * max(float(np.max(np.abs(allU))), 1e-300)))
        rhs = (m2 - m1) * float(np.prod(hs))
        res = float(np.max(np.abs(divergence(U_axes, shape, hs) - rhs))) / max(float(np.max(np.abs(rhs))), 1e-300)
        stats["max_feas_residual"] = res
        ci = cost_indep(d, U_axes, shape, hs, l1)
        stats["max_tie_err"] = abs(ci - dist) / max(dist, 1e-300)
        if res > TOL_FEAS:
            fail(f"MARK:info-flux-mass-conservation:{method}", f"{cls} grid {shape}: returned flux violates div u = m2 - m1 by {res:.3e} (relative)", residual=res)
        elif abs(ci - dist) > TOL_TIE * max(dist, scale):
            fail(f"MARK:distance-vs-cost-of-info-flux:{method}", f"{cls} grid {shape}: distance {dist!r} but cost of the returned flux is {ci!r}", distance=dist, cost=ci)
    except Exception as e:  # noqa: BLE001
        fail(f"HARNESS:info-flux:{method}", f"{cls}: cannot use info['flux']: {type(e).__name__}: {e}")
    # (ii) first-moment bound
    fm = first_moment(m1, m2, hs)
    if dist < fm * (1 - 1e-9) - 1e-14:
        fail(f"C05:first-moment-bound:{method}", f"{cls} grid {shape}: distance {dist!r} < displacement of the first moment {fm!r}", distance=dist, bound=fm)
    # (iii) thin grids: closed form
    if thin:
        cf, _ = closed_form_thin(d, m1, m2, hs, l1)
        stats["max_thin_err"] = abs(dist - cf) / max(cf, 1e-300)
        if abs(dist - cf) > 1e-8 * max(cf, scale):
            fail(f"C05:thin-grid:mobility={mob}:{method}", f"{cls} grid {shape}: distance {dist!r} but the unique mass-conserving flux costs {cf!r}", distance=dist, closed_form=cf)
    # (iv) identical distributions
    r0 = go(m1, m1, L=1.0)
    if isinstance(r0, Raised):
        fail(f"C05:identical:raises:{method}", f"{cls}: identical distributions raise {r0}")
    elif abs(float(r0[0])) > 1e-12 * float(np.abs(m1).sum() * np.prod(hs) * max(dims)):
        fail(f"C05:identical-not-zero:{method}", f"{cls} grid {shape}: distance of identical distributions is {float(r0[0])!r}", distance=float(r0[0]))
    # (v) swap
    rs = go(m2, m1, L=1.0)
    if isinstance(rs, Raised):
        fail(f"C05:swap:raises:{method}", f"{cls}: swapped pair raises {rs}")
    else:
        e = abs(float(rs[0]) - dist) / max(dist, scale)
        stats["max_swap_err"] = e
        if e > TOL_EXACT:
            fail(f"C05:swap:{method}", f"{cls} grid {shape}: d(m1,m2)={dist!r} but d(m2,m1)={float(rs[0])!r}", distance=dist, swapped=float(rs[0]))
    # (v') the same two image objects used for both directions: nothing may be carried over or modified
    with warnings.catch_warnings():
        warnings.simplefilter("ignore")
        ia, ib = image(d, m1, dims), image(d, m2, dims)
        o = options(l1, mob, ni, L=1.0, extra={"regularization": EPS})
        s1 = call(d.wasserstein_distance, ia, ib, method, options=o)
        s2 = call(d.wasserstein_distance, ib, ia, method, options=o)
    n += 2
    if isinstance(s1, Raised) or isinstance(s2, Raised) or abs(float(s1[0]) - dist) > TOL_EXACT * max(dist, scale) or abs(float(s2[0]) - dist) > TOL_EXACT * max(dist, scale):
        fail(f"C05:call-sequence:{method}", f"{cls} grid {shape}: reused image objects give {s1 if isinstance(s1, Raised) else float(s1[0])!r}, "
             f"{s2 if isinstance(s2, Raised) else float(s2[0])!r}; fresh images give {dist!r}")
    if not (np.array_equal(ia.img, m1) and np.array_equal(ib.img, m2)):
        fail(f"OBS:modifies-input:{method}", f"{cls}: wasserstein_distance changed the caller's images")
    # (vi) scaling of both masses; for Bregman the regularisation parameter L ("approximate flux norm") is scaled along
    for s, tol, tag in ((cfg["pow2"], TOL_EXACT, "pow2"), (cfg["gen"], TOL_GEN_BREGMAN if method == "bregman" else TOL_GEN, "generic")):
        rr = go(s * m1, s * m2, L=s if method == "bregman" else 1.0, reg=s)
        if isinstance(rr, Raised):
            fail(f"C05:scale:raises:{method}", f"{cls}: scaled pair raises {rr}")
            continue
        e = abs(float(rr[0]) / s - dist) / max(dist, scale)
        if degenerate:
            # a face flux of the iterate vanishes (compact / dyadic data): mobility weights 1/regularization, condition ~1e16; the two
            # runs pivot differently and agree only to the conditioning (same input class as the thin degenerate-mobility finding)
            stats[f"max_scale_{tag}_degenerate_err"] = e
            if e > tol:
                fail(f"C05:scale:degenerate-mobility:{method}" if e <= 0.05 else f"C05:scale:degenerate-mobility:{method}:gross(dev>5%)",
                     f"{cls} grid {shape}: iterate with a vanishing face flux: d(s m1, s m2)/s = {float(rr[0]) / s!r} for s={s!r} but d(m1,m2)={dist!r} (relative {e:.3g})", distance=dist, s=s)
            continue
        stats[f"max_scale_{tag}_err"] = e
        if e > tol:
            fail(f"C05:scale:{tag}:{method}", f"{cls} grid {shape}: d(s m1, s m2)/s = {float(rr[0]) / s!r} for s={s!r} but d(m1,m2)={dist!r}", distance=dist, s=s, scaled=float(rr[0]))
    # (vi') the statement as written: ONLY the masses are scaled, every solver parameter stays at its value
    if cfg.get("fixedL"):
        s = cfg["pow2"]
        rr = go(s * m1, s * m2, L=1.0, reg=1.0)
        if isinstance(rr, Raised):
            fail(f"C05:scale:mass-only:raises:{method}", f"{cls}: scaled pair raises {rr}")
        else:
            e = abs(float(rr[0]) / s - dist) / max(dist, scale)
            both = bool(info.get("converged")) and bool(rr[1].get("converged"))
            if method == "newton":
                # Newton's regularisation is relative except for the absolute clamp `regularization` (default eps)
                stats["max_scale_massonly_newton_err"] = e
                if e > TOL_MASSONLY_NEWTON:
                    fail("C05:scale:mass-only:newton", f"{cls} grid {shape}: d(s m1, s m2)/s = {float(rr[0]) / s!r} for s={s!r} but d(m1,m2)={dist!r} "
                         f"(all solver parameters fixed)", distance=dist, s=s, scaled=float(rr[0]))
            else:
                stats["max_scale_fixedL_err" + ("_converged" if both else "")] = e
                if e > TOL_GEN and not thin:
                    fail(bregman_scale_signature(e, both), f"{cls} grid {shape}: with fixed L=1, d(s m1, s m2)/s = {float(rr[0]) / s!r} for s={s!r} but "
                         f"d(m1,m2)={dist!r} (relative deviation {e:.3g}, converged={info.get('converged')}/{rr[1].get('converged')})", distance=dist, s=s, scaled=float(rr[0]))
                elif e > 1e-8 and thin:
                    fail("C05:scale:bregman:fixed-L:thin", f"{cls} thin grid {shape}: mass-only scaling deviates by {e:.3g} although the flux is unique", distance=dist, s=s)
    # (vii) constant weight
    k = cfg["weight"]
    rw = go(m1, m2, L=1.0, weight=k * np.ones(shape), reg=k)
    if isinstance(rw, Raised):
        fail(f"C05:weight:raises:{method}", f"{cls}: constant weight raises {rw}: {str(rw.exc)[:100]}")
    else:
        e = abs(float(rw[0]) / k - dist) / max(dist, scale)
        stats["max_weight_err"] = e
        if e > TOL_GEN:
            fail(f"C05:weight:{method}", f"{cls} grid {shape}: constant weight {k!r}: distance {float(rw[0])!r} != {k!r} * {dist!r}", distance=dist, k=k, weighted=float(rw[0]))
    # (vii') the clause as written: ONLY the constant cell weight changes, every solver option (regularization, L) stays fixed
    if cfg.get("fixedL") or thin:
        rwo = go(m1, m2, L=1.0, weight=k * np.ones(shape), reg=1.0)
        if isinstance(rwo, Raised):
            fail(f"C05:weight-only:raises:{method}", f"{cls}: constant weight raises {rwo}")
        else:
            e = abs(float(rwo[0]) / k - dist) / max(dist, scale)
            stats[f"max_weight_only_{method}_err"] = e
            if e > TOL_MASSONLY_NEWTON:
                fail(f"C05:weight-only:{method}", f"{cls} grid {shape}: constant weight {k!r} with all solver options fixed: distance {float(rwo[0])!r} != {k!r} * {dist!r} "
                     f"(relative deviation {e:.3g})", distance=dist, k=k, weighted=float(rwo[0]))
    # (viii) front-end returns what the back-end returns
    try:
        from darsia.measure import wasserstein as W

        cl = {"newton": W.WassersteinDistanceNewton, "bregman": W.WassersteinDistanceBregman}[method]
        with warnings.catch_warnings():
            warnings.simplefilter("ignore")
            im1, im2 = image(d, m1, dims), image(d, m2, dims)
            be = call(lambda: cl(d.generate_grid(im1), None, options(l1, mob, ni, L=1.0, extra={"regularization": EPS}))(im1, im2))
        n += 1
        if isinstance(be, Raised):
            fail(f"MARK:frontend-vs-backend-construction:{method}", f"{cls}: the back-end could not be built / called the way the harness does: {be}: {str(be.exc)[:120]}")
        elif abs(float(be[0]) - dist) > TOL_EXACT * max(dist, scale):
            fail(f"C05:frontend!=backend:{method}", f"{cls}: front-end {dist!r}, back-end {be if isinstance(be, Raised) else float(be[0])!r}")
    except (ImportError, AttributeError, KeyError) as e:
        stats["backend_check_skipped"] = 1.0
        skipped = f"{type(e).__name__}: {e}"
        return dict(fails=fails, n=n, stats=stats, skipped_backend=skipped)
    return dict(fails=fails, n=n, stats=stats)


def run_case_safe(cfg):
    try:
        return run_case(cfg)
    except Exception as e:  # noqa: BLE001
        import traceback

        return dict(fails=[(f"HARNESS:run_case:{cfg['method']}", f"{type(e).__name__}: {e} :: {traceback.format_exc()[-400:]}", dict(cfg))], n=0, stats={})


# ---------------------------------------------------------------------------------------------- dispatch tabulation (G1)


def tabulate_dispatch(d):
    t = {}
    try:
        from darsia.measure import wasserstein as W
    except Exception as e:  # noqa: BLE001
        return {k: Raised(e) for k in METHODS}
    saved = {}
    hit = []

    def spy(name):
        def factory(*a, **k):
            hit.append(name)
            return lambda m1, m2: 0.0
        return factory

    try:
        for mod, attr, name in ((W, "WassersteinDistanceNewton", "newton"), (W, "WassersteinDistanceBregman", "bregman"), (d, "EMD", "emd")):
            if hasattr(mod, attr):
                saved[(mod, attr)] = getattr(mod, attr)
                setattr(mod, attr, spy(name))
        img = image(d, np.ones((2, 2)), [1.0, 1.0])
        for key, arg in METHODS.items():
            hit.clear()
            r = call(d.wasserstein_distance, img, img, arg)
            t[key] = r if isinstance(r, Raised) else (hit[0] if len(hit) == 1 else Raised(ValueError("no unique back-end")))
    finally:
        for (mod, attr), v in saved.items():
            setattr(mod, attr, v)
    return t


def emit_dispatch(t):
    L = ["import DarsiaModel.Basic", "namespace Darsia.Gen.Transport", "open Darsia", "",
         "/-- spellings of the `method` argument of `darsia.wasserstein_distance` that are tabulated -/",
         "inductive Method", "  | " + " | ".join(METHODS), "  deriving DecidableEq, Repr", "",
         "def Method.all : List Method := [" + ", ".join("." + k for k in METHODS) + "]", "",
         "/-- back-end object the front-end calls -/", "inductive Backend", "  | newton | bregman | emd", "  deriving DecidableEq, Repr", "",
         "def dispatch : Method → Except Err Backend"]
    for k in METHODS:
        v = t[k]
        L.append(f"  | .{k} => " + (f"(.error .{v.cls})" if isinstance(v, Raised) else f"(.ok .{v})"))
    L += ["", "end Darsia.Gen.Transport"]
    return "\n".join(L) + "\n"


# ---------------------------------------------------------------------------------------------- quadrature rules used by the cost


def own_rule(l1, dim):
    """the two rational rules, defined here independently of the implementation"""
    if l1 == "CONSTANT_SUBCELL_PROJECTION":
        pts = np.array(list(itertools.product((0.0, 1.0), repeat=dim)), dtype=float)
        return pts, np.full(len(pts), 0.5 ** dim)
    if l1 == "CONSTANT_CELL_PROJECTION":
        return np.full((1, dim), 0.5), np.ones(1)
    return None


def gauss_legendre_cell(n, dim):
    """independent n-point Gauss-Legendre tensor rule on the unit cell (numpy's leggauss)"""
    x, w = np.polynomial.legendre.leggauss(n)
    x, w = (x + 1) / 2, w / 2
    pts = np.array(list(itertools.product(x, repeat=dim)), dtype=float)
    wts = np.array([float(np.prod(c)) for c in itertools.product(w, repeat=dim)])
    return pts, wts


def corner_rule_tie(ctx, d):
    """the model's corner rule (cornerPt / cornerW) is the implementation's reference_cell_corners as a set of (node, weight)"""
    lines = [f"cornerrule {dim}" for dim in (1, 2, 3)]
    got = ctx.model(lines)
    bad = 0
    for dim, m in zip((1, 2, 3), got):
        try:
            mod = sorted(tuple(float(frac(x)) for x in part.replace(":", " ").split()) for part in m.split("|"))
        except Exception:  # noqa: BLE001
            mod = None
        r = call(quadrature, d, "CONSTANT_SUBCELL_PROJECTION", dim)
        imp = None if isinstance(r, Raised) else sorted(tuple(float(x) for x in list(p) + [w]) for p, w in zip(r[0], r[1]))
        if mod is None or imp is None or mod != imp:
            bad += 1
            first = (f"cornerrule {dim}", m, str(imp))
    ctx.cov.setdefault("correspondence", {})["corner-rule(model = implementation as a set)"] = {"cases": 3, "disagreements": bad}
    if bad:
        ctx.mark("CORR-BROKEN", {"correspondence": "corner-rule", "request": first[0], "model": first[1], "impl": first[2]})


def rule_facts_oracle(ctx, d):
    """hypotheses of first_moment_bound / potential_lower_bound (CellRuleFacts) on the rules the implementation returns:
    non-negative weights, total weight 1, nodes in the unit cell, first moments 1/2 - for every L1 mode and dimension."""
    for l1 in L1:
        for dim in (1, 2, 3):
            ctx.count(("rule-facts", l1, dim))
            r = call(quadrature, d, l1, dim)
            rp = {"l1": l1, "dim": dim}
            if isinstance(r, Raised):
                ctx.fail(f"C05:quadrature-rule:raises:{l1}:dim={dim}", f"quadrature rule of {l1} in {dim}-D raises {r}", rp)
                continue
            pts, w = r
            bad = None
            if len(pts) != len(w) or len(w) == 0:
                bad = f"{len(pts)} points but {len(w)} weights"
            elif np.any(w < 0):
                bad = f"negative weight {float(w.min())!r}"
            elif abs(float(w.sum()) - 1) > 1e-13:
                bad = f"weights sum to {float(w.sum())!r}, not 1"
            elif np.any(pts < -1e-15) or np.any(pts > 1 + 1e-15):
                bad = "a node lies outside the reference cell"
            elif np.max(np.abs((w[:, None] * pts).sum(axis=0) - 0.5)) > 1e-13:
                bad = f"first moments {(w[:, None] * pts).sum(axis=0).tolist()} are not 1/2 (linears are not integrated exactly)"
            if bad:
                ctx.fail(f"C05:quadrature-rule:{l1}:dim={dim}", f"the quadrature rule of l1_mode {l1} in {dim}-D violates the hypotheses of the cost bounds: {bad}",
                         {**rp, "weights": np.asarray(w).tolist(), "points": np.asarray(pts).tolist()})
                continue
            if l1 == "RAVIART_THOMAS":
                # "exact integration of RT0": an n-point Gauss-Legendre tensor rule (n read off the number of nodes) - every node
                # and weight against numpy's independent table, as a set
                n = int(round(len(w) ** (1.0 / dim)))
                ok = n ** dim == len(w)
                if ok:
                    gp, gw = gauss_legendre_cell(n, dim)
                    a = np.array(sorted(map(tuple, np.column_stack([pts, w]).tolist())))
                    b = np.array(sorted(map(tuple, np.column_stack([gp, gw]).tolist())))
                    ok = a.shape == b.shape and bool(np.max(np.abs(np.sort(a.view(), axis=0) - np.sort(b.view(), axis=0))) < 1e-13) and \
                        all(np.min(np.max(np.abs(b - row), axis=1)) < 1e-13 for row in a)
                if not ok:
                    route(ctx, f"MARK:quadrature-rule-identity:{l1}:dim={dim}", f"l1_mode {l1} in {dim}-D does not use a Gauss-Legendre tensor rule on the unit cell "
                             f"({len(w)} nodes): the cost of a flux that changes sign inside a cell is integrated with another rule",
                             {**rp, "weights": np.asarray(w).tolist(), "points": np.asarray(pts).tolist()})
                continue
            own = own_rule(l1, dim)
            if own is not None:
                # same rule up to the order of the nodes
                a = sorted(map(tuple, np.round(np.column_stack([pts, w]), 14).tolist()))
                b = sorted(map(tuple, np.round(np.column_stack([own[0], own[1]]), 14).tolist()))
                if a != b:
                    route(ctx, f"MARK:quadrature-rule-identity:{l1}:dim={dim}", f"l1_mode {l1} in {dim}-D does not use the {'corner' if 'SUBCELL' in l1 else 'midpoint'} rule of the unit cell",
                             {**rp, "weights": np.asarray(w).tolist(), "points": np.asarray(pts).tolist()})


# ---------------------------------------------------------------------------------------------- EMD oracle


def emd_oracle(ctx, d):
    rng = ctx.rng
    e = call(d.EMD)
    if isinstance(e, Raised):
        ctx.fail("C05:EMD:ctor", f"darsia.EMD() raises {e}", {})
        return
    lines, vals = [], []
    for _ in range(ctx.pick(12, 60)):
        rows, cols = rng.randint(2, 7), rng.randint(2, 7)
        dy, dx = rng.choice((0.25, 0.5, 1.0, 2.0, 0.3, 1.7)), rng.choice((0.25, 0.5, 1.0, 2.0, 0.7))
        dims = [rows * dy, cols * dx]
        r1, c1, r2, c2 = rng.randrange(rows), rng.randrange(cols), rng.randrange(rows), rng.randrange(cols)
        v = rng.choice((0.5, 1.0, 3.0, 2.5))
        a, b = np.zeros((rows, cols)), np.zeros((rows, cols))
        a[r1, c1] = v
        b[r2, c2] = v
        ctx.count(("emd-single", rows, cols, dy, dx, r1, c1, r2, c2, v), nontrivial=(r1, c1) != (r2, c2))
        got = call(e, image(d, a, dims), image(d, b, dims))
        rp = {"rows": rows, "cols": cols, "dy": dy, "dx": dx, "from": [r1, c1], "to": [r2, c2], "value": v}
        if isinstance(got, Raised):
            ctx.fail("C05:EMD:raises", f"EMD single-cell move raises {got}", rp)
            continue
        # model value (square) from the Lean driver; voxel sizes as the exact rationals of the floats
        lines.append(f"emd {fmt(v)} {fmt(dims[0] / rows)} {fmt(dims[1] / cols)} {r2 - r1} {c2 - c1}")
        vals.append((float(got), rp))
        want = v * dy * dx * math.hypot((c2 - c1) * dx, (r2 - r1) * dy)
        if abs(float(got) - want) > 1e-5 * max(want, 1e-12) + 1e-12:
            ctx.fail("C05:EMD:single-move", f"EMD of moving {v} from {(r1, c1)} to {(r2, c2)} (voxel {dy} x {dx}) is {float(got)!r}, mass x distance = {want!r}", {**rp, "observed": float(got), "required": want})
        back = call(e, image(d, b, dims), image(d, a, dims))
        if isinstance(back, Raised) or abs(float(back) - float(got)) > 1e-5 * max(want, 1e-12) + 1e-12:
            ctx.fail("C05:EMD:swap", f"EMD not symmetric: {float(got)!r} vs {back!r}", rp)
    got = ctx.model(lines)
    bad = 0
    for line, m, (val, rp) in zip(lines, got, vals):
        try:
            sq = float(frac(m))
        except Exception:  # noqa: BLE001
            sq = float("nan")
        if not abs(val - math.sqrt(sq)) <= 1e-5 * max(math.sqrt(sq), 1e-12) + 1e-12:
            bad += 1
            first = (line, m, repr(val))
    ctx.cov.setdefault("correspondence", {})["emd-single-move(float32 signature, rel 1e-5)"] = {"cases": len(lines), "disagreements": bad}
    if bad:
        ctx.mark("CORR-BROKEN", {"correspondence": "emd-single-move", "request": first[0], "model_square": first[1], "impl": first[2], "n_diffs": bad})
    # signature construction of EMD.__call__ (normalise by the sum, rows [weight, col*del_x, row*del_y] in row-major order,
    # del_y, del_x = voxel_size) against the model `sigOf`, exactly, on dyadic images whose sum is a power of two
    slines, simpl = [], []
    slines2, simpl2, missing2 = [], [], []
    missing = 0
    for _ in range(ctx.pick(6, 30)):
        rows, cols = rng.randint(1, 4), rng.randint(1, 4)
        dy, dx = rng.choice((0.25, 0.5, 1.0, 2.0, 1.5)), rng.choice((0.25, 0.5, 1.0, 0.75))
        a = np.array([rng.randint(0, 4) / 8 for _ in range(rows * cols)])  # at most 16 pixels of at most 1/2
        a[0] += 8.0 - a.sum()  # total 8: every weight a/8 is exact in float32
        img = image(d, a.reshape(rows, cols), [rows * dy, cols * dx])
        try:
            sig = e._img_to_sig(e._normalize(e._preprocess(img)), dx=tuple(img.voxel_size), time_num=1)[0]
            simpl.append(" | ".join(" ".join(fmt(float(x)) for x in row) for row in np.asarray(sig, dtype=float)))
        except AttributeError:
            missing += 1
            continue
        except Exception as ex:  # noqa: BLE001
            simpl.append(repr(Raised(ex)))
        slines.append(f"sig {rows} {cols} {fmt(dy)} {fmt(dx)} {flist(a)}")
    if slines:
        ctx.correspond("emd-signature-construction", slines, simpl)
    if missing:
        ctx.notes.append(f"EMD._img_to_sig/_normalize/_preprocess not available in {missing} cases: signature construction NOT tied")
        ctx.log("NOTE EMD signature helpers missing: signature construction not tied")
    # space-time images (series=True): one distance per time slice, each equal to the distance of that slice on its own; the
    # signature of slice i must be built from slice i (also compared with the model, per slice)
    def series_image(stack, dims):
        return d.Image(np.stack(stack, axis=-1), space_dim=2, dimensions=list(dims), scalar=True, series=True, time=list(range(len(stack))))

    for _ in range(ctx.pick(4, 20)):
        rows, cols, T = rng.randint(2, 4), rng.randint(2, 4), rng.randint(2, 4)
        dy, dx = rng.choice((0.5, 1.0, 0.25)), rng.choice((0.5, 2.0, 0.75))
        dims = [rows * dy, cols * dx]
        pairs = []
        for t in range(T):
            if t == 0:  # a single-cell move in the first slice
                a, b = np.zeros((rows, cols)), np.zeros((rows, cols))
                a[rng.randrange(rows), rng.randrange(cols)] = 2.0
                b[rng.randrange(rows), rng.randrange(cols)] = 2.0
            else:
                a = np.array([rng.randint(0, 4) / 8 for _ in range(rows * cols)]).reshape(rows, cols)
                b = np.array([rng.randint(0, 4) / 8 for _ in range(rows * cols)]).reshape(rows, cols)
                a[0, 0] += 8.0 - a.sum()
                b[-1, -1] += 8.0 - b.sum()
            pairs.append((a, b))
        ctx.count(("emd-series", rows, cols, T, dy, dx, pairs[1][0].tobytes()))
        rp = {"rows": rows, "cols": cols, "T": T, "hs": [dy, dx], "slices_1": [p[0].tolist() for p in pairs], "slices_2": [p[1].tolist() for p in pairs]}
        s1, s2 = call(series_image, [p[0] for p in pairs], dims), call(series_image, [p[1] for p in pairs], dims)
        if isinstance(s1, Raised) or isinstance(s2, Raised):
            route(ctx, "OBS:EMD-series-Image-raises", f"series image raises {s1 if isinstance(s1, Raised) else s2}", rp)
            continue
        got = call(e, s1, s2)
        single = [call(e, image(d, a, dims), image(d, b, dims)) for a, b in pairs]
        if isinstance(got, Raised) or any(isinstance(v, Raised) for v in single):
            route(ctx, "MARK:EMD-series-raises", f"EMD on a series of {T} slices: {got if isinstance(got, Raised) else single}", rp)
        else:
            gv = np.atleast_1d(np.asarray(got, dtype=float))
            sv = np.array([float(v) for v in single])
            if gv.shape != sv.shape or np.any(np.abs(gv - sv) > 1e-4 * np.maximum(sv, 1e-12) + 1e-12):
                route(ctx, "MARK:EMD-series-per-slice", f"EMD of a space-time image returns {gv.tolist()} but its time slices on their own give {sv.tolist()}", {**rp, "observed": gv.tolist(), "required": sv.tolist()})
        try:
            sig = e._img_to_sig(e._normalize(e._preprocess(s1)), dx=tuple(s1.voxel_size), time_num=T)
            for t in range(T):
                a = pairs[t][0]
                slines2.append(f"sig {rows} {cols} {fmt(dy)} {fmt(dx)} {flist(a.ravel())}")
                simpl2.append(" | ".join(" ".join(fmt(float(x)) for x in row) for row in np.asarray(sig[t], dtype=float)))
        except AttributeError:
            missing2.append(1)
        except Exception as ex:  # noqa: BLE001
            slines2.append(f"sig {rows} {cols} {fmt(dy)} {fmt(dx)} {flist(pairs[0][0].ravel())}")
            simpl2.append(repr(Raised(ex)))
    if slines2:
        ctx.correspond("emd-signature-construction-series", slines2, simpl2)
    if missing2:
        ctx.notes.append("EMD signature helpers missing: series signature construction NOT tied")
        ctx.log("NOTE EMD signature helpers missing: series signature construction not tied")
    # general pairs: symmetry, scaling, first-moment bound
    for _ in range(ctx.pick(8, 40)):
        rows, cols = rng.randint(2, 5), rng.randint(2, 5)
        dy, dx = rng.choice((0.5, 1.0, 0.3)), rng.choice((0.5, 2.0, 0.7))
        dims = [rows * dy, cols * dx]
        m1, m2 = gen_pair(rng, (rows, cols), rng.choice(("positive", "compact")))
        ctx.count(("emd-pair", rows, cols, dy, dx, m1.tobytes()))
        rp = {"shape": [rows, cols], "hs": [dy, dx], "m1": m1.tolist(), "m2": m2.tolist()}
        g = call(e, image(d, m1, dims), image(d, m2, dims))
        if isinstance(g, Raised):
            ctx.fail("C05:EMD:raises", f"EMD raises {g}", rp)
            continue
        g = float(g)
        sc = max(g, 1e-12)
        # call sequence on the SAME image objects (also through the unified front-end): values must not depend on earlier
        # calls and the caller's images must be left as they were
        ia, ib = image(d, m1, dims), image(d, m2, dims)
        seqv = [call(e, ia, ib), call(e, ib, ia), call(d.wasserstein_distance, ia, ib, "cv2.emd"), call(e, ia, ib)]
        if any(isinstance(v, Raised) for v in seqv) or any(abs(float(v) - g) > 1e-4 * sc for v in seqv):
            ctx.fail("C05:EMD:call-sequence", f"EMD on reused image objects: emd(a,b), emd(b,a), front-end(a,b), emd(a,b) = {[v if isinstance(v, Raised) else float(v) for v in seqv]!r} "
                     f"but a fresh pair gives {g!r}", rp)
        if not (np.array_equal(ia.img, m1) and np.array_equal(ib.img, m2)):
            route(ctx, "OBS:EMD-modifies-input", f"EMD.__call__ changed the caller's images (sum {float(np.sum(ia.img))!r}, was {float(m1.sum())!r})", rp)
        # the `preprocess` hook: an identity routine and one returning a copy must not change the value (also via the front-end)
        pv = [call(call(d.EMD, lambda im: im), image(d, m1, dims), image(d, m2, dims)),
              call(d.wasserstein_distance, image(d, m1, dims), image(d, m2, dims), "cv2.emd", preprocess=lambda im: im.copy())]
        if any(isinstance(v, Raised) for v in pv) or any(abs(float(v) - g) > 1e-4 * sc for v in pv):
            route(ctx, "OBS:EMD-preprocess", f"EMD with an identity preprocess routine gives {[v if isinstance(v, Raised) else float(v) for v in pv]!r}, without {g!r}", rp)
        b = call(e, image(d, m2, dims), image(d, m1, dims))
        s = rng.choice((2.0, 8.0, 3.7))
        gs = call(e, image(d, s * m1, dims), image(d, s * m2, dims))
        z = call(e, image(d, m1, dims), image(d, m1, dims))
        fm = first_moment(m1, m2, [dy, dx])
        if isinstance(b, Raised) or abs(float(b) - g) > 1e-4 * sc:
            ctx.fail("C05:EMD:swap", f"EMD(m1,m2)={g!r} but EMD(m2,m1)={b!r}", rp)
        if isinstance(gs, Raised) or abs(float(gs) / s - g) > 1e-4 * sc:
            ctx.fail("C05:EMD:scale", f"EMD(s m1,s m2)/s={gs!r}/{s} but EMD(m1,m2)={g!r}", {**rp, "s": s})
        if isinstance(z, Raised) or abs(float(z)) > 1e-6 * float(m1.sum() * dy * dx * max(dims)):
            ctx.fail("C05:EMD:identical-not-zero", f"EMD(m1,m1)={z!r}", rp)
        if g < fm * (1 - 1e-4) - 1e-12:
            ctx.fail("C05:EMD:first-moment-bound", f"EMD {g!r} < first-moment displacement {fm!r}", {**rp, "bound": fm})


# ---------------------------------------------------------------------------------------------- run


def thin_case(args):
    """worker: one real solve on a thin grid (exceptions as data)."""
    import darsia as d

    shape, hs, m1, m2, method, mob, l1, var = args
    dims = [s * h for s, h in zip(shape, hs)]
    r = solve(d, np.array(m1), np.array(m2), dims, method, options(l1, mob, 100, L=1.0, extra=variant_options(var)))
    if isinstance(r, Raised):
        return ("raised", repr(r), str(r.exc)[:120])
    try:
        return ("ok", float(r[0]), [u.tolist() for u in recover_flux(r[1]["flux"], tuple(shape))])
    except Exception as e:  # noqa: BLE001
        return ("raised", "!Other", f"info['flux'] unusable: {type(e).__name__}: {e}")


def thin_correspondence(ctx, d):
    """Lean model (exact rationals: prefix-sum flux, its feasibility, its exact cost) vs the real solvers on 1-D and thin
    2-D/3-D grids, every method x mobility cycled, the two L1 modes with rational quadrature nodes."""
    rng = ctx.rng
    combos = list(itertools.product(("newton", "bregman"), MOB, L1[1:]))
    rng.shuffle(combos)
    nmax = ctx.pick(14, 40)
    cases = []
    forms = [lambda n: (n,), lambda n: (n, 1), lambda n: (1, n), lambda n: (n, 1, 1), lambda n: (1, n, 1), lambda n: (1, 1, n)]
    # thorough: EVERY size 2..40 once (grid form, method, mobility, L1 mode and option variant rotate), then random ones
    sizes = list(range(2, 41)) if ctx.big else []
    for i in range(ctx.pick(18, 39 + 60)):
        n = sizes[i] if i < len(sizes) else (rng.choice((2, 3, nmax)) if i % 5 == 0 else rng.randint(2, nmax))
        shape = forms[i % len(forms)](n)
        dim = len(shape)
        a = shape.index(n)
        hs = [rng.choice((0.25, 0.5, 1.0, 2.0, 0.75)) for _ in range(dim)]
        m1 = np.array([rng.randint(0 if i % 4 == 0 else 1, 16) / 8 for _ in range(n)])
        m2 = np.array([rng.randint(0 if i % 4 == 0 else 1, 16) / 8 for _ in range(n)])
        m1[0] += 0.125
        m2[-1] += 0.125
        diff = float(m1.sum() - m2.sum())
        if diff >= 0:
            m2[-1] += diff
        else:
            m1[-1] -= diff
        f = [frac(b) - frac(x) for x, b in zip(m1, m2)]
        if sum(f) != 0:
            continue
        method, mob, l1 = combos[i % len(combos)]
        pts, w = quadrature(d, l1, dim)  # the implementation's own rule (its facts are checked by rule_facts_oracle; rational for these two modes)
        req = f"thin {dim} {' '.join(map(str, shape))} {flist(hs)} {a} {flist(w)} {flist(pts.ravel())} {flist(f)}"
        cases.append(dict(shape=list(shape), hs=hs, m1=m1.reshape(shape, order="F").tolist(), m2=m2.reshape(shape, order="F").tolist(),
                          method=method, mob=mob, l1=l1, a=a, req=req, var=VARIANTS[method][i % len(VARIANTS[method])]))
    ctx.cov["thin_sizes_enumerated"] = sorted(set(max(c["shape"]) for c in cases))
    with mp.get_context("fork").Pool(min(16, max(2, mp.cpu_count()))) as pool:
        res = pool.map(thin_case, [(c["shape"], c["hs"], c["m1"], c["m2"], c["method"], c["mob"], c["l1"], c["var"]) for c in cases], chunksize=1)
    model = ctx.model([c["req"] for c in cases])
    bad = 0
    worst = 0.0
    degenerate_seen = []
    for c, r, m in zip(cases, res, model):
        ctx.count(("thin", c["req"], c["method"], c["mob"]))
        rp = {k: c[k] for k in ("shape", "hs", "m1", "m2", "method", "mob", "l1")} | {"num_iter": 100, "variant": c["var"]}

        def tfail(sig, what, r_):
            # option variants are outside the quantifier: tie only
            route(ctx, sig if c["var"] == "plain" else "MARK:variant:" + sig, what, r_)

        try:
            flags, fl, cm = [x.strip() for x in m.split("|")]
            want = float(frac(cm))
            uf = [float(frac(x)) for x in fl.split()]
            if flags != "1 1":
                raise ValueError(flags)
        except Exception:  # noqa: BLE001
            bad += 1
            first = (c["req"], m)
            continue
        if r[0] == "raised":
            tfail(f"C05:thin-grid:raises:mobility={c['mob']}:{c['method']}", f"grid {tuple(c['shape'])}: {c['method']} raises {r[1]}: {r[2]}", rp)
            continue
        dist, U_axes = r[1], r[2]
        got_u = np.array(U_axes[c["a"]])
        sl = variant_slack(c["var"])
        # input class "degenerate mobility": the unique flux vanishes EXACTLY on a face (only dyadic data do that). The mobility
        # weights there reach 1/regularization, the linear systems have condition 1e16 and Newton's iterates lose mass conservation
        # (C04's known class `degenerate-mobility`); reported under its own bounded signature
        if any(x == 0.0 for x in uf) and c["method"] == "newton":
            du = float(np.max(np.abs(np.array(uf) - got_u)) / max(1.0, float(np.max(np.abs(uf))))) if len(uf) == len(got_u) and len(uf) else float("inf")
            dd = abs(dist - want) / max(want, 1e-12)
            degenerate_seen.append((c["shape"], c["mob"], c["var"], du, dd))
            if du > sl * 1e-9 or dd > sl * 1e-9:
                bound_ok = du <= 0.50 and dd <= 0.10  # backstops >= 4x the clean-tree maxima (6.6 % / 0.2 %)
                tfail("C05:thin-grid:degenerate-mobility:newton" if bound_ok else "C05:thin-grid:degenerate-mobility:newton:gross(flux>50%|distance>10%)",
                         f"grid {tuple(c['shape'])} {c['l1']} {c['mob']} variant {c['var']}: the unique flux vanishes on a face; Newton returns a flux off by {du:.3g} (relative) and "
                         f"distance {dist!r} instead of {want!r} (relative {dd:.3g})", {**rp, "distance": dist, "closed_form": want})
            continue
        if len(uf) != len(got_u) or (len(uf) and np.max(np.abs(np.array(uf) - got_u)) > sl * 1e-9 * max(1.0, float(np.max(np.abs(uf))))):
            route(ctx, f"MARK:thin-grid-info-flux:{c['method']}", f"grid {tuple(c['shape'])}: returned flux differs from the unique mass-conserving flux (prefix sums)",
                     {**rp, "model_flux": uf, "impl_flux": got_u.tolist()})
        worst = max(worst, abs(dist - want) / max(want, 1e-300))
        if abs(dist - want) > sl * 1e-9 * max(want, 1e-12):
            tfail(f"C05:thin-grid:mobility={c['mob']}:{c['method']}", f"grid {tuple(c['shape'])} {c['l1']}: distance {dist!r} but the unique mass-conserving flux costs {want!r} (exact model value)",
                     {**rp, "distance": dist, "closed_form": want})
    ctx.cov.setdefault("correspondence", {})["thin-unique-flux-and-cost(model exact vs solver, rel 1e-9)"] = {"cases": len(cases), "disagreements": bad, "max_rel_err": worst}
    ctx.cov["thin_degenerate_mobility_newton_cases(shape, mobility, variant, flux dev, distance dev)"] = degenerate_seen[:40]
    if bad:
        ctx.mark("TIE-BROKEN", {"correspondence": "thin-unique-flux-and-cost", "bad_model_lines": bad, "request": first[0], "model": first[1]})


# ---------------------------------------------------------------------------------------------- brute-force minimum with a certificate


def grid_tables(shape):
    """own enumeration of faces: list of (axis, lo cell, hi cell) in DarSIA's numbering (axis-major, Fortran order)."""
    dim = len(shape)
    faces = []
    for a in range(dim):
        fs = list(shape)
        fs[a] -= 1
        for k in range(int(np.prod(fs))):
            idx = list(np.unravel_index(k, fs, order="F")) if int(np.prod(fs)) else []
            lo = int(np.ravel_multi_index(idx, shape, order="F"))
            idx2 = list(idx)
            idx2[a] += 1
            hi = int(np.ravel_multi_index(idx2, shape, order="F"))
            faces.append((a, lo, hi))
    return faces


def split_axes(U, shape):
    out, pos = [], 0
    for a in range(len(shape)):
        fs = list(shape)
        fs[a] -= 1
        n = int(np.prod(fs))
        out.append(np.asarray(U[pos:pos + n]))
        pos += n
    return out


def sphere_dirs(dim):
    if dim == 1:
        return np.array([[1.0], [-1.0]])
    if dim == 2:
        t = np.arange(48) * (2 * np.pi / 48)
        return np.stack([np.cos(t), np.sin(t)], axis=1)
    n = 260
    k = np.arange(n) + 0.5
    phi = np.arccos(1 - 2 * k / n)
    th = np.pi * (1 + 5 ** 0.5) * k
    v = np.stack([np.cos(th) * np.sin(phi), np.sin(th) * np.sin(phi), np.cos(phi)], axis=1)
    return np.concatenate([v, np.eye(3), -np.eye(3)])


def dual_certificate(shape, hs, f):
    """LP for (p, g), then an EXACT rational certificate: p rounded, g rebuilt along grid lines by g_hi = -2 dp/h - g_lo,
    both scaled by a rational rho >= max ||g_c||_2. Returns (LB Fraction, p list, g list cell-major) or None."""
    from scipy.optimize import linprog

    dim, nc = len(shape), int(np.prod(shape))
    faces = grid_tables(shape)
    vol = float(np.prod(hs))
    nv = nc + nc * dim
    A_eq, b_eq = [], []
    for a, lo, hi in faces:
        row = np.zeros(nv)
        row[hi] += vol / hs[a]
        row[lo] -= vol / hs[a]
        row[nc + lo * dim + a] += vol / 2
        row[nc + hi * dim + a] += vol / 2
        A_eq.append(row)
        b_eq.append(0.0)
    row = np.zeros(nv)
    row[0] = 1.0
    A_eq.append(row)
    b_eq.append(0.0)
    dirs = sphere_dirs(dim)
    A_ub = np.zeros((nc * len(dirs), nv))
    for c in range(nc):
        A_ub[c * len(dirs):(c + 1) * len(dirs), nc + c * dim: nc + (c + 1) * dim] = dirs
    cobj = np.zeros(nv)
    cobj[:nc] = -vol * np.asarray(f, dtype=float)
    res = linprog(cobj, A_ub=A_ub, b_ub=np.ones(len(A_ub)), A_eq=np.array(A_eq), b_eq=np.array(b_eq),
                  bounds=[(None, None)] * nc + [(-1.5, 1.5)] * (nc * dim), method="highs")
    if res.status != 0:
        return None
    Q = 2 ** 36
    p = [Fraction(int(round(float(x) * Q)), Q) for x in res.x[:nc]]
    g0 = res.x[nc:].reshape(nc, dim)
    H = [Fraction(float(x)) for x in hs]
    g = [[Fraction(0)] * dim for _ in range(nc)]
    for a in range(dim):
        # grid lines along axis a: start cells have index 0 along a
        for c in range(nc):
            idx = np.unravel_index(c, shape, order="F")
            if idx[a] != 0:
                continue
            cur = Fraction(int(round(float(g0[c, a]) * Q)), Q) if shape[a] > 1 else Fraction(0)
            g[c][a] = cur
            cc = c
            for _ in range(shape[a] - 1):
                idx2 = list(np.unravel_index(cc, shape, order="F"))
                idx2[a] += 1
                nx = int(np.ravel_multi_index(idx2, shape, order="F"))
                cur = -2 * (p[nx] - p[cc]) / H[a] - cur
                g[nx][a] = cur
                cc = nx
    r2 = max(sum(x * x for x in gc) for gc in g)
    rho = Fraction(int(math.ceil(math.sqrt(float(r2)) * (1 + 1e-12) * 2 ** 40)) + 1, 2 ** 40)
    while rho * rho < r2:
        rho += Fraction(1, 2 ** 30)
    if rho <= 0:
        return None
    p = [x / rho for x in p]
    g = [[x / rho for x in gc] for gc in g]
    V = Fraction(1)
    for x in H:
        V *= x
    lb = sum(pc * V * Fraction(float(fc)) for pc, fc in zip(p, f))
    return lb, p, [x for gc in g for x in gc]


def dual_certificate_corners(shape, hs, f):
    """exact dual of the CORNER-rule cost: one dual vector g[c][q] per cell and corner q (coordinate a of corner q = bit a of q).
    LP, then an exact rational certificate: p and g rounded, the (disjoint) face equations repaired exactly by spreading the
    residual over the dual components they contain, components facing the outer boundary set to 0, everything scaled by a
    rational rho >= max ||g[c][q]||_2. Returns (LB Fraction, p list, g list ordered cell, corner, axis) or None."""
    from scipy.optimize import linprog
    from scipy.sparse import lil_matrix

    dim, nc = len(shape), int(np.prod(shape))
    nq = 2 ** dim
    faces = grid_tables(shape)
    vol = float(np.prod(hs))
    nv = nc + nc * nq * dim

    def gi(c, q, a):
        return nc + (c * nq + q) * dim + a

    bit = lambda q, a: (q >> a) & 1  # noqa: E731
    A_eq = lil_matrix((len(faces) + 1, nv))
    members = []
    for k, (a, lo, hi) in enumerate(faces):
        A_eq[k, hi] += vol / hs[a]
        A_eq[k, lo] -= vol / hs[a]
        mem = [(lo, q) for q in range(nq) if bit(q, a) == 1] + [(hi, q) for q in range(nq) if bit(q, a) == 0]
        members.append(mem)
        for (c, q) in mem:
            A_eq[k, gi(c, q, a)] += vol / nq
    A_eq[len(faces), 0] = 1.0
    dirs = sphere_dirs(dim)
    A_ub = lil_matrix((nc * nq * len(dirs), nv))
    for cq in range(nc * nq):
        for j, dvec in enumerate(dirs):
            for a in range(dim):
                if dvec[a] != 0.0:
                    A_ub[cq * len(dirs) + j, nc + cq * dim + a] = dvec[a]
    cobj = np.zeros(nv)
    cobj[:nc] = -vol * np.asarray(f, dtype=float)
    res = linprog(cobj, A_ub=A_ub.tocsr(), b_ub=np.ones(A_ub.shape[0]), A_eq=A_eq.tocsr(), b_eq=np.zeros(len(faces) + 1),
                  bounds=[(None, None)] * nc + [(-1.5, 1.5)] * (nc * nq * dim), method="highs")
    if res.status != 0:
        return None
    Q = 2 ** 36
    p = [Fraction(int(round(float(x) * Q)), Q) for x in res.x[:nc]]
    H = [Fraction(float(x)) for x in hs]
    g = {}
    used = set()
    for k, (a, lo, hi) in enumerate(faces):
        mem = members[k]
        vals = [Fraction(int(round(float(res.x[gi(c, q, a)]) * Q)), Q) for (c, q) in mem]
        # coupling: vol/nq * sum(vals) = -(vol/h_a) (p_hi - p_lo)  <=>  sum(vals) = -nq (p_hi - p_lo) / h_a
        target = -nq * (p[hi] - p[lo]) / H[a]
        corr = (target - sum(vals)) / len(vals)
        for (c, q), v in zip(mem, vals):
            g[(c, q, a)] = v + corr
            used.add((c, q, a))
    gl = [[[g.get((c, q, a), Fraction(0)) for a in range(dim)] for q in range(nq)] for c in range(nc)]
    r2 = max(sum(x * x for x in gq) for gc in gl for gq in gc)
    rho = Fraction(int(math.ceil(math.sqrt(float(r2)) * (1 + 1e-12) * 2 ** 40)) + 1, 2 ** 40)
    while rho * rho < r2:
        rho += Fraction(1, 2 ** 30)
    p = [x / rho for x in p]
    flat = [x / rho for gc in gl for gq in gc for x in gq]
    V = Fraction(1)
    for x in H:
        V *= x
    lb = sum(pc * V * Fraction(float(fc)) for pc, fc in zip(p, f))
    return lb, p, flat


def primal_minimum(d, shape, hs, f, l1, seeds=4):
    """upper bound of the discrete minimum: cycle-space parametrisation + derivative-free / quasi-Newton restarts."""
    from scipy.linalg import null_space
    from scipy.optimize import minimize

    faces = grid_tables(shape)
    nc, nf = int(np.prod(shape)), len(faces)
    vol = float(np.prod(hs))
    D = np.zeros((nc, nf))
    for j, (a, lo, hi) in enumerate(faces):
        D[lo, j] += vol / hs[a]
        D[hi, j] -= vol / hs[a]
    rhs = vol * np.asarray(f, dtype=float)
    U0 = np.linalg.lstsq(D, rhs, rcond=None)[0]
    Z = null_space(D)

    def fun(t):
        return cost_indep(d, split_axes(U0 + Z @ t, shape), shape, hs, l1)

    if Z.shape[1] == 0:
        return fun(np.zeros(0)), 0
    best = fun(np.zeros(Z.shape[1]))
    rs = np.random.RandomState(12345)
    starts = [np.zeros(Z.shape[1])] + [rs.normal(scale=np.abs(U0).max() + 1e-3, size=Z.shape[1]) for _ in range(seeds)]
    for t0 in starts:
        for meth in ("Powell", "BFGS", "Nelder-Mead"):
            try:
                r = minimize(fun, t0, method=meth, options={"maxiter": 4000, "xtol": 1e-10, "ftol": 1e-13} if meth == "Powell" else {"maxiter": 4000})
                t0 = r.x
                best = min(best, float(r.fun))
            except Exception:  # noqa: BLE001
                pass
    return best, Z.shape[1]


def bf_case(cfg):
    """worker: certificate + upper bound + the real solvers (converged and not) for one small grid."""
    import darsia as d

    shape, hs = tuple(cfg["shape"]), list(cfg["hs"])
    dims = [s * h for s, h in zip(shape, hs)]
    m1, m2 = np.array(cfg["m1"]), np.array(cfg["m2"])
    f = (m2 - m1).ravel("F")
    out = dict(fails=[], runs=[], cert=None, ub={}, n=0)
    try:
        cert = dual_certificate(shape, hs, f)
    except Exception as e:  # noqa: BLE001
        cert = None
        out["cert_error"] = f"{type(e).__name__}: {e}"
    if cert is None:
        return out
    lb, p, g = cert
    out["cert"] = dict(lb=str(lb), req=f"cert {len(shape)} {' '.join(map(str, shape))} {flist(hs)} {flist(f)} {flist(p)} {flist(g)}")
    lbf = float(lb)
    # the exact dual of the corner-rule cost (CONSTANT_SUBCELL_PROJECTION): a tighter certified bound for that mode
    lbc = None
    try:
        cc = dual_certificate_corners(shape, hs, f)
        if cc is not None:
            out["certq"] = dict(lb=str(cc[0]), req=f"certq {len(shape)} {' '.join(map(str, shape))} {flist(hs)} {flist(f)} {flist(cc[1])} {flist(cc[2])}")
            lbc = float(cc[0])
    except Exception as e:  # noqa: BLE001
        out["certq_error"] = f"{type(e).__name__}: {e}"
    for l1 in L1:
        try:
            out["ub"][l1] = primal_minimum(d, shape, hs, f, l1, seeds=cfg.get("seeds", 4))[0]
        except Exception as e:  # noqa: BLE001
            out["ub"][l1] = None
    for method, mob, l1, ni, var in cfg["runs"]:
        r = solve(d, m1, m2, dims, method, options(l1, mob, ni, L=1.0, extra=variant_options(var)))
        out["n"] += 1
        rp = {"shape": list(shape), "hs": hs, "m1": m1.tolist(), "m2": m2.tolist(), "method": method, "mob": mob, "l1": l1, "num_iter": ni, "variant": var}
        if isinstance(r, Raised):
            out["fails"].append((f"C05:general:raises:mobility={mob}:{method}:{var}", f"grid {shape}: {method} (options variant {var}) raises {r}: {str(r.exc)[:100]}", rp))
            continue
        dist = float(r[0])
        conv = bool(r[1].get("converged"))
        out["runs"].append((method, mob, l1, ni, dist, conv))
        out.setdefault("variants", set()).add(f"{method}:{var}")
        # the reported distance is the cost of a mass-conserving flux also for these (mostly unconverged) runs
        try:
            U_axes = recover_flux(r[1]["flux"], shape)
            rhs = (m2 - m1) * float(np.prod(hs))
            res = float(np.max(np.abs(divergence(U_axes, shape, hs) - rhs))) / max(float(np.max(np.abs(rhs))), 1e-300)
            ci = cost_indep(d, U_axes, shape, hs, l1)
            out["tie"] = max(out.get("tie", 0.0), abs(ci - dist) / max(dist, 1e-300))
            out["feas"] = max(out.get("feas", 0.0), res)
            if res > TOL_FEAS * variant_slack(var):
                out["fails"].append((f"MARK:info-flux-mass-conservation:{method}", f"{method}:{mob}:{l1} grid {shape} ({ni} iterations): returned flux violates div u = m2 - m1 by {res:.3e}", {**rp, "residual": res}))
            elif abs(ci - dist) > TOL_TIE * variant_slack(var) * max(dist, lbf, 1e-300):
                out["fails"].append((f"MARK:distance-vs-cost-of-info-flux:{method}", f"{method}:{mob}:{l1} grid {shape} ({ni} iterations): distance {dist!r} but cost of the returned flux is {ci!r}", {**rp, "distance": dist, "cost": ci}))
        except Exception as e:  # noqa: BLE001
            out["fails"].append((f"HARNESS:info-flux:{method}", f"cannot use info['flux']: {type(e).__name__}: {e}", rp))
        # from above: a run flagged converged must be near the brute-force minimum of ITS cost functional (upper bound from scipy);
        # the fixed points depend on the mobility mode (observed up to 10 % above the minimum), hence the loose factor
        ub = out["ub"].get(l1)
        if conv and ub:
            out.setdefault("over_ub", {}).setdefault(method, 0.0)
            out["over_ub"][method] = max(out["over_ub"][method], (dist - ub) / ub)
            # observation only: the property says 'never smaller than the minimum', not how far above a converged run may be
        bound, which = (lbc, "corner-rule dual") if (l1 == "CONSTANT_SUBCELL_PROJECTION" and lbc is not None and lbc > lbf) else (lbf, "midpoint dual")
        if dist < bound * (1 - 1e-9) - 1e-14:
            out["fails"].append((f"C05:below-certified-minimum:{method}", f"{method}:{mob}:{l1} grid {shape} ({ni} iterations, converged={r[1].get('converged')}): distance {dist!r} is below the "
                                 f"certified lower bound {bound!r} ({which}) of the discrete minimum", {**rp, "distance": dist, "lower_bound": bound,
                                                                                                        "certificate": (out.get("certq") if which.startswith("corner") else out["cert"])["req"]}))
    # option variants (Anderson, bregman_update, formulation) are outside the quantifier: what they reveal is a tie, not a failing input
    for k, (sg, wh, r_) in enumerate(out["fails"]):
        if isinstance(r_, dict) and r_.get("variant", "plain") != "plain" and not sg.startswith(("MARK:", "HARNESS:", "OBS:")):
            out["fails"][k] = ("MARK:variant:" + sg, wh, r_)
    # Bregman driven to its stopping criteria (looser tolerances, many iterations), masses scaled only
    if cfg.get("bregman_converged"):
        o = options("RAVIART_THOMAS", "CELL_BASED", 2500, L=1.0, extra={"tol_residual": 1e-6, "tol_increment": 1e-6, "tol_distance": 1e-6})
        r1 = solve(d, m1, m2, dims, "bregman", o)
        r4 = solve(d, 4.0 * m1, 4.0 * m2, dims, "bregman", o)
        out["n"] += 2
        rp = {"shape": list(shape), "hs": hs, "m1": m1.tolist(), "m2": m2.tolist(), "method": "bregman", "mob": "CELL_BASED", "l1": "RAVIART_THOMAS", "num_iter": 2500}
        if isinstance(r1, Raised) or isinstance(r4, Raised):
            out["fails"].append(("C05:scale:mass-only:raises:bregman", f"grid {shape}: {r1 if isinstance(r1, Raised) else r4}", rp))
        else:
            both = bool(r1[1].get("converged")) and bool(r4[1].get("converged"))
            e = abs(float(r4[0]) / 4.0 - float(r1[0])) / max(float(r1[0]), 1e-300)
            out["bregman_converged"] = (both, e)
            if e > TOL_GEN:
                out["fails"].append((bregman_scale_signature(e, both), f"bregman:CELL_BASED:RAVIART_THOMAS grid {shape}, tolerances 1e-6, fixed L=1: d(4 m1, 4 m2)/4 = {float(r4[0]) / 4!r} "
                                     f"but d(m1,m2) = {float(r1[0])!r} (relative deviation {e:.3g}, converged={r1[1].get('converged')}/{r4[1].get('converged')})", {**rp, "s": 4.0}))
            for rr, sc in ((r1, 1.0), (r4, 4.0)):
                if float(rr[0]) / sc < lbf * (1 - 1e-9):
                    out["fails"].append(("C05:below-certified-minimum:bregman", f"grid {shape}: converged Bregman distance {float(rr[0]) / sc!r} below the certified bound {lbf!r}", rp))
    return out


def bf_case_safe(cfg):
    try:
        return bf_case(cfg)
    except Exception as e:  # noqa: BLE001
        import traceback

        return dict(fails=[("HARNESS:bf_case", f"{type(e).__name__}: {e} :: {traceback.format_exc()[-300:]}", dict(cfg))], runs=[], cert=None, ub={}, n=0)


def bruteforce(ctx):
    rng = ctx.rng
    small = [(2, 2), (2, 3), (3, 3), (2, 4), (2, 5), (3, 4), (2, 2, 2), (3, 2, 1), (1, 2, 4)]
    cfgs = []
    for i in range(ctx.pick(5, 20)):
        shape = small[i % len(small)] if i < len(small) else rng.choice(small)
        hs = [rng.choice((0.25, 0.5, 1.0, 2.0, 0.3, 1.3)) for _ in shape]
        m1, m2 = gen_pair(rng, shape, rng.choice(("positive", "compact")))
        runs = []
        for method in ("newton", "bregman"):
            vs = VARIANTS[method]
            for j in range(3):
                # option variants cycled so that every one occurs in every run of the check
                runs.append((method, rng.choice(MOB), rng.choice(L1), rng.choice((3, 10, 25)), vs[(3 * i + j) % len(vs)]))
            runs.append((method, rng.choice(MOB), rng.choice(L1), 200, "plain"))
        cfgs.append(dict(shape=list(shape), hs=hs, m1=m1.tolist(), m2=m2.tolist(), runs=runs, seeds=ctx.pick(1, 4), bregman_converged=(i < ctx.pick(2, 6) and int(np.prod(shape)) <= 6)))
    with mp.get_context("fork").Pool(min(16, max(2, mp.cpu_count()))) as pool:
        res = pool.map(bf_case_safe, cfgs, chunksize=1)
    uncertified = [(cfg["shape"], r.get("cert_error", "LP infeasible / not solved")) for cfg, r in zip(cfgs, res) if not r["cert"]]
    uncertq = [(cfg["shape"], r.get("certq_error", "LP infeasible / not solved")) for cfg, r in zip(cfgs, res) if r["cert"] and not r.get("certq")]
    if uncertified or uncertq:
        # without a certificate the clause "never below the true minimum" is not evaluated on that grid: a broken tie, not a pass
        ctx.mark("TIE-BROKEN", {"bruteforce": "no dual certificate for some grids", "midpoint_dual_missing": uncertified[:5], "corner_dual_missing": uncertq[:5],
                                "grids": len(cfgs)})
    reqs = [r["cert"]["req"] for r in res if r["cert"]]
    model = ctx.model(reqs)
    # per-point corner certificates: exact re-check by the Lean model (certRuleOK), value compared as a rational
    qres = [r for r in res if r.get("certq")]
    qmodel = ctx.model([r["certq"]["req"] for r in qres])
    qbad = 0
    corner_gap = 0.0
    for r, m in zip(qres, qmodel):
        want = f"1 {fmt(Fraction(r['certq']['lb']))}"
        if m.strip() != want:
            qbad += 1
            qfirst = (r["certq"]["req"][:300], m, want)
        ub = r["ub"].get("CONSTANT_SUBCELL_PROJECTION")
        lbq = float(Fraction(r["certq"]["lb"]))
        if ub and lbq > 0:
            corner_gap = max(corner_gap, (ub - lbq) / ub)
            if ub < lbq * (1 - 1e-9):
                ctx.mark("TIE-BROKEN", {"bruteforce": "corner-rule upper bound below its certified lower bound (harness inconsistency)", "ub": ub, "lb": lbq})
    ctx.cov.setdefault("correspondence", {})["corner-rule per-point dual certificates(exact check by the Lean model)"] = {"cases": len(qres), "disagreements": qbad,
                                                                                                                      "grids_without_certificate": len([r for r in res if r["cert"] and not r.get("certq")])}
    if qbad:
        ctx.mark("TIE-BROKEN", {"correspondence": "corner dual certificates", "request": qfirst[0], "model": qfirst[1], "expected": qfirst[2], "n_diffs": qbad})
    ctx.cov["corner_rule_max_relative_gap_upper_vs_exact_dual_bound"] = corner_gap
    k = 0
    bad = 0
    gaps, slack = {}, []
    seen_variants = set()
    for cfg, r in zip(cfgs, res):
        ctx.count(("bruteforce", json.dumps(cfg, sort_keys=True)), n=max(1, r["n"]))
        for sig, what, rp in r["fails"]:
            route(ctx, sig, what, rp)
        if not r["cert"]:
            continue
        want = f"1 {fmt(Fraction(r['cert']['lb']))}"
        if model[k].strip() != want:
            bad += 1
            first = (reqs[k][:300], model[k], want)
        k += 1
        lbf = float(Fraction(r["cert"]["lb"]))
        for l1, ub in r["ub"].items():
            if ub is not None and lbf > 0:
                gaps[l1] = max(gaps.get(l1, 0.0), (ub - lbf) / ub)
                if ub < lbf * (1 - 1e-9):
                    ctx.mark("TIE-BROKEN", {"bruteforce": "upper bound below certified lower bound (harness inconsistency)", "shape": cfg["shape"], "l1": l1, "ub": ub, "lb": lbf})
        seen_variants |= r.get("variants", set())
        for (method, mob, l1, ni, dist, conv) in r["runs"]:
            if lbf > 0:
                slack.append((dist - lbf) / lbf)
    ctx.cov.setdefault("correspondence", {})["dual-certificates(exact check by the Lean model)"] = {"cases": len(reqs), "disagreements": bad}
    over = {}
    for r in res:
        for mth, v in r.get("over_ub", {}).items():
            over[mth] = max(over.get(mth, -1.0), v)
    ctx.cov["solver_option_variants_run_on_cyclic_grids"] = sorted(seen_variants)
    ctx.cov["bruteforce"] = {"grids": len(cfgs), "certified": len(reqs), "max_tie_err": max([r.get("tie", 0.0) for r in res] or [0.0]),
                             "max_feas_residual": max([r.get("feas", 0.0) for r in res] or [0.0]),
                             "max_converged_distance_over_scipy_minimum_by_method": over,
                             "bregman_driven_to_convergence(mass-only x4)": [r["bregman_converged"] for r in res if "bregman_converged" in r], "max_relative_gap_upper_vs_certified_lower_bound_by_L1_mode": gaps,
                             "min_relative_slack_distance_over_lower_bound": min(slack) if slack else None, "solver_runs": sum(r["n"] for r in res)}
    if bad:
        ctx.mark("TIE-BROKEN", {"correspondence": "dual-certificates", "request": first[0], "model": first[1], "expected": first[2], "n_diffs": bad})


# ---------------------------------------------------------------------------------------------- homogeneity at extreme scales, default options


def extreme_case(args):
    """worker: one (grid, method, linear back-end) with the back-end's DEFAULT options (no tolerance given) at s = 1 and extreme s"""
    import darsia as d

    shape, hs, m1, m2, method, backend, exps = args
    m1, m2 = np.array(m1), np.array(m2)
    dims = [sh * h for sh, h in zip(shape, hs)]
    out = {}
    for e in [0] + list(exps):
        sc = 2.0 ** e
        r = solve(d, sc * m1, sc * m2, dims, method, {"linear_solver": backend, "return_info": True, "num_iter": 8})
        if isinstance(r, Raised):
            out[e] = ("raised", repr(r), str(r.exc)[:100])
        else:
            out[e] = ("ok", float(r[0]), bool(r[1].get("converged")))
    return out


def extreme_scale_oracle(ctx, d):
    """the scaling clause at extreme magnitudes (2^-30 .. 2^30) for every linear back-end with its default options: the distance
    must be s * W1 (never 0 / non-finite for distinct distributions) and respect the first-moment bound at that scale"""
    rng = ctx.rng
    grids = [(3, 3), (6, 5)] + ([(8, 10), (12, 12), (5, 5, 5), (6, 1)] if ctx.big else [])
    exps = [-26, -20, 20] + ([-30, 30] if ctx.big else [])
    jobs = []
    for shape in grids:
        hs = [rng.choice((0.25, 0.5, 1.0, 2.0)) for _ in shape]
        m1, m2 = gen_pair(rng, shape, "positive")
        for method in ("newton", "bregman"):
            for backend in ("direct", "amg", "cg"):
                jobs.append((list(shape), hs, m1.tolist(), m2.tolist(), method, backend, exps))
    with mp.get_context("fork").Pool(min(16, max(2, mp.cpu_count()))) as pool:
        res = pool.map(extreme_case, jobs, chunksize=1)
    worst = {}
    for (shape, hs, m1, m2, method, backend, _), out in zip(jobs, res):
        rp = {"shape": shape, "hs": hs, "m1": m1, "m2": m2, "method": method, "linear_solver": backend, "options": "defaults"}
        fm = first_moment(np.array(m1), np.array(m2), hs)
        base = out[0]
        ctx.count(("extreme", tuple(shape), method, backend), n=len(out))
        if base[0] != "ok":
            ctx.fail(f"C05:extreme-scale:raises:{backend}:{method}", f"grid {tuple(shape)} default options: {base[1]} {base[2]}", rp)
            continue
        d1 = base[1]
        for e, v in out.items():
            if e == 0:
                continue
            sc = 2.0 ** e
            if v[0] != "ok":
                ctx.fail(f"C05:extreme-scale:raises:{backend}:{method}", f"grid {tuple(shape)} masses x 2^{e}, default options: {v[1]} {v[2]}", {**rp, "exponent": e})
                continue
            dist = v[1]
            if not np.isfinite(dist) or (dist == 0.0 and d1 != 0.0):
                ctx.fail(f"C05:extreme-scale:zero-or-nonfinite:{backend}:{method}", f"grid {tuple(shape)}, linear_solver={backend} (default options), masses x 2^{e}: distance {dist!r} "
                         f"although the distributions differ (distance at scale 1: {d1!r})", {**rp, "exponent": e, "distance": dist})
                continue
            dev = abs(dist / sc - d1) / max(d1, 1e-300)
            key = f"{method}:{backend}:{'small' if e < 0 else 'large'}"
            worst[key] = max(worst.get(key, 0.0), dev)
            if dist < sc * fm * (1 - 1e-5):
                ctx.fail(f"C05:extreme-scale:first-moment-bound:{backend}:{method}", f"grid {tuple(shape)} masses x 2^{e}: distance {dist!r} < first-moment displacement {sc * fm!r}", {**rp, "exponent": e})
            if method == "bregman":
                # default L = 1 is a dimensional parameter: bounded known class (see BREGMAN_FIXED_L_BOUND)
                if dev > TOL_GEN:
                    ctx.fail(bregman_scale_signature(dev, v[2] and base[2]), f"grid {tuple(shape)} bregman/{backend} default options, masses x 2^{e}: d/s = {dist / sc!r} vs {d1!r} "
                             f"(relative deviation {dev:.3g})", {**rp, "exponent": e})
                continue
            if backend != "direct":
                continue  # two inexact linear solves (C08's subject): the deviation is recorded above as an observation only
            if dev > EXTREME_TOL_DIRECT:
                ctx.fail(f"C05:extreme-scale:newton:direct:{'small' if e < 0 else 'large'}-scale", f"grid {tuple(shape)} newton, direct solver, masses x 2^{e}: d/s = {dist / sc!r} but the "
                         f"distance at scale 1 is {d1!r} (relative deviation {dev:.3g})", {**rp, "exponent": e, "distance": dist})
    ctx.cov["extreme_scale_max_relative_deviation(method:backend:small|large)"] = worst


def make_cases(ctx):
    rng = ctx.rng
    cases = []
    general = [(2, 2), (2, 3), (3, 3), (3, 4), (4, 5), (2, 2, 2), (3, 2, 2), (1, 3, 3), (3, 3, 1), (2, 1, 3)]
    if ctx.big:
        general += [(5, 6), (6, 6), (3, 3, 3), (2, 3, 4), (8, 10), (12, 15), (6, 6, 6)]  # up to 216 cells
    thin = [(5,), (9,), (6, 1), (1, 7), (4, 1, 1), (1, 5, 1), (1, 1, 6), (12,), (1, 40), (40, 1)]
    combos = list(itertools.product(("newton", "bregman"), MOB, L1))
    rng.shuffle(combos)
    n_general = ctx.pick(8, 70)
    n_thin = ctx.pick(14, 70)
    for i in range(n_general + n_thin):
        is_thin = i >= n_general
        shape = rng.choice(thin if is_thin else general)
        method, mob, l1 = combos[i % len(combos)]
        dim = len(shape)
        hs = [rng.choice((0.25, 0.5, 1.0, 2.0, 0.3, 1.3)) for _ in range(dim)]
        m1, m2 = gen_pair(rng, shape, rng.choice(("positive", "positive", "compact")))
        big = int(np.prod(shape)) > 40
        cases.append(dict(shape=list(shape), hs=hs, m1=m1.tolist(), m2=m2.tolist(), method=method, l1=l1, mob=mob,
                          num_iter=((12 if int(np.prod(shape)) > 100 else 40) if big else rng.choice((25, 60, 200))) if not is_thin else 60,
                          pow2=rng.choice((0.25, 4.0, 64.0)), gen=rng.choice((3.7, 0.37, 11.0)), weight=rng.choice((2.0, 0.5, 1.5, 3.3)),
                          fixedL=(not is_thin and i % 3 == 0)))
    return cases


def run(ctx):
    import darsia as d

    t = tabulate_dispatch(d)
    ctx.write_gen("TransportDispatch", emit_dispatch(t))
    # the first-moment theorems are about the quadrature tables of C15: re-extract them from the current source with
    # C15's own generator (validated there against the running gauss()); on failure the committed table is kept.
    try:
        from . import c15
        from ..lib.core import REPO

        ex = c15.extract((REPO / "src" / "darsia" / "utils" / "quadrature.py").read_text())
        # the consumer table (which rule each L1 mode sums over) is part of the same generated file
        try:
            l1 = c15.extract_l1((REPO / "src" / "darsia" / "measure" / "wasserstein.py").read_text())
        except Exception:  # noqa: BLE001 - same fallback as C15: keep the committed consumer table
            from ..lib.core import LEAN

            l1 = c15.parse_committed_l1((LEAN / "DarsiaGen" / "QuadratureTables.lean").read_text())
        # emit EXACTLY what C15's own run emits (same helper functions, same arguments), so that both checks
        # regenerate an identical file from an identical tree
        api = c15.tabulate_api(d) if hasattr(c15, "tabulate_api") else None
        ctx.write_gen("QuadratureTables", c15.emit(ex, c15.tabulate_corners(d), l1, api) if api is not None else c15.emit(ex, c15.tabulate_corners(d), l1))
        ctx.cov["quadrature_tables"] = "re-extracted from the current source (C15 generator)"
    except Exception as e:  # noqa: BLE001
        # NOT silent: the theorems are then about the committed table, which may no longer be what the code computes; the
        # rule_facts_oracle below still tests the running rules directly
        ctx.cov["quadrature_tables"] = f"committed table kept ({type(e).__name__}: {str(e)[:120]})"
        ctx.notes.append("QuadratureTables could not be re-extracted from the current source: first-moment / duality theorems refer to the committed table")
        ctx.log("NOTE QuadratureTables not regenerated:", type(e).__name__, str(e)[:160])
    ctx.prove("C05")
    # dispatch table: model (generated) vs implementation, and the statement on the implementation
    lines = [f"dispatch {k}" for k in METHODS]
    ctx.correspond("dispatch(emitter self-check: generated table vs the tabulation it was emitted from)", lines, [repr(t[k]) if isinstance(t[k], Raised) else t[k] for k in METHODS])
    for k, want in (("newton", "newton"), ("bregman", "bregman"), ("cv2emd", "emd"), ("newtonCap", "newton"), ("bregmanUpper", "bregman"), ("cv2emdUpper", "emd")):
        if t[k] != want:
            # the spy intercepts module attributes only and the extra spellings are not part of the statement: tie, no failing input
            route(ctx, f"MARK:dispatch:{k}", f"wasserstein_distance(method={METHODS[k]!r}) reaches {t[k]!r} through the spy, tabulated back-end is {want}", {"method": METHODS[k]})

    rule_facts_oracle(ctx, d)
    extreme_scale_oracle(ctx, d)
    corner_rule_tie(ctx, d)
    thin_correspondence(ctx, d)
    bruteforce(ctx)
    emd_oracle(ctx, d)

    cases = make_cases(ctx)
    with mp.get_context("fork").Pool(min(16, max(2, mp.cpu_count()))) as pool:
        results = pool.map(run_case_safe, cases, chunksize=1)
    agg = {}
    backend_skips = []
    solves = 0
    for cfg, res in zip(cases, results):
        thin = sum(1 for s in cfg["shape"] if s > 1) <= 1
        ctx.count(("case", json.dumps(cfg, sort_keys=True)), n=max(res["n"], 1))
        solves += res["n"]
        for k, v in res["stats"].items():
            agg[k] = max(agg.get(k, 0.0), float(v))
        if res.get("skipped_backend"):
            backend_skips.append(res["skipped_backend"])
        for sig, what, rp in res["fails"]:
            route(ctx, sig, what, rp)
        if len(ctx.cov["samples"]) < 4:
            ctx.sample({"case": {k: cfg[k] for k in ("shape", "hs", "method", "l1", "mob", "num_iter")}, "thin": thin, "stats": res["stats"]})
    if backend_skips:
        # the front-end = back-end clause could not be evaluated: that is a broken tie, not a pass
        ctx.mark("TIE-BROKEN", {"clause": "front-end returns what the back-end returns", "skipped_cases": len(backend_skips), "reason": backend_skips[0]})
    ctx.cov["solver_runs"] = solves
    ctx.cov["measured_max_relative_errors"] = agg
    ctx.cov["tolerances"] = {"swap/pow2/identical": TOL_EXACT, "generic scaling/weight": TOL_GEN, "distance = cost(flux)": TOL_TIE, "mass conservation": TOL_FEAS,
                             "thin closed form": 1e-8, "EMD (float32 signatures)": 1e-5}
    ctx.cov["rule"] = ("seeded cases: (grid general 2-D/3-D or thin/1-D) x method x mobility x L1 mode (all 30 combinations cycled) x random positive/compact equal-mass pair; "
                       "per case: base, identical, swap, x2^k, x generic, fixed-L Bregman (every third), constant weight, back-end; distinct = distinct case configuration")
    ctx.cov["explanation"] = CLAIM["text"]
    ctx.assumptions += ["solver options: direct linear solver, pressure formulation, tolerances 1e-10 (the iteration may stop unconverged: all checked clauses except fixed-L Bregman scaling hold for unconverged iterates)",
                        "scaled runs scale the dimensional solver parameters along: Bregman's L and the absolute clamp `regularization` (with the default clamp an unconverged Newton/SUBCELL run on compact data deviates by 1e-7 relative)",
                        "the flat face flux is recovered from the public info['flux'] (cell-centre RT0 values) by the recursion u_hi = 2*centre - u_lo",
                        "cv2.EMD computes the optimal flow for the given signatures (not covered)"]


def replay(data):
    rp = data.get("replay", {})
    print("replay", data.get("signature"), "--", data.get("what"))
    if "m1" not in rp or "method" not in rp:
        print(json.dumps(rp)[:500])
        return 0
    cfg = dict(pow2=4.0, gen=3.7, weight=2.0, fixedL=True)
    cfg.update(rp)
    res = run_case_safe(cfg)
    for sig, what, _ in res["fails"]:
        print("observed:", sig, "--", what)
    print("required: C05 statement (see DarsiaProps/C05.lean and CLAIM)")
    return 1 if res["fails"] else 0
