"""C17 - operations that return new objects do not modify their arguments.

Parts:
  G1   `Image.__mul__` scalar-type guard tabulated over type tags -> DarsiaGen/MulGuard.lean
  T    DarsiaProps.C17 (heap model: frame / reachability theorems for the modelled calls, chains, stack,
       append, element-wise arithmetic, guard table)
  corr random *programs* (constructor forms, copy, + - *, comparisons, astype, time_slice, time_interval,
       subregion, weight, stack, append) run on the real objects and on the heap model; after every
       statement both sides print all variables with values and object identities (which images share
       which array buffer / dimensions list / origin / date / time list), relabelled canonically.
  oracle registry of call forms x random images of every kind; deep snapshots of every argument
       (data, dtype, metadata, containers) and of the numpy / python global RNG state before and after;
       random chains of <= 5 calls on shared operands; arithmetic compared with numpy on the raw arrays.
"""
from __future__ import annotations

import copy
import datetime as dt
import random as pyrandom
from fractions import Fraction

import numpy as np

from ..lib.core import fmt, fmts
from ..lib.impl import ERRSHOW, Raised, call, err_class

LEVEL = "proof"
CLAIM = dict(
    category="proof",
    text="What is proved and what carries it. (1) MODEL: a heap of cells (Image = record of references; numpy views refer to "
    "the buffer they read) with 23 returning call forms and 3 in-place operations, written to mirror reads / allocations / "
    "writes of the code. The frame statements op_frame / op_preserves_args / chain_preserves_args hold BY CONSTRUCTION of this "
    "model (every returning call only allocates or writes cells it allocated) - they say nothing about the code unless the "
    "model is right. (2) What ties the model's write behaviour to the code: (a) source_write_sets - for the 43 DarSIA "
    "functions the model stands for, a SYNTACTIC may-alias analysis of the source (AST) is regenerated on every check and must "
    "equal the write sets the model declares (only append, set_time, in-place to_trichromatic and Geometry.integrate's cache "
    "write, to self); returning_calls_have_no_source_writes, no_global_rng_writes. What the analysis sees: parameters (self "
    "outside constructors) and names / attributes aliased to them by plain, tuple-wise or loop assignment, subscripts, "
    "attributes, kwargs.get/pop, method- and function-style view calls (x.reshape, np.asarray(x), np.ravel(x), ...); writes = "
    "attribute stores, augmented and item assignments, method-style mutators of lists / dicts / sets / arrays, function-style "
    "mutators (np.copyto, np.put, np.place, random.shuffle, setattr, ...), calls of DarSIA's own self-mutating methods "
    "(discovered over all methods of the image classes), out= arguments, calls into the global numpy and python random "
    "modules. What it does NOT see: aliasing through containers built by calls, through closures / globals, through "
    "functions outside the alias list, writes inside called helper functions, C-level in-place behaviour of library calls; "
    "the analysis is validated on every run on nine toy functions with one in-place write each (and a clean one). A new "
    "in-place write OF THESE SYNTACTIC FORMS in the covered functions breaks an obligation; others are left to (b) and the "
    "oracle. (b) the identity-tracking program "
    "correspondence (31 statement kinds; values AND which image shares which buffer / list after every statement). (3) "
    "Theorems with content beyond construction: stack / append induction (stack_preserves_images, append_writes_only_self), "
    "result_fresh_or_documented_view (reachability from a result: new cells or documented shared cells), "
    "write_result_isolated / write_result_touches_only_shared / inplace_on_result_isolated (later in-place work on a result), "
    "copy_ops_share_no_pixels, element-wise + - *, the tabulated __mul__ guard. OBSERVED ONLY: preservation of the global "
    "RNG STATE at run time (snapshot oracle; the table only shows the absence of np.random calls in the covered sources), "
    "values of arrays computed by numpy / cv2 / skimage (parameters of the model), dtype promotion of arithmetic, the ~100 "
    "registry call forms x random images with argument snapshots, chains and later work on every result (DarSIA in-place operations on a result that change an argument are failing inputs; raw user writes through a result that reach an argument show aliasing only and are reported as a broken tie, no-failing-input-found). Call forms or "
    "program statements that raise in most of their cases are reported as marks (not counted as passing). WF and Typed are "
    "preserved by every modelled call (step_preserves_wf_typed), so chain_preserves_intermediate gives the full reachability "
    "statement also for results created mid-chain and reused as arguments. FAILING INPUTS: arguments changed by a returning call "
    "or by a DarSIA in-place operation on a non-view result, global RNG state, Image * int / float raising, add / sub / mul values "
    "for int / float factors; raw user writes through an aliasing result, numpy-scalar / bool factors and comparison values give "
    "TIE-BROKEN marks; result dtypes and in-place operations through documented views are observations.",
    note="category 'proof' in the sense of the task (the deciding part is a theorem about the model plus a checked tie): the frame "
    "theorems are definitional for the model, so the weight lies on the tie (generated source write-set table, identity-tracking "
    "correspondence) and on the theorems that are NOT definitional: stack / append induction, reachability and sharing "
    "(result_fresh_or_documented_view), later-write isolation, preservation of WF / Typed by all 23 calls, the write-set "
    "obligation. Run-time RNG state and library values are observed only.",
    technique="Lean 4 proof (heap model; freshness and reachability invariants; induction over chains and over the list passed to "
    "stack) + G2 write-set table from the AST + G1 tabulated guard + differential correspondence with tracked identities + "
    "snapshot oracle",
)

EPOCH = dt.datetime(2020, 1, 1)
TAGS = ["int", "float", "bool", "npFloat64", "npFloat32", "npInt64", "npUint8", "str", "none"]


def tag_value(tag, mag=2):
    return {
        "int": int(mag), "float": float(mag) + 0.5, "bool": True, "npFloat64": np.float64(mag + 0.5),
        "npFloat32": np.float32(mag + 0.5), "npInt64": np.int64(mag), "npUint8": np.uint8(mag),
        "str": "2", "none": None,
    }[tag]


# ---------------------------------------------------------------------------------------------
# G1: the __mul__ guard


def tabulate_guard(d):
    t = {}
    for tag in TAGS:
        img = d.ScalarImage(np.arange(6, dtype=float).reshape(2, 3), dimensions=[1.0, 1.5])
        r = call(lambda: img * tag_value(tag))
        if not isinstance(r, Raised) and not isinstance(r, d.Image):
            r = Raised(TypeError("not an image"))
        t[tag] = r
    return t


def emit_guard(t):
    L = ["import DarsiaModel.Heap", "namespace Darsia.Gen", "open Darsia Darsia.Heap", "",
         "def mulGuard : TyTag → Except Err Unit"]
    for tag in TAGS:
        v = t[tag]
        L.append(f"  | .{tag} => " + (f"(.error .{v.cls})" if isinstance(v, Raised) else "(.ok ())"))
    L += ["", "end Darsia.Gen"]
    return "\n".join(L) + "\n"


# ---------------------------------------------------------------------------------------------
# G2: write sets of the source functions (AST)

# method-style calls whose result may alias the receiver (x.reshape(..), kwargs.get(..), ...)
ALIAS_CALLS = {"get", "pop", "asarray", "view", "reshape", "squeeze", "ravel", "transpose", "swapaxes", "flatten_view", "T",
               "astype_view", "diagonal", "setdefault", "items", "values", "__getitem__"}
# function-style calls whose result may alias their FIRST argument (np.asarray(x), np.reshape(x, ..), ...)
ALIAS_FUNCS = {"asarray", "asanyarray", "ascontiguousarray", "asfortranarray", "ravel", "reshape", "squeeze", "transpose",
               "swapaxes", "moveaxis", "rollaxis", "expand_dims", "atleast_1d", "atleast_2d", "atleast_3d", "broadcast_to",
               "flip", "flipud", "fliplr", "rot90", "diagonal", "real", "imag", "memoryview", "iter", "reversed", "getattr"}
# method-style mutators of lists / dicts / sets / ndarrays
MUT_METHODS = {"append", "extend", "insert", "pop", "remove", "sort", "reverse", "clear", "update", "fill", "resize",
               "setdefault", "put", "itemset", "partition", "byteswap", "setflags", "setfield", "popitem", "add", "discard",
               "appendleft", "extendleft", "__setitem__", "__iadd__", "__imul__"}
# function-style mutators: the FIRST argument is written (np.copyto(dst, ..), random.shuffle(x), ...)
MUT_FUNCS = {"copyto", "put", "place", "putmask", "fill_diagonal", "put_along_axis", "shuffle", "setattr", "delattr",
             "heappush", "heappop", "insort"}
RNG_PURE = {"RandomState", "default_rng", "Generator", "get_state", "SeedSequence", "Random", "SystemRandom", "getstate"}
WATTRS = ["img", "series", "date", "time", "time_dim", "time_num", "color_space", "dimensions", "origin",
          "cached_voxel_volume", "set_time"]


def _root_path(e):
    import ast

    parts = []
    while True:
        if isinstance(e, ast.Attribute):
            parts.append(e.attr)
            e = e.value
        elif isinstance(e, ast.Subscript):
            parts.append("[]")
            e = e.value
        elif isinstance(e, ast.Name):
            parts.append(e.id)
            return list(reversed(parts))
        elif isinstance(e, ast.Call) and isinstance(e.func, ast.Attribute) and e.func.attr in ALIAS_FUNCS and e.args \
                and isinstance(e.func.value, ast.Name) and e.func.value.id in ("np", "numpy"):
            e = e.args[0]  # np.asarray(x, ...) and friends may return x itself / a view of it
        elif isinstance(e, ast.Call) and isinstance(e.func, ast.Name) and e.func.id in ALIAS_FUNCS and e.args:
            e = e.args[0]
        elif isinstance(e, ast.Call) and isinstance(e.func, ast.Attribute) and e.func.attr in ALIAS_CALLS:
            e = e.func.value
        elif isinstance(e, ast.Starred):
            e = e.value
        else:
            return None


def write_set(fn, fresh_self=False, mutators=()):
    """syntactic may-alias analysis of one function: writes to caller-owned objects (see DarsiaModel.Heap, `SrcFn`)"""
    import ast
    import inspect
    import textwrap

    f = ast.parse(textwrap.dedent(inspect.getsource(fn))).body[0]
    kwname = f.args.kwarg.arg if f.args.kwarg else None
    params = [a.arg for a in f.args.args + f.args.kwonlyargs] + ([f.args.vararg.arg] if f.args.vararg else []) + ([kwname] if kwname else [])
    A = set(params)
    if fresh_self:
        A.discard("self")
    writes = set()

    def aliased(path):
        if path is None:
            return None
        for k in range(len(path), 0, -1):
            key = ".".join(q for q in path[:k] if q != "[]")
            if key in A:
                return key
        return None

    def record(root, kind, attr):
        if root == kwname:  # the ** dictionary is a fresh object of the call
            return
        writes.add(("self" if root.split(".")[0] == "self" else ("globalRng" if root == "<global>" else "arg"), kind,
                    attr if attr in WATTRS else "other"))

    def scan(node):
        for n in ast.walk(node):
            if isinstance(n, ast.Call):
                fname = n.func.attr if isinstance(n.func, ast.Attribute) else (n.func.id if isinstance(n.func, ast.Name) else None)
                # function-style mutators: np.copyto(dst, ..), random.shuffle(x), setattr(obj, ..)
                if fname in MUT_FUNCS and n.args:
                    r0 = aliased(_root_path(n.args[0]))
                    if r0:
                        record(r0, "call", fname)
            if isinstance(n, ast.Call) and isinstance(n.func, ast.Attribute):
                pth = _root_path(n.func.value)
                r = aliased(pth)
                if r and (n.func.attr in MUT_METHODS or n.func.attr in mutators):
                    record(r, "call", n.func.attr)
                fp = _root_path(n.func)
                if fp and (fp[:2] in (["np", "random"], ["numpy", "random"]) or fp[0] == "random") and fp[-1] not in RNG_PURE \
                        and len(fp) >= 2:
                    record("<global>", "rng", "other")  # the global numpy / python generators
                for kw in n.keywords:
                    if kw.arg == "out":
                        pr = aliased(_root_path(kw.value))
                        if pr:
                            record(pr, "out", "other")

    def assign(t, value, top):
        if isinstance(t, (ast.Tuple, ast.List)):
            if isinstance(value, (ast.Tuple, ast.List)) and len(value.elts) == len(t.elts):
                for e, v in zip(t.elts, value.elts):  # a, b = x, y  : pairwise
                    assign(e, v, top)
            else:
                for e in t.elts:  # a, b = f(..) / unpacking of an aliased container: each target may alias it
                    assign(e, value, top)
            return
        val_alias = aliased(_root_path(value)) is not None if not isinstance(value, ast.Tuple) else False
        if isinstance(t, ast.Name):
            if val_alias:
                A.add(t.id)
            elif top:
                A.discard(t.id)
            return
        pth = _root_path(t)
        if pth is None:
            return
        r = aliased(pth[:-1]) if len(pth) > 1 else None
        if r is not None:
            last = [q for q in pth[1:] if q != "[]"]
            record(r, "store" if pth[-1] != "[]" else "setitem", last[-1] if last else "other")
        if fresh_self and pth[0] == "self" and isinstance(t, ast.Attribute):
            key = ".".join(q for q in pth if q != "[]")
            (A.add if val_alias else A.discard)(key)

    def visit(stmts, top):
        for st in stmts:
            if isinstance(st, (ast.FunctionDef, ast.ClassDef)):
                visit(st.body, False)
            elif isinstance(st, (ast.If, ast.While)):
                scan(st.test)
                visit(st.body, False)
                visit(st.orelse, False)
            elif isinstance(st, ast.For):
                if aliased(_root_path(st.iter)) and isinstance(st.target, ast.Name):
                    A.add(st.target.id)
                scan(st.iter)
                visit(st.body, False)
                visit(st.orelse, False)
            elif isinstance(st, ast.With):
                visit(st.body, False)
            elif isinstance(st, ast.Try):
                visit(st.body, False)
                for h in st.handlers:
                    visit(h.body, False)
                visit(st.orelse, False)
                visit(st.finalbody, False)
            elif isinstance(st, ast.Assign):
                scan(st.value)
                for t in st.targets:
                    assign(t, st.value, top)
            elif isinstance(st, ast.AnnAssign) and st.value is not None:
                scan(st.value)
                assign(st.target, st.value, top)
            elif isinstance(st, ast.AugAssign):
                scan(st.value)
                pth = _root_path(st.target)
                r = aliased(pth)
                if r:
                    last = [q for q in (pth or [])[1:] if q != "[]"]
                    record(r, "aug", last[-1] if last else "other")
            else:
                scan(st)

    visit(f.body, True)
    return sorted(writes)


def source_functions(d):
    import darsia.image.arithmetics as ar
    import darsia.restoration.resize as rz
    import darsia.signals.reduction.dimensionreduction as dr
    import darsia.utils.box as box
    import darsia.utils.standard_images as si

    I = d.Image
    return [
        ("imageInit", I.__init__, True), ("scalarInit", d.ScalarImage.__init__, True), ("opticalInit", d.OpticalImage.__init__, True),
        ("copy", I.copy, False), ("add", I.__add__, False), ("sub", I.__sub__, False), ("mul", I.__mul__, False),
        ("lt", I.__lt__, False), ("gt", I.__gt__, False), ("eq", I.__eq__, False), ("le", I.__le__, False), ("ge", I.__ge__, False),
        ("astype", I.astype, False), ("imgAs", I.img_as, False), ("metadata", I.metadata, False),
        ("opticalMetadata", d.OpticalImage.metadata, False), ("timeSlice", I.time_slice, False), ("timeInterval", I.time_interval, False),
        ("slice", I.slice, False), ("subregion", I.subregion, False), ("append", I.append, False), ("setTime", I.set_time, False),
        ("toTrichromatic", d.OpticalImage.to_trichromatic, False), ("toMonochromatic", d.OpticalImage.to_monochromatic, False),
        ("weight", ar.weight, False), ("superpose", ar.superpose, False), ("stack", ar.stack, False),
        ("resizeCall", rz.Resize.__call__, False), ("resize", rz.resize, False), ("equalizeVoxelSize", rz.equalize_voxel_size, False),
        ("uniformRefinement", rz.uniform_refinement, False), ("axisReductionCall", dr.AxisReduction.__call__, False),
        ("reduceAxis", dr.reduce_axis, False), ("extrude", dr.extrude_along_axis, False), ("zerosLike", si.zeros_like, False),
        ("onesLike", si.ones_like, False), ("randomPatches", box.random_patches, False), ("clipModelCall", d.ClipModel.__call__, False),
        ("linearModelCall", d.LinearModel.__call__, False), ("scalingModelCall", d.ScalingModel.__call__, False),
        ("emdCall", d.EMD.__call__, False), ("emdPreprocess", d.EMD._preprocess, False), ("geometryIntegrate", d.Geometry.integrate, False),
    ]


def extract_write_sets(d):
    fns = source_functions(d)
    table = {}
    mut = set()
    # DarSIA's own self-mutating methods: every method of the image classes (not only the tabulated ones) that writes `self`
    import inspect as _inspect

    cands = [(fn.__name__, fn) for _, fn, fs in fns if not fs]
    for cls in (d.Image, d.ScalarImage, d.OpticalImage):
        cands += [(k, v) for k, v in vars(cls).items() if _inspect.isfunction(v) and k != "__init__"]
    for _ in range(2):  # second pass: methods that call a mutator on self
        for nm, fn in cands:
            w = call(lambda: write_set(fn, False, mutators=mut))
            if not isinstance(w, Raised) and any(r == "self" for r, _, _ in w):
                mut.add(nm)
    for name, fn, fs in fns:
        table[name] = call(lambda: write_set(fn, fs, mutators=mut))
    table["__mutators__"] = sorted(mut)
    return table


def _toy_sources():
    """functions with an in-place write each: the analysis must report every one of them (validated on every run)"""
    import random

    def t1(img, w):
        a = np.asarray(img.img)
        a *= w

    def t2(img, w):
        np.copyto(img.img, 0)

    def t3(img, w):
        random.shuffle(w)

    def t4(img, w):
        random.seed(1)

    def t5(img, w):
        img.update_metadata(name="x")

    def t6(img, w):
        a, b = img.img, w
        a[...] = 0

    def t7(img, w):
        np.random.seed(3)

    def t8(img, w):
        v = np.reshape(img.img, -1)
        v.sort()

    def t9(img, w):
        for x in w:
            x.append(1)

    def clean(img, w):
        a = img.img.copy()
        a *= 2
        b = np.array(img.img)
        b[...] = 0
        return type(img)(a, **img.metadata())

    return [t1, t2, t3, t4, t5, t6, t7, t8, t9], clean


def validate_write_set_analysis(ctx, mutators):
    toys, clean = _toy_sources()
    missed = [f.__name__ for f in toys if not call(lambda: write_set(f, False, mutators=mutators))]
    false_pos = call(lambda: write_set(clean, False, mutators=mutators))
    ctx.cov["write_set_self_test"] = {"toys": len(toys), "missed": missed, "false_positive_on_clean": bool(false_pos)}
    if missed or false_pos:
        ctx.mark("TIE-BROKEN", {"write_set_analysis_self_test": {"missed": missed, "false_positive": repr(false_pos)}})


def emit_write_sets(table):
    L = ["import DarsiaModel.Heap", "namespace Darsia.Gen", "open Darsia Darsia.Heap", "", "def writeSet : SrcFn → List SrcWrite"]
    for name, w in table.items():
        if name.startswith("__"):
            continue
        if isinstance(w, Raised):  # source not analysable: an unknown write makes the obligation fail
            L.append(f"  | .{name} => [⟨.arg, .call, .other⟩]")
        else:
            L.append(f"  | .{name} => [" + ", ".join(f"⟨.{r}, .{k}, .{a}⟩" for r, k, a in w) + "]")
    L += ["", "end Darsia.Gen"]
    return "\n".join(L) + "\n"


# ---------------------------------------------------------------------------------------------
# correspondence: programs


def owner(a):
    """identity of the buffer an array object reads from"""
    while isinstance(a, np.ndarray) and a.base is not None:
        a = a.base
    return id(a)


class Labels:
    def __init__(self):
        self.seen = []

    def __call__(self, key):
        if key not in self.seen:
            self.seen.append(key)
        return str(self.seen.index(key))


def show_t(x):
    if x is None:
        return "none"
    if isinstance(x, dt.datetime):
        return fmt(Fraction((x - EPOCH).total_seconds()))
    return fmt(x)


def dump_T(lab, tag, v):
    if isinstance(v, list):
        return f"{tag}{lab(id(v))} [{' '.join(show_t(x) for x in v)}]"
    return f"{tag}- {show_t(v)}"


def dump_arr(lab, a):
    a = np.asarray(a) if not isinstance(a, np.ndarray) else a
    return f"a{lab(owner(a))} {' '.join(map(str, a.shape))}|{fmts(a.ravel())}"


def dump_nums(lab, tag, v):
    key = owner(v) if isinstance(v, np.ndarray) else id(v)
    return f"{tag}{lab(key)} {fmts(list(np.asarray(v, dtype=float).ravel()))}"


def dump_var(lab, kind, v, d):
    if kind == "img":
        o = lab(id(v))
        return (f"I{o}[{dump_arr(lab, v.img)} {dump_nums(lab, 'd', v.dimensions)} {dump_nums(lab, 'o', v.origin)} "
                f"{dump_T(lab, 'D', v.date)} {dump_T(lab, 'T', v.time)} s{int(bool(v.series))} c{int(bool(v.scalar))} n{int(v.time_num)}]")
    if kind == "nums":
        return dump_nums(lab, "L", v)
    if kind == "arr":
        return dump_arr(lab, v)
    if kind in ("tl", "tv"):
        return dump_T(lab, "T", v)
    if kind == "objs":
        return f"O{lab(id(v))}({' '.join(lab(id(x)) for x in v)})"
    return "?"


def dump(vars_, d):
    lab = Labels()
    return " ".join(dump_var(lab, k, v, d) for k, v in vars_)


def rlist(xs):
    xs = list(xs)
    return (str(len(xs)) + " " + " ".join(fmt(x) for x in xs)).strip()


def olist(xs):
    xs = list(xs)
    return (str(len(xs)) + " " + " ".join(show_t(x) for x in xs)).strip()


DATA = [0, 1, 2, 4, -1, 8, -2, 0.5]


class Prog:
    """a program built statement by statement while it is executed on the real objects"""

    def __init__(self, rng, d):
        self.rng, self.d = rng, d
        self.vars = []  # (kind, object)
        self.stmts = []
        self.dumps = []
        self.dead = False

    def add(self, text, kind, fn):
        if self.dead:
            return None
        r = call(fn)
        self.stmts.append(text)
        if isinstance(r, Raised):
            self.dumps.append(repr(r) + " " + dump(self.vars, self.d))
            self.dead = True
            return None
        self.vars.append((kind, r))
        self.dumps.append(dump(self.vars, self.d))
        return len(self.vars) - 1

    def line(self):
        return "prog ; " + " ; ".join(self.stmts)

    def out(self):
        return " # ".join(self.dumps)

    # ---- statements
    def arr(self, shape):
        n = int(np.prod(shape))
        data = [float(self.rng.choice(DATA)) for _ in range(n)]
        return self.add(f"arr {rlist(shape)} {rlist(data)}", "arr", lambda: np.array(data, dtype=float).reshape(shape))

    def nums(self, vals):
        vals = [float(v) for v in vals]
        return self.add(f"nums {rlist(vals)}", "nums", lambda: list(vals))

    def tl(self, vals, as_date):
        objs = [None if v is None else (EPOCH + dt.timedelta(seconds=v) if as_date else float(v)) for v in vals]
        return self.add(f"tl {olist(vals)}", "tl", lambda: list(objs))

    def tv(self, v, as_date):
        obj = None if v is None else (EPOCH + dt.timedelta(seconds=v) if as_date else float(v))
        return self.add(f"tv {show_t(v)}", "tv", lambda: obj)

    def objs(self, idx):
        return self.add(f"objs {len(idx)} " + " ".join(map(str, idx)), "objs", lambda: [self.vars[i][1] for i in idx])

    def ctor(self, arr, space_dim, dims=None, height=None, width=None, depth=None, origin=None, series=False,
             scalar=True, date=None, time=None, cls="I"):
        kw = dict(space_dim=space_dim, series=series, scalar=scalar)
        Cls = {"I": self.d.Image, "S": self.d.ScalarImage, "O": self.d.OpticalImage}[cls]
        if cls == "O":
            kw["color_space"] = "RGB"
        if dims is not None:
            kw["dimensions"] = self.vars[dims][1]
        for k, v in (("height", height), ("width", width), ("depth", depth)):
            if v is not None:
                kw[k] = float(v)
        if origin is not None:
            kw["origin"] = self.vars[origin][1]
        if date is not None:
            kw["date"] = self.vars[date][1]
        if time is not None:
            kw["time"] = self.vars[time][1]
        img = call(lambda: Cls(self.vars[arr][1], **kw))
        def_origin = [] if isinstance(img, Raised) or origin is not None else [float(x) for x in img.origin]
        o = lambda x: "none" if x is None else str(x)
        r = lambda x: "none" if x is None else fmt(x)
        text = (f"ctor {arr} {space_dim} {o(dims)} {r(height)} {r(width)} {r(depth)} {o(origin)} {rlist(def_origin)} "
                f"{int(series)} {int(scalar)} {o(date)} none {o(time)}")
        if isinstance(img, Raised):
            return self.add(text, "img", lambda: (_ for _ in ()).throw(img.exc))
        return self.add(text, "img", lambda: img)

    def img(self, i):
        return self.vars[i][1]

    def images(self):
        return [i for i, (k, _) in enumerate(self.vars) if k == "img"]


def build_image(p, rng, space_dim=None, series=None, scalar=None, shape=None, cls=None):
    """allocate the pieces of an image through statements and construct it; returns the variable index"""
    cls = cls or rng.choice(["I", "I", "S", "O"])
    if cls == "O":
        space_dim, scalar = 2, False
    if cls == "S":
        scalar = True
    space_dim = space_dim or rng.choice([1, 2, 2, 2, 3])
    series = rng.random() < 0.4 if series is None else series
    scalar = rng.random() < 0.75 if scalar is None else scalar
    shape = tuple(shape or [rng.randint(2, 3) for _ in range(space_dim)])
    T = rng.randint(2, 3)
    full = shape + ((T,) if series else ()) + (() if scalar else ((3,) if cls == "O" else (2,)))
    a = p.arr(full)
    dims = origin = date = time = None
    height = width = depth = None
    mode = rng.random()
    if mode < 0.7:
        dims = p.nums([rng.choice([1, 2, 0.5, 1.5, 3]) for _ in range(space_dim)])
    if rng.random() < 0.45:
        height = rng.choice([2, 0.75, 5])
    if space_dim >= 2 and rng.random() < 0.3:
        width = rng.choice([2.5, 4])
    if space_dim >= 3 and rng.random() < 0.3:
        depth = rng.choice([1.25, 6])
    if rng.random() < 0.4:
        origin = p.nums([rng.choice([0, 1, -2, 0.5]) for _ in range(space_dim)])
    if series:
        m = rng.random()
        if m < 0.45:
            time = p.tl(sorted(rng.sample(range(0, 40), T)), False)
        elif m < 0.8:
            date = p.tl(sorted(rng.sample(range(0, 40), T)), True)
    else:
        m = rng.random()
        if m < 0.25:
            time = p.tv(rng.choice([0, 3, 10]), False)
        elif m < 0.5:
            date = p.tv(rng.choice([0, 5, 60]), True)
    return p.ctor(a, space_dim, dims, height, width, depth, origin, series, scalar, date, time, cls=cls)


def partner(p, rng, i, same_shape=True):
    """a second image compatible with image i (same shape and metadata values, own objects)"""
    im = p.img(i)
    shape = im.img.shape if same_shape else tuple(s + 1 if k < im.space_dim else s for k, s in enumerate(im.img.shape))
    a = p.arr(shape)
    dims = p.nums(list(im.dimensions))
    origin = p.nums(list(im.origin))
    date = time = None
    if im.series:
        if not im._is_none(im.date):
            last = (im.date[-1] - EPOCH).total_seconds()
            date = p.tl([last + 8 * (k + 1) for k in range(shape[im.space_dim])], True)
        elif not im._is_none(im.time):
            time = p.tl([50 + 2 * k for k in range(shape[im.space_dim])], False)
    else:
        if im.date is not None:
            date = p.tv((im.date - EPOCH).total_seconds() + 16, True)
        elif im.time is not None:
            time = p.tv(im.time + 4, False)
    cls = {"Image": "I", "ScalarImage": "S", "OpticalImage": "O"}[type(im).__name__]
    return p.ctor(a, im.space_dim, dims, None, None, None, origin, im.series, im.scalar, date, time, cls=cls)


CMPS = {"lt": lambda a, b: a < b, "gt": lambda a, b: a > b, "eq": lambda a, b: a == b,
        "le": lambda a, b: a <= b, "ge": lambda a, b: a >= b}


OP_STATS = {}  # statement kind -> [attempts, real call raised (statement dropped)]


def _skip(op, res):
    OP_STATS.setdefault(op, [0, 0])[1] += 1
    return None


def random_op(p, rng, malformed=False):
    d = p.d
    ims = p.images()
    if not ims:
        return build_image(p, rng)
    i = rng.choice(ims)
    im = p.img(i)
    choices = ["copy", "add", "sub", "mul", "astype", "wnum", "stack", "build", "subreg", "append"]
    def isbool(j):
        """boolean data, or data that is not a short dyadic number (results of cv2 / float32 arithmetic): the exact-rational
        model does not predict numpy's arithmetic on it, so it takes no further part in arithmetic statements"""
        a = p.img(j).img
        if a.dtype == bool:
            return True
        a = np.asarray(a, dtype=np.float64)
        return not (np.all(np.isfinite(a)) and np.all(a * 64 == np.round(a * 64)) and np.all(np.abs(a) < 2 ** 20))
    if not im.series and im.scalar:
        choices += ["cmpn", "cmpi"]
    if isbool(i):
        # comparison results are boolean arrays: numpy's boolean arithmetic is outside the exact-rational model
        choices = ["copy", "subreg", "build"] + (["cmpn"] if im.img.dtype == bool else ["wpix", "aclass", "stack", "extrude"][: 3 if (im.space_dim != 2 or type(im).__name__ == "OpticalImage") else 4])
    if im.series:
        choices += ["tslice", "tint"]
    if im.space_dim == 2 and im.scalar and not im.series and not isbool(i):
        choices += ["wimg", "wimg"]
    if not isbool(i):
        choices += ["crebind", "derive", "aclass", "measure", "arrmap", "wpix", "wpix"]
        # (an OpticalImage cannot change its space dimension: type(img)(...) forces space_dim = 2)
        if im.space_dim >= 2 and type(im).__name__ != "OpticalImage":
            choices += ["reduce"]
        if im.space_dim == 2 and type(im).__name__ != "OpticalImage":
            choices += ["extrude"]
        if type(im).__name__ == "OpticalImage" and not isbool(i):
            choices += ["tomono", "tomono", "rebind", "trichro"]
        if type(im).__name__ == "ScalarImage" and im.space_dim == 2 and not im.series:
            choices += ["superpose", "superpose"]
    if malformed:
        choices = ["add_bad", "mul_bad", "tslice_bad", "stack_bad"]
    op = rng.choice(choices)
    OP_STATS.setdefault(op, [0, 0])[0] += 1
    if op == "build":
        return build_image(p, rng)
    if op == "copy":
        return p.add(f"copy {i}", "img", lambda: im.copy())
    if op in ("add", "sub"):
        # partner: an existing image of the same shape, or a new one
        same = [j for j in ims if p.img(j).img.shape == im.img.shape and not isbool(j)]
        j = rng.choice(same) if same and rng.random() < 0.5 else partner(p, rng, i)
        if j is None:
            return None
        o = p.img(j)
        return p.add(f"{op} {i} {j}", "img", (lambda: im + o) if op == "add" else (lambda: im - o))
    if op == "add_bad":
        j = partner(p, rng, i, same_shape=False)
        return None if j is None else p.add(f"add {i} {j}", "img", lambda: im + p.img(j))
    if op == "mul":
        tag = rng.choice(["int", "float", "bool", "npFloat64", "npFloat32", "npInt64", "npUint8"])
        s = tag_value(tag, rng.choice([2, 4]))
        return p.add(f"mul {i} {tag} {fmt(s)}", "img", (lambda: im * s) if rng.random() < 0.5 else (lambda: s * im))
    if op == "mul_bad":
        tag = rng.choice(["str", "none"])
        return p.add(f"mul {i} {tag} 1", "img", lambda: im * tag_value(tag))
    if op == "cmpn":
        k = rng.choice(list(CMPS))
        s = rng.choice([0, 1, 2, 0.5])
        return p.add(f"cmpn {k} {i} {fmt(s)}", "img", lambda: CMPS[k](im, s))
    if op == "cmpi":
        k = rng.choice(list(CMPS))
        # python tries the reflected comparison of a proper subclass first (then the metadata comes from the
        # right operand): keep the operand classes such that the left operand's method runs
        same = [j for j in ims if p.img(j).img.shape == im.img.shape
                and (type(p.img(j)) is type(im) or not issubclass(type(p.img(j)), type(im)))]
        j = rng.choice(same) if same and rng.random() < 0.5 else partner(p, rng, i)
        if j is None:
            return None
        o = p.img(j)
        if type(o) is not type(im) and issubclass(type(o), type(im)):
            return None
        return p.add(f"cmpi {k} {i} {j}", "img", lambda: CMPS[k](im, o))
    if op == "astype":
        return p.add(f"astype {i}", "img", lambda: im.astype(rng.choice([float, np.float64])))
    if op == "tslice":
        t = rng.randrange(im.time_num)
        return p.add(f"tslice {i} {t}", "img", lambda: im.time_slice(t))
    if op == "tslice_bad":
        if im.series:
            return p.add(f"tslice {i} {im.time_num + 1}", "img", lambda: im.time_slice(im.time_num + 1))
        return p.add(f"tslice {i} 0", "img", lambda: im.time_slice(0))
    if op == "tint":
        lo = rng.randrange(im.time_num)
        hi = rng.randint(lo + 1, im.time_num)
        return p.add(f"tint {i} {lo} {hi}", "img", lambda: im.time_interval(slice(lo, hi)))
    if op == "subreg":
        rs = []
        for n in im.img.shape[: im.space_dim]:
            lo = rng.randrange(n)
            rs.append((lo, rng.randint(lo + 1, n)))
        roi = tuple(slice(lo, hi) for lo, hi in rs)
        res = call(lambda: im.subregion(roi))
        if isinstance(res, Raised):
            return p.add(f"subreg {i} {len(rs)} " + " ".join(f"{a} {b}" for a, b in rs) + " 0 0", "img",
                         lambda: (_ for _ in ()).throw(res.exc))
        text = (f"subreg {i} {len(rs)} " + " ".join(f"{a} {b}" for a, b in rs) + " " + rlist(res.dimensions) + " "
                + rlist(res.origin))
        return p.add(text, "img", lambda: res)
    if op == "wnum":
        w = rng.choice([2, 4, 0.5, 3])
        w = int(w) if float(w).is_integer() and rng.random() < 0.5 else float(w)
        return p.add(f"wnum {i} {fmt(w)}", "img", lambda: d.weight(im, w))
    if op == "wimg":
        same = rng.random() < 0.4
        shape = im.img.shape if same else (rng.randint(2, 4), rng.randint(2, 4))
        if same:
            a = p.arr(shape)
        else:
            c = float(rng.choice([2, 4, 0.5]))
            a = p.add(f"arr {rlist(shape)} {rlist([c] * int(np.prod(shape)))}", "arr", lambda: np.full(shape, c))
        dims = p.nums(list(im.dimensions))
        origin = p.nums(list(im.origin))
        j = p.ctor(a, 2, dims, None, None, None, origin, False, True, None, None)
        if j is None:
            return None
        w = p.img(j)
        import cv2

        rz = [] if shape == im.img.shape else list(
            cv2.resize(w.img.copy(), tuple(reversed(im.img.shape[:2])), interpolation=cv2.INTER_LINEAR).ravel())
        return p.add(f"wimg {i} {j} {rlist(rz)}", "img", lambda: d.weight(im, w))
    arrtxt = lambda a: f"{rlist(a.shape)} {rlist(np.asarray(a, dtype=float).ravel())}"
    if op == "crebind":
        which = rng.choice(["img_as", "clip", "astype32"])
        if which == "img_as":
            res = call(lambda: im.img_as(float))
        elif which == "clip":
            res = call(lambda: d.ClipModel(**{"min value": 0.0, "max value": 2.0})(im))
        else:
            res = call(lambda: im.astype(np.float32))
        if isinstance(res, Raised):
            return _skip(op, res)
        return p.add(f"crebind {i} {arrtxt(res.img)}", "img", lambda: res)
    if op == "trichro":
        res = call(lambda: im.to_trichromatic("BGR", return_image=True))
        if isinstance(res, Raised):
            return _skip(op, res)
        return p.add(f"crebind {i} {arrtxt(res.img)}", "img", lambda: res)
    if op == "rebind":
        before = im.img
        r0 = call(lambda: im.to_trichromatic(rng.choice(["BGR", "RGB"])))
        if isinstance(r0, Raised):
            p.dead = True
            return None
        if im.img is before:
            # float64 image and another colour space: the method rebinds its *local* `self` to an astype copy, the
            # caller's object is left as it was (observed; nothing to model)
            p.noops = getattr(p, "noops", 0) + 1
            return None
        return p.add(f"rebind {i} {arrtxt(im.img)}", "img", lambda: im)
    if op == "derive":
        which = rng.choice(["zeros_like", "refine", "resize"] if im.space_dim == 2 else ["zeros_like", "refine"])
        if which == "zeros_like":
            res = call(lambda: d.zeros_like(im))
        elif which == "refine":
            res = call(lambda: d.uniform_refinement(im, 1))
        else:
            res = call(lambda: d.resize(im, shape=(rng.randint(2, 4), rng.randint(2, 4)), interpolation="inter_nearest"))
        if isinstance(res, Raised):
            return _skip(op, res)
        return p.add(f"derive {i} {arrtxt(res.img)}", "img", lambda: res)
    if op == "aclass":
        fs = bool(im.scalar and rng.random() < 0.5)
        return p.add(f"aclass {i} {int(fs)}", "img", lambda: im.astype(d.ScalarImage if fs else d.Image))
    if op == "tomono":
        key = rng.choice(["red", "green", "blue", "gray"])
        res = call(lambda: im.to_monochromatic(key))
        if isinstance(res, Raised):
            return _skip(op, res)
        if key == "gray":
            return p.add(f"tomono {i} none {rlist(np.asarray(res.img, dtype=float).ravel())}", "img", lambda: res)
        k = ["red", "green", "blue"].index(key)
        conv = im.to_trichromatic("RGB", return_image=True).img
        return p.add(f"tomono {i} {k} {rlist(np.asarray(conv, dtype=float).ravel())}", "img", lambda: res)
    if op == "reduce":
        ax = rng.randrange(im.space_dim)
        res = call(lambda: d.reduce_axis(im, ax, mode="sum"))
        if isinstance(res, Raised):
            return _skip(op, res)
        return p.add(f"reduce {i} {ax} {arrtxt(res.img)} {rlist(res.origin)}", "img", lambda: res)
    if op == "extrude":
        ht, num = rng.choice([2, 0.5, 3]), rng.randint(1, 3)
        res = call(lambda: d.extrude_along_axis(im, float(ht), num))
        if isinstance(res, Raised):
            return _skip(op, res)
        return p.add(f"extrude {i} {fmt(ht)} {num} {rlist(res.origin)}", "img", lambda: res)
    if op == "superpose":
        j = partner(p, rng, i)
        if j is None:
            return None
        lst = p.objs([i, j])
        if lst is None:
            return None
        res = call(lambda: d.superpose(p.vars[lst][1]))
        if isinstance(res, Raised):
            return _skip(op, res)
        return p.add(f"superpose {lst} {arrtxt(res.img)} {rlist(res.dimensions)} {rlist(res.origin)}", "img", lambda: res)
    if op == "measure":
        if im.space_dim == 2 and im.scalar and not im.series and rng.random() < 0.5:
            geo = call(lambda: d.Geometry(**im.shape_metadata()))
            val = geo if isinstance(geo, Raised) else call(lambda: geo.integrate(im))
        else:
            val = call(lambda: float(np.sum(im.img)))
        if isinstance(val, Raised) or not np.isscalar(val):
            return _skip(op, val)
        return p.add(f"measure 1 {i} {fmt(float(val))}", "tv", lambda: float(val))
    if op == "arrmap":
        arrs = [k for k, (kd, _) in enumerate(p.vars) if kd == "arr"]
        a = rng.choice(arrs)
        res = call(lambda: d.LinearModel(scaling=2.0, offset=1.0)(p.vars[a][1]) if rng.random() < 0.5 else
                   d.ClipModel(**{"min value": 0.0, "max value": 2.0})(p.vars[a][1]))
        if isinstance(res, Raised):
            return _skip(op, res)
        return p.add(f"arrmap {a} {rlist(np.asarray(res, dtype=float).ravel())}", "arr", lambda: res)
    if op == "wpix":
        # a user writing pixels through an image obtained from an earlier call (in place, through views)
        if not im.img.flags.writeable:
            return None
        vals = [float(rng.choice(DATA)) for _ in range(im.img.size)]

        def run():
            im.img[...] = np.array(vals).reshape(im.img.shape)
            return im

        return p.add(f"wpix {i} {rlist(vals)}", "img", run)
    if op in ("stack", "stack_bad", "append"):
        if op == "stack_bad":
            a = p.arr(im.img.shape)
            dims = p.nums([x + 1 for x in im.dimensions])
            j = p.ctor(a, im.space_dim, dims, None, None, None, None, im.series, im.scalar, None, None)
        else:
            j = partner(p, rng, i)
        if j is None:
            return None
        if op == "append":
            k = p.add(f"copy {i}", "img", lambda: im.copy())
            if k is None:
                return None
            off = rng.choice([None, None, 2, 7])
            tgt = p.img(k)

            def run():
                tgt.append(p.img(j), off)
                return tgt

            return p.add(f"append {k} {j} {show_t(off)}", "img", run)
        members = [i, j] + ([partner(p, rng, j)] if rng.random() < 0.3 else [])
        if None in members:
            return None
        if rng.random() < 0.2:
            members = [i]
        lst = p.objs(members)
        if lst is None:
            return None
        return p.add(f"stack {lst}", "img", lambda: d.stack(p.vars[lst][1]))
    return None


def gen_programs(ctx, d, n, n_bad):
    OP_STATS.clear()
    progs = []
    for k in range(n + n_bad):
        p = Prog(ctx.rng, d)
        build_image(p, ctx.rng)
        steps = ctx.rng.randint(1, 5)
        for s in range(steps):
            if p.dead:
                break
            random_op(p, ctx.rng, malformed=(k >= n and s == steps - 1))
        progs.append(p)
    return progs


# ---------------------------------------------------------------------------------------------
# oracle: snapshots


def snap(x, d, depth=0):
    """deep, comparable description of an argument"""
    if isinstance(x, d.Image):
        meta = {}
        for k in ("space_dim", "indexing", "series", "scalar", "name", "reference_date", "time_num", "color_space",
                  "original_dtype"):
            if hasattr(x, k):
                meta[k] = copy.deepcopy(getattr(x, k))
        return ("Image", type(x).__name__, snap(x.img, d), snap(x.dimensions, d), snap(x.origin, d), snap(x.date, d),
                snap(x.time, d), repr(sorted(meta.items(), key=lambda kv: kv[0])))
    if isinstance(x, np.ndarray):
        # compared bit-wise (NaN-safe); the values are kept as text for the replay
        return ("nd", type(x).__name__, str(x.dtype), x.shape, str(x.ravel().tolist()) if x.size <= 256 else "", x.tobytes())
    if isinstance(x, (list, tuple)):
        return (type(x).__name__, tuple(snap(y, d, depth + 1) for y in x))
    if isinstance(x, dict):
        return ("dict", tuple((k, snap(v, d, depth + 1)) for k, v in sorted(x.items(), key=lambda kv: str(kv[0]))))
    if isinstance(x, slice):
        return ("slice", x.start, x.stop, x.step)
    if isinstance(x, (int, float, str, bool, type(None), np.generic, dt.datetime, type)):
        return ("v", type(x).__name__, repr(x))
    if hasattr(x, "__dict__") and depth < 3:
        return ("obj", type(x).__name__, tuple((k, snap(v, d, depth + 1)) for k, v in sorted(vars(x).items())))
    return ("o", type(x).__name__)


def diff_path(a, b, path="arg"):
    """first place where two snapshots differ (human readable)"""
    if a == b:
        return None
    if isinstance(a, tuple) and isinstance(b, tuple) and a and b and a[0] == b[0] == "Image":
        names = ["", "class", "img", "dimensions", "origin", "date", "time", "meta"]
        for k in range(1, len(a)):
            if a[k] != b[k]:
                return f"{path}.{names[k]}"
    if isinstance(a, tuple) and isinstance(b, tuple) and len(a) == len(b) == 2 and a[0] == b[0] and a[0] in ("list", "tuple"):
        if len(a[1]) != len(b[1]):
            return f"{path}:len"
        for k, (x, y) in enumerate(zip(a[1], b[1])):
            if x != y:
                return diff_path(x, y, f"{path}[{k}]")
    if isinstance(a, tuple) and a and a[0] == "nd" and isinstance(b, tuple) and b and b[0] == "nd":
        return f"{path}:array(shape {a[3]}->{b[3]}, dtype {a[2]}->{b[2]})"
    return path


def rng_state():
    s = np.random.get_state()
    return (s[0], s[1].tobytes(), s[2], s[3], s[4]), pyrandom.getstate()


def nprng(ctx):
    return np.random.RandomState(ctx.rng.randrange(2 ** 31))


def rand_image(ctx, d, kind, shape=None):
    """random image of a named kind; metadata lists are fresh objects owned by the caller"""
    r = nprng(ctx)
    rnd = ctx.rng
    dims2 = lambda n: [rnd.choice([1.0, 2.0, 0.5, 1.5, 3.0]) for _ in range(n)]
    if kind in ("S2", "S2u8", "S2f32", "S2b", "S2u16"):
        shape = shape or (rnd.randint(3, 6), rnd.randint(3, 6))
        dtype = {"S2": float, "S2u8": np.uint8, "S2f32": np.float32, "S2b": bool, "S2u16": np.uint16}[kind]
        if dtype in (np.uint8, np.uint16):
            data = r.randint(0, np.iinfo(dtype).max + 1, size=shape).astype(dtype)  # products with scalars wrap around
        else:
            data = r.randint(0, 5, size=shape).astype(dtype) if dtype is not float else r.randint(0, 16, size=shape) / 4.0
        return d.ScalarImage(data, dimensions=dims2(2), name=rnd.choice([None, "probe"]))
    if kind == "S2pos":
        shape = shape or (rnd.randint(3, 5), rnd.randint(3, 5))
        return d.ScalarImage(r.randint(1, 5, size=shape).astype(float), dimensions=[1.0, 1.0])
    if kind in ("O2u8", "O2f32", "O2f64"):
        # optical images of every pixel type (float64 is what imread returns), held in RGB or BGR
        shape = shape or (rnd.randint(3, 6), rnd.randint(3, 6))
        data = r.randint(0, 256, size=shape + (3,)).astype(np.uint8)
        if kind == "O2f32":
            data = (data / 255.0).astype(np.float32)
        if kind == "O2f64":
            data = data / 255.0
        return d.OpticalImage(data, dimensions=dims2(2), color_space=rnd.choice(["RGB", "RGB", "BGR"]))
    if kind == "V2":
        shape = shape or (rnd.randint(2, 5), rnd.randint(2, 5))
        return d.Image(r.randint(0, 9, size=shape + (2,)).astype(float), dimensions=dims2(2), scalar=False)
    if kind in ("S2s", "S2sd", "S2sn"):
        shape = shape or (rnd.randint(2, 4), rnd.randint(2, 4))
        T = rnd.randint(2, 3)
        kw = dict(time=[float(3 * k) for k in range(T)]) if kind == "S2s" else (dict(
            date=[EPOCH + dt.timedelta(seconds=10 * k) for k in range(T)]) if kind == "S2sd" else {})
        return d.ScalarImage(r.randint(0, 9, size=shape + (T,)).astype(float), dimensions=dims2(2), series=True, **kw)
    if kind == "S3":
        shape = shape or (rnd.randint(2, 4), rnd.randint(2, 4), rnd.randint(2, 4))
        return d.ScalarImage(r.randint(0, 9, size=shape).astype(float), dimensions=dims2(3), space_dim=3)
    if kind == "S1":
        shape = shape or (rnd.randint(2, 6),)
        return d.ScalarImage(r.randint(0, 9, size=shape).astype(float), dimensions=dims2(1), space_dim=1)
    raise KeyError(kind)


def twin(ctx, d, img):
    """an image with the same class / shape / dtype / metadata values but own objects and other data"""
    r = nprng(ctx)
    t = img.copy()
    t.img = (r.randint(0, 5, size=img.img.shape)).astype(img.img.dtype)
    return t


KINDS = ["S2", "S2u8", "S2f32", "S2b", "S2u16", "O2u8", "O2f32", "O2f64", "V2", "S2s", "S2sd", "S2sn", "S3", "S1"]
NUMERIC = ["S2", "S2u8", "S2f32", "S2u16", "V2", "S2s", "S3", "S1", "O2f32"]


def registry(d):
    """call forms: name -> (kinds, builder(ctx, img) -> (fn, args)). `args` are the objects whose snapshots
    are compared; fn() performs the call on exactly these objects."""
    R = {}

    def form(name, kinds):
        def deco(f):
            R[name] = (kinds, f)
            return f
        return deco

    # arithmetic ---------------------------------------------------------------------------
    @form("add", NUMERIC)
    def _(ctx, a):
        b = twin(ctx, d, a)
        return (lambda: a + b), [a, b]

    @form("sub", NUMERIC)
    def _(ctx, a):
        b = twin(ctx, d, a)
        return (lambda: a - b), [a, b]

    for tag in ["int", "float", "bool", "npFloat64", "npFloat32", "npInt64", "npUint8"]:
        def mk(tag):
            def f(ctx, a):
                s = tag_value(tag, ctx.rng.choice([2, 3]))
                return (lambda: a * s), [a, s]

            def g(ctx, a):
                s = tag_value(tag, ctx.rng.choice([2, 3]))
                return (lambda: s * a), [a, s]
            return f, g
        f, g = mk(tag)
        R[f"mul[{tag}]"] = (NUMERIC if tag in ("int", "bool", "npInt64", "npUint8") else ["S2", "S2f32", "V2", "S2s", "S3", "S1", "O2f32", "S2u8", "S2u16"], f)
        R[f"rmul[{tag}]"] = (["S2", "S2f32", "S3"], g)
    for k, fn in CMPS.items():
        def mk(k, fn):
            def fi(ctx, a):
                b = twin(ctx, d, a)
                return (lambda: fn(a, b)), [a, b]

            def fint(ctx, a):
                s = ctx.rng.randint(0, 4)
                return (lambda: fn(a, s)), [a, s]

            def ffl(ctx, a):
                s = ctx.rng.choice([0.5, 1.0, 2.25])
                return (lambda: fn(a, s)), [a, s]
            return fi, fint, ffl
        fi, fint, ffl = mk(k, fn)
        R[f"{k}[image]"] = (["S2", "S2u8", "S2f32", "S3", "S1"], fi)
        R[f"{k}[int]"] = (["S2", "S2u8", "S3"], fint)
        R[f"{k}[float]"] = (["S2", "S2f32", "S1"], ffl)

    # conversions ----------------------------------------------------------------------------
    for name, ty in [("float", float), ("float32", np.float32), ("uint8", np.uint8), ("int", int), ("bool", bool),
                     ("uint16", np.uint16), ("float64", np.float64)]:
        R[f"astype[{name}]"] = (["S2", "S2u8", "S2f32", "O2u8", "O2f64", "V2", "S2s", "S3"], (lambda ty: lambda ctx, a: ((lambda: a.astype(ty)), [a]))(ty))
    R["astype[ScalarImage]"] = (["S2", "S3"], lambda ctx, a: ((lambda: a.astype(d.ScalarImage)), [a]))
    for name, ty in [("float", float), ("float32", np.float32), ("float64", np.float64), ("uint8", np.uint8),
                     ("uint16", np.uint16), ("bool", bool)]:
        R[f"img_as[{name}]"] = (["S2u8", "S2u16", "O2u8", "O2f32", "O2f64", "S2b"], (lambda ty: lambda ctx, a: ((lambda: a.img_as(ty)), [a]))(ty))
    for cs in ["HSV", "BGR", "RGB", "LAB", "HLS"]:
        R[f"to_trichromatic[{cs}]"] = (["O2u8", "O2f32", "O2f64"], (lambda cs: lambda ctx, a: ((lambda: a.to_trichromatic(cs, return_image=True)), [a]))(cs))
    for key in ["gray", "red", "green", "blue", "hue", "saturation", "value"]:
        R[f"to_monochromatic[{key}]"] = (["O2u8", "O2f32", "O2f64"], (lambda key: lambda ctx, a: ((lambda: a.to_monochromatic(key)), [a]))(key))
    R["copy"] = (KINDS, lambda ctx, a: ((lambda: a.copy()), [a]))
    R["metadata"] = (KINDS, lambda ctx, a: ((lambda: a.metadata()), [a]))
    R["shape_metadata"] = (KINDS, lambda ctx, a: ((lambda: a.shape_metadata()), [a]))

    # extraction -----------------------------------------------------------------------------
    @form("subregion[slices]", ["S2", "S2u8", "O2u8", "O2f64", "V2", "S2s", "S3", "S1"])
    def _(ctx, a):
        roi = []
        for n in a.img.shape[: a.space_dim]:
            lo = ctx.rng.randrange(n)
            roi.append(slice(lo, ctx.rng.randint(lo + 1, n)))
        roi = tuple(roi)
        return (lambda: a.subregion(roi)), [a, roi]

    @form("subregion[coordinates]", ["S2", "O2u8", "S2s"])
    def _(ctx, a):
        o, c = np.array(a.origin), np.array(a.opposite_corner)
        pts = d.CoordinateArray([o + 0.25 * (c - o), o + 0.75 * (c - o)])
        return (lambda: a.subregion(pts)), [a, pts]

    @form("subregion[voxels]", ["S2", "O2u8", "S2s", "V2"])
    def _(ctx, a):
        # ROI boxes inside the image, touching its border, and sticking out of it (negative / beyond the extent)
        n = a.img.shape
        lo = [ctx.rng.randint(-3, max(0, n[k] - 2)) for k in range(2)]
        hi = [ctx.rng.randint(max(lo[k], 0) + 1, n[k] + 3) for k in range(2)]
        corners = [[lo[0], lo[1]], [hi[0], hi[1]]]
        if ctx.rng.random() < 0.5:
            corners += [[lo[0], hi[1]], [hi[0], lo[1]]]
        pts = d.VoxelArray(corners)
        return (lambda: a.subregion(pts)), [a, pts]

    @form("subregion[coordinates,outside]", ["S2", "O2u8", "S2s"])
    def _(ctx, a):
        o, c = np.array(a.origin, dtype=float), np.array(a.opposite_corner, dtype=float)
        f0, f1 = ctx.rng.choice([-0.4, -0.1, 0.2]), ctx.rng.choice([0.7, 1.2, 1.6])
        pts = d.CoordinateArray([o + f0 * (c - o), o + f1 * (c - o)])
        return (lambda: a.subregion(pts)), [a, pts]

    @form("subregion[voxels,reused-roi]", ["S2"])
    def _(ctx, a):
        # the same ROI object used on two images of different size: the second call must see the ROI the caller built
        big = rand_image(ctx, d, "S2", shape=(a.img.shape[0] + 4, a.img.shape[1] + 6))
        pts = d.VoxelArray([[-1, 1], [a.img.shape[0] + 2, a.img.shape[1] + 3]])
        expect = call(lambda: big.subregion(d.VoxelArray(np.array(pts).copy())))

        def run():
            a.subregion(pts)
            second = big.subregion(pts)
            if not isinstance(expect, Raised) and second.img.shape != expect.img.shape:
                raise RuntimeError(f"second use of the ROI gives shape {second.img.shape}, a fresh ROI {expect.img.shape}")
            return second

        return run, [a, big, pts]

    @form("time_slice", ["S2s", "S2sd"])
    def _(ctx, a):
        t = ctx.rng.randrange(a.time_num)
        return (lambda: a.time_slice(t)), [a]

    @form("time_interval", ["S2s", "S2sd"])
    def _(ctx, a):
        sl = slice(0, ctx.rng.randint(1, a.time_num))
        return (lambda: a.time_interval(sl)), [a, sl]

    @form("slice[int]", ["S2", "S3"])
    def _(ctx, a):
        ax = ctx.rng.randrange(a.space_dim)
        cut = ctx.rng.randrange(a.img.shape[ax])
        return (lambda: a.slice(cut, ax)), [a]

    for mode in ["sum", "average", "slice"]:
        def mk(mode):
            def f(ctx, a):
                ax = ctx.rng.randrange(a.space_dim)
                if ctx.rng.random() < 0.5:
                    ax = "xyz"[ax]
                kw = {"slice_idx": 0} if mode == "slice" else {}
                return (lambda: d.reduce_axis(a, ax, mode=mode, **kw)), [a]
            return f
        R[f"reduce_axis[{mode}]"] = (["S2", "S3"], mk(mode))
    R["extrude_along_axis"] = (["S2", "S2u8"], lambda ctx, a: ((lambda: d.extrude_along_axis(a, 2.0, 3)), [a]))

    # weight / superpose / stack ---------------------------------------------------------------
    R["weight[int]"] = (["S2", "V2", "S2s", "S3", "S2u8"], lambda ctx, a: ((lambda: d.weight(a, 3)), [a]))
    R["weight[float]"] = (["S2", "V2", "S2s", "S3", "S2f32"], lambda ctx, a: ((lambda: d.weight(a, 0.5)), [a]))

    @form("weight[image,same-shape]", ["S2", "S2f32", "S3"])
    def _(ctx, a):
        w = twin(ctx, d, a)
        return (lambda: d.weight(a, w)), [a, w]

    @form("weight[image,other-shape]", ["S2", "S2f32"])
    def _(ctx, a):
        r = nprng(ctx)
        shp = (a.img.shape[0] + ctx.rng.choice([-1, 1, 2]), a.img.shape[1] + ctx.rng.choice([-1, 0, 3]))
        w = d.ScalarImage(r.randint(1, 5, size=shp).astype(float), dimensions=list(a.dimensions))
        return (lambda: d.weight(a, w)), [a, w]

    @form("weight[ndarray]", ["V2", "S2s"])
    def _(ctx, a):
        w = np.arange(1, 1 + int(np.prod(a.img.shape[a.space_dim:])), dtype=float).reshape(a.img.shape[a.space_dim:])
        return (lambda: d.weight(a, w)), [a, w]

    @form("superpose", ["S2", "S2f32"])
    def _(ctx, a):
        # images at different positions / of different extent, in any order: the first one need not define the common origin
        lst = [a]
        for _ in range(ctx.rng.randint(1, 2)):
            b = twin(ctx, d, a)
            if ctx.rng.random() < 0.75:
                o = [float(a.origin[0]) + ctx.rng.choice([-1.0, -0.5, 0.0, 0.5]) * a.dimensions[1],
                     float(a.origin[1]) + ctx.rng.choice([-0.5, 0.0, 0.5, 1.0]) * a.dimensions[0]]
                b = d.ScalarImage(b.img, dimensions=list(a.dimensions), origin=o)
            lst.append(b)
        ctx.rng.shuffle(lst)
        return (lambda: d.superpose(lst)), [lst]

    @form("stack", ["S2", "S2u8", "V2", "S3", "S1", "O2u8"])
    def _(ctx, a):
        lst = [a] + [twin(ctx, d, a) for _ in range(ctx.rng.randint(1, 3))]
        return (lambda: d.stack(lst)), [lst]

    @form("stack[series-first]", ["S2s"])
    def _(ctx, a):
        b = twin(ctx, d, a)
        b.time = [t + 100 for t in a.time]
        lst = [a, b]
        return (lambda: d.stack(lst)), [lst]

    def single_after(ctx, a):
        """a single (non-series) image that can follow the series `a`: later date / time, or neither"""
        r = nprng(ctx)
        kw = {}
        if not a._is_none(a.date):
            kw["date"] = a.date[-1] + dt.timedelta(seconds=ctx.rng.randint(1, 50))
        elif not a._is_none(a.time):
            kw["time"] = float(a.time[-1]) + ctx.rng.randint(1, 9)
        return d.ScalarImage(r.randint(0, 9, size=a.img.shape[:2]).astype(a.img.dtype), dimensions=list(a.dimensions),
                             origin=[float(x) for x in a.origin], **kw)

    @form("stack[series,single,...]", ["S2s", "S2sd", "S2sn"])
    def _(ctx, a):
        lst = [a, single_after(ctx, a)]
        if ctx.rng.random() < 0.4 and a._is_none(a.date) and a._is_none(a.time):
            lst.append(single_after(ctx, a))
        return (lambda: d.stack(lst)), [lst]

    @form("stack[series,series]", ["S2sd", "S2sn"])
    def _(ctx, a):
        b = twin(ctx, d, a)
        if not a._is_none(a.date):
            b.date = [x + dt.timedelta(seconds=1000) for x in a.date]
        lst = [a, b]
        return (lambda: d.stack(lst)), [lst]

    # resize ---------------------------------------------------------------------------------
    @form("resize[shape]", ["S2", "S2f32", "S2u8", "O2u8", "O2f64", "V2"])
    def _(ctx, a):
        shp = (ctx.rng.randint(2, 7), ctx.rng.randint(2, 7))
        return (lambda: d.resize(a, shape=shp, interpolation=ctx.rng.choice([None, "inter_area", "inter_nearest"]))), [a, shp]

    @form("resize[fx,fy]", ["S2", "S2f32", "O2u8"])
    def _(ctx, a):
        return (lambda: d.resize(a, fx=2.0, fy=0.5)), [a]

    @form("resize[ref_image]", ["S2", "S2f32"])
    def _(ctx, a):
        ref = rand_image(ctx, d, "S2")
        return (lambda: d.resize(a, ref_image=ref)), [a, ref]

    @form("Resize[conservative]", ["S2"])
    def _(ctx, a):
        rs = d.Resize(shape=(4, 4), interpolation="inter_area", **{"resize conservative": True})
        return (lambda: rs(a)), [a]

    R["equalize_voxel_size"] = (["S2", "S2f32"], lambda ctx, a: ((lambda: d.equalize_voxel_size(a)), [a]))
    R["uniform_refinement[+1]"] = (["S2", "S3", "S1"], lambda ctx, a: ((lambda: d.uniform_refinement(a, 1)), [a]))
    R["uniform_refinement[-1]"] = (["S2", "S3"], lambda ctx, a: ((lambda: d.uniform_refinement(a, -1)), [a]))
    for nm, fn_ in [("zeros_like", "zeros_like"), ("ones_like", "ones_like")]:
        for mode in ["shape", "voxels"]:
            R[f"{nm}[{mode}]"] = (["S2", "S2u8", "V2", "S3", "O2u8"] if mode == "shape" else ["S2", "S2u8", "V2", "S3", "O2u8"],
                                  (lambda fn_, mode: lambda ctx, a: ((lambda: getattr(d, fn_)(a, mode=mode)), [a]))(fn_, mode))

    # constructors with caller-owned containers -------------------------------------------------
    @form("Image(dimensions=list)", ["S2", "S3", "V2"])
    def _(ctx, a):
        arr, L = a.img.copy(), [float(x) + 1 for x in a.dimensions]
        return (lambda: type(a)(arr, dimensions=L, space_dim=a.space_dim, scalar=a.scalar)), [arr, L]

    @form("Image(dimensions=list,height=,width=)", ["S2", "S3", "V2"])
    def _(ctx, a):
        arr, L = a.img.copy(), [float(x) + 1 for x in a.dimensions]
        kw = {"height": 7.0}
        if ctx.rng.random() < 0.5:
            kw["width"] = 9.0
        if a.space_dim == 3 and ctx.rng.random() < 0.5:
            kw["depth"] = 11.0
        return (lambda: type(a)(arr, dimensions=L, space_dim=a.space_dim, scalar=a.scalar, **kw)), [arr, L, kw]

    @form("Image(**metadata,height=)", ["S2", "S3"])
    def _(ctx, a):
        meta = a.metadata()
        return (lambda: type(a)(a.img.copy(), height=5.0, **meta)), [a, meta]

    @form("Image(origin=list,date=list)", ["S2sd"])
    def _(ctx, a):
        arr, o, dates = a.img.copy(), [1.0, 2.0], list(a.date)
        return (lambda: d.ScalarImage(arr, origin=o, date=dates, series=True, dimensions=[1.0, 1.0])), [arr, o, dates]

    # models / integration / distances ------------------------------------------------------------
    def model_forms():
        def params(ctx):
            return ctx.rng.choice([1.0, 1.0, 2.0, 0.5]), ctx.rng.choice([0.0, 1.0, -0.25])

        def lin_arr(ctx, a):
            sc, off = params(ctx)
            m = d.LinearModel(scaling=sc, offset=off) if ctx.rng.random() < 0.8 else d.LinearModel(offset=off)
            return (lambda: m(a.img)), [a, sc, off]

        def scal_arr(ctx, a):
            sc, _ = params(ctx)
            return (lambda: d.ScalingModel(scaling=sc)(a.img)), [a, sc]

        def scal_img(ctx, a):
            sc, _ = params(ctx)
            return (lambda: d.ScalingModel(scaling=sc)(a)), [a, sc]

        def clip(ctx, a, on_image):
            lo, hi = ctx.rng.choice([0.0, 1.0]), ctx.rng.choice([None, 2.0, 3.0])
            m = d.ClipModel(**{"min value": lo, "max value": hi})
            return (lambda: m(a if on_image else a.img)), [a, lo, hi]

        R["LinearModel(array)"] = (["S2", "S2f32", "S2u8", "S3", "V2"], lin_arr)
        R["ScalingModel(array)"] = (["S2", "S2f32", "S2u8"], scal_arr)
        R["ScalingModel(image)"] = (["S2", "S3", "S2f32"], scal_img)
        R["ClipModel(image)"] = (["S2", "S2f32", "S3"], lambda ctx, a: clip(ctx, a, True))
        R["ClipModel(array)"] = (["S2", "S2f32", "S2u8"], lambda ctx, a: clip(ctx, a, False))

    model_forms()

    @form("Geometry.integrate", ["S2", "S3", "S2f32"])
    def _(ctx, a):
        geo = d.Geometry(**a.shape_metadata())
        return (lambda: geo.integrate(a)), [a]

    @form("EMD", ["S2pos"])
    def _(ctx, a):
        b = a.copy()
        b.img = np.ascontiguousarray(b.img[::-1, ::-1])
        return (lambda: d.EMD()(a, b)), [a, b]

    @form("wasserstein_distance[cv2.emd]", ["S2pos"])
    def _(ctx, a):
        b = a.copy()
        b.img = np.ascontiguousarray(b.img[::-1, ::-1])
        return (lambda: d.wasserstein_distance(a, b, method="cv2.emd")), [a, b]

    @form("random_patches", ["S2b"])
    def _(ctx, a):
        # from "a few patches in a large mask" to "more patches than eligible anchor points" (colliding draws)
        n0, n1 = ctx.rng.randint(4, 16), ctx.rng.randint(4, 16)
        mask = np.ones((n0, n1), dtype=bool) if ctx.rng.random() < 0.6 else (nprng(ctx).rand(n0, n1) < 0.7)
        width = ctx.rng.randint(1, 5)
        num = ctx.rng.choice([1, 3, 8, 30, 100, n0 * n1 + 5])
        return (lambda: d.random_patches(mask, width=width, num_patches=num)), [mask, width, num]

    return R


VIEW_FORMS = ("time_slice", "time_interval", "subregion", "slice[int]", "Image(")


def later_writes(ctx, d, name, res, args, before, chain=None):
    """in-place operations a user may apply to a RESULT afterwards; the ARGUMENTS of the call must stay as they were.
    Pixel writes through the result are exempt only for the documented view-returning forms."""
    if not isinstance(res, d.Image):
        return
    if any(res is x for x in args):
        # the call handed its argument back (e.g. ScalingModel with unit scaling returns the signal itself): there is no
        # second object a later write could be confined to; recorded, not judged
        ctx.cov.setdefault("forms_returning_their_argument", {}).setdefault(name, 0)
        ctx.cov["forms_returning_their_argument"][name] += 1
        return

    def recheck(what, raw=False):
        for k, (x, b) in enumerate(zip(args, before)):
            after = snap(x, d)
            if after != b:
                where = diff_path(b, after, f"arg{k}")
                if raw:
                    # a raw numpy / list write by the USER through the result reached an argument: the result aliases the
                    # argument. No DarSIA call modified anything, so this is not a failing input of C17 as stated; it breaks the
                    # tie to the model (every modelled call allocates its result's cells afresh, theorems `*_fresh`), hence a mark:
                    # the run ends as `no-failing-input-found` unless a DarSIA operation below (or elsewhere) does modify an argument.
                    if not any(m.get("kind") == "TIE-BROKEN" and m.get("form") == name and m.get("later_operation") == what for m in ctx.marks):
                        ctx.mark("TIE-BROKEN", {"correspondence": "result-shares-no-storage-with-arguments (heap model freshness)", "form": name,
                                                "later_operation": what, "where": where, "chain": chain,
                                                "note": "the result aliases an argument; only a raw user write through the result shows it"})
                    before[k] = after
                    return True
                attr = where.split(':')[0].split('.')[-1]
                if name.startswith(VIEW_FORMS) and attr == "img":
                    # a documented view, and an in-place operation that writes its own buffer: each half satisfies the property
                    ctx.cov.setdefault("inplace_ops_through_documented_views", {}).setdefault(f"{name.split('[')[0]}:{what}", 0)
                    ctx.cov["inplace_ops_through_documented_views"][f"{name.split('[')[0]}:{what}"] += 1
                    before[k] = after
                    continue
                ctx.fail(f"C17:{what}-on-result-of:{name.split('[')[0] if chain else name}:reaches:{attr}",
                         f"after {name}, {what} applied to the RESULT changed an argument of the call: {where}",
                         {"form": name, "later_operation": what, "where": where, "chain": chain,
                          "before": repr(b)[:300], "after": repr(after)[:300]})
                return False
        return True

    ctx.count(("later-writes", name), nontrivial=False)
    if not name.startswith(VIEW_FORMS) and isinstance(res.img, np.ndarray) and res.img.flags.writeable and res.img.size:
        fill = True if res.img.dtype == bool else 7
        r = call(lambda: res.img.__setitem__(Ellipsis, fill))
        if not isinstance(r, Raised) and not recheck("pixel-write", raw=True):
            return
    # element writes into the result's own `dimensions` list and `origin` coordinate: every modelled call builds these
    # anew for its result (the constructor copies `dimensions` and rebuilds `origin`)
    def setdim():
        res.dimensions[0] = 99.5

    def setorigin():
        res.origin[0] = -99.5

    for what, fn in (("dimensions-element-write", setdim), ("origin-element-write", setorigin)):
        r = call(fn)
        if not isinstance(r, Raised) and not recheck(what, raw=True):
            return
    # DarSIA's own in-place operations: they rebind attributes of the result only
    ops = [("update_metadata", lambda: res.update_metadata(name="renamed")), ("reset_origin", lambda: res.reset_origin())]
    if isinstance(res, d.OpticalImage):
        ops.append(("to_trichromatic-in-place", lambda: res.to_trichromatic("HSV")))
    ops.append(("append", lambda: res.append(res.copy())))
    if res.series:
        ops.append(("reset_reference_time", lambda: res.reset_reference_time()))
    for what, fn in ops:
        r = call(fn)
        if not recheck(what):
            return


ARITH = {"add": lambda a, b: a + b, "sub": lambda a, b: a - b}


def check_arith(ctx, name, args, res):
    """image arithmetic agrees element-wise with numpy on the raw arrays (documented scalar types exactly)"""
    d = ctx._d
    base = name.split("[")[0]
    a = args[0]
    if base in ("add", "sub"):
        ref = call(lambda: ARITH[base](a.img, args[1].img))
    elif base in ("mul", "rmul"):
        ref = call(lambda: a.img * args[1])
    elif base in CMPS:
        o = args[1]
        ref = call(lambda: CMPS[base](a.img, o.img if isinstance(o, d.Image) else o))
    else:
        return
    tag = name[name.find("[") + 1:-1] if "[" in name else ""
    kind_dt = "int-dtype" if a.img.dtype.kind in "ui" else ("bool-dtype" if a.img.dtype.kind == "b" else "float-dtype")
    sig_in = kind_dt + (f",{tag}" if tag else "")
    if isinstance(ref, Raised):
        return
    documented = base in ("add", "sub") or (base in ("mul", "rmul") and tag in ("int", "float"))  # the value clause: image arithmetic, documented scalar types
    if not documented and (isinstance(res, Raised) or not isinstance(res, d.Image) or res.img.shape != ref.shape or not np.array_equal(res.img, ref)):
        # numpy scalars / bool factors and comparisons are conventions of the model (mulGuard table, cmp ops), not clauses
        key = (base, tag, "raises" if isinstance(res, Raised) else "value")
        if not any(m.get("kind") == "TIE-BROKEN" and m.get("key") == list(key) for m in ctx.marks):
            ctx.mark("TIE-BROKEN", {"correspondence": "scalar types beyond int / float and comparisons (mulGuard table, cmp ops of the heap model)",
                                    "key": list(key), "form": name, "dtype": str(a.img.dtype),
                                    "observed": repr(res.exc) if isinstance(res, Raised) else type(res).__name__})
        return
    if isinstance(res, Raised):
        ctx.fail(f"C17:{base}({sig_in}):raises-{type(res.exc).__name__}",
                 f"{name} raises {type(res.exc).__name__} although the same arithmetic on the raw arrays is defined",
                 {"form": name, "dtype": str(a.img.dtype), "shape": list(a.img.shape), "scalar": repr(args[1]) if len(args) > 1 and not isinstance(args[1], d.Image) else None})
        return
    if not isinstance(res, d.Image):
        ctx.fail(f"C17:{base}({sig_in}):not-an-image", f"{name} returned {type(res).__name__}", {"form": name})
        return
    # the same arithmetic on the raw arrays, value AND dtype, for python and numpy scalars alike
    same = res.img.shape == ref.shape and np.array_equal(res.img, ref)
    if same and base in ("add", "sub", "mul", "rmul") and res.img.dtype != ref.dtype:
        # "agrees element-wise": the values decide; another result dtype is recorded only
        obs = ctx.cov.setdefault("arith_result_dtype_differs_from_numpy", {})
        obs[f"{base}({sig_in})"] = f"{res.img.dtype} vs {ref.dtype}"
    if not same:
        ctx.fail(f"C17:{base}({sig_in}):differs-from-numpy",
                 f"{name}: result differs from the same arithmetic on the raw arrays (dtype {res.img.dtype} vs {ref.dtype})",
                 {"form": name, "dtype": str(a.img.dtype), "a": a.img.tolist(), "other": repr(args[1]) if not isinstance(args[1], d.Image) else args[1].img.tolist(),
                  "observed": np.asarray(res.img).tolist(), "required": ref.tolist()})


def run_form(ctx, d, name, kinds, builder, kind=None, operand=None, check_values=True):
    kind = kind or ctx.rng.choice(kinds)
    a = operand if operand is not None else rand_image(ctx, d, kind)
    built = call(lambda: builder(ctx, a))
    st = ctx.cov.setdefault("forms", {}).setdefault(name, {"calls": 0, "raised": 0, "builder_raised": 0})
    if isinstance(built, Raised):
        st["builder_raised"] += 1
        return None, None
    fn, args = built
    before = [snap(x, d) for x in args]
    rs0 = rng_state()
    res = call(fn)
    rs1 = rng_state()
    ctx.count(("form", name, kind, tuple(getattr(a, "shape", ())), str(getattr(a, "dtype", ""))), nontrivial=not isinstance(res, Raised))
    ctx.cov["forms"][name]["calls"] += 1
    if isinstance(res, Raised):
        ctx.cov["forms"][name]["raised"] += 1
    for k, (x, b) in enumerate(zip(args, before)):
        after = snap(x, d)
        if after != b:
            before[k] = after  # the later-writes oracle compares against the state after the call
            where = diff_path(b, after, f"arg{k}")
            ctx.fail(f"C17:{name}:mutates:{where.split(':')[0]}",
                     f"{name} modified its argument: {where}" + (f" (call raised {res!r})" if isinstance(res, Raised) else ""),
                     {"form": name, "kind": kind, "where": where, "shape": list(getattr(a, "shape", ())), "dtype": str(getattr(a, "dtype", "")),
                      "before": repr(b)[:400], "after": repr(after)[:400]})
    if rs0 != rs1:
        ctx.fail(f"C17:{name}:global-rng-state", f"{name} altered the global random state (numpy / random)",
                 {"form": name, "kind": kind})
    if check_values:
        check_arith(ctx, name, args, res)
    later_writes(ctx, d, name, res, args, before)
    return res, args


def chains(ctx, d, R, n):
    """random chains of <= 5 calls on shared operands: every operand and every intermediate result is
    snapshotted when it appears and must be unchanged after every later call"""
    names = sorted(R)
    for c in range(n):
        kind = ctx.rng.choice(["S2", "S2", "S2f32", "S2s", "S2sd", "S2sn", "S3", "O2u8", "O2f64", "O2f32", "V2", "S2u8"])
        pool = [rand_image(ctx, d, kind)]
        pool.append(twin(ctx, d, pool[0]))
        tracked = [(x, snap(x, d), "operand") for x in pool]
        history = []
        for step in range(ctx.rng.randint(2, 5)):
            cands = [nm for nm in names if kind in R[nm][0] or any(type(x).__name__ == "ScalarImage" and x.space_dim == 2 and not x.series and "S2" in R[nm][0] for x in pool[2:])]
            nm = ctx.rng.choice(cands)
            a = ctx.rng.choice(pool)
            built = call(lambda: R[nm][1](ctx, a))
            if isinstance(built, Raised):
                continue
            fn, args = built
            rs0 = rng_state()
            res = call(fn)
            history.append(nm)
            ctx.count(("chain", kind, tuple(history)), nontrivial=not isinstance(res, Raised))
            if rng_state() != rs0:
                ctx.fail(f"C17:{nm}:global-rng-state", f"{nm} altered the global random state", {"chain": history})
            for k, (obj, s0, origin) in enumerate(tracked):
                s1 = snap(obj, d)
                if s1 != s0:
                    where = diff_path(s0, s1, origin.split("[")[0])
                    ctx.fail(f"C17:chain:{nm.split('[')[0]}:mutates:{where.split(':')[0].split('.')[-1]}",
                             f"in the chain {history} the call {nm} changed an {origin} of an earlier call: {where}",
                             {"chain": history, "kind": kind, "where": where, "culprit": nm})
                    tracked[k] = (obj, s1, origin)
            if isinstance(res, d.Image):
                # sometimes the user goes on working IN PLACE on the result (b = a.f(..); b.img[...] = 0; b.append(x)):
                # nothing tracked so far may change, except through the documented views
                if not nm.startswith(VIEW_FORMS) and ctx.rng.random() < 0.5 and not any(res is t[0] for t in tracked):
                    if ctx.rng.random() < 0.5:
                        call(lambda: res.append(res.copy()))
                    history.append("<in-place on result>")
                    for k, (obj, s0, origin) in enumerate(tracked):
                        s1 = snap(obj, d)
                        if s1 != s0:
                            where = diff_path(s0, s1, origin.split("[")[0])
                            ctx.fail(f"C17:chain:in-place-on-result-of:{nm.split('[')[0]}:reaches:{where.split(':')[0].split('.')[-1]}",
                                     f"in the chain {history} working in place on the result of {nm} changed an {origin} of an earlier call: {where}",
                                     {"chain": history, "kind": kind, "where": where, "culprit": nm})
                            tracked[k] = (obj, s1, origin)
                pool.append(res)
                tracked.append((res, snap(res, d), f"result-of-{nm}"))


BOOST = {"random_patches": 12, "LinearModel(array)": 3, "superpose": 3, "subregion[voxels]": 3, "subregion[coordinates,outside]": 2}


def oracle(ctx, d):
    ctx._d = d
    R = registry(d)
    ctx.cov["registry_size"] = len(R)
    reps = ctx.pick(6, 40)
    for name in sorted(R):
        kinds, builder = R[name]
        for kind in kinds:
            for _ in range(reps * BOOST.get(name, 1)):
                run_form(ctx, d, name, kinds, builder, kind=kind)
    for name, st in ctx.cov.get("forms", {}).items():
        total = st["calls"] + st["builder_raised"]
        if total and (st["raised"] + st["builder_raised"]) > 0.5 * total:
            # a form that (almost) always raises is vacuously "non-mutating": report it instead of counting it as passing
            ctx.mark("ORACLE-VACUOUS", {"form": name, **st, "meaning": "this call form raised in most of its cases; nothing was checked"})
    chains(ctx, d, R, ctx.pick(400, 4000))


# ---------------------------------------------------------------------------------------------


def replay(data):
    """re-execute the stored case on the implementation: the failing case is regenerated deterministically from the stored
    seed and tier (the whole generation stream of that tier is replayed, Lean proofs are skipped), the oracle is evaluated
    again and the observed outcome is printed next to the stored one. Exit code 1 = reproduced, 0 = not reproduced."""
    import shutil

    from ..lib import core

    sig = data.get("signature")
    rep = data.get("replay") or {}
    print(f"property C17 replay")
    print(f"  stored signature: {sig}")
    print(f"  stored finding  : {data.get('what')}")
    if "verif_seed" not in rep:
        print("  no failing input stored (proof / tie / correspondence break):", [m.get("kind") for m in data.get("no_longer_checks", data.get("marks", []))])
        return 0
    print(f"  stored input    : { {k: v for k, v in rep.items() if k not in ('before', 'after')} }")

    class RCtx(core.Ctx):
        def prove(self, *a, **k):  # the Lean side is not part of a replay
            pass

        def write_gen(self, *a, **k):
            return False

        def log(self, *a):
            pass

    ctx = RCtx("C17", rep.get("tier", "quick"), int(rep["verif_seed"]), LEVEL)
    try:
        run(ctx)
    finally:
        shutil.rmtree(ctx._tmp, ignore_errors=True)
    hits = [f for f in ctx.failures if f["signature"] == sig] + [h for h in ctx.known_hits if h["signature"] == sig]
    if hits:
        h = hits[0]
        print("  REPRODUCED on the current implementation:")
        print(f"    observed: {h.get('what')}")
        if "replay" in h:
            print(f"    input   : { {k: v for k, v in h['replay'].items() if k not in ('before', 'after')} }")
            for k in ("before", "after", "observed", "required"):
                if k in h["replay"]:
                    print(f"    {k:8}: {str(h['replay'][k])[:300]}")
        return 1
    others = sorted({f["signature"] for f in ctx.failures})
    print("  not reproduced on the current implementation (the required behaviour holds for the regenerated case)" + (f"; other failures now: {others[:5]}" if others else ""))
    return 0


def run(ctx):
    import darsia as d

    _fail = ctx.fail
    ctx.fail = lambda sig, what, rep: _fail(sig, what, dict(rep, verif_seed=ctx.seed, tier=ctx.tier))  # replays are reproducible

    t = tabulate_guard(d)
    ctx.write_gen("MulGuard", emit_guard(t))
    ws = extract_write_sets(d)
    ctx.write_gen("WriteSets", emit_write_sets(ws))
    ctx.cov["source_write_sets"] = {k: (repr(v) if isinstance(v, Raised) else [list(x) for x in v]) for k, v in ws.items()
                                    if not k.startswith("__") and (isinstance(v, Raised) or v)}
    ctx.cov["darsia_self_mutating_methods"] = ws.get("__mutators__", [])
    validate_write_set_analysis(ctx, set(ws.get("__mutators__", [])))
    ctx.cov["generated_tables"] = {"mulGuard": {k: repr(v) if isinstance(v, Raised) else "ok" for k, v in t.items()}}
    ctx.prove("C17")
    # the guard of the documented types, stated on the implementation
    for tag in ("int", "float"):
        if isinstance(t[tag], Raised):
            ctx.fail(f"C17:Image.__mul__({tag}):raises-{type(t[tag].exc).__name__}",
                     f"Image * {tag} raises {type(t[tag].exc).__name__}: the documented scalar type is rejected by the type guard",
                     {"form": "mul", "scalar_type": tag, "value": repr(tag_value(tag))})
    for tag in ("npFloat32", "npFloat64", "npInt64"):
        if isinstance(t[tag], Raised):  # documented are float and int; numpy scalars are the model's convention (mul_accepts_documented)
            ctx.mark("TIE-BROKEN", {"correspondence": "mulGuard table: numpy scalar accepted", "scalar_type": tag, "raises": repr(t[tag].exc)})
    progs = gen_programs(ctx, d, ctx.pick(600, 5000), ctx.pick(60, 400))
    lines = [p.line() for p in progs]
    impl = [p.out() for p in progs]
    diffs = ctx.correspond("heap-programs", lines, impl)
    ctx.cov["program_statements"] = sum(len(p.stmts) for p in progs)
    stat = {}
    for p in progs:
        for s in p.stmts:
            stat[s.split()[0]] = stat.get(s.split()[0], 0) + 1
    ctx.cov["statement_distribution"] = stat
    ctx.cov["programs_ending_in_error"] = sum(p.dead for p in progs)
    ctx.cov["statement_attempts_and_dropped"] = {k: v for k, v in sorted(OP_STATS.items())}
    for k, (tried, dropped) in OP_STATS.items():
        # a statement kind whose real call (almost) always raises is not tied at all: loud, not a silent pass
        if tried >= 8 and dropped > 0.5 * tried:
            ctx.mark("TIE-VACUOUS", {"statement": k, "attempts": tried, "real_call_raised": dropped,
                                     "meaning": "the program correspondence never exercises this modelled call"})
    oracle(ctx, d)
    ctx.cov["rule"] = ("distinct = (call form, image kind, shape, dtype) for the registry, (kind, sequence of forms) for chains, "
                       "program text for the correspondence")
    ctx.assumptions += [
        "numpy views share memory with their base (model: view cells); copy.deepcopy copies every attribute",
        "cv2.resize of the weight image is a parameter of the model (its result is supplied by the harness)",
        "np.allclose in Image.append is modelled as equality (harness uses equal or clearly different values)",
        "dtype promotion / rounding of arithmetic is outside the model (exact rationals); it is observed against numpy",
    ]
