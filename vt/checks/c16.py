"""C16 - solvers and regularisers carry no hidden state between calls.

Oracle: sequences of operations (Jacobi / MG solves, update_params, H1 regularisation, split-Bregman and tvd
with default or explicit solver, Anderson-accelerated runs, distance objects re-used on successive pairs) are run
in this process on one set of objects; every call's result is compared bit-for-bit with the same call issued
FIRST in a fresh process (preceded only by the parameter-setting part of the history on freshly built objects).
Fresh processes: forks of a pristine post-import interpreter for every case, real `python` subprocesses for a
sample of the final calls.
Tie: the Lean model `DarsiaModel.Stateful` is asked, for the same sequences, whether each result equals the
settings-only result and (for Jacobi solves) which parameters the diagonal was computed from; the harness
recomputes that solve with a fresh explicit solver holding exactly those parameters.
"""
from __future__ import annotations

import hashlib
import itertools
import json
import multiprocessing as mp
import os
import subprocess
import sys
from fractions import Fraction

import numpy as np

from ..lib.core import VERIF, REPO, frac
from ..lib.impl import Raised, call

LEVEL = "proof"
CLAIM = dict(
    category="proof",
    text="Theorems in DarsiaProps.C16 about the state-logic model DarsiaModel.Stateful (default-argument solver instances, "
    "Jacobi const_diag attributes, MG smoother and coefficient restriction/prolongation, Anderson history matrices, cached "
    "linear solver of distance objects): for ALL initial processes, histories and operations the result of a call equals "
    "its result after only the parameter-setting part of the history (`stateless`), and equals its result in a fresh process "
    "for every operation that uses no user solver object (`stateless_self_contained`); caches are never read "
    "(`call_reads_no_cache`); MG leaves its coefficients as it found them; with negations for the code before the two fixes. "
    "`regulariser_stateless`: H1 / split-Bregman with ANY solver are independent of the whole history and of the solver object's own "
    "dim / mass_coeff / diffusion_coeff. A call returns the record of everything it reads; DarsiaModel.SolverArith evaluates the "
    "ARITHMETIC of Jacobi (diagonal, sweeps with ghost neighbours), of the MG V-cycle (darsia.laplace, restriction, prolongation, edge "
    "padding, heterogeneous coefficients) and of H1_regularization over Q from that record, so the theorems transfer to results "
    "(`stateless_results`, `self_contained_results`, `h1_result_stateless`). READING of 'coefficients set for it': the public parameters "
    "(dim, mass_coeff, diffusion_coeff) of a USER's solver object are visible state; whoever calls update_params on it - the user, or a "
    "regulariser the user handed it to - sets them for later bare solver calls (`stateless` is relative to that parameter-setting part of "
    "the history, and the oracle accepts EITHER reference - settings incl. those of regularisers, or the user's own settings only - and fails only if the call "
    "equals neither; a call matching only the second is a tie mark); regularisers themselves overwrite all three and are "
    "independent of everything. Near-definitional parts (with the diagonal recomputed per call, Jacobi/Anderson-from-0/first-solve-sets-up are "
    "stateless by construction): the content is in MG coefficient restoration, the default instances, the parameter-forgetting normal form "
    "and in the TIE: every call of every sequence is observed through instrumented live objects (Jacobi._diag/__call__, MG.operator, "
    "update_params, Anderson reset/columns, linear_solve set-up vs re-use incl. the initial Darcy and final pressure solves) and its event "
    "trace is compared token by token with the model's record; plus equal/unequal predictions on all generated sequences, "
    "and the model's rational results of every Jacobi / MG / H1 call against the implementation's floats (exact where all diagonals are "
    "powers of two, within 1e-12 otherwise); split-Bregman (anisotropic, no tolerance, no adaptivity: right-hand side, solver call, shrinkage) is "
    "evaluated and tied the same way; Anderson arithmetic: theorem `anderson_run_result_stateless` on builder c's model (least-squares solve a "
    "parameter), tied there (C04); distance arithmetic is NOT modelled - records only. The deciding "
    "observation is bit-for-bit equality with fresh processes over all sequences of the tier.",
    note="Arithmetic of numpy/scipy/numba/pyamg is outside the model; determinism of those libraries across processes is assumed "
    "(and observed: zero mismatches on the fixed tree). The harness SEEDS numpy's global generator before every distance call because pyamg draws "
    "from it when it builds a hierarchy; the hidden dependence on earlier draws is a known finding reproduced on every run. Adaptive Bregman "
    "(bregman_update) is in the alphabet and in the WObj model (set-up / re-use trace compared). The result-level theorems stateless_results / "
    "self_contained_results / h1_result_stateless are congruences of the record-level theorems. Category 'proof' is claimed for: MG coefficient "
    "restoration, default-instance independence, regulariser independence of solver parameters (theorems with content) + exact arithmetic and "
    "event-trace ties; the Jacobi / Anderson-from-0 / first-solve parts are stateless by construction of the fixed code. tvd's skimage methods are covered by the oracle only. One Jacobi object has a tolerance (its branch is modelled and "
    "tied numerically); MG's tolerance branch is not exercised; reduced matrices, amg_residual_history and the distance object's own Anderson "
    "acceleration are not in the model (oracle only).",
    technique="Lean 4 proof (cache-forgetting normal form commutes with every operation; induction over histories) + "
    "differential correspondence + fresh-process oracle",
)

# ---------------------------------------------------------------------------
# deterministic data, objects, operations (JSON-able descriptions)

SHAPES = {0: (8, 8), 1: (8, 8), 2: (6, 10), 3: (8, 8, 3), 4: (8, 8), 5: (4, 4, 4), 6: (8, 8)}
FLOAT32 = {6}  # data of a narrower dtype with the shape of data 0 / 1 / 4 (buffers re-used across calls must not keep a dtype)


def data(k):
    rs = np.random.RandomState(1000 + k)
    a = np.round(rs.rand(*SHAPES[k]) * 64) / 64  # dyadic, reproducible across processes
    return a.astype(np.float32) if k in FLOAT32 else a


def coef_array(k):
    rs = np.random.RandomState(7 + k)
    return 1.0 + np.round(rs.rand(8, 8) * 16) / 16


OBJECTS = {
    "jacs": [dict(maxiter=3, tol=None, dim=2, mass=1.0, diff=1.0), dict(maxiter=2, tol=None, dim=2, mass=2.0, diff=0.5),
             dict(maxiter=3, tol=None, dim=2, mass=4.0, diff=1.0), dict(maxiter=8, tol=0.0625, dim=2, mass=1.0, diff=0.5)],
    "mgs": [dict(depth=1, sm=2, maxiter=2, dim=2, mass=1.0, diff=1.0), dict(depth=1, sm=2, maxiter=1, dim=2, mass="a0", diff=1.0),
            dict(depth=1, sm=2, maxiter=2, dim=2, mass=0.0, diff=2.0)],
    "aas": [dict(depth=2, restart=3), dict(depth=3, restart=None)],
    "ws": [dict(kind=k, solver=sv, formulation=fm) for k in ("newton", "bregman")
           for sv, fm in (("direct", "full"), ("direct", "pressure"), ("amg", "pressure"))]
          + [dict(kind="bregman", solver="amg", formulation="pressure",
                  amg_options={"max_coarse": 4, "strength": ("symmetric", {"theta": 0.1}),
                               "presmoother": ("gauss_seidel", {"sweep": "forward", "iterations": 2}),
                               "postsmoother": ("gauss_seidel", {"sweep": "backward", "iterations": 2})}),
             # ADAPTIVE Bregman: bregman_update fires when (iter + 1) % 3 == 0 (not at iteration 0)
             dict(kind="bregman", solver="direct", formulation="full", adaptive=3)],
}


_OWNED = {"scalars": {}, "arrays": {}}  # caller-owned coefficient objects of the current sequence: ONE Python object per value / array id


def reset_owned():
    _OWNED["arrays"].clear()


def coef_value(c):
    """The caller's coefficient object: equal scalars are the SAME float object in every call of the process, coefficient arrays are
    built once per sequence and handed to every call by reference (a caller re-using its own mu / omega objects; arrays may have been
    modified in place by a `cm` operation in between)."""
    if c is None:
        return None
    if isinstance(c, str):
        k = int(c[1:])
        if k not in _OWNED["arrays"]:
            _OWNED["arrays"][k] = coef_array(k)
        return _OWNED["arrays"][k]
    return _OWNED["scalars"].setdefault(float(c), float(c))


def ctor_value(c):
    return coef_array(int(c[1:])) if isinstance(c, str) else c


def variant_coef(c):
    """another coefficient of the same kind (scalar stays scalar, array stays array)"""
    return "a2" if isinstance(c, str) else 3.0 * c + 1.0


class Objs:
    def __init__(self, d, with_ws=False, variant=False):
        """variant: the solver objects are constructed with OTHER values of the parameters that every regulariser overwrites
        (dim, mass_coeff, diffusion_coeff); maxiter / tol / depth / smoother_iterations and the kind of coefficient are kept"""
        vc = variant_coef if variant else (lambda c: c)
        vd = (lambda n: 5 - n) if variant else (lambda n: n)
        self.jacs = [d.Jacobi(maxiter=o["maxiter"], tol=o["tol"], dim=vd(o["dim"]), mass_coeff=ctor_value(vc(o["mass"])),
                              diffusion_coeff=ctor_value(vc(o["diff"]))) for o in OBJECTS["jacs"]]
        self.mgs = [d.MG(depth=o["depth"], smoother_iterations=o["sm"], maxiter=o["maxiter"], dim=vd(o["dim"]),
                         mass_coeff=ctor_value(vc(o["mass"])), diffusion_coeff=ctor_value(vc(o["diff"]))) for o in OBJECTS["mgs"]]
        self.aas = [d.AndersonAcceleration(dimension=None, depth=o["depth"], restart=o["restart"]) for o in OBJECTS["aas"]]
        self._d = d
        self._ws = {}

    def ws(self, i):
        """distance objects are built on first use (4x5 grid, few nonlinear iterations, Anderson acceleration on)"""
        if i not in self._ws:
            d, o = self._d, OBJECTS["ws"][i]
            grid = d.generate_grid(wimage(d, 0))
            opts = {"num_iter": 8, "tol_residual": 1e-10, "tol_increment": 1e-10, "tol_distance": 1e-10, "L": 1e2 if o["kind"] == "newton" else 1.0,
                    "aa_depth": 2, "aa_restart": 3, "verbose": False, "linear_solver": o["solver"], "formulation": o["formulation"]}
            if o["solver"] == "amg":
                opts["linear_solver_options"] = {"atol": 1e-10}
            if o.get("adaptive"):
                k = o["adaptive"]
                opts["bregman_update"] = lambda it, k=k: (it + 1) % k == 0
            if "amg_options" in o:
                opts["amg_options"] = json.loads(json.dumps(o["amg_options"]))  # a user's tuned hierarchy (fresh dict per object)
                opts["amg_options"] = {k: tuple(v) if isinstance(v, list) else v for k, v in opts["amg_options"].items()}
            cls = d.WassersteinDistanceNewton if o["kind"] == "newton" else d.WassersteinDistanceBregman
            self._ws[i] = cls(grid, None, opts)
        return self._ws[i]


def wimage(d, k):
    """mass distributions on a 4x5 grid (unit mass)"""
    a = np.zeros((4, 5))
    sl = [(slice(0, 2), slice(0, 2)), (slice(2, 4), slice(2, 5)), (slice(0, 1), slice(3, 5)), (slice(1, 4), slice(0, 1))][k % 4]
    a[sl] = 1.0
    img = d.Image(a, space_dim=2, dimensions=[1.0, 1.0], scalar=True)
    img.img /= d.Geometry(**img.shape_metadata()).integrate(img)
    return img


def execute(d, objs, op):
    """run one operation on the real library; value or Raised"""
    k = op["op"]
    if k == "jc":
        x = data(op["data"])
        return call(objs.jacs[op["i"]], x.copy(), x[::-1].copy(), h=op["h"])
    if k == "ju":
        return call(objs.jacs[op["i"]].update_params, dim=op.get("dim"), mass_coeff=coef_value(op.get("mass")), diffusion_coeff=coef_value(op.get("diff")))
    if k == "cm":
        a = coef_value(op["coef"])
        a *= 2.0  # the caller modifies ITS array in place; later calls receive the same object
        a += 0.25
        return None
    if k == "mc":
        x = data(op["data"])
        return call(objs.mgs[op["i"]], x.copy(), x[::-1].copy())
    if k == "mu":
        return call(objs.mgs[op["i"]].update_params, dim=op.get("dim"), mass_coeff=coef_value(op.get("mass")), diffusion_coeff=coef_value(op.get("diff")))
    kw = {}
    if k in ("h1", "sb") and op["solver"] != "d":
        kw["solver"] = objs.jacs[op["solver"][1]] if op["solver"][0] == "j" else objs.mgs[op["solver"][1]]
    if k == "h1":
        return call(d.H1_regularization, data(op["data"]).copy(), mu=coef_value(op["mu"]), omega=coef_value(op["omega"]), dim=op.get("dim", 2), **kw)
    if k == "sb":
        return call(d.split_bregman_tvd, data(op["data"]).copy(), mu=coef_value(op["mu"]), omega=coef_value(op["omega"]), ell=coef_value(op.get("ell")), dim=2,
                    max_num_iter=op["iters"], isotropic=op.get("isotropic", False), **kw)
    if k == "tvd":
        if op["method"] == "heterogeneous bregman":
            return call(d.tvd, data(op["data"]).copy(), method=op["method"], weight=op["mu"], max_num_iter=op["iters"], eps=None,
                        omega=op["omega"], regularization=op["ell"])
        return call(d.tvd, data(op["data"]).copy(), method=op["method"], weight=op["mu"], max_num_iter=op["iters"], eps=1e-3)
    if k == "an":
        def run():
            aa = objs.aas[op["i"]]
            x = data(op["data"]).ravel()[: op.get("size", 16)].copy()
            for it in range(op["n"]):
                g = op["a"] * np.cos(x) + 0.25
                x = aa(g, g - x, it)
            return x
        return call(run)
    if k == "di":
        def run():
            np.random.seed(20240607)  # pyamg draws from numpy's global generator when it builds a hierarchy
            r = objs.ws(op["i"])(wimage(d, op["pair"]), wimage(d, op["pair"] + 1))
            return np.asarray(r[0] if isinstance(r, tuple) else r, dtype=float)
        return call(run)
    raise ValueError(k)


def setting_part(op):
    """Python transcription of `Op.settingPart` (DarsiaModel.Stateful); a caller's in-place modification of its own coefficient array
    (`cm`) is an argument of the later calls, so it is replayed in the reference as well"""
    k = op["op"]
    if k in ("ju", "mu", "cm"):
        return [op]
    if k in ("h1", "sb") and op["solver"] != "d":
        diff = op["mu"] if k == "h1" else (op["ell"] if op.get("ell") is not None else 2 * op["mu"])
        return [{"op": "ju" if op["solver"][0] == "j" else "mu", "i": op["solver"][1], "dim": op.get("dim", 2), "mass": op["omega"], "diff": diff}]
    return []


def digest(r):
    if isinstance(r, Raised):
        return repr(r)
    if r is None:
        return "none"
    a = np.ascontiguousarray(np.asarray(r))
    return f"{a.dtype.str}{list(a.shape)}:{hashlib.sha256(a.tobytes()).hexdigest()[:24]}" + (f"={float(a.ravel()[0])!r}" if a.size == 1 else "")


def needs_ws(ops):
    return any(o["op"] == "di" for o in (ops["ops"] if isinstance(ops, dict) else ops))


def fresh_result(ops):
    """executed inside a fresh process: settings + the call, on freshly built objects; digest of the last result"""
    import darsia as d

    variant = False
    if isinstance(ops, dict):
        variant, ops = bool(ops.get("variant")), ops["ops"]
    reset_owned()
    objs = Objs(d, with_ws=needs_ws(ops), variant=variant)
    r = None
    for op in ops:
        r = execute(d, objs, op)
    return digest(r)


# ---------------------------------------------------------------------------
# instrumentation of the live objects: the read-set / event sequence the model predicts is OBSERVED on the implementation

_TRACE = {"events": [], "installed": False, "depth": 0, "fp": None}


def _coef_fingerprints():
    """coefficient arrays and their restrictions (MG.restriction with dim = 2), by content"""
    if _TRACE["fp"] is None:
        fp = {}
        for k in range(3):
            a = coef_array(k)
            for n in range(4):
                fp[(a.shape, a.tobytes())] = f"a{k}R{n}"
                if min(a.shape) < 2:
                    break
                for ax in range(2):
                    a = (np.take(a, np.arange(0, a.shape[ax] - 1, 2), axis=ax) + np.take(a, np.arange(1, a.shape[ax], 2), axis=ax)) / 2
        _TRACE["fp"] = fp
    return _TRACE["fp"]


def _ctok(c):
    if c is None:
        return "None"
    if isinstance(c, np.ndarray):
        return _coef_fingerprints().get((c.shape, np.ascontiguousarray(c).tobytes()), "a?")
    return fr(float(c))


def _otok(c):
    return "-" if c is None else (str(c) if isinstance(c, (int, np.integer)) and not isinstance(c, bool) else _ctok(c))


def install_tracer(d):
    """wrap (once per process) the methods through which hidden state could be read or written; behaviour is unchanged"""
    if _TRACE["installed"]:
        return
    _TRACE["installed"] = True
    ev = _TRACE["events"]
    import darsia.measure.wasserstein as W

    J, MGc, S, AA, VW = d.Jacobi, d.MG, d.Solver, d.AndersonAcceleration, W.VariationalWassersteinDistance
    o_diag, o_jcall, o_op, o_supd, o_mupd, o_areset, o_acall, o_ls = J._diag, J.__call__, MGc.operator, S.update_params, MGc.update_params, AA.reset, AA.__call__, VW.linear_solve

    def diag(self, h=1):
        ev.append(("D", f"{self.dim},{_ctok(self.mass_coeff)},{_ctok(self.diffusion_coeff)},{fr(float(h))}"))
        return o_diag(self, h)

    def jcall(self, x0, rhs, h=1.0):
        n0 = len(ev)
        r = o_jcall(self, x0, rhs, h)
        ds = [e for e in ev[n0:] if e[0] == "D"]
        del ev[n0:]
        ev.append(("T", f"J({self.maxiter};{ds[0][1] if len(ds) == 1 else 'cached' if not ds else 'diag-computed-%d-times' % len(ds)})"))
        return r

    def operator(self, x, h):
        ev.append(("T", f"O({self.dim},{_ctok(self.mass_coeff)},{_ctok(self.diffusion_coeff)},{fr(float(h))})"))
        return o_op(self, x, h)

    def upd(orig):
        def f(self, dim=None, mass_coeff=None, diffusion_coeff=None):
            if _TRACE["depth"] == 0:
                ev.append(("T", f"U({_otok(dim)},{_otok(mass_coeff)},{_otok(diffusion_coeff)})"))
            _TRACE["depth"] += 1
            try:
                return orig(self, dim, mass_coeff, diffusion_coeff)
            finally:
                _TRACE["depth"] -= 1
        return f

    def areset(self):
        ev.append(("R",))
        return o_areset(self)

    def acall(self, gk, fk, iteration):
        n0 = len(ev)
        r = o_acall(self, gk, fk, iteration)
        reset = any(e[0] == "R" for e in ev[n0:])
        del ev[n0:]
        mk = min(self._inner_iteration, self._depth)
        # which of the mixed columns of the history matrices are (still) zero columns - what the model's record predicts
        pat = "".join("z" if not (self._Fk[:, c].any() or self._Gk[:, c].any()) else "d" for c in range(mk))
        ev.append(("A", f"A({iteration};{mk};{pat})"))
        return r

    def setup_wrap(orig):
        def f(self, *a, **k):
            ev.append(("S",))
            return orig(self, *a, **k)
        return f

    def ls(self, *a, **k):
        n0 = len(ev)
        r = o_ls(self, *a, **k)
        setup = any(e[0] == "S" for e in ev[n0:])
        del ev[n0:]
        ev.append(("L", "L(S)" if setup else "L(R)"))
        return r

    J._diag, J.__call__, MGc.operator, AA.reset, AA.__call__, VW.linear_solve = diag, jcall, operator, areset, acall, ls
    S.update_params, MGc.update_params = upd(o_supd), upd(o_mupd)
    for n in dir(VW):
        if n.startswith("setup_") and n.endswith("_solver"):
            setattr(VW, n, setup_wrap(getattr(VW, n)))


def take_trace(op):
    ev = _TRACE["events"]
    if op["op"] == "di":
        toks = [e[1] for e in ev if e[0] == "L"]  # the object's own Anderson acceleration is not part of the model
    else:
        toks = [e[1] for e in ev if e[0] in ("T", "A", "L")]
    del ev[:]
    return " ".join(toks)


def run_chunk(seqs):
    """executed inside a fresh process: a chunk of sequences one after the other (one set of objects per sequence, the
    library's default solver instances shared by the whole chunk); digests of every call"""
    import darsia as d

    install_tracer(d)
    out = []
    for seq in seqs:
        reset_owned()
        objs = Objs(d, with_ws=needs_ws(seq))
        del _TRACE["events"][:]
        row = []
        for op in seq:
            r = execute(d, objs, op)
            vals = np.asarray(r, dtype=float).ravel().tolist() if op["op"] in ("jc", "mc", "h1", "sb", "tvd") and in_model(op) and isinstance(r, np.ndarray) else None
            row.append((digest(r), vals, take_trace(op)))
        out.append(row)
    return out


def _zygote(conn, nproc):
    """pristine post-import interpreter: serves batches; every task runs in its own fork of this process"""
    ctx = mp.get_context("fork")
    while True:
        msg = conn.recv()
        if msg is None:
            break
        kind, batch = msg
        with ctx.Pool(processes=nproc, maxtasksperchild=1) as pool:
            conn.send(pool.map(fresh_result if kind == "fresh" else run_chunk, batch, chunksize=1))


WORKER = "import json,sys; from vt.checks.c16 import fresh_result; print('RESULT ' + fresh_result(json.loads(sys.stdin.read())))"


def subprocess_result(ops):
    env = dict(os.environ, PYTHONPATH=os.pathsep.join([str(REPO / "src"), str(VERIF)]), PYTHONWARNINGS="ignore", NUMBA_DISABLE_PERFORMANCE_WARNINGS="1")
    p = subprocess.run([sys.executable, "-c", WORKER], input=json.dumps(ops), capture_output=True, text=True, env=env, cwd=str(VERIF), timeout=600)
    for l in p.stdout.splitlines():
        if l.startswith("RESULT "):
            return l[7:]
    return "!worker-failed " + p.stderr[-300:]


# ---------------------------------------------------------------------------
# model protocol


def fr(x):
    f = frac(x)
    return str(f.numerator) if f.denominator == 1 else f"{f.numerator}/{f.denominator}"


def coef_tok(c):
    if c is None:
        return "none"
    return f"a {c[1:]}" if isinstance(c, str) else f"s {fr(c)}"


def opt(x):
    return "none" if x is None else str(x)


def objects_line():
    js = " ".join(f"{o['maxiter']} {'none' if o['tol'] is None else fr(o['tol'])} {o['dim']} {coef_tok(o['mass'])} {coef_tok(o['diff'])}" for o in OBJECTS["jacs"])
    ms = " ".join(f"{o['depth']} {o['sm']} {o['maxiter']} {o['dim']} {coef_tok(o['mass'])} {coef_tok(o['diff'])}" for o in OBJECTS["mgs"])
    aas = " ".join(f"{o['depth']} {opt(o['restart'])}" for o in OBJECTS["aas"])
    return f"J {len(OBJECTS['jacs'])} {js} M {len(OBJECTS['mgs'])} {ms} A {len(OBJECTS['aas'])} {aas} W {len(OBJECTS['ws'])}"


def op_tok(op, n):
    k = op["op"]
    if k == "jc":
        return f"jc {op['i']} {fr(op['h'])} {op['data']}"
    if k in ("ju", "mu"):
        return f"{k} {op['i']} {opt(op.get('dim'))} {coef_tok(op.get('mass'))} {coef_tok(op.get('diff'))}"
    if k == "mc":
        return f"mc {op['i']} {op['data']}"
    sref = "d" if op.get("solver", "d") == "d" else f"{op['solver'][0]} {op['solver'][1]}"
    if k == "h1":
        dim = op.get("dim", 2)
        ch = int(np.prod(SHAPES[op["data"]][dim:])) if len(SHAPES[op["data"]]) > dim else 1
        return f"h1 {sref} {coef_tok(op['mu'])} {coef_tok(op['omega'])} {dim} {ch} {op['data']}"
    if k in ("sb", "tvd"):
        ell = op["ell"] if op.get("ell") is not None else 2 * op["mu"]
        return f"sb {sref} {coef_tok(ell)} {coef_tok(op['omega'])} 2 {op['iters']} {op['data']} tvw {coef_tok(op['mu'])}"
    if k == "an":
        return f"an {op['i']} {op['n']} " + " ".join(str(1000 * n + t) for t in range(op["n"]))
    if k == "di":
        o = OBJECTS["ws"][op["i"]]
        return f"di {op['i']} {(o.get('adaptive') or 1) if o['kind'] == 'bregman' else 0} {op['pair']} 8"
    raise ValueError(k)


def user_ref_ops(seq, n):
    """reference under the other admissible reading: only the update_params calls (and in-place coefficient modifications) the USER
    issued precede the call - a regulariser is not required to leave its parameters on the solver it was handed"""
    return [o for o in seq[:n] if o["op"] in ("ju", "mu", "cm")] + [seq[n]]


def in_model(op):
    return not (op["op"] == "cm" or (op["op"] == "tvd" and op["method"] != "heterogeneous bregman"))


def seq_in_model(seq):
    """sequences with an in-place coefficient modification are outside the Lean model (array identity = content there)"""
    return not any(o["op"] == "cm" for o in seq)


def model_parallel(ctx, lines, nproc=10):
    """ctx.model split over several driver processes (the arithmetic of every call is evaluated in exact rationals)"""
    import tempfile
    from concurrent.futures import ThreadPoolExecutor
    from ..lib.core import LEAN

    if len(lines) < 2 * nproc:
        return ctx.model(lines)
    with ctx._lock():
        pass  # wait for a running build
    chunks = [lines[k::nproc] for k in range(nproc)]

    def one(chunk):
        with tempfile.NamedTemporaryFile("w", suffix=".txt", delete=False) as f:
            f.write("\n".join(chunk) + "\n")
            name = f.name
        try:
            with open(name) as fin:
                p = subprocess.run(["lake", "env", "lean", "--run", "Drivers/C16.lean"], cwd=LEAN, stdin=fin, capture_output=True, text=True, timeout=3000)
        finally:
            os.unlink(name)
        out = [l[2:] for l in p.stdout.splitlines() if l.startswith("> ")]
        if p.returncode != 0 or len(out) != len(chunk):
            ctx.mark("TIE-BROKEN", {"driver_exit": p.returncode, "driver_lines": len(out), "expected": len(chunk), "stderr": p.stderr[-1000:]})
            out = (out + ["!driver-missing"] * len(chunk))[: len(chunk)]
        return out

    with ThreadPoolExecutor(max_workers=nproc) as ex:
        res = list(ex.map(one, chunks))
    got = [None] * len(lines)
    for k in range(nproc):
        got[k::nproc] = res[k]
    return got


def arr_tok(a):
    from ..lib.core import flist

    return f"{flist(a.shape)} {flist(a.ravel().tolist())}"


def model_line(seq):
    """objects, the coefficient arrays (ENV) and the data arrays the sequence uses (DATA, re-numbered), the operations"""
    ops = [o for o in seq if in_model(o)]
    used = sorted({o["data"] for o in ops if "data" in o and o["op"] in ("jc", "mc", "h1", "sb", "tvd")})
    remap = {k: n for n, k in enumerate(used)}
    toks = []
    for n, o in enumerate(ops):
        o2 = dict(o, data=remap.get(o.get("data"), 0)) if "data" in o else o
        toks.append(op_tok_data(o, o2, n))
    env = " ".join(f"{k} {arr_tok(coef_array(k))}" for k in range(3))
    dat = " ".join(arr_tok(data(k)) for k in used)
    return f"seq 1 0 {objects_line()} ENV 3 {env} DATA {len(used)} {dat} OPS {len(ops)} " + " ".join(toks)


def op_tok_data(o, o2, n):
    """token of an operation with the re-numbered data id (shape-dependent fields are computed from the original id)"""
    t = op_tok(o, n).split()
    if o["op"] in ("jc", "mc", "h1"):
        t[-1] = str(o2["data"])
    elif o["op"] in ("sb", "tvd"):
        t[t.index("tvw") - 1] = str(o2["data"])
    return " ".join(t)


# ---------------------------------------------------------------------------
# alphabet

GROUPS = {
    "h1-default": [
        dict(op="h1", solver="d", mu=0.5, omega=1.0, data=0),
        dict(op="h1", solver="d", mu=2.0, omega=0.5, data=0),
        dict(op="h1", solver="d", mu=0.5, omega=1.0, data=2),
        dict(op="h1", solver="d", mu=1.0, omega=1.0, data=3),
        dict(op="h1", solver="d", mu=0.5, omega=1.0, data=5, dim=3),
        dict(op="h1", solver="d", mu=0.5, omega=1.0, data=6),
    ],
    "sb-default": [
        dict(op="sb", solver="d", mu=0.125, omega=1.0, ell=None, iters=3, data=0),
        dict(op="sb", solver="d", mu=0.25, omega=2.0, ell=1.0, iters=2, data=1),
        dict(op="tvd", method="heterogeneous bregman", mu=0.125, omega=1.0, ell=0.5, iters=2, data=0),
        dict(op="tvd", method="chambolle", mu=0.125, iters=5, data=0),
    ],
    "jacobi-object": [
        dict(op="jc", i=0, h=1.0, data=0),
        dict(op="jc", i=0, h=0.5, data=0),
        dict(op="jc", i=0, h=1.0, data=2),
        dict(op="jc", i=0, h=1.0, data=6),
        dict(op="ju", i=0, diff=5.0),
        dict(op="ju", i=0, mass=2.0, dim=2),
        dict(op="ju", i=0, dim=3),
        dict(op="h1", solver=["j", 0], mu=3.0, omega=1.0, data=1),
        dict(op="sb", solver=["j", 0], mu=0.25, omega=1.0, ell=None, iters=2, data=1),
    ],
    "mg-object": [
        dict(op="mc", i=0, data=0),
        dict(op="mu", i=0, diff=3.0),
        dict(op="mu", i=0, dim=3),
        dict(op="mc", i=0, data=2),
        dict(op="mc", i=0, data=6),
        dict(op="h1", solver=["m", 0], mu=2.0, omega=1.0, data=0),
        dict(op="h1", solver=["m", 0], mu=2.0, omega=1.0, data=5, dim=3),
    ],
    "mg-heterogeneous": [
        dict(op="mc", i=1, data=1),
        dict(op="mu", i=1, mass="a1"),
        dict(op="mu", i=1, mass="a2", diff="a1"),
        dict(op="cm", coef="a1"),
        dict(op="h1", solver=["m", 1], mu="a1", omega="a2", data=0),
        dict(op="h1", solver=["m", 1], mu="a2", omega="a0", data=0),
        dict(op="sb", solver=["m", 1], mu=0.25, omega="a1", ell="a2", iters=2, data=1),
    ],
    "jacobi-tolerance": [  # the tolerance branch of Jacobi.__call__ (stops when the relative increment is below tol, returns the previous iterate)
        dict(op="jc", i=3, h=1.0, data=0),
        dict(op="jc", i=3, h=1.0, data=2),
        dict(op="ju", i=3, diff=4.0),
        dict(op="h1", solver=["j", 3], mu=0.25, omega=1.0, data=1),
    ],
    "dyadic-arithmetic": [  # every diagonal is a power of two: the float results equal the model's rationals exactly
        dict(op="jc", i=2, h=1.0, data=0, exact=True),
        dict(op="mc", i=2, data=0, exact=True),
        dict(op="h1", solver="d", mu=1.0, omega=4.0, data=0, exact=True),
        dict(op="h1", solver=["m", 2], mu=2.0, omega=0.0, data=1, exact=True),
    ],
    "anderson": [
        dict(op="an", i=0, n=5, a=0.5, data=0),
        dict(op="an", i=0, n=4, a=0.75, data=1),
        dict(op="an", i=1, n=4, a=0.5, data=0),
        dict(op="an", i=0, n=4, a=0.5, data=2, size=12),
    ],
}
WS_PAIRS = (0, 1, 2)


def ws_sequences(maxlen):
    """every distance object on up to `maxlen` successive pairs"""
    for i in range(len(OBJECTS["ws"])):
        for k in range(1, maxlen + 1):
            for pairs in itertools.product(WS_PAIRS, repeat=k):
                yield [dict(op="di", i=i, pair=p) for p in pairs]


def slow(op):
    """split-Bregman re-compiles a numba kernel on every call (~0.3 s)"""
    return op["op"] == "sb" or (op["op"] == "tvd" and op["method"] == "heterogeneous bregman")


def sequences(ctx):
    """quick: all sequences of length <= 2 over the whole alphabet, a seeded sample of 120 triples without split-Bregman calls,
    all sequences of length <= 3 inside every group of operations that share an object (groups with more than 4 operations: a seeded 30 %).
    thorough: all of length <= 3 over the whole alphabet without split-Bregman calls plus 2120 sampled triples with one such
    (numba-compiling) call, all of
    length <= 4 inside every group (at most two such calls), distance objects on up to three successive pairs."""
    alphabet = [o for g in GROUPS.values() for o in g]
    seen = set()
    out = []

    def emit(seq):
        key = json.dumps(seq, sort_keys=True)
        if key not in seen:
            seen.add(key)
            out.append(list(seq))

    for k in (1, 2):
        for seq in itertools.product(alphabet, repeat=k):
            emit(seq)
    if ctx.big:
        one_slow = []
        for seq in itertools.product(alphabet, repeat=3):
            n = sum(map(slow, seq))
            if n == 0:
                if ctx.rng.random() < 0.5:  # a seeded half of the triples without split-Bregman calls (all pairs and all in-group sequences are kept)
                    emit(seq)
            elif n == 1:
                one_slow.append(seq)
        for seq in ctx.rng.sample(one_slow, 1500):
            emit(seq)
    else:
        fast = [o for o in alphabet if not slow(o)]
        for _ in range(120):
            emit([ctx.rng.choice(fast) for _ in range(3)])
    for name, g in GROUPS.items():
        for k in range(3, ctx.pick(3, 4) + 1):
            for seq in itertools.product(g, repeat=k):
                if sum(map(slow, seq)) <= (1 if k == 3 and not ctx.big else 2):
                    if ctx.big or len(g) <= 4 or ctx.rng.random() < 0.3:  # quick: every triple of the small groups, a seeded half of the large ones
                        emit(seq)
    for seq in ws_sequences(ctx.pick(2, 3)):
        emit(seq)
    # different distance objects in one process (class-level defaults must not be shared): a user-tuned AMG object before / after others
    for a, b in ((6, 5), (6, 2), (5, 6), (2, 6), (6, 4), (0, 3), (7, 3), (3, 7)):
        for pa, pb in ((0, 1), (1, 0)) if ctx.big else ((0, 1),):
            emit([dict(op="di", i=a, pair=pa), dict(op="di", i=b, pair=pb)])
    return out


def signature(op, prev):
    k = op["op"]
    who = {"jc": "Jacobi.__call__", "mc": "MG.__call__", "h1": "H1_regularization", "sb": "split_bregman_tvd", "tvd": "tvd", "an": "AndersonAcceleration run",
           "di": "WassersteinDistance.__call__"}[k]
    via = ""
    if k in ("h1", "sb"):
        via = "(default solver)" if op["solver"] == "d" else f"(explicit {'Jacobi' if op['solver'][0] == 'j' else 'MG'})"
    if k == "mc" and isinstance(OBJECTS["mgs"][op["i"]]["mass"], str):
        via = "(heterogeneous coefficients)"
    if k == "di":
        o = OBJECTS["ws"][op["i"]]
        via = f"({o['kind']},{o['solver']}/{o['formulation']})"
    if prev == "solver-constructor-parameters":
        return f"C16:{who}{via}:depends-on-solver-constructor-parameters"
    return f"C16:{who}{via}:depends-on-earlier-{prev}"


def prev_class(seq, n):
    """what kind of earlier operation is the likely culprit (for the signature): the last earlier call touching the same object"""
    op = seq[n]

    def target(o):
        if o["op"] in ("jc", "ju"):
            return ("j", o["i"])
        if o["op"] in ("mc", "mu"):
            return ("m", o["i"])
        if o["op"] in ("h1", "sb"):
            return ("default-" + o["op"],) if o["solver"] == "d" else tuple(o["solver"])
        if o["op"] == "tvd":
            return ("default-sb",)
        return (o["op"], o.get("i"))
    t = target(op)
    for o in reversed(seq[:n]):
        if target(o) == t and o["op"] not in ("ju", "mu"):
            return "call-on-same-object"
    return "call"


def run(ctx):
    import darsia as d

    # the pristine zygote must be forked before any DarSIA operation runs in this process
    parent, child = mp.Pipe()
    zyg = mp.get_context("fork").Process(target=_zygote, args=(child, 14))
    zyg.start()
    try:
        _run(ctx, d, parent)
    finally:
        try:
            parent.send(None)
        except Exception:  # noqa: BLE001
            pass
        zyg.join(timeout=20)
        if zyg.is_alive():
            zyg.terminate()


def _run(ctx, d, zyg):
    ctx.prove("C16")
    seqs = sequences(ctx)
    ctx.cov["sequences"] = len(seqs)
    ctx.log(f"{len(seqs)} sequences")

    # ---- run the sequences: 14 long-lived processes, each runs its share of the sequences one after the other
    # (one set of objects per sequence; the library's default solver instances are shared by everything in the process) ----
    nchunk = 14
    order = list(range(len(seqs)))
    ctx.rng.shuffle(order)
    chunks = [[seqs[i] for i in order[c::nchunk]] for c in range(nchunk)]
    zyg.send(("chunk", chunks))
    chunk_res = zyg.recv()
    results = [None] * len(seqs)
    values = [None] * len(seqs)
    traces = [None] * len(seqs)
    before = {}  # sequence index -> indices of the sequences run earlier in the same process
    for c in range(nchunk):
        for pos, (i, r) in enumerate(zip(order[c::nchunk], chunk_res[c])):
            results[i] = [x[0] for x in r]
            values[i] = [x[1] for x in r]
            traces[i] = [x[2] for x in r]
            before[i] = order[c::nchunk][:pos]
    for seq in seqs:
        ctx.count(("seq", json.dumps(seq, sort_keys=True)), nontrivial=len(seq) > 1)
    ctx.log("sequences executed")

    # ---- fresh-process references: settings-only prefix + the call ----
    keys = {}
    for seq in seqs:
        for n, op in enumerate(seq):
            if op["op"] in ("ju", "mu", "cm"):
                continue
            ref_ops = [s for o in seq[:n] for s in setting_part(o)] + [op]
            keys.setdefault(json.dumps(user_ref_ops(seq, n), sort_keys=True), user_ref_ops(seq, n))
            keys.setdefault(json.dumps(ref_ops, sort_keys=True), ref_ops)
    def explicit_regulariser(o):
        return o["op"] in ("h1", "sb") and o["solver"] != "d"

    def variant_ops(seq, n):
        """the call alone (plus the caller's earlier in-place modifications of its coefficient arrays, which are arguments of the call)"""
        return [o for o in seq[:n] if o["op"] == "cm"] + [seq[n]]

    for seq in seqs:
        for n, op in enumerate(seq):
            if explicit_regulariser(op):
                vo = variant_ops(seq, n)
                keys.setdefault("variant:" + json.dumps(vo, sort_keys=True), {"variant": True, "ops": vo})
    klist = list(keys)
    zyg.send(("fresh", [keys[k] for k in klist]))
    ref = dict(zip(klist, zyg.recv()))
    ctx.cov["fresh_process_references"] = len(klist)
    ctx.log(f"{len(klist)} fresh-process references computed")

    # real fresh interpreters for a sample of final calls
    finals = []
    for seq in seqs:
        if seq[-1]["op"] not in ("ju", "mu", "cm"):
            k = json.dumps([s for o in seq[:-1] for s in setting_part(o)] + [seq[-1]], sort_keys=True)
            if k not in finals:
                finals.append(k)
    ctx.rng.shuffle(finals)
    sample = finals[: ctx.pick(16, 60)]
    from concurrent.futures import ThreadPoolExecutor

    with ThreadPoolExecutor(max_workers=14) as ex:
        sub = dict(zip(sample, ex.map(lambda k: subprocess_result(keys[k]), sample)))
    n_sub_bad = 0
    for k, v in sub.items():
        if v.startswith("!worker-failed"):
            ctx.mark("TIE-BROKEN", {"fresh interpreter failed": v, "ops": keys[k]})
        elif v != ref[k]:
            n_sub_bad += 1  # fork vs spawn difference (thread pools, caches) is not history dependence: environment mark, reference kept
            ctx.mark("TIE-BROKEN", {"correspondence": "fresh-interpreter-vs-forked-fresh-process", "ops": keys[k], "subprocess": v, "forked": ref[k]})
    ctx.cov["fresh_interpreter_subprocesses"] = {"cases": len(sample), "differ_from_forked_fresh_process": n_sub_bad}

    # ---- KNOWN (inherent, pyamg): an AMG-backed distance depends on the state of numpy's GLOBAL random generator, which every earlier
    # call that draws from it changes. The harness seeds the generator before every distance call (execute), which removes exactly this
    # dependence from all other comparisons; here it is reproduced on purpose: the same call with two different generator states.
    def amg_with_seed(seed):
        o = Objs(d)
        np.random.seed(seed)
        r = call(lambda: o.ws(6)(wimage(d, 0), wimage(d, 1)))
        return digest(np.asarray(r[0] if isinstance(r, tuple) else r, dtype=float)) if not isinstance(r, Raised) else repr(r)

    r1, r2 = amg_with_seed(1), amg_with_seed(2)
    ctx.cov["amg_global_rng"] = {"seed_1": r1, "seed_2": r2, "differs": r1 != r2}
    if r1 != r2:
        ctx.fail("C16:WassersteinDistance(amg):depends-on-numpy-global-rng",
                 f"the same AMG-backed distance call returns {r1} with np.random.seed(1) and {r2} with np.random.seed(2) set before it",
                 {"sequence": [dict(op="di", i=6, pair=0)], "call": 0, "in_sequence": r1, "fresh_process": r2, "reference_ops": [dict(op="di", i=6, pair=0)]})

    # ---- guard: an operation of the alphabet that raises when issued FIRST in a fresh process tests nothing
    # (in-sequence and reference would both be the same exception) - report it instead of counting it as passing ----
    for seq in seqs:
        if len(seq) == 1 and seq[0]["op"] not in ("ju", "mu", "cm"):
            v = ref.get(json.dumps(seq, sort_keys=True), "")
            if v.startswith("!") and not seq[0].get("expect_raise"):
                ctx.mark("TIE-BROKEN", {"correspondence": "alphabet-operation-raises-in-a-fresh-process", "operation": seq[0], "exception": v[1:],
                                        "note": "in-sequence and reference are the same exception: this operation tests nothing (no statelessness clause is violated)"})

    # ---- oracle: every call of every sequence against its fresh-process reference ----
    n_cmp = 0
    impl_eq = []
    def default_kind(o):
        if o["op"] == "h1" and o["solver"] == "d":
            return "h1"
        if (o["op"] == "sb" and o["solver"] == "d") or (o["op"] == "tvd" and o["method"] == "heterogeneous bregman"):
            return "sb"
        if o["op"] == "di":
            return "di"  # distance objects share their class (class-level option dictionaries, ...)
        return None

    def process_prefix(si, op):
        """earlier sequences of the same process that used the same default solver instance (first and last of them)"""
        k = default_kind(op)
        if k is None:
            return []
        hits = [j for j in before[si] if any(default_kind(o) == k for o in seqs[j])]
        if k == "di":  # every earlier distance object of another configuration may matter: keep one sequence per object
            per = {}
            for j in hits:
                for o in seqs[j]:
                    if o["op"] == "di":
                        per.setdefault(o["i"], j)
            return [seqs[j] for j in dict.fromkeys(per.values())]
        return [seqs[j] for j in dict.fromkeys(hits[:1] + hits[-1:])]

    for si, (seq, res) in enumerate(zip(seqs, results)):
        flags = []
        for n, (op, r) in enumerate(zip(seq, res)):
            if op["op"] in ("ju", "mu", "cm"):
                flags.append("eq")
                continue
            ref_ops = [s for o in seq[:n] for s in setting_part(o)] + [op]
            want = ref[json.dumps(ref_ops, sort_keys=True)]
            want_user = ref[json.dumps(user_ref_ops(seq, n), sort_keys=True)]
            n_cmp += 1
            flags.append("eq" if r == want else "ne")
            if r != want and r == want_user:
                # admissible: the call equals the same call after the USER's settings only (the model's reading - regulariser side effects
                # stay on the solver - is the current implementation's, not a stated clause): a tie break, not a failing input
                ctx.mark("TIE-BROKEN", {"correspondence": "regulariser-leaves-its-parameters-on-the-user-solver", "sequence": seq, "call": n})
            elif r != want and any(o["op"] == "cm" for o in seq[:n]):
                # in-place modification of a coefficient array between calls is outside the quantifier's alphabet: aliasing vs copying is free
                ctx.mark("TIE-BROKEN", {"correspondence": "coefficient-array-aliasing(cm)", "sequence": seq, "call": n, "in_sequence": r, "reference": want})
            elif r != want:
                ctx.fail(signature(op, prev_class(seq, n)),
                         f"call {n} of the sequence returned {r}; the same call issued first in a fresh process returns {want} (after the settings incl. those of "
                         f"regularisers) resp. {want_user} (after the user's own settings only) - it equals neither",
                         {"process_prefix": process_prefix(si, op), "sequence": seq, "call": n, "in_sequence": r, "fresh_process": want, "reference_ops": ref_ops})
            if explicit_regulariser(op):
                # theorem regulariser_stateless: equal to the call issued first in a fresh process on a solver object that was
                # constructed with other dim / mass_coeff / diffusion_coeff (all three are overwritten by the call)
                wantv = ref["variant:" + json.dumps(variant_ops(seq, n), sort_keys=True)]
                n_cmp += 1
                if r != wantv and r == want:
                    # the solver object is an argument of the call: "regularisers overwrite dim / mass / diffusion" is the model's (current code's)
                    # behaviour, not a stated clause -> tie mark only
                    ctx.mark("TIE-BROKEN", {"correspondence": "regulariser-overwrites-solver-constructor-parameters", "sequence": seq, "call": n,
                                            "in_sequence": r, "variant_reference": wantv})
        impl_eq.append(flags)
    ctx.cov["compared_calls"] = n_cmp

    # ---- correspondence with the model: eq/ne predictions and Jacobi records ----
    lines, meta = [], []
    metavals = []
    metatraces = []
    for si2, (seq, flags, res) in enumerate(zip(seqs, impl_eq, results)):
        if seq_in_model(seq) and any(in_model(o) for o in seq) and (len(seq) <= 2 or si2 % ctx.pick(4, 5) == 0):
            lines.append(model_line(seq))
            meta.append((seq, [f for o, f in zip(seq, flags) if in_model(o)], [r for o, r in zip(seq, res) if in_model(o)]))
            metavals.append([v for o, v in zip(seq, values[si2]) if in_model(o)])
            metatraces.append([t for o, t in zip(seq, traces[si2]) if in_model(o)])
    got = model_parallel(ctx, lines)
    ndiff = 0
    first = None
    njac = 0
    nnum = {"exact": 0, "within_1e-12": 0, "model_not_evaluated": 0}
    worst = 0.0
    ntrace = 0
    trace_bad = None
    for (seq, flags, res), g, vals, trs in zip(meta, got, metavals, metatraces):
        parts = g.split(" ; ")
        fields = [p.split(" | ") + ["", ""] for p in parts]
        nums = [None if f[1].strip() in ("-", "") else f[1] for f in fields]
        mtraces = [f[2].strip() for f in fields]
        parts = [f[0] for f in fields]
        mflags = [(p.split() or ["?"])[0] for p in parts]
        ok = mflags == flags
        # read-sets / events: what the instrumented implementation did, token by token, against the model's record
        for op, mt, it, r in zip([o for o in seq if in_model(o)], mtraces, trs, res):
            if r.startswith("!"):
                continue  # a raising call leaves a partial trace (exception classes are compared by the oracle)
            ntrace += 1
            if mt != it:
                ok = False
                if trace_bad is None:
                    trace_bad = {"op": op, "model_trace": mt[:600], "observed_trace": it[:600]}
        # arithmetic: the model's rational result of Jacobi / MG / H1 calls against the implementation's floats
        for op, num, v in zip([o for o in seq if in_model(o)], nums, vals):
            if v is None or num is None:
                continue
            if num.strip() == "!":
                nnum["model_not_evaluated"] += 1
                ok = ok and not op.get("exact")
                continue
            m = [Fraction(t) for t in num.split()]
            if len(m) != len(v):
                ok = False
                continue
            if all(Fraction(a) == b for a, b in zip(v, m)):
                nnum["exact"] += 1
                continue
            scale = max(1.0, max(abs(a) for a in v))
            err = max(abs(a - float(b)) for a, b in zip(v, m)) / scale
            worst = max(worst, err)
            if op.get("exact") or err > (1e-5 if op.get("data") in FLOAT32 else 1e-12):
                ok = False
            else:
                nnum["within_1e-12"] += 1
        # Jacobi records: recompute with a fresh explicit solver holding exactly the parameters the model names
        mops = [o for o in seq if in_model(o)]
        if ok:
            for op, p, r in zip(mops, parts, res):
                if op["op"] == "jc" and p.split()[1] == "J":
                    t = p.split()
                    # eq J dim (s v) (s v) h maxiter tol
                    dim, mass, diff, h, maxiter, tol = int(t[2]), float(Fraction(t[4])), float(Fraction(t[6])), float(Fraction(t[7])), int(t[8]), t[9]
                    x = data(op["data"])
                    exp = call(d.Jacobi(maxiter=maxiter, tol=None if tol == "none" else float(Fraction(tol)), dim=dim, mass_coeff=mass, diffusion_coeff=diff),
                               x.copy(), x[::-1].copy(), h=h)
                    njac += 1
                    if digest(exp) != r:
                        ok = False
        if not ok:
            ndiff += 1
            if first is None or len(seq) < len(first[0]):
                first = (seq, flags, g)
    ctx.cov.setdefault("correspondence", {})["stateful-sequences"] = {"cases": len(lines), "disagreements": ndiff, "jacobi_records_recomputed": njac,
                                                                       "arithmetic_results_compared": nnum, "max_relative_float_error": worst,
                                                                       "event_traces_compared": ntrace}
    if lines:
        ctx.sample({"corr": "stateful-sequences", "request": lines[-1][:300], "model": got[-1][:200], "impl": " ".join(meta[-1][1])})
    if ndiff:
        ctx.mark("CORR-BROKEN", {"correspondence": "stateful-sequences", "sequence": first[0], "impl_equal_to_fresh": first[1], "model": first[2][:1500], "n_diffs": ndiff,
                                 "first_trace_difference": trace_bad})
        ctx.log(f"correspondence stateful-sequences: {ndiff} disagreements, e.g. {json.dumps(first[0])[:300]} impl={first[1]} model={first[2][:200]}")

    ctx.cov["rule"] = ("sequences: quick = all of length <= 2 over the 44-operation alphabet + 120 sampled triples + all of length <= 3 inside each group; thorough = all of "
                       "length <= 3 over the alphabet without split-Bregman calls + 2120 sampled triples with one such call + all of length <= 4 inside each "
                       "group sharing an object (default H1 solver, default split-Bregman solver, one Jacobi object, MG objects, Anderson objects); "
                       "both tiers: six distance objects (Newton/Bregman x direct-full/direct-pressure/amg-pressure) on 2 (quick) / 3 (thorough) successive pairs; EVERY call of every sequence is compared with "
                       "its fresh-process reference; distinct = sequence")
    ctx.assumptions += ["numpy's global random generator is re-seeded by the harness before every distance call (pyamg draws from it); the "
                        "dependence this hides is reported separately as the known finding C16:WassersteinDistance(amg):depends-on-numpy-global-rng",
                        "numpy/scipy/numba/pyamg give bit-identical results for identical inputs in different processes on this machine",
                        "a fork of an interpreter that has only imported darsia is a fresh process (cross-checked against real subprocesses on a sample)"]


def replay(data_):
    import darsia as d

    r = data_.get("replay", data_)
    seq, n = r["sequence"], r["call"]
    for pre in r.get("process_prefix", []):  # earlier sequences of the same process (shared default solver instances)
        objs = Objs(d, with_ws=needs_ws(pre))
        for op in pre:
            execute(d, objs, op)
        print(f"earlier in the same process: {json.dumps(pre)}")
    objs = Objs(d, with_ws=needs_ws(seq))
    got = [digest(execute(d, objs, op)) for op in seq][n]
    want = subprocess_result(r["reference_ops"])
    print(f"property C16 sequence={json.dumps(seq)}")
    print(f"call {n}: in-sequence={got} fresh-interpreter={want}")
    return 0 if got == want else 1
