"""C09 - coordinate transformations are invertible and move voxels exactly.

Tie: (G1) the rounding of the point constructors Voxel / VoxelCenter is tabulated from the running code into
DarsiaGen.PointRounding and named (`trunc` | `floor`); correspondences model-vs-implementation for the rotation pair
(`rotation`, `rotation_inv` compared separately, entrywise at 1e-12, angles 2*atan(t) for rational t), forward / inverse
evaluation on point sets, CoordinateSystem.coordinate / .voxel on dyadic inputs (exact), and whole warps
(TransformationCorrection.correct_array) on index payloads: exact on the dyadic stream, and on the float stream (true
rotations) exact except at destination voxels whose exact pre-image lies within 1e-6 of a rounding breakpoint (the model
marks those). Oracle: the property statement evaluated on the implementation.
"""
from __future__ import annotations

import json
import math
from fractions import Fraction as Fr

import numpy as np

from ..lib.core import fmt
from ..lib.impl import Raised, call

LEVEL = "proof"
CLAIM = dict(
    category="proof",
    text="Theorems in DarsiaProps.C09 over an arbitrary commutative ring / field (an angle is any (c,s) with c^2+s^2=1): the "
    "rotation pair accumulated by set_parameters / RotationCorrection is a two-sided inverse pair for any list of factors "
    "(any three angles), rotation_inv = rotation^T, orthonormal, det 1, inverse(call x) = x and call(inverse y) = y for "
    "scaling != 0, translation/scaling act as documented (distances scale by sigma). Warp over Q for every shape, voxel "
    "size, origin and destination voxel: identity map => identical array, whole-voxel translation => zero-filled shift "
    "(also larger than the image) in coordinate / voxel / voxel-centre mode (2-D and 3-D), quarter turn => rot90 "
    "(2-D, coordinate and voxel-centre mode; 3-D about each axis in voxel-centre mode: warp_quarter_turn_3d; RotationCorrection's own "
    "clip/astype(int) warp: rotcorr_quarter_turn_2d/3d), destination metadata. Voxel-mode quarter turn: the exact model IS rot90 "
    "(warp_quarter_turn_voxel_exact) and every pre-image lies ON a rounding breakpoint where an arbitrarily small perturbation moves "
    "the source voxel (quarter_turn_voxel_on_breakpoint), whereas in voxel-centre mode all pre-images are half-integers and any "
    "perturbation < 1/2 is harmless (quarter_turn_center_robust); general guard floor_stable_of_fracDist. Different source / destination systems: in voxel and voxel-centre mode the pull-back "
    "does not depend on the systems (src_voxelmodes_indep_of_systems, warp_shift_anysystems_voxelmodes); coordinate mode onto an "
    "m-fold refined grid shows source voxel v/m - k (src_shift_coord_refined); 3-D quarter turn in coordinate mode about the "
    "Cartesian x axis (src_quarter_turn_3d_coord). coordtransf_meta is definitional; its content is the exact tie of "
    "CoordinateTransformation.__call__ (class, dimensions, origin, other metadata) to the model for different systems. Maps fitted in physical coordinates between two different systems (AffineCorrection / "
    "CoordinateTransformation with isometry): isometry_pairs_are_translation, src_/warp_shift_two_systems (zero-filled shift onto "
    "the destination canvas), isometry_wrong_system_differs. GeneralizedPerspectiveTransformation.inverse_array (perspective division, bulge and "
    "stretch polynomials as coded) over any field: gp_identity, gp_translation, gp_affine_reduction, gp_affine_eq_affine_inverse "
    "(= AffineTransformation.inverse_array), gp_affine_invertible (explicit inverse for det A != 0), gp_perspective_division, "
    "gp_bulge_fixes_centre_and_boundary, gp_no_bulge_no_stretch; tied on dyadic parameters (exact without perspective division, "
    "1e-11 with). The voxel-centre shift needs floor rounding in the point "
    "constructors: the rounding is re-tabulated from the running constructors on every run (currently floor, so the shift theorem "
    "holds in all three modes for the code as it is); for astype(int) truncation the negation is proved by witness.",
    note="Round-7 triage: failing inputs come only from stated clauses (inverse pair observable through inverse∘call / call∘inverse, "
    "orthonormality, documented scaling / translation - also on re-used objects -, warps, destination metadata); the rotation_inv "
    "attribute, the same-object warp-cache scenario, CoordinateTransformation cases whose parameters the harness resets through attributes, "
    "typed result classes / set-vs-single and an ignored matrix assignment are TIE-BROKEN marks; Powell fit accuracy is an observation. "
    "rotcorr_quarter_turn_2d/3d and warp_quarter_turn_voxel_exact describe EXACT quarter-turn matrices - a state reached by "
    "assigning rotation_inv on the object (that is how they are tied); RotationCorrection / AffineTransformation built from the ANGLE "
    "pi/2 carry cos = 6e-17, which under astype(int) / floor lowers integer pre-images by one (known finding, signature restricted to "
    "exactly that pattern). The per-object warp cache is keyed by the state of the transformation (warp_cache_tracks_parameters: after "
    "any sequence of applications and parameter changes the object returns what a fresh object with the current parameters returns; "
    "warp_cache_stale_witness before the fix), tied exactly through applications interleaved with set_parameters and searched by the "
    "oracle (set_parameters, set_parameters_as_vector, new transformation object). The quarter-turn noise mask follows "
    "quarter_turn_voxel_noise_direction (+pi/2: only the first source index, only where v0 < n1-1). fit2_is_folded and "
    "coordtransf_meta are definitional. Not covered: 3-D quarter turns in coordinate mode about y and z and in voxel mode (same "
    "breakpoint noise as 2-D), RotationCorrection quarter turns other than about the centre voxel of odd squares / cubes. "
    "scipy from_rotvec matrices, numpy fancy assignment and float rounding are tied by correspondence (1e-12 / exact on "
    "dyadic inputs / breakpoint-aware on true rotations), not proved; quarter turn in *voxel* mode is decided by float noise "
    "of cos(pi/2) on rounding breakpoints (known finding, observed only); the Powell search itself is out of scope; DarSIA's algebra around it (centre-of-mass "
    "preconditioning, fold-back of the shift with scaling and rotation, start vector, objective) is modelled with the optimiser's "
    "result as a parameter (fit_fold_back_correct, fit_fold_back_correct_3d, fit_objective_preserved, fit2_is_folded, "
    "precondition_exact_for_translation) and tied with scipy.optimize.minimize replaced by a recorder. Typed evaluation (results wrapped in the output / "
    "input point type, single points and point sets) is modelled (wrapPoint2, typedCall2, typedInverse2; wrap_center_half, "
    "typed_center_roundtrip_translation, wrong_wrap_differs), tied exactly incl. the class of the result, and searched on the "
    "implementation (round trips, point set vs single point). Parameter-setting histories on one "
    "object (partial set_parameters, long vectors, isometry / short vectors) are modelled (pstep, prun; vector_forgets_history, "
    "isometry_vector_preserves_distances, partial_set_keeps), tied at 1e-11 and searched (re-used object = fresh object).",
    technique="Lean 4 proof (ring identities by induction over the factor list; floor/trunc lemmas over Q) + G1 tabulation + "
    "differential correspondence + property oracle",
)

MODES = ("coord", "voxel", "center")
TOL = 1e-12


# ---------------------------------------------------------------------------- helpers on the implementation


def angle(t: Fr) -> float:
    return 2.0 * math.atan(float(t))


def mk_image(d, shape, h, origin=None, arr=None, **kw):
    dim = len(h)
    if arr is None:
        arr = np.zeros(tuple(shape))
    dims = [float(n * hh) for n, hh in zip(shape, h)]
    meta = dict(dimensions=dims, space_dim=dim, **kw)
    if origin is not None:
        meta["origin"] = [float(Fr(o)) for o in origin]
    return d.Image(arr, **meta)


def cs_line(img):
    """n.. origin.. voxel sizes (matrix axes) as the driver expects"""
    dim = img.space_dim
    return " ".join(str(n) for n in img.img.shape[:dim]) + " " + " ".join(fmt(o) for o in img.origin) + " " + " ".join(
        fmt(v) for v in img.voxel_size)


def mk_T(d, dim, mode, t, sigma, angles):
    T = d.AffineTransformation(dim)
    mkp = {"coord": d.make_coordinate, "voxel": d.make_voxel, "center": d.make_voxel_center}[mode]
    p = mkp(np.zeros((2, dim)))
    T.set_dtype(p, p)
    T.set_parameters(np.array([float(x) for x in t]), float(sigma), None if angles is None else np.array(angles, dtype=float))
    return T


def warp_impl(d, mode, img_src, img_dst, t, sigma, angles, arr):
    dim = img_src.space_dim
    T = mk_T(d, dim, mode, t, sigma, angles)
    C = d.TransformationCorrection(img_src.coordinatesystem, img_dst.coordinatesystem, T)
    return C.correct_array(arr)


def payload(shape):
    return np.arange(1, int(np.prod(shape)) + 1, dtype=np.int64).reshape(shape)


def tabulate_rounding(d):
    probes = [Fr(-5, 2), Fr(-3, 2), Fr(-1), Fr(-1, 2), Fr(-1, 4), Fr(0), Fr(1, 4), Fr(1, 2), Fr(1), Fr(3, 2), Fr(7, 4)]
    rows = []
    for q in probes:
        v = call(lambda: d.Voxel(np.array([float(q)])))
        c = call(lambda: d.VoxelCenter(np.array([float(q)])))
        if isinstance(v, Raised) or isinstance(c, Raised):
            return None, []
        rows.append((q, int(np.asarray(v)[0]), Fr(float(np.asarray(c)[0]))))
    if all(r[1] == math.trunc(r[0]) and r[2] == math.trunc(r[0]) + Fr(1, 2) for r in rows):
        return "trunc", rows
    if all(r[1] == math.floor(r[0]) and r[2] == math.floor(r[0]) + Fr(1, 2) for r in rows):
        return "floor", rows
    return None, rows


def emit_rounding(name, rows):
    def lr(x):
        x = Fr(x)
        return f"(({x.numerator} : Rat) / {x.denominator})"

    L = ["import DarsiaModel.Warp", "namespace Darsia.Gen", "",
         "/-- how `Voxel.__new__` / `VoxelCenter.__new__` (utils/point.py) round a float, tabulated from the running code -/",
         f"def pointRounding : Darsia.Warp.Rounding := .{name}", "",
         "/-- probes: (x, Voxel([x])[0], VoxelCenter([x])[0]) -/",
         "def pointProbes : List (Rat × Int × Rat) := ["
         + ", ".join(f"({lr(q)}, ({v} : Int), {lr(c)})" for q, v, c in rows) + "]", "", "end Darsia.Gen"]
    return "\n".join(L) + "\n"


# ---------------------------------------------------------------------------- correspondence helpers


def _register(ctx, name, lines, diffs, got, impl):
    c = ctx.cov.setdefault("correspondence", {})
    c[name] = {"cases": len(lines), "disagreements": len(diffs)}
    for l in lines:
        ctx.count((name, l))
    if lines:
        ctx.sample({"corr": name, "request": lines[0][:300], "model": got[0][:300], "impl": str(impl[0])[:300]})
    if diffs:
        i = min(diffs, key=lambda k: len(lines[k]))
        ctx.mark("CORR-BROKEN", {"correspondence": name, "request": lines[i], "model": got[i], "impl": str(impl[i]),
                                 "n_diffs": len(diffs)})
        ctx.log(f"correspondence {name}: {len(diffs)} disagreements, e.g. {lines[i][:160]} model={got[i][:160]} impl={str(impl[i])[:160]}")


def correspond_tol(ctx, name, lines, impl_vals, tol=TOL):
    """model prints rationals (| separators ignored); implementation gives float lists; entrywise |diff| <= tol*(1+|x|)."""
    got = ctx.model(lines)
    diffs, worst = [], 0.0
    for i, (g, v) in enumerate(zip(got, impl_vals)):
        if isinstance(v, Raised) or g.startswith("!"):
            if repr(v) != g:
                diffs.append(i)
            continue
        m = [Fr(x) for x in g.replace("|", " ").split()]
        v = [float(x) for x in v]
        if len(m) != len(v):
            diffs.append(i)
            continue
        for a, b in zip(m, v):
            e = abs(float(Fr(b) - a))
            worst = max(worst, e / (1 + abs(b)))
            if not e <= tol * (1 + abs(b)):
                diffs.append(i)
                break
    _register(ctx, name, lines, diffs, got, [v if isinstance(v, Raised) else " ".join(f"{x:.17g}" for x in v) for v in impl_vals])
    ctx.cov.setdefault("measured_float_error", {})[name] = worst
    return diffs


def correspond_masked(ctx, name, lines, impl):
    """textual comparison, except cells the model marks `?` (pre-image within eps of a rounding breakpoint)."""
    got = ctx.model(lines)
    diffs, masked, total = [], 0, 0
    for i, (g, v) in enumerate(zip(got, impl)):
        gt, vt = g.split(), str(v).split()
        if len(gt) != len(vt):
            diffs.append(i)
            continue
        total += len(gt)
        for a, b in zip(gt, vt):
            if a == "?":
                masked += 1
            elif a != b:
                diffs.append(i)
                break
    _register(ctx, name, lines, diffs, got, impl)
    ctx.cov.setdefault("breakpoint_masked_cells", {})[name] = {"masked": masked, "cells": total}
    return diffs


def cells(out):
    """index payload -> source flat index per destination voxel (C order), -1 = zero fill"""
    return " ".join(str(s) for s in out.shape) + " | " + " ".join(str(int(x) - 1) for x in out.ravel())


def rfrac(rng, den=(1, 2, 3, 4, 5), lo=-3, hi=3):
    q = rng.choice(den)
    return Fr(rng.randint(lo * q, hi * q), q)


def dy(rng, lo=-8, hi=8, m=4):
    return Fr(rng.randint(lo * m, hi * m), m)


# ---------------------------------------------------------------------------- correspondences


def corr_rotations(ctx, d):
    lines, vals = [], []
    n = ctx.pick(12, 300)
    for i in range(n):
        t = rfrac(ctx.rng) if i else Fr(1)
        lines += [f"rot2 {fmt(t)}"]
        T = call(lambda: mk_T(d, 2, "coord", [0, 0], 1.0, [angle(t)]))
        vals.append(T if isinstance(T, Raised) else list(T.rotation.ravel()) + list(T.rotation_inv.ravel()))
        R = call(lambda: d.RotationCorrection(anchor=[1, 1], rotations=[angle(t)]))
        lines += [f"rot2 {fmt(t)}"]
        vals.append(R if isinstance(R, Raised) else list(R.rotation.ravel()) + list(R.rotation_inv.ravel()))
    for i in range(n):
        ts = [rfrac(ctx.rng) for _ in range(3)]
        if i % 4 == 1:
            ts[ctx.rng.randrange(3)] = Fr(0)
        if i % 4 == 2:
            k = ctx.rng.randrange(3)
            ts = [ts[j] if j == k else Fr(0) for j in range(3)]
        lines.append("rot3 3 " + " ".join(f"{k} 0 {fmt(t)}" for k, t in enumerate(ts)))
        T = call(lambda: mk_T(d, 3, "coord", [0, 0, 0], 1.0, [angle(t) for t in ts]))
        vals.append(T if isinstance(T, Raised) else list(T.rotation.ravel()) + list(T.rotation_inv.ravel()))
        # RotationCorrection: arbitrary list of (angle, axis)
        m = ctx.rng.randint(1, 4)
        fac = [(ctx.rng.randrange(3), rfrac(ctx.rng)) for _ in range(m)]
        lines.append(f"rot3 {m} " + " ".join(f"{k} 0 {fmt(t)}" for k, t in fac))
        R = call(lambda: d.RotationCorrection(anchor=[1, 1, 1], rotations=[(angle(t), "xyz"[k]) for k, t in fac]))
        vals.append(R if isinstance(R, Raised) else list(R.rotation.ravel()) + list(R.rotation_inv.ravel()))
    return correspond_tol(ctx, "rotation-pair(rotation|rotation_inv)", lines, vals)


def corr_points(ctx, d):
    lines, vals = [], []
    for i in range(ctx.pick(20, 600)):
        dim = 2 + (i % 2)
        t = [dy(ctx.rng) for _ in range(dim)]
        sigma = Fr(ctx.rng.choice([1, 2, 4, 1, 3, 5, 7, 9, 20, 39]), ctx.rng.choice([1, 2, 4, 8]))
        ts = [rfrac(ctx.rng) for _ in range(1 if dim == 2 else 3)]
        npts = ctx.rng.randint(1, 5)
        pts = [[dy(ctx.rng) for _ in range(dim)] for _ in range(npts)]
        single = i % 5 == 0
        if single:
            pts = pts[:1]
        for dirn in ("call", "inv"):
            if dim == 2:
                head = f"aff2 {dirn} {fmt(t[0])} {fmt(t[1])} {fmt(sigma)} {fmt(ts[0])}"
            else:
                head = (f"aff3 {dirn} {fmt(t[0])} {fmt(t[1])} {fmt(t[2])} {fmt(sigma)} 3 "
                        + " ".join(f"{k} 0 {fmt(a)}" for k, a in enumerate(ts)))
            lines.append(head + f" {len(pts)} " + " ".join(fmt(x) for p in pts for x in p))

            def run():
                T = mk_T(d, dim, "coord", t, sigma, [angle(a) for a in ts])
                x = np.array([[float(c) for c in p] for p in pts])
                if single:
                    x = d.make_coordinate(x[0])
                else:
                    x = d.make_coordinate(x)
                y = T(x) if dirn == "call" else T.inverse(x)
                if single and np.asarray(y).shape != (dim,):
                    raise TypeError("single point in, not a single point out")
                if not isinstance(y, d.Coordinate):
                    raise TypeError("typed point in, untyped out")
                return list(np.asarray(y, dtype=float).ravel())

            vals.append(call(run))
    return correspond_tol(ctx, "call/inverse(points)", lines, vals, tol=1e-11)


def rand_cs(ctx, d, dim, arr_shape=None):
    shape = arr_shape or tuple(ctx.rng.choice([1, 2, 3, 4, 5, 6, 7]) for _ in range(dim))
    h = [Fr(1, ctx.rng.choice([1, 2, 4])) * ctx.rng.choice([1, 1, 2]) for _ in range(dim)]
    origin = [dy(ctx.rng, -4, 4, 2) for _ in range(dim)] if ctx.rng.random() < 0.7 else None
    return mk_image(d, shape, h, origin), shape, h


def corr_coordinatesystem(ctx, d):
    lines, impl = [], []
    for i in range(ctx.pick(16, 300)):
        dim = 2 + (i % 2)
        img, shape, h = rand_cs(ctx, d, dim)
        cs = img.coordinatesystem
        n = ctx.rng.randint(1, 4)
        pts = [[dy(ctx.rng, -6, 6, 8) for _ in range(dim)] for _ in range(n)]
        flat = " ".join(fmt(x) for p in pts for x in p)
        lines.append(f"cs{dim} coord {cs_line(img)} {n} {flat}")
        r = call(lambda: cs.coordinate(np.array([[float(x) for x in p] for p in pts])))
        impl.append(repr(r) if isinstance(r, Raised) else " ".join(fmt(x) for x in np.asarray(r).ravel()))
        lines.append(f"cs{dim} voxel {cs_line(img)} {n} {flat}")
        r = call(lambda: cs.voxel(np.array([[float(x) for x in p] for p in pts])))
        impl.append(repr(r) if isinstance(r, Raised) else " ".join(str(int(x)) for x in np.asarray(r).ravel()))
    return ctx.correspond("coordinatesystem(coordinate|voxel) dyadic", lines, impl)


def warp_case(ctx, d, dim, mode, exact, rnd_name, kind=None):
    """returns (request line, implementation cells) for one generated warp"""
    src, sshape, sh = rand_cs(ctx, d, dim)
    if ctx.rng.random() < 0.5:
        dst, dshape, dh = src, sshape, sh
    else:
        dst, dshape, dh = rand_cs(ctx, d, dim)
    if exact:
        t = [dy(ctx.rng, -4, 4, 4) for _ in range(dim)]
        sigma = Fr(ctx.rng.choice([1, 1, 1, 2, 1]), ctx.rng.choice([1, 1, 2]))
        ts = [Fr(0)] * (1 if dim == 2 else 3)
        angles = None if ctx.rng.random() < 0.5 else [0.0] * len(ts)
        eps = "0"
    else:
        t = [dy(ctx.rng, -4, 4, 4) for _ in range(dim)]
        sigma = Fr(ctx.rng.choice([1, 1, 2, 3, 5]), ctx.rng.choice([1, 2, 4]))
        ts = [rfrac(ctx.rng, lo=-2, hi=2) for _ in range(1 if dim == 2 else 3)]
        if kind == "quarter":
            ts = [Fr(ctx.rng.choice([1, -1]))] + [Fr(0)] * (len(ts) - 1)
        angles = [angle(a) for a in ts]
        eps = "0" if all(a == 0 for a in ts) else "1/1000000"
    if dim == 2:
        Tline = f"{fmt(t[0])} {fmt(t[1])} {fmt(sigma)} {fmt(ts[0])}"
    else:
        Tline = f"{fmt(t[0])} {fmt(t[1])} {fmt(t[2])} {fmt(sigma)} 3 " + " ".join(f"{k} 0 {fmt(a)}" for k, a in enumerate(ts))
    line = f"warp{dim} {rnd_name} {mode} {eps} {cs_line(src)} {cs_line(dst)} {Tline}"
    out = call(warp_impl, d, mode, src, dst, t, sigma, angles, payload(sshape))
    return line, (repr(out) if isinstance(out, Raised) else cells(out))


def corr_warps(ctx, d, rnd_name):
    lines, impl = [], []
    for i in range(ctx.pick(45, 1200)):
        dim = 2 if i % 3 else 3
        l, c = warp_case(ctx, d, dim, MODES[i % 3 if dim == 2 else (i // 3) % 3], True, rnd_name)
        lines.append(l)
        impl.append(c)
    d1 = correspond_masked(ctx, "warp(dyadic stream, exact)", lines, impl)
    lines, impl = [], []
    for i in range(ctx.pick(45, 1200)):
        dim = 2 if i % 3 else 3
        l, c = warp_case(ctx, d, dim, MODES[i % 3 if dim == 2 else (i // 3) % 3], False, rnd_name,
                         kind="quarter" if i % 5 == 0 else None)
        lines.append(l)
        impl.append(c)
    d2 = correspond_masked(ctx, "warp(float stream, breakpoint-aware)", lines, impl)
    return d1 + d2



PTCLS = {"coord": ("Coordinate", "CoordinateArray"), "voxel": ("Voxel", "VoxelArray"), "center": ("VoxelCenter", "VoxelCenterArray")}


def typed_points(d, mode, pts, single):
    mk = {"coord": d.make_coordinate, "voxel": d.make_voxel, "center": d.make_voxel_center}[mode]
    arr = np.array(pts, dtype=float)
    return mk(arr[0]) if single else mk(arr)


def typed_eval(d, T, mode, dirn, x, single):
    """forward / inverse evaluation of a typed point (set): checks the class of the result, returns the numbers"""
    y = T(x) if dirn == "call" else T.inverse(x)
    want = getattr(d, PTCLS[mode][0 if single else 1])
    if not isinstance(y, want):
        raise TypeError(f"{type(y).__name__} returned, {want.__name__} expected")
    return np.atleast_2d(np.asarray(y, dtype=float))


def corr_typed_points(ctx, d, rnd_name):
    """typed evaluation (Coordinate / Voxel / VoxelCenter maps, single points and point sets, forward and inverse): class of the
    result and the numbers vs the model; no rotation and dyadic parameters, so the comparison is exact"""
    rng = ctx.rng
    lines, impl = [], []
    for i in range(ctx.pick(36, 360)):
        mode = MODES[i % 3]
        dirn = ("call", "inv")[(i // 3) % 2]
        single = (i // 6) % 3 == 0
        t = [dy(rng, -6, 6, 4), dy(rng, -6, 6, 4)] if i % 4 else [Fr(rng.randint(-4, 4)), Fr(rng.randint(-4, 4))]
        sigma = Fr(rng.choice([1, 1, 2, 4]), rng.choice([1, 1, 2]))
        n = 1 if single else rng.randint(1, 5)
        raw = [[rng.randint(-6, 8), rng.randint(-6, 8)] for _ in range(n)]
        pts = raw if mode != "coord" else [[float(dy(rng, -6, 6, 4)), float(dy(rng, -6, 6, 4))] for _ in range(n)]
        sent = [[Fr(v) + (Fr(1, 2) if mode == "center" else 0) for v in p] for p in pts]  # what the typed input holds
        lines.append(f"taff2 {dirn} {mode} {rnd_name} {fmt(t[0])} {fmt(t[1])} {fmt(sigma)} 0 {n} " + " ".join(fmt(v) for p in sent for v in p))

        def run():
            T = mk_T(d, 2, mode, t, sigma, None if i % 2 else [0.0])
            x = typed_points(d, mode, pts, single)
            if not np.array_equal(np.atleast_2d(np.asarray(x, float)), np.array([[float(v) for v in p] for p in sent])):
                raise ValueError("typed input does not hold the expected numbers")
            return " ".join(fmt(v) for v in typed_eval(d, T, mode, dirn, x, single).ravel())

        r = call(run)
        impl.append(repr(r) if isinstance(r, Raised) else r)
    return ctx.correspond("typed points: forward / inverse evaluation wraps in the output / input point type (exact)", lines, impl)


def check_typed_case(ctx, d, case):
    """property clause on the implementation: for a map typed on voxels / voxel centres and a whole-voxel translation or (voxel
    centres) a quarter turn, map(inverse(y)) = y and inverse(map(x)) = x, for single points and point sets alike"""
    mode, kind = case["mode"], case["kind"]
    t = case["t"]
    ang = {"translation": 0.0, "quarter": math.pi / 2, "quarter-": -math.pi / 2}[kind]
    T = call(mk_T, d, 2, mode, t, 1.0, [ang])
    if isinstance(T, Raised):
        return [("C09:AffineTransformation(2).set_parameters:raises", f"{T}")]
    bad = []
    pts = case["pts"]
    sets = call(typed_points, d, mode, pts, False)
    both = {}
    for dirs in (("inv", "call"), ("call", "inv")):
        for single in (False, True):
            def run():
                x = typed_points(d, mode, pts, single)
                y = T(x) if dirs[0] == "call" else T.inverse(x)
                z = T(y) if dirs[1] == "call" else T.inverse(y)
                for obj in (y, z):
                    want = getattr(d, PTCLS[mode][0 if single else 1])
                    if not isinstance(obj, want):
                        raise TypeError(f"{type(obj).__name__} returned, {want.__name__} expected")
                return np.atleast_2d(np.asarray(x, float)), np.atleast_2d(np.asarray(y, float)), np.atleast_2d(np.asarray(z, float))

            r = call(run)
            name = "map(inverse(y))" if dirs == ("inv", "call") else "inverse(map(x))"
            if isinstance(r, Raised):
                bad.append((f"C09:typed-points(mode={mode},{kind}):{name}:{'single' if single else 'set'}:{'wrong-class' if r.cls == 'type' else 'raises'}",
                            f"{name} on a {'single point' if single else 'point set'} typed {PTCLS[mode][0]}: {r.exc}"))
                continue
            x, y, z = r
            both[(dirs, single)] = y
            if not np.array_equal(x, z):
                bad.append((f"C09:typed-points(mode={mode},{kind}):{name}≠id:{'single' if single else 'set'}",
                            f"{name} of {x.tolist()} is {z.tolist()} for a {PTCLS[mode][0]}-typed {kind} map with translation {t}"))
        if (dirs, False) in both and (dirs, True) in both and not np.array_equal(both[(dirs, False)][:1], both[(dirs, True)]):
            bad.append((f"C09:typed-points(mode={mode},{kind}):point-set≠single-point",
                        f"first row of the point-set result {both[(dirs, False)][:1].tolist()} differs from the single-point result {both[(dirs, True)].tolist()}"))
    return bad


def corr_cache_ops(ctx, d, rnd_name):
    """one TransformationCorrection object through a sequence of applications and parameter changes (set_parameters on its
    transformation): the result of the last application vs the model of the version-keyed cache (exact, dyadic)"""
    rng = ctx.rng
    lines, impl = [], []
    for i in range(ctx.pick(15, 150)):
        mode = MODES[i % 3]
        sshape = (rng.randint(1, 4), rng.randint(1, 4))
        hs = Fr(1, rng.choice([1, 2]))
        t0 = [Fr(rng.randint(-4, 4), 2), Fr(rng.randint(-4, 4), 2)]
        ops = []
        for _ in range(rng.randint(1, 5)):
            if rng.random() < 0.5:
                ops.append(("S", [Fr(rng.randint(-4, 4), 2), Fr(rng.randint(-4, 4), 2)]))
            else:
                ops.append(("A", np.array([rng.randint(1, 99) for _ in range(sshape[0] * sshape[1])], dtype=np.float64).reshape(sshape)))
        ops.append(("A", np.array([rng.randint(1, 99) for _ in range(sshape[0] * sshape[1])], dtype=np.float64).reshape(sshape)))

        def run():
            src = d.Image(np.zeros(sshape), dimensions=[float(n * hs) for n in sshape])
            T = mk_T(d, 2, mode, t0, 1.0, None)
            C = d.TransformationCorrection(src.coordinatesystem, src.coordinatesystem, T)
            out = None
            for kind, x in ops:
                if kind == "S":
                    T.set_parameters(np.array([float(v) for v in x]), 1.0, None)
                else:
                    out = C.correct_array(x.copy())
            return cs_line(src), "f64 " + " ".join(str(n) for n in out.shape) + " | " + " ".join(fmt(v) for v in out.ravel())

        r = call(run)
        if isinstance(r, Raised):
            continue
        csl, res = r
        tok = lambda x: "f64 " + " ".join(str(n) for n in x.shape) + " " + " ".join(fmt(v) for v in x.ravel())  # noqa: E731
        lines.append(f"transfops {rnd_name} {mode} {csl} {csl} {fmt(t0[0])} {fmt(t0[1])} 1 0 {len(ops)} "
                     + " ".join(("A " + tok(x)) if k == "A" else f"S {fmt(x[0])} {fmt(x[1])} 1 0" for k, x in ops))
        impl.append(res)
    return ctx.correspond("TransformationCorrection: applications interleaved with set_parameters on one object (version-keyed cache), exact",
                          lines, impl, driver="C10")


def rand_phist(rng, dim):
    """parameter-setting history on one object: partial / full set_parameters, long vectors, then possibly an isometry (short) vector"""
    na = 1 if dim == 2 else 3
    ops = []
    for _ in range(rng.randint(1, 4)):
        if rng.random() < 0.5:
            ops.append(("S", [dy(rng, -4, 4, 4) for _ in range(dim)] if rng.random() < 0.7 else None,
                        Fr(rng.choice([2, 3, 5, 1]), rng.choice([1, 2, 4])) if rng.random() < 0.7 else None,
                        [rfrac(rng, lo=-2, hi=2) for _ in range(na)] if rng.random() < 0.6 else None))
        else:
            ops.append(("V", False, [dy(rng, -4, 4, 4) for _ in range(dim)], Fr(rng.choice([2, 3, 5]), rng.choice([1, 2, 4])),
                        [rfrac(rng, lo=-2, hi=2) for _ in range(na)]))
    if rng.random() < 0.7:
        ops.append(("V", True, [dy(rng, -4, 4, 4) for _ in range(dim)], Fr(1), [rfrac(rng, lo=-2, hi=2) for _ in range(na)]))
    return ops


def apply_phist(d, T, ops):
    for op in ops:
        if op[0] == "S":
            _, t, sg, rot = op
            T.set_parameters(None if t is None else np.array([float(x) for x in t]), None if sg is None else float(sg),
                             None if rot is None else np.array([angle(a) for a in rot]))
        else:
            _, iso, t, sg, rot = op
            T.isometry = iso
            vec = [float(x) for x in t] + ([] if iso else [float(sg)]) + [angle(a) for a in rot]
            T.set_parameters_as_vector(np.array(vec))


def corr_param_history(ctx, d):
    """parameter-setting histories on ONE AffineTransformation(2): final translation, scaling, rotation and the map vs the model"""
    rng = ctx.rng
    lines, vals = [], []
    for i in range(ctx.pick(20, 200)):
        ops = rand_phist(rng, 2)
        pts = [[dy(rng, -6, 6, 4), dy(rng, -6, 6, 4)] for _ in range(rng.randint(1, 4))]
        toks = []
        for op in ops:
            if op[0] == "S":
                _, t, sg, rot = op
                toks.append("S " + ("1 " + fmt(t[0]) + " " + fmt(t[1]) if t else "0") + " " + ("1 " + fmt(sg) if sg is not None else "0") + " "
                            + ("1 " + fmt(rot[0]) if rot else "0"))
            else:
                _, iso, t, sg, rot = op
                toks.append(f"V {int(iso)} {fmt(t[0])} {fmt(t[1])} {fmt(sg)} {fmt(rot[0])}")
        lines.append(f"phist {len(ops)} " + " ".join(toks) + f" {len(pts)} " + " ".join(fmt(x) for p in pts for x in p))

        def run():
            T = d.AffineTransformation(2)
            apply_phist(d, T, ops)
            y = T.call_array(np.array([[float(x) for x in p] for p in pts]))
            return (list(np.asarray(T.translation, float).ravel()) + [float(T.scaling)] + list(np.asarray(T.rotation, float).ravel())
                    + list(np.asarray(y, float).ravel()))

        vals.append(call(run))
    return correspond_tol(ctx, "AffineTransformation: parameter-setting histories on one object (set_parameters / vectors / isometry), 1e-11",
                          lines, vals, tol=1e-11)


def check_phist_case(ctx, d, case):
    """a re-used transformation object must end up like a FRESH object given the last complete setting; isometry => distances kept"""
    dim = case["dim"]
    ops = [tuple(o) for o in case["ops"]]
    last = ops[-1]
    if last[0] != "V":
        return []
    conv = lambda o: (o[0], o[1], [Fr(x) for x in o[2]], Fr(o[3]), [Fr(x) for x in o[4]])  # noqa: E731
    ops = [conv(o) if o[0] == "V" else (o[0], None if o[1] is None else [Fr(x) for x in o[1]], None if o[2] is None else Fr(o[2]),
                                         None if o[3] is None else [Fr(x) for x in o[3]]) for o in ops]
    x = np.array(case["pts"], float)

    def run():
        T = d.AffineTransformation(dim)
        apply_phist(d, T, ops)
        F = d.AffineTransformation(dim)
        apply_phist(d, F, ops[-1:])
        return np.asarray(T.call_array(x), float), np.asarray(F.call_array(x), float), float(T.scaling), np.asarray(T.inverse_array(T.call_array(x)), float)

    r = call(run)
    if isinstance(r, Raised):
        return [(f"C09:AffineTransformation({dim}):parameter-history:raises", f"{r}")]
    yT, yF, sc, back = r
    bad = []
    iso = ops[-1][1]
    scale = 1 + float(np.abs(yF).max())
    if float(np.abs(yT - yF).max()) > 1e-10 * scale:
        bad.append((f"C09:AffineTransformation({dim}):scaling/translation-not-as-documented(object re-used, after {'isometry ' if iso else ''}vector)",
                    f"stated clause 'scaling and translation act as documented' fails on a re-used object: after {len(ops) - 1} earlier setting(s) the {'short (isometry)' if iso else 'long'} parameter vector gives a map that differs from a "
                    f"fresh object's by {float(np.abs(yT - yF).max()):.3g} (scaling {sc}, fresh {1.0 if iso else float(ops[-1][3])})"))
    if iso and len(x) >= 2:
        dx, dyv = np.linalg.norm(x[0] - x[1]), np.linalg.norm(yT[0] - yT[1])
        if abs(dx - dyv) > 1e-10 * scale:
            bad.append((f"C09:AffineTransformation({dim}):isometry-does-not-preserve-distances", f"|x0-x1| = {dx}, |T x0 - T x1| = {dyv}"))
    if float(np.abs(back - x).max()) > 1e-9 * scale * max(sc, 1 / sc if sc else 1):
        bad.append((f"C09:AffineTransformation({dim}):inverse∘call≠id(after history)", f"{float(np.abs(back - x).max()):.3g}"))
    return bad


def corr_fit_fold(ctx, d):
    """AffineTransformation.fit with scipy.optimize.minimize replaced by a recorder that returns GIVEN inner parameters: the start
    vector, the objective at the start (on the shifted points), and the folded translation / scaling / rotation and the fitted
    map on the original source points are compared with the model (preconditioning on/off, isometry on/off, 2-D and 3-D)."""
    import types

    import scipy.optimize as so

    rng = ctx.rng
    lines, vals = [], []
    for i in range(ctx.pick(24, 240)):
        dim = 2 + (i % 2)
        pre, iso = bool((i // 2) % 2 == 0), bool((i // 4) % 2)
        n = rng.randint(dim + 1, 6)
        src = [[dy(rng, -6, 6, 4) for _ in range(dim)] for _ in range(n)]
        dst = [[dy(rng, -6, 6, 4) for _ in range(dim)] for _ in range(n)]
        tp = [dy(rng, -4, 4, 4) for _ in range(dim)]
        sigma = Fr(1) if iso else Fr(rng.choice([1, 2, 3, 5]), rng.choice([1, 2, 4]))
        ts = [rfrac(rng, lo=-2, hi=2) for _ in range(1 if dim == 2 else 3)]
        flat = " ".join(fmt(x) for p in src for x in p) + " " + " ".join(fmt(x) for p in dst for x in p)
        if dim == 2:
            lines.append(f"fitfold {int(pre)} {fmt(tp[0])} {fmt(tp[1])} {fmt(sigma)} {fmt(ts[0])} {n} {flat}")
        else:
            lines.append(f"fitfold3 {int(pre)} {fmt(tp[0])} {fmt(tp[1])} {fmt(tp[2])} {fmt(sigma)} 3 "
                         + " ".join(f"{k} 0 {fmt(a)}" for k, a in enumerate(ts)) + f" {n} {flat}")

        def run():
            T = d.AffineTransformation(dim)
            rec = {}
            xret = [float(x) for x in tp] + ([] if iso else [float(sigma)]) + [angle(a) for a in ts]

            def fake(fun, x0, *a, **k):
                rec["x0"] = np.array(x0, float).copy()
                rec["f0"] = float(fun(np.array(x0, float)))
                return types.SimpleNamespace(x=np.array(xret), success=True, fun=0.0)

            orig = so.minimize
            so.minimize = fake
            try:
                T.fit(d.make_coordinate(np.array([[float(x) for x in p] for p in src])),
                      d.make_coordinate(np.array([[float(x) for x in p] for p in dst])),
                      fit_options={"preconditioning": pre, "isometry": iso})
            finally:
                so.minimize = orig
            ident = [0.0] * dim + ([] if iso else [1.0]) + [0.0] * len(ts)
            if "x0" not in rec or not np.array_equal(rec["x0"], np.array(ident)):
                raise ValueError("the search was not started from the identity parameters")
            if abs(float(T.scaling) - float(sigma)) > 0:
                raise ValueError("scaling of the fitted map is not the inner result")
            mapped = np.asarray(T.call_array(np.array([[float(x) for x in p] for p in src])), float)
            return list(np.asarray(T.translation, float).ravel()) + [rec["f0"]] + list(mapped.ravel())

        vals.append(call(run))
    return correspond_tol(ctx, "AffineTransformation.fit: start vector, start objective, fold-back of the preconditioning (optimiser replaced, 1e-11)",
                          lines, vals, tol=1e-11)


def corr_ctmeta(ctx, d):
    """CoordinateTransformation.__call__: class, dimensions, origin and the other metadata of the result vs the model, for source
    and destination systems of different shape, voxel size and origin (all image classes, single and series)."""
    rng = ctx.rng
    lines, impl = [], []
    kinds = {"Image": 0, "ScalarImage": 1, "OpticalImage": 2}
    for i in range(ctx.pick(9, 60)):
        kname = ("Image", "ScalarImage", "OpticalImage")[i % 3]
        series = bool((i // 3) % 2)
        shape = (rng.randint(2, 5), rng.randint(2, 5))
        dshape = (rng.randint(2, 6), rng.randint(2, 6))
        hs = [Fr(1, rng.choice([1, 2, 4])), Fr(1, rng.choice([1, 2, 4]))]
        hd = [Fr(1, rng.choice([1, 2, 4])), Fr(1, rng.choice([1, 2, 4]))]
        so = [dy(rng, -4, 4, 2), dy(rng, -4, 4, 2)]
        do = [dy(rng, -4, 4, 2), dy(rng, -4, 4, 2)]
        name = rng.randint(1, 99)
        T = 2 if series else 0
        sdims = [shape[0] * hs[0], shape[1] * hs[1]]
        ddims = [dshape[0] * hd[0], dshape[1] * hd[1]]
        others = [name, int(series), int(kname != "OpticalImage"), 2, T]
        lines.append(f"ctmeta {kinds[kname]} {fmt(sdims[0])} {fmt(sdims[1])} {fmt(so[0])} {fmt(so[1])} {len(others)} "
                     + " ".join(str(x) for x in others) + f" {fmt(ddims[0])} {fmt(ddims[1])} {fmt(do[0])} {fmt(do[1])}")

        def run():
            full = shape + ((T,) if series else ()) + ((3,) if kname == "OpticalImage" else ())
            arr = np.arange(int(np.prod(full)), dtype=float).reshape(full)
            kw = dict(dimensions=[float(x) for x in sdims], origin=[float(x) for x in so], name=str(name))
            if series:
                kw.update(series=True, time=[0.0, 1.0])
            img = (d.Image(arr, scalar=True, **kw) if kname == "Image" else d.ScalarImage(arr, **kw) if kname == "ScalarImage"
                   else d.OpticalImage(arr, **kw))
            dst = mk_image(d, dshape, hd, do)
            pts = np.array([[0, 0], [shape[0], 0], [0, shape[1]], [shape[0], shape[1]]], dtype=float)
            ct = d.CoordinateTransformation(img.coordinatesystem, dst.coordinatesystem, d.make_voxel(pts), d.make_voxel(pts),
                                            fit_options={"tol": 1e-6, "maxiter": 200})
            res = ct(img)
            if res.img.shape[:2] != dshape:
                raise ValueError("result array does not have the destination shape")
            oth = [int(res.name), int(bool(res.series)), int(bool(res.scalar)), int(res.space_dim), int(res.time_num) if res.series else 0]
            return (f"{kinds.get(type(res).__name__, 9)} | {fmt(res.dimensions[0])} {fmt(res.dimensions[1])} | {fmt(res.origin[0])} {fmt(res.origin[1])} | "
                    + " ".join(str(x) for x in oth))

        r = call(run)
        impl.append(repr(r) if isinstance(r, Raised) else r)
    return ctx.correspond("CoordinateTransformation.__call__ result class / dimensions / origin / other metadata (exact)", lines, impl)


def corr_genperspective(ctx, d):
    """GeneralizedPerspectiveTransformation.inverse_array with parameters set directly (set_parameters_as_vector + the image
    box attributes that `fit` derives from the destination system); dyadic parameters and points."""
    rng = ctx.rng
    ex_lines, ex_impl, tl_lines, tl_vals = [], [], [], []
    for i in range(ctx.pick(40, 500)):
        kind = ("identity", "translation", "affine", "perspective", "full", "full-voxelbox")[i % 6]
        q = lambda lo=-8, hi=8, m=4: Fr(rng.randint(lo, hi), m)  # noqa: E731
        A = [Fr(1), Fr(0), Fr(0), Fr(1)]
        b, c = [Fr(0), Fr(0)], [Fr(0), Fr(0)]
        sf, so, bf, bo = ([Fr(0), Fr(0)] for _ in range(4))
        if kind != "identity":
            b = [q(), q()]
        if kind in ("affine", "perspective", "full", "full-voxelbox"):
            A = [Fr(1) + q(-2, 2), q(-2, 2), q(-2, 2), Fr(1) + q(-2, 2)]
        if kind in ("perspective", "full", "full-voxelbox"):
            c = [Fr(rng.randint(-2, 2), 16), Fr(rng.randint(-2, 2), 16)]
        if kind in ("full", "full-voxelbox"):
            sf, bf = [q(-2, 2, 8), q(-2, 2, 8)], [q(-2, 2, 8), q(-2, 2, 8)]
            so, bo = [q(-2, 2, 2), q(-2, 2, 2)], [q(-2, 2, 2), q(-2, 2, 2)]
        if kind == "full-voxelbox":
            mx, mn = [Fr(rng.randint(2, 8)), Fr(rng.randint(2, 8))], [Fr(0), Fr(0)]
        else:
            mn = [q(-8, 0, 2), q(-8, 0, 2)]
            mx = [mn[0] + Fr(rng.randint(1, 12), 2), mn[1] + Fr(rng.randint(1, 12), 2)]
        ce = [(mx[0] + mn[0]) / 2, (mx[1] + mn[1]) / 2]
        n = rng.randint(1, 4)
        pts = [[q(-12, 12, 2), q(-12, 12, 2)] for _ in range(n)]
        single = i % 7 == 3
        if single:
            pts = pts[:1]
        params = A + b + c + sf + so + bf + bo
        line = ("gp " + " ".join(fmt(x) for x in params) + " " + " ".join(fmt(x) for x in ce + mx + mn) + f" {len(pts)} "
                + " ".join(fmt(x) for p in pts for x in p))

        def run():
            T = d.GeneralizedPerspectiveTransformation()
            nparam = 16 if kind.startswith("full") else (8 if i % 2 else 16)
            T.set_parameters_as_vector(np.array([float(x) for x in params[:nparam]]))
            T.max_coordinate = np.array([float(x) for x in mx])
            T.min_coordinate = np.array([float(x) for x in mn])
            T.center = 0.5 * (T.max_coordinate + T.min_coordinate)
            x = np.array([[float(v) for v in p] for p in pts])
            if np.any(x @ np.array([float(v) for v in c]) + 1 == 0):
                return "!div0"
            if single:
                pt = d.make_coordinate(np.zeros((2, 2)))
                T.set_dtype(pt, pt)
                y = T.inverse(d.make_coordinate(x[0]))
                if not isinstance(y, d.Coordinate) or np.asarray(y).shape != (2,):
                    raise TypeError("single typed point in, something else out")
                return np.asarray(y, float).ravel()
            return np.asarray(T.inverse_array(x), float).ravel()

        r = call(run)
        exact = all(v == 0 for v in c)
        if exact:
            ex_lines.append(line)
            ex_impl.append(repr(r) if isinstance(r, Raised) else r if isinstance(r, str) else " ".join(fmt(v) for v in r))
        else:
            tl_lines.append(line)
            tl_vals.append(r if isinstance(r, Raised) else Raised(ZeroDivisionError()) if isinstance(r, str) else list(r))
    ctx.correspond("GeneralizedPerspective.inverse_array (no perspective division, dyadic: exact)", ex_lines, ex_impl)
    # with perspective division: rational model vs float, 1e-12 relative
    tl_lines2, tl_vals2 = [], []
    for l, v in zip(tl_lines, tl_vals):
        if isinstance(v, Raised):
            continue
        tl_lines2.append(l)
        tl_vals2.append(v)
    correspond_tol(ctx, "GeneralizedPerspective.inverse_array (perspective division, bulge, stretch: 1e-11)", tl_lines2, tl_vals2, tol=1e-11)


# ---------------------------------------------------------------------------- property oracle (implementation only)


def rot_pair_defect(R, Ri, dim):
    return float(np.abs(R @ Ri - np.eye(dim)).max()), float(np.abs(Ri @ R - np.eye(dim)).max())


def check_affine_case(ctx, d, case):
    """property clauses for one parameter choice; returns list of (signature, what)"""
    dim, t, sigma, angles, pts, single = case["dim"], case["t"], case["sigma"], case["angles"], case["pts"], case.get("single", False)
    bad = []
    T = call(mk_T, d, dim, "coord", t, sigma, angles)
    if isinstance(T, Raised):
        return [(f"C09:AffineTransformation({dim}).set_parameters:raises", f"set_parameters raises {T}")]
    R, Ri = np.asarray(T.rotation, float), np.asarray(T.rotation_inv, float)
    nz = sum(1 for a in angles if a != 0)
    multi = "multi-angle" if nz > 1 else "single-angle"
    e1, e2 = rot_pair_defect(R, Ri, dim)
    if max(e1, e2) > 1e-9:
        bad.append((f"C09:AffineTransformation({dim}).rotation_inv:not-inverse({multi})",
                    f"|R·R_inv − I|max = {e1:.3g}, |R_inv·R − I|max = {e2:.3g} for angles {angles}"))
    eo = float(np.abs(R @ R.T - np.eye(dim)).max())
    ed = abs(float(np.linalg.det(R)) - 1.0)
    if eo > 1e-9 or ed > 1e-9:
        bad.append((f"C09:AffineTransformation({dim}).rotation:not-orthonormal", f"|R·Rᵀ − I| = {eo:.3g}, |det − 1| = {ed:.3g}"))
    x = np.array(pts, dtype=float)
    scale = 1 + float(np.abs(x).max()) + float(np.abs(np.array(t, float)).max())
    xin = d.make_coordinate(x[0]) if single else d.make_coordinate(x)
    y = call(T, xin)
    if isinstance(y, Raised):
        return bad + [(f"C09:AffineTransformation({dim}).__call__:raises", f"{y}")]
    back = call(T.inverse, y)
    fwd = call(lambda: T(T.inverse(xin)))
    if isinstance(back, Raised) or isinstance(fwd, Raised):
        return bad + [(f"C09:AffineTransformation({dim}).inverse:raises", f"{back} {fwd}")]
    tol = 1e-9 * scale * max(float(sigma), 1 / float(sigma))
    if np.asarray(back).shape != np.asarray(xin).shape or float(np.abs(np.asarray(back) - np.asarray(xin)).max()) > tol:
        bad.append((f"C09:AffineTransformation({dim}):inverse∘call≠id({multi})",
                    f"max |inverse(call(x)) − x| = {float(np.abs(np.asarray(back) - np.asarray(xin)).max()):.3g}"))
    if np.asarray(fwd).shape != np.asarray(xin).shape or float(np.abs(np.asarray(fwd) - np.asarray(xin)).max()) > tol:
        bad.append((f"C09:AffineTransformation({dim}):call∘inverse≠id({multi})",
                    f"max |call(inverse(x)) − x| = {float(np.abs(np.asarray(fwd) - np.asarray(xin)).max()):.3g}"))
    # scaling / translation as documented
    o = call(T, np.zeros((1, dim)))
    if isinstance(o, Raised) or float(np.abs(np.asarray(o)[0] - np.array(t, float)).max()) > 1e-12 * scale:
        bad.append((f"C09:AffineTransformation({dim}):origin-not-mapped-to-translation", f"T(0) = {o}"))
    if not single and len(pts) >= 2:
        ya = np.asarray(y, float)
        dx = np.linalg.norm(x[0] - x[1])
        dyv = np.linalg.norm(ya[0] - ya[1])
        if abs(dyv - float(sigma) * dx) > 1e-9 * scale * float(sigma):
            bad.append((f"C09:AffineTransformation({dim}):distance-not-scaled", f"|T(x)−T(y)| = {dyv}, scaling·|x−y| = {float(sigma) * dx}"))
    if all(a == 0 for a in angles):
        exp = np.array(t, float) + float(sigma) * x
        if float(np.abs(np.atleast_2d(np.asarray(y, float)) - (exp[:1] if single else exp)).max()) > 1e-12 * scale * float(sigma):
            bad.append((f"C09:AffineTransformation({dim}):no-rotation≠t+σx", "call without rotation is not translation + scaling * x"))
    return bad


def check_rotcorr_case(ctx, d, case):
    dim, rots = case["dim"], case["rotations"]
    bad = []
    if dim == 2:
        R = call(lambda: d.RotationCorrection(anchor=[1, 1], rotations=[rots[0][0]]))
    else:
        R = call(lambda: d.RotationCorrection(anchor=[1, 1, 1], rotations=[(a, ax) for a, ax in rots]))
    if isinstance(R, Raised):
        return [(f"C09:RotationCorrection({dim}d):raises", f"{R}")]
    nz = sum(1 for a, _ in rots if a != 0)
    multi = "multi-angle" if nz > 1 else "single-angle"
    e1, e2 = rot_pair_defect(np.asarray(R.rotation), np.asarray(R.rotation_inv), dim)
    if max(e1, e2) > 1e-9:
        bad.append((f"C09:RotationCorrection({dim}d).rotation_inv:not-inverse({multi})",
                    f"|R·R_inv − I|max = {e1:.3g}, |R_inv·R − I|max = {e2:.3g} for rotations {rots}"))
    return bad


def shifted(arr, k, dim):
    out = np.zeros_like(arr)
    src, dst = [], []
    for a in range(dim):
        n = arr.shape[a]
        if abs(k[a]) >= n:
            return out
        if k[a] >= 0:
            dst.append(slice(k[a], n))
            src.append(slice(0, n - k[a]))
        else:
            dst.append(slice(0, n + k[a]))
            src.append(slice(-k[a], n))
    out[tuple(dst)] = arr[tuple(src)]
    return out


def shift_vec(mode, h, k, dim):
    """translation parameter expressing `shift by k voxels` in the units of the mode (h = voxel size per matrix axis)"""
    if mode != "coord":
        return [Fr(x) for x in k]
    if dim == 2:
        return [k[1] * h[1], -k[0] * h[0]]
    return [k[1] * h[1], -k[2] * h[2], -k[0] * h[0]]


def check_warp_case(ctx, d, case):
    kind, dim, mode = case["kind"], case["dim"], case["mode"]
    shape, h, origin = tuple(case["shape"]), [Fr(x) for x in case["h"]], case.get("origin")
    trail = tuple(case.get("trail", ()))
    dtype = np.dtype(case.get("dtype", "int64"))
    N = int(np.prod(shape + trail))
    arr = (np.arange(1, N + 1) % 251 + 1).astype(dtype).reshape(shape + trail)
    bad = []
    src = call(mk_image, d, shape, h, origin)
    if isinstance(src, Raised):
        return [("C09:Image:raises", f"{src}")]
    if kind in ("identity", "shift"):
        k = case.get("k", [0] * dim)
        t = shift_vec(mode, h, k, dim)
        angles = None if case.get("no_rot", True) else [0.0] * (1 if dim == 2 else 3)
        out = call(warp_impl, d, mode, src, src, t, 1.0, angles, arr.copy())
        exp = shifted(arr, k, dim)
        if isinstance(out, Raised):
            return [(f"C09:warp({kind},mode={mode}):raises", f"{out}")]
        if out.shape != exp.shape or out.dtype != exp.dtype or not np.array_equal(out, exp):
            pos = any(x > 0 for x in k)
            cls = "border-replicated" if (pos and out.shape == exp.shape and np.array_equal(out[exp != 0], exp[exp != 0])) else "wrong-array"
            bad.append((f"C09:warp({kind},mode={mode}):{cls}",
                        f"{kind} by {k} voxels on shape {shape} in {mode} mode: result differs from the zero-filled shift "
                        f"({int(np.count_nonzero(out != exp)) if out.shape == exp.shape else 'shape'} cells)"))
    elif kind == "quarter":
        sgn = case["sign"]
        n0, n1 = shape
        dshape = (n1, n0)
        dh = [h[1], h[0]]
        dorigin = case.get("dorigin")
        dst = call(mk_image, d, dshape, dh, dorigin)
        if isinstance(dst, Raised):
            return [("C09:Image:raises", f"{dst}")]
        if mode == "center":
            t = [n1, 0] if sgn > 0 else [0, n0]
        elif mode == "voxel":
            t = [n1 - 1, 0] if sgn > 0 else [0, n0 - 1]
        else:
            ox, oy = [Fr(float(x)) for x in src.origin]
            dx, dyo = [Fr(float(x)) for x in dst.origin]
            t = [dx + oy, dyo - ox - n1 * h[1]] if sgn > 0 else [dx - oy + n0 * h[0], dyo + ox]
        out = call(warp_impl, d, mode, src, dst, t, 1.0, [sgn * math.pi / 2], arr.copy())
        exp = np.rot90(arr, 1 if sgn > 0 else 3, axes=(0, 1))
        if isinstance(out, Raised):
            return [(f"C09:warp(quarter-turn,mode={mode}):raises", f"{out}")]
        if out.shape != exp.shape or not np.array_equal(out, exp):
            cls = "not-rot90"
            if mode == "voxel" and out.shape == exp.shape:
                # theorem quarter_turn_voxel_on_breakpoint: every exact pre-image component is an integer, so float noise can only
                # lower a source index by one (floor(n - eps) = n - 1); index -1 is invalid -> zero fill. Anything else is a violation.
                noise = True
                for i in range(exp.shape[0]):
                    for j in range(exp.shape[1]):
                        e0, e1 = (j, n1 - 1 - i) if sgn > 0 else (n0 - 1 - j, i)
                        ok = False
                        # theorem quarter_turn_voxel_noise_direction: for +pi/2 only the FIRST source index can come out lower
                        # (and only where v0 < n1 - 1), for -pi/2 only the SECOND (only where v1 < n0 - 1)
                        low0 = (0, 1) if (sgn > 0 and i < n1 - 1) else (0,)
                        low1 = (0, 1) if (sgn < 0 and j < n0 - 1) else (0,)
                        for a0 in low0:
                            for a1 in low1:
                                p0, p1 = e0 - a0, e1 - a1
                                want = arr[p0, p1] if (0 <= p0 < n0 and 0 <= p1 < n1) else np.zeros_like(arr[0, 0])
                                ok = ok or np.array_equal(out[i, j], want)
                        noise = noise and ok
                if noise:
                    cls = "breakpoint-noise(source index -1)"
            bad.append((f"C09:warp(quarter-turn,mode={mode}):{cls}",
                        f"quarter turn ({'+' if sgn > 0 else '-'}pi/2) of shape {shape} in {mode} mode is not np.rot90"
                        + (" (differs only at voxels whose exact integer pre-image was lowered by one)" if cls != "not-rot90" else "")))
    elif kind == "cache-after-set":
        # the per-object warp cache must follow the transformation: apply, change the parameters on the SAME object, apply again
        k1, k2 = case["k1"], case["k2"]
        how = case["how"]

        def run():
            T = mk_T(d, dim, mode, shift_vec(mode, h, k1, dim), 1.0, None)
            C = d.TransformationCorrection(src.coordinatesystem, src.coordinatesystem, T)
            first = C.correct_array(arr.copy())
            if how == "set_parameters":
                T.set_parameters(np.array([float(x) for x in shift_vec(mode, h, k2, dim)]), 1.0, None)
            elif how == "set_parameters_as_vector":
                T.set_parameters_as_vector(np.array([float(x) for x in shift_vec(mode, h, k2, dim)] + [1.0] + [0.0] * (1 if dim == 2 else 3)))
            else:  # a new transformation object is installed on the correction
                C.transformation = mk_T(d, dim, mode, shift_vec(mode, h, k2, dim), 1.0, None)
            return first, C.correct_array(arr.copy())

        r = call(run)
        if isinstance(r, Raised):
            return [(f"C09:warp-cache({how}):raises", f"{r}")]
        first, second = r
        if not np.array_equal(first, shifted(arr, k1, dim)):
            return [(f"C09:warp(shift,mode={mode}):wrong-array", f"shift by {k1} on {shape} is not the zero-filled shift")]
        if not np.array_equal(second, shifted(arr, k2, dim)):
            stale = np.array_equal(second, first)
            bad.append((f"C09:warp-cache:stale-after-{how}",
                        f"after the shift by {k1} the parameters were changed to a shift by {k2} on the same object ({how}): the second "
                        f"result {'is still the FIRST warp (stale cache)' if stale else 'is neither warp'}; a fresh object gives the shift by {k2}"))
    elif kind == "resample":
        # whole-voxel translation between DIFFERENT systems (shape, voxel size, origin), all three modes
        k = case["k"]
        dshape = tuple(case["dshape"])
        if mode == "coord":
            m = case["refine"]  # destination voxel size = source voxel size / m (same origin corner)
            dh = [hh / mm for hh, mm in zip(h, m)]
            dorigin = [float(x) for x in src.origin]
            t = shift_vec("coord", h, k, dim)
        else:
            m = [1] * dim
            dh = [Fr(x) for x in case["dh"]]
            dorigin = case.get("dorigin")
            t = [Fr(x) for x in k]
        dst = call(mk_image, d, dshape, dh, dorigin)
        if isinstance(dst, Raised):
            return [("C09:Image:raises", f"{dst}")]
        out = call(warp_impl, d, mode, src, dst, t, 1.0, None if case.get("no_rot", True) else [0.0] * (1 if dim == 2 else 3), arr.copy())
        exp = np.zeros(dshape + trail, dtype=arr.dtype)
        for v in np.ndindex(*dshape):
            p = tuple(v[a] // m[a] - k[a] for a in range(dim))
            if all(0 <= p[a] < shape[a] for a in range(dim)):
                exp[v] = arr[p]
        if isinstance(out, Raised):
            return [(f"C09:warp(two-systems,mode={mode}):raises", f"{out}")]
        if out.shape != exp.shape or out.dtype != exp.dtype or not np.array_equal(out, exp):
            bad.append((f"C09:warp(two-systems,mode={mode},dim={dim}):wrong-array",
                        f"translation by {k} source voxels from shape {shape} (voxel size {[str(x) for x in h]}) onto shape {dshape} "
                        f"(voxel size {[str(x) for x in dh]}) in {mode} mode: result is not the shifted"
                        f"{' and ' + str(m) + '-fold refined' if mode == 'coord' else ''} source array with zero fill"))
    elif kind == "quarter3-coord":
        # +pi/2 about the Cartesian x axis, expressed in physical coordinates (theorem src_quarter_turn_3d_coord)
        n0, n1, n2 = shape
        dshape, dh = (n2, n1, n0), [h[2], h[1], h[0]]
        dst = call(mk_image, d, dshape, dh, case.get("dorigin"))
        if isinstance(dst, Raised):
            return [("C09:Image:raises", f"{dst}")]
        ox, oy, oz = [Fr(float(x)) for x in src.origin]
        dx, dyo, dz = [Fr(float(x)) for x in dst.origin]
        t = [dx - ox, dyo + oz - n0 * h[0], dz - oy]
        out = call(warp_impl, d, "coord", src, dst, t, 1.0, [math.pi / 2, 0.0, 0.0], arr.copy())
        exp = np.rot90(arr, 1, axes=(2, 0))
        if isinstance(out, Raised):
            return [("C09:warp(quarter-turn-3d,mode=coord):raises", f"{out}")]
        if out.shape != exp.shape or not np.array_equal(out, exp):
            bad.append(("C09:warp(quarter-turn-3d,axis=x,mode=coord):not-rot90",
                        f"+pi/2 about the Cartesian x axis of shape {shape} in coordinate mode is not np.rot90(arr, 1, axes=(2, 0))"))
    elif kind == "quarter3":
        # 3-D quarter turn about matrix axis `axis` in voxel-centre mode (robust: pre-images are half-integers)
        axis = case["axis"]
        n0, n1, n2 = shape
        dshape = {0: (n0, n2, n1), 1: (n2, n1, n0), 2: (n1, n0, n2)}[axis]
        dh = {0: [h[0], h[2], h[1]], 1: [h[2], h[1], h[0]], 2: [h[1], h[0], h[2]]}[axis]
        dst = call(mk_image, d, dshape, dh, None)
        if isinstance(dst, Raised):
            return [("C09:Image:raises", f"{dst}")]
        t = {0: [0, n2, 0], 1: [0, 0, n0], 2: [n1, 0, 0]}[axis]
        angles = [0.0, 0.0, 0.0]
        angles[axis] = math.pi / 2
        out = call(warp_impl, d, "center", src, dst, t, 1.0, angles, arr.copy())
        exp = np.rot90(arr, 1, axes={0: (1, 2), 1: (2, 0), 2: (0, 1)}[axis])
        if isinstance(out, Raised):
            return [(f"C09:warp(quarter-turn-3d,axis={axis}):raises", f"{out}")]
        if out.shape != exp.shape or not np.array_equal(out, exp):
            bad.append((f"C09:warp(quarter-turn-3d,axis={axis},mode=center):not-rot90",
                        f"+pi/2 about matrix axis {axis} of shape {shape} in voxel-centre mode is not np.rot90 in the plane"))
    elif kind == "quarter-exact":
        # Voxel-typed quarter turn with EXACT matrices set on the transformation: no float noise, must be rot90
        sgn = case["sign"]
        n0, n1 = shape
        dst = call(mk_image, d, (n1, n0), [h[1], h[0]], None)
        if isinstance(dst, Raised):
            return [("C09:Image:raises", f"{dst}")]

        def run():
            T = mk_T(d, 2, "voxel", [n1 - 1, 0] if sgn > 0 else [0, n0 - 1], 1.0, [0.0])
            T.rotation = np.array([[0.0, -1.0], [1.0, 0.0]]) * sgn
            T.rotation_inv = np.array([[0.0, 1.0], [-1.0, 0.0]]) * sgn
            # the harness WROTE the matrices onto the object: check that the map really is the exact quarter turn now
            tt = np.array([n1 - 1, 0] if sgn > 0 else [0, n0 - 1], float)
            probe = np.array([[0.0, 0.0], [2.0, 1.0]])
            want = (probe - tt) @ (np.array([[0.0, 1.0], [-1.0, 0.0]]) * sgn).T
            if not np.array_equal(np.asarray(T.inverse_array(probe), float), want):
                return "assignment-ignored"
            C = d.TransformationCorrection(src.coordinatesystem, dst.coordinatesystem, T)
            return C.correct_array(arr.copy())

        out = call(run)
        if isinstance(out, str):
            return [("C09:warp(quarter-turn,mode=voxel,exact-matrix):harness", "assigning rotation / rotation_inv on the object does not change the map")]
        exp = np.rot90(arr, 1 if sgn > 0 else 3, axes=(0, 1))
        if isinstance(out, Raised):
            return [("C09:warp(quarter-turn,mode=voxel,exact-matrix):raises", f"{out}")]
        if out.shape != exp.shape or not np.array_equal(out, exp):
            bad.append(("C09:warp(quarter-turn,mode=voxel,exact-matrix):not-rot90",
                        f"Voxel-typed quarter turn with exact integer matrices of shape {shape} is not np.rot90"))
    elif kind == "coordtransf-fit":
        # CoordinateTransformation / AffineCorrection as the user gets them: fitted from reference point pairs p -> p + k,
        # in voxel-centre mode or (isometry) in physical coordinates, between two systems of different shape and origin
        k, iso = case["k"], case["isometry"]
        dshape, dorigin = tuple(case["dshape"]), case.get("dorigin")
        srcimg = call(mk_image, d, shape, h, origin, arr=arr.astype(float), name="c09-fit", scalar=not trail)
        dst = call(mk_image, d, dshape, h, dorigin)
        if isinstance(srcimg, Raised) or isinstance(dst, Raised):
            return [("C09:Image:raises", f"{srcimg} {dst}")]
        pts = np.array(case["pts"], dtype=float)

        def build():
            return d.CoordinateTransformation(srcimg.coordinatesystem, dst.coordinatesystem, d.make_voxel_center(pts),
                                              d.make_voxel_center(pts + np.array(k, float)),
                                              fit_options={"tol": 1e-8, "maxiter": 10000, "isometry": iso})

        ct = call(build)
        if isinstance(ct, Raised):
            return [(f"C09:CoordinateTransformation(isometry={iso}):raises", f"{ct}")]
        T = ct.affine_correction.transformation
        case["_fitted"] = [float(x) for x in np.asarray(T.translation, float)] + [float(T.scaling)]
        case["_cs"] = (cs_line(srcimg), cs_line(dst))
        res = call(ct, srcimg)
        if isinstance(res, Raised):
            return [(f"C09:CoordinateTransformation(isometry={iso}).__call__:raises", f"{res}")]
        exp = np.zeros(dshape + trail)
        for i in range(dshape[0]):
            for j in range(dshape[1]):
                si, sj = i - k[0], j - k[1]
                if 0 <= si < shape[0] and 0 <= sj < shape[1]:
                    exp[i, j] = arr[si, sj]
        if res.img.shape != exp.shape or not np.array_equal(res.img, exp):
            bad.append((f"C09:CoordinateTransformation(fitted,isometry={iso}):wrong-array",
                        f"reference pairs p -> p + {k} voxels from {shape} onto {dshape} (origins {list(srcimg.origin)} / {list(dst.origin)}): "
                        f"result is not the zero-filled shift; fitted translation {case['_fitted'][:2]}"))
        if not (np.allclose(res.dimensions, dst.dimensions, rtol=0, atol=0) and np.array_equal(np.asarray(res.origin), np.asarray(dst.origin))):
            bad.append((f"C09:CoordinateTransformation(fitted,isometry={iso}):metadata-not-destination", "result not labelled with the destination system"))
    elif kind == "coordtransf":
        k = case["k"]
        dshape, dh, dorigin = tuple(case["dshape"]), [Fr(x) for x in case["dh"]], case.get("dorigin")
        name = "c09-name"
        srcimg = call(mk_image, d, shape, h, origin, arr=arr.astype(float), name=name, scalar=not trail)
        dst = call(mk_image, d, dshape, dh, dorigin)
        if isinstance(srcimg, Raised) or isinstance(dst, Raised):
            return [("C09:Image:raises", f"{srcimg} {dst}")]

        def build():
            pts = np.array([[0, 0], [shape[0], 0], [0, shape[1]], [shape[0], shape[1]]], dtype=float)
            ct = d.CoordinateTransformation(srcimg.coordinatesystem, dst.coordinatesystem, d.make_voxel(pts),
                                            d.make_voxel(pts + np.array(k, float)), fit_options={"tol": 1e-6, "maxiter": 200})
            fitted = [np.array(ct.affine_correction.transformation.translation, float).tolist(),
                      float(ct.affine_correction.transformation.scaling)]
            # parameters are set directly (the Powell fit is out of scope); drop the warp cache
            ct.affine_correction.transformation.set_parameters(np.array(k, float), 1.0, [0.0])
            if hasattr(ct.affine_correction, "cache"):
                del ct.affine_correction.cache
            return ct, fitted

        r = call(build)
        if isinstance(r, Raised):
            return [("C09:CoordinateTransformation:raises", f"{r}")]
        ct, fitted = r
        ctx.cov.setdefault("fitted_maps_sampled", []).append(
            {"k": k, "fitted_translation": fitted[0], "fitted_scaling": fitted[1],
             "abs_err": float(np.abs(np.array(fitted[0]) - np.array(k, float)).max())}) if len(ctx.cov.get("fitted_maps_sampled", [])) < 8 else None
        before = srcimg.img.copy()
        res = call(ct, srcimg)
        if isinstance(res, Raised):
            return [("C09:CoordinateTransformation.__call__:raises", f"{res}")]
        if not np.array_equal(srcimg.img, before):
            bad.append(("C09:CoordinateTransformation:input-modified", "the source image was modified"))
        if not (np.allclose(res.dimensions, dst.dimensions, rtol=0, atol=0) and np.array_equal(np.asarray(res.origin), np.asarray(dst.origin))):
            bad.append(("C09:CoordinateTransformation:metadata-not-destination",
                        f"result dimensions/origin {res.dimensions}/{list(res.origin)} != destination {dst.dimensions}/{list(dst.origin)}"))
        if res.name != name or res.scalar != srcimg.scalar or res.series != srcimg.series or res.space_dim != 2 or type(res) is not type(srcimg):
            bad.append(("C09:CoordinateTransformation:other-metadata-changed", "name / scalar / series / space_dim / type not preserved"))
        # data: shift by k voxels from the source array onto the destination canvas (voxel mode, same voxel grid)
        exp = np.zeros(dshape + trail)
        for i in range(dshape[0]):
            for j in range(dshape[1]):
                si, sj = i - k[0], j - k[1]
                if 0 <= si < shape[0] and 0 <= sj < shape[1]:
                    exp[i, j] = arr[si, sj]
        if res.img.shape != exp.shape or not np.array_equal(res.img, exp):
            bad.append(("C09:CoordinateTransformation:wrong-array", f"voxel shift {k} from {shape} onto {dshape}: array differs"))
    return bad


def mk_gp(d, params, mx, mn, mode=None):
    T = d.GeneralizedPerspectiveTransformation()
    T.set_parameters_as_vector(np.array([float(x) for x in params]))
    T.max_coordinate = np.array([float(x) for x in mx])
    T.min_coordinate = np.array([float(x) for x in mn])
    T.center = 0.5 * (T.max_coordinate + T.min_coordinate)
    if mode is not None:
        mkp = {"coord": d.make_coordinate, "voxel": d.make_voxel, "center": d.make_voxel_center}[mode]
        p = mkp(np.zeros((2, 2)))
        T.set_dtype(p, p)
    return T


def check_gp_case(ctx, d, case):
    """special cases of the generalised perspective map that the property fixes: identity, pure translation, affine"""
    kind = case["kind"]
    bad = []
    if kind in ("gp-identity", "gp-translation", "gp-affine"):
        x = np.array(case["pts"], float)
        b = np.array(case.get("b", [0, 0]), float)
        mx, mn = case["max"], case["min"]
        if kind == "gp-affine":
            t, sigma, ang = case["t"], case["sigma"], case["angle"]
            A = call(mk_T, d, 2, "coord", t, sigma, [ang])
            if isinstance(A, Raised):
                return [("C09:AffineTransformation(2).set_parameters:raises", f"{A}")]
            M = np.asarray(A.rotation_inv, float) / sigma
            bb = -M @ np.array(t, float)
            params = list(M.ravel()) + list(bb) + [0.0, 0.0] + [0.0] * 8
            exp = call(A.inverse_array, x)
        else:
            params = [1, 0, 0, 1] + list(b) + [0, 0] + [0] * 8
            exp = x + b
        T = call(mk_gp, d, params, mx, mn)
        y = T if isinstance(T, Raised) else call(T.inverse_array, x)
        if isinstance(y, Raised) or isinstance(exp, Raised):
            return [(f"C09:GeneralizedPerspective({kind}):raises", f"{y} {exp}")]
        scale = 1 + float(np.abs(x).max()) + float(np.abs(b).max())
        tol = 1e-12 * scale if kind != "gp-affine" else 1e-10 * scale * max(case["sigma"], 1 / case["sigma"])
        if np.asarray(y).shape != x.shape or float(np.abs(np.asarray(y) - exp).max()) > tol:
            bad.append((f"C09:GeneralizedPerspective.inverse_array:{kind}",
                        f"{kind} parameters: max deviation from the {kind[3:]} map {float(np.abs(np.asarray(y) - exp).max()):.3g}"))
    elif kind == "gp-warp":
        shape, k, mode = tuple(case["shape"]), case["k"], case["mode"]
        h = [Fr(x) for x in case["h"]]
        arr = payload(shape)
        src = call(mk_image, d, shape, h, None)
        if isinstance(src, Raised):
            return [("C09:Image:raises", f"{src}")]
        # inverse(x) = x + b pulls destination voxel v back to v + b: a shift by k needs b = -shift_vec(k)
        b = [-x for x in shift_vec(mode, h, k, 2)]
        cs = src.coordinatesystem
        if mode == "coord":
            mx, mn = [float(v) for v in cs.max_coordinate], [float(v) for v in cs.min_coordinate]
        else:
            mx, mn = [float(n) for n in shape], [0.0, 0.0]

        def run():
            T = mk_gp(d, [1, 0, 0, 1] + [float(x) for x in b] + [0, 0] + [0] * 8, mx, mn, mode)
            return d.TransformationCorrection(cs, cs, T).correct_array(arr.copy())

        out = call(run)
        exp = shifted(arr, k, 2)
        if isinstance(out, Raised):
            return [(f"C09:GeneralizedPerspective:warp(shift,mode={mode}):raises", f"{out}")]
        if out.shape != exp.shape or not np.array_equal(out, exp):
            bad.append((f"C09:GeneralizedPerspective:warp(shift,mode={mode}):wrong-array",
                        f"generalised perspective map with pure translation {k} voxels on shape {shape} in {mode} mode is not the zero-filled shift"))
    return bad


def check_fit_case(ctx, d, case):
    """sampled: AffineTransformation.fit on an exact similarity ground truth dst = t + sigma R src (2-D, moderate angle) maps the
    source points onto the destination points within the optimiser's tolerance"""
    src = np.array(case["src"], float)
    t, sigma, ang = np.array(case["t"], float), case["sigma"], case["angle"]
    R = np.array([[math.cos(ang), -math.sin(ang)], [math.sin(ang), math.cos(ang)]])
    dst = t + sigma * (src @ R.T)

    def run():
        T = d.AffineTransformation(2)
        T.fit(d.make_coordinate(src), d.make_coordinate(dst), fit_options={"tol": 1e-12, "maxiter": 20000, "preconditioning": case["pre"]})
        return np.asarray(T(d.make_coordinate(src)), float), np.asarray(T.inverse(d.make_coordinate(dst)), float)

    r = call(run)
    if isinstance(r, Raised):
        return [("C09:AffineTransformation.fit:raises", f"{r}")]
    scale = 1 + float(np.abs(dst).max())
    e1, e2 = float(np.abs(r[0] - dst).max()), float(np.abs(r[1] - src).max())
    if hasattr(ctx, "cov"):
        ctx.cov["fit_exact_err_max"] = max(ctx.cov.get("fit_exact_err_max", 0.0), e1 / scale)
    if e1 > 1e-3 * scale or e2 > 1e-3 * scale * max(1.0, 1 / sigma):
        return [(f"C09:AffineTransformation.fit(preconditioning={case['pre']}):exact-similarity-not-reproduced",
                 f"dst = t + {sigma:.3g} R({ang:.3g}) src with t = {t.tolist()}: fitted map misses the destination points by {e1:.3g} "
                 f"(inverse misses the sources by {e2:.3g})")]
    return []


# Round-7 triage (false-alarm direction): failing inputs only from STATED clauses; clauses that encode how the current code stores
# or caches things (what the Lean model says) are TIE-BROKEN marks; clauses outside the statement / quantifier are observations.
MARK_PATTERNS = (
    "rotation_inv:not-inverse",          # attribute pair; the observable clauses are inverse∘call / call∘inverse
    "C09:warp-cache:",                    # same-object cache scenario: caching strategy is not a stated clause
    "C09:CoordinateTransformation:wrong-array", "C09:CoordinateTransformation:raises",   # harness resets parameters through attributes
    "C09:CoordinateTransformation:input-modified", "C09:CoordinateTransformation:other-metadata-changed",  # C10's statement
    ":wrong-class", ":point-set≠single-point",
    ":harness",
)
OBSERVE_PATTERNS = ("C09:AffineTransformation.fit(",)    # Powell accuracy: fit is outside the statement (sampled, recorded)


def report(ctx, bad, case):
    for sig, what in bad:
        if any(p in sig for p in OBSERVE_PATTERNS):
            ctx.cov.setdefault("observations", {})[sig] = what
        elif any(p in sig for p in MARK_PATTERNS):
            if not any(m.get("correspondence") == sig for m in ctx.marks):
                ctx.mark("TIE-BROKEN", {"correspondence": sig, "what": what, "case": case})
        else:
            ctx.fail(sig, what, {"case": case, "observed": what})


def jsonable(x):
    if isinstance(x, Fr):
        return str(x)
    if isinstance(x, (list, tuple)):
        return [jsonable(y) for y in x]
    if isinstance(x, dict):
        return {k: jsonable(v) for k, v in x.items()}
    if isinstance(x, (np.integer,)):
        return int(x)
    if isinstance(x, (np.floating,)):
        return float(x)
    return x


def oracle(ctx, d):
    rng = ctx.rng
    # --- affine maps: all parameter ranges of the property
    for i in range(ctx.pick(150, 8000)):
        dim = 2 + (i % 2)
        na = 1 if dim == 2 else 3
        angles = [rng.uniform(-math.pi, math.pi) for _ in range(na)]
        if dim == 3 and i % 6 == 1:
            keep = rng.randrange(3)
            angles = [a if j == keep else 0.0 for j, a in enumerate(angles)]
        if i % 11 == 0:
            angles = [0.0] * na
        if i == 1:
            angles = [0.3, 0.5, -0.7]
        case = dict(dim=dim, t=[rng.uniform(-50, 50) for _ in range(dim)], sigma=math.exp(rng.uniform(math.log(0.1), math.log(10))),
                    angles=angles, pts=[[rng.uniform(-100, 100) for _ in range(dim)] for _ in range(rng.randint(2, 6))],
                    single=(i % 7 == 3))
        ctx.count(("affine", dim, tuple(round(a, 6) for a in angles)))
        report(ctx, check_affine_case(ctx, d, case), case)
    for i in range(ctx.pick(40, 2000)):
        dim = 2 + (i % 2)
        if dim == 2:
            rots = [(rng.uniform(-math.pi, math.pi), "z")]
        else:
            rots = [(rng.uniform(-math.pi, math.pi), rng.choice("xyz")) for _ in range(rng.randint(1, 4))]
        case = dict(dim=dim, rotations=rots)
        ctx.count(("rotcorr", dim, len(rots)))
        report(ctx, check_rotcorr_case(ctx, d, case), case)
    # --- warps
    dtypes = ["int64", "uint8", "float64", "float32", "uint16"]
    for i in range(ctx.pick(90, 4000)):
        dim = 2 if i % 3 else 3
        shape = [rng.choice([1, 2, 3, 4, 5, 6, 7]) for _ in range(dim)]
        if i == 0:
            shape, dim = [5, 6], 2
        h = [str(Fr(1, rng.choice([1, 2, 4])) * rng.choice([1, 1, 2])) for _ in range(dim)]
        origin = [str(dy(rng, -4, 4, 2)) for _ in range(dim)] if rng.random() < 0.6 else None
        mode = MODES[i % 3] if dim == 2 else MODES[(i // 3) % 3]
        if i % 4 == 0:
            k = [0] * dim
            kind = "identity"
        else:
            k = [rng.randint(-n - 2, n + 2) for n in shape]
            kind = "shift"
            if i % 8 == 1:
                k = [rng.choice([1, 2]) for _ in shape]
        if i == 0:
            k, kind, mode = [1, 2], "shift", "center"
        case = dict(kind=kind, dim=dim, mode=mode, shape=shape, h=h, origin=origin, k=k, no_rot=bool(rng.getrandbits(1)),
                    dtype=rng.choice(dtypes), trail=rng.choice([[], [], [3], [2, 2]]))
        ctx.count(("warp", kind, dim, mode, tuple(shape), tuple(k)), nontrivial=int(np.prod(shape)) > 1)
        report(ctx, check_warp_case(ctx, d, case), case)
    for i in range(ctx.pick(36, 1200)):
        shape = [rng.choice([1, 2, 3, 4, 5, 6, 7]) for _ in range(2)]
        h = [str(Fr(1, rng.choice([1, 2, 4]))) for _ in range(2)]
        case = dict(kind="quarter", dim=2, mode=MODES[i % 3], shape=shape, h=h, sign=1 if (i // 3) % 2 == 0 else -1,
                    origin=[str(dy(rng, -4, 4, 2)) for _ in range(2)] if rng.random() < 0.5 else None,
                    dorigin=[str(dy(rng, -4, 4, 2)) for _ in range(2)] if rng.random() < 0.5 else None,
                    dtype=rng.choice(dtypes), trail=rng.choice([[], [3]]))
        ctx.count(("quarter", case["mode"], tuple(shape), case["sign"]), nontrivial=int(np.prod(shape)) > 1)
        report(ctx, check_warp_case(ctx, d, case), case)
    for i in range(ctx.pick(18, 300)):
        shape = [rng.choice([1, 2, 3, 4, 5]) for _ in range(3)]
        case = dict(kind="quarter3", dim=3, mode="center", axis=i % 3, shape=shape, h=[str(Fr(1, rng.choice([1, 2]))) for _ in range(3)],
                    dtype=rng.choice(dtypes), trail=rng.choice([[], [2]]))
        ctx.count(("quarter3", i % 3, tuple(shape)), nontrivial=int(np.prod(shape)) > 1)
        report(ctx, check_warp_case(ctx, d, case), case)
    for i in range(ctx.pick(45, 600)):
        dim = 2 if i % 3 else 3
        mode = MODES[i % 3] if dim == 2 else MODES[(i // 3) % 3]
        shape = [rng.choice([1, 2, 3, 4, 5, 6]) for _ in range(dim)]
        dshape = [rng.choice([1, 2, 3, 4, 5, 6, 7, 9]) for _ in range(dim)]
        case = dict(kind="resample", dim=dim, mode=mode, shape=shape, dshape=dshape,
                    h=[str(Fr(1, rng.choice([1, 2, 4])) * rng.choice([1, 2])) for _ in range(dim)],
                    dh=[str(Fr(1, rng.choice([1, 2, 4])) * rng.choice([1, 3])) for _ in range(dim)],
                    refine=[rng.choice([1, 2, 4]) for _ in range(dim)],
                    origin=[str(dy(rng, -4, 4, 2)) for _ in range(dim)] if rng.random() < 0.6 else None,
                    dorigin=[str(dy(rng, -4, 4, 2)) for _ in range(dim)] if rng.random() < 0.6 else None,
                    k=[0] * dim if i % 5 == 0 else [rng.randint(-n - 1, n + 1) for n in shape], no_rot=bool(rng.getrandbits(1)),
                    dtype=rng.choice(dtypes), trail=rng.choice([[], [], [3]]))
        ctx.count(("resample", dim, mode, tuple(shape), tuple(dshape), tuple(case["k"])))
        report(ctx, check_warp_case(ctx, d, case), case)
    for i in range(ctx.pick(12, 120)):
        dim = 2 if i % 3 else 3
        shape = [rng.choice([2, 3, 4, 5]) for _ in range(dim)]
        k1 = [rng.randint(-1, 1) for _ in range(dim)]
        k2 = [x + rng.choice([1, -1, 2]) for x in k1]
        case = dict(kind="cache-after-set", dim=dim, mode=MODES[i % 3], shape=shape, h=[str(Fr(1, rng.choice([1, 2]))) for _ in range(dim)],
                    k1=k1, k2=k2, how=("set_parameters", "set_parameters_as_vector", "new-transformation")[(i // 3) % 3],
                    dtype=rng.choice(dtypes), trail=[])
        ctx.count(("cache-after-set", dim, case["mode"], case["how"], tuple(shape)))
        report(ctx, check_warp_case(ctx, d, case), case)
    for i in range(ctx.pick(8, 120)):
        shape = [rng.choice([1, 2, 3, 4, 5]) for _ in range(3)]
        case = dict(kind="quarter3-coord", dim=3, mode="coord", shape=shape, h=[str(Fr(1, rng.choice([1, 2, 4]))) for _ in range(3)],
                    origin=[str(dy(rng, -4, 4, 2)) for _ in range(3)] if i % 2 else None,
                    dorigin=[str(dy(rng, -4, 4, 2)) for _ in range(3)] if i % 3 == 0 else None,
                    dtype=rng.choice(dtypes), trail=rng.choice([[], [2]]))
        ctx.count(("quarter3-coord", tuple(shape)), nontrivial=int(np.prod(shape)) > 1)
        report(ctx, check_warp_case(ctx, d, case), case)
    for i in range(ctx.pick(12, 200)):
        shape = [rng.choice([1, 2, 3, 4, 5, 6, 7]) for _ in range(2)]
        case = dict(kind="quarter-exact", dim=2, mode="voxel", shape=shape, h=[str(Fr(1, rng.choice([1, 2, 4]))) for _ in range(2)],
                    origin=[str(dy(rng, -4, 4, 2)) for _ in range(2)] if i % 3 == 0 else None, sign=1 if i % 2 == 0 else -1,
                    dtype=rng.choice(dtypes), trail=rng.choice([[], [3]]))
        ctx.count(("quarter-exact", tuple(shape), case["sign"]), nontrivial=int(np.prod(shape)) > 1)
        report(ctx, check_warp_case(ctx, d, case), case)
    for i in range(ctx.pick(30, 400)):
        kind = ("gp-identity", "gp-translation", "gp-affine")[i % 3]
        mn = [rng.uniform(-5, 0), rng.uniform(-5, 0)]
        case = dict(kind=kind, pts=[[rng.uniform(-20, 20), rng.uniform(-20, 20)] for _ in range(rng.randint(1, 5))],
                    b=[rng.uniform(-10, 10), rng.uniform(-10, 10)] if kind == "gp-translation" else [0, 0],
                    max=[mn[0] + rng.uniform(1, 9), mn[1] + rng.uniform(1, 9)], min=mn,
                    t=[rng.uniform(-10, 10), rng.uniform(-10, 10)], sigma=math.exp(rng.uniform(math.log(0.1), math.log(10))),
                    angle=rng.uniform(-math.pi, math.pi))
        ctx.count((kind, i))
        report(ctx, check_gp_case(ctx, d, case), case)
    for i in range(ctx.pick(18, 300)):
        shape = [rng.choice([1, 2, 3, 4, 5, 6]) for _ in range(2)]
        case = dict(kind="gp-warp", mode=MODES[i % 3], shape=shape, h=[str(Fr(1, rng.choice([1, 2, 4]))) for _ in range(2)],
                    k=[0, 0] if i % 5 == 0 else [rng.randint(-n - 1, n + 1) for n in shape])
        ctx.count(("gp-warp", case["mode"], tuple(shape), tuple(case["k"])), nontrivial=int(np.prod(shape)) > 1)
        report(ctx, check_gp_case(ctx, d, case), case)
    for i in range(ctx.pick(6, 40)):
        case = dict(fit=True, pre=True, src=[[rng.uniform(-10, 10), rng.uniform(-10, 10)] for _ in range(rng.randint(4, 7))],
                    t=[rng.uniform(-20, 20), rng.uniform(-20, 20)], sigma=math.exp(rng.uniform(math.log(0.5), math.log(2.0))),
                    angle=rng.uniform(-0.5, 0.5))
        ctx.count(("fit-exact", i))
        report(ctx, check_fit_case(ctx, d, case), case)
    for i in range(ctx.pick(18, 150)):
        mode = ("voxel", "center")[i % 2]
        kind = "translation" if (mode == "voxel" or i % 3) else ("quarter", "quarter-")[(i // 6) % 2]
        case = dict(typed=True, mode=mode, kind=kind, t=[rng.randint(-5, 5), rng.randint(-5, 5)],
                    pts=[[rng.randint(-6, 8), rng.randint(-6, 8)] for _ in range(rng.randint(1, 5))])
        ctx.count(("typed-points", mode, kind, i))
        report(ctx, check_typed_case(ctx, d, case), case)
    for i in range(ctx.pick(30, 300)):
        dim = 2 + (i % 2)
        ops = rand_phist(rng, dim)
        if ops[-1][0] != "V":
            ops.append(("V", True, [dy(rng, -4, 4, 4) for _ in range(dim)], Fr(1), [rfrac(rng, lo=-2, hi=2) for _ in range(1 if dim == 2 else 3)]))
        js = lambda o: [o[0], o[1], [str(x) for x in o[2]], str(o[3]), [str(x) for x in o[4]]] if o[0] == "V" else [  # noqa: E731
            o[0], None if o[1] is None else [str(x) for x in o[1]], None if o[2] is None else str(o[2]), None if o[3] is None else [str(x) for x in o[3]]]
        case = dict(phist=True, dim=dim, ops=[js(o) for o in ops], pts=[[rng.uniform(-10, 10) for _ in range(dim)] for _ in range(rng.randint(2, 4))])
        ctx.count(("param-history", dim, len(ops), i))
        report(ctx, check_phist_case(ctx, d, case), case)
    iso_lines, iso_vals = [], []
    for i in range(ctx.pick(8, 60)):
        shape = [rng.randint(3, 6), rng.randint(3, 6)]
        dshape = [shape[0] + rng.randint(0, 3), shape[1] + rng.randint(0, 3)]
        if i % 4 == 0:
            dshape = list(shape)
        hh = [str(Fr(1, rng.choice([1, 2, 4]))), str(Fr(1, rng.choice([1, 2, 4])))]
        n = rng.randint(3, 5)
        pts = [[0, 0], [shape[0] - 1, 0], [0, shape[1] - 1]] + [[rng.randrange(shape[0]), rng.randrange(shape[1])] for _ in range(n - 3)]
        case = dict(kind="coordtransf-fit", dim=2, mode="coord", isometry=bool(i % 2 == 0), shape=shape, h=hh, dshape=dshape,
                    k=[rng.randint(-1, 2), rng.randint(-1, 2)], pts=pts,
                    origin=[str(dy(rng, -4, 4, 2)) for _ in range(2)] if i % 3 == 0 else None,
                    dorigin=[str(dy(rng, -4, 4, 2)) for _ in range(2)] if i % 3 == 1 else None, trail=rng.choice([[], [3]]))
        ctx.count(("coordtransf-fit", case["isometry"], tuple(shape), tuple(dshape), tuple(case["k"])))
        bad = check_warp_case(ctx, d, case)
        fitted, csl = case.pop("_fitted", None), case.pop("_cs", None)
        report(ctx, bad, case)
        if fitted is not None and case["isometry"]:
            iso_lines.append(f"isoshift {csl[0]} {csl[1]} {case['k'][0]} {case['k'][1]}")
            iso_vals.append(fitted[:2])
    # fitted translation of the isometry branch vs the model's translation between the two systems (Powell: 1e-5)
    correspond_tol(ctx, "AffineCorrection(isometry) fitted translation between two systems vs isoShiftVec (1e-5)", iso_lines, iso_vals, tol=1e-5)
    for i in range(ctx.pick(3, 12)):
        shape = [rng.randint(2, 6), rng.randint(2, 6)]
        dshape = [rng.randint(2, 8), rng.randint(2, 8)]
        hh = str(Fr(1, rng.choice([1, 2, 4])))
        case = dict(kind="coordtransf", dim=2, mode="voxel", shape=shape, h=[hh, hh], dshape=dshape, dh=[hh, hh],
                    k=[rng.randint(-2, 3), rng.randint(-2, 3)], origin=None,
                    dorigin=[str(dy(rng, -4, 4, 2)) for _ in range(2)], trail=rng.choice([[], [3]]))
        ctx.count(("coordtransf", tuple(shape), tuple(dshape), tuple(case["k"])))
        report(ctx, check_warp_case(ctx, d, case), case)


def replay(data):
    import darsia as d

    class _C:
        cov: dict = {}

        def __init__(self):
            self.cov = {}

    case = data.get("replay", {}).get("case", data.get("case"))
    if case is None:
        print(json.dumps(data, indent=1))
        return 0
    if case.get("phist"):
        bad = check_phist_case(_C(), d, case)
    elif case.get("typed"):
        bad = check_typed_case(_C(), d, case)
    elif case.get("fit"):
        bad = check_fit_case(_C(), d, case)
    elif "rotations" in case:
        bad = check_rotcorr_case(_C(), d, case)
    elif str(case.get("kind", "")).startswith("gp-"):
        bad = check_gp_case(_C(), d, case)
    elif "kind" in case:
        bad = check_warp_case(_C(), d, case)
    else:
        bad = check_affine_case(_C(), d, case)
    print("case:", json.dumps(case))
    for sig, what in bad:
        print("FAILS:", sig, "--", what)
    if not bad:
        print("holds on this input")
    return 1 if bad else 0


def run(ctx):
    import darsia as d

    corpus = sorted((__import__("pathlib").Path(__file__).resolve().parents[2] / "corpus" / "C09").glob("*.json"))
    for f in corpus:
        data = json.loads(f.read_text())
        case = data.get("replay", {}).get("case", data.get("case"))
        if case:
            fn = (check_phist_case if case.get("phist") else check_typed_case if case.get("typed") else check_fit_case if case.get("fit") else check_rotcorr_case if "rotations" in case else check_gp_case if str(case.get("kind", "")).startswith("gp-")
                  else check_warp_case if "kind" in case else check_affine_case)
            report(ctx, fn(ctx, d, case), case)
    # (1) G1: rounding of the point constructors
    rnd, rows = tabulate_rounding(d)
    if rnd is None:
        ctx.mark("TIE-BROKEN", {"generator": "PointRounding", "rows": [(str(a), b, str(c)) for a, b, c in rows],
                                "why": "Voxel/VoxelCenter constructors are neither truncation nor floor"})
        rnd_name = "trunc"
    else:
        rnd_name = rnd
        ctx.write_gen("PointRounding", emit_rounding(rnd, rows))
    ctx.cov["point_rounding"] = rnd
    # (2) proofs
    ctx.prove("C09")
    # (3) correspondences
    corr_rotations(ctx, d)
    corr_points(ctx, d)
    corr_coordinatesystem(ctx, d)
    corr_warps(ctx, d, rnd_name)
    corr_genperspective(ctx, d)
    corr_ctmeta(ctx, d)
    corr_fit_fold(ctx, d)
    corr_typed_points(ctx, d, rnd_name)
    corr_cache_ops(ctx, d, rnd_name)
    corr_param_history(ctx, d)
    # (4) oracle
    oracle(ctx, d)

    class _J(json.JSONEncoder):
        def default(self, o):
            return jsonable(o) if isinstance(o, (Fr, np.integer, np.floating)) else str(o)

    for f in ctx.failures:
        f["replay"] = json.loads(json.dumps(f["replay"], cls=_J))
    ctx.cov["rule"] = ("affine: random parameters over the property's ranges (translations +-50, scaling 0.1..10 log-uniform, "
                       "angles uniform in (-pi,pi), 2-D one / 3-D three incl. several non-zero), random point sets and single points; "
                       "warps: shapes with extents 1..7 (2-D/3-D), voxel sizes 1/4..2, shifts -(n+2)..(n+2), payload dtypes and trailing "
                       "channel axes; distinct = distinct (clause, dim, mode, shape, parameters)")
    ctx.assumptions += [
        "scipy Rotation.from_rotvec(theta*e_k).as_matrix() equals the elementary rotation matrix (checked entrywise at 1e-12 on every run)",
        "numpy integer-array indexing assignment in correct_array (tied by the warp correspondences)",
        "float stream: destination voxels whose exact pre-image is within 1e-6 of a rounding breakpoint are not compared",
        "interpret_indexing tables for 'xyz' (no flips) and 'ij'/'ijk' as hard-coded in DarsiaModel.Warp (tied by the coordinate-system correspondence)",
    ]
