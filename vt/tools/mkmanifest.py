"""Regenerate /verif/MANIFEST.json from the per-property table below."""
import json
from pathlib import Path

V = Path(__file__).resolve().parents[2]
BASE = "cd /repo && /venv/bin/python -m pytest -ra -q -p no:cacheprovider --timeout=900 --continue-on-collection-errors"
TB = ("Lean 4.33.0 kernel; axioms propext/Classical.choice/Quot.sound only (audited by #print axioms on every property theorem, "
      "every run); Mathlib v4.33.0 modules; the Python generator/correspondence harness in vt/ and Driver.lean's parser; ")

def collect():
    """CLAIM dicts live in the check modules: vt/checks/cNN.py -> CLAIM = {category, text, note, technique, design_ref}."""
    import importlib, sys
    sys.path.insert(0, str(V))
    out = {}
    for f in sorted((V / "vt" / "checks").glob("c[0-9]*.py")):
        m = importlib.import_module("vt.checks." + f.stem)
        c = getattr(m, "CLAIM", None)
        if c:
            out[f.stem.upper()] = (c["category"], c["text"], TB + c["note"], c["technique"], c.get("design_ref", "6/" + f.stem.upper()))
    return out

PENDING = {}

def main():
    CLAIMS = collect()
    props = [json.loads(l) for l in (V / "properties.jsonl").read_text().splitlines() if l.strip()]
    checks, na = [], []
    for p in props:
        i = p["id"]
        if i in CLAIMS:
            cat, text, note, tech, ref = CLAIMS[i]
            checks.append({
                "property_id": i, "quick_cmd": f"./check {i} quick", "thorough_cmd": f"./check {i} thorough",
                "evidence_file": f"/verif/evidence/{i}.json", "replay_cmd_template": f"./check {i} --replay {{path}}",
                "engine": "lean4-model+correspondence",
                "level_claimed": {"category": cat, "text": text, "design_ref": "DESIGN.md section " + ref},
                "level_note": note, "technique": tech,
            })
        else:
            na.append({"property_id": i, "reason": PENDING.get(i, "check not built yet in this round (planned, see DESIGN.md section 6); not claimed until its Lean model, theorems and tie exist")})
    m = {
        "version": 1,
        "setup_cmd": "cd /verif/lean && lake build",
        "hooks": {"guard": "DARSIA_VERIF", "enable": "not used: solvers are instrumented from the harness by wrapping bound methods on live objects; no source hooks",
                  "baseline_off_cmd": BASE, "source_commits": [], "add_only": True},
        "engines": [{"name": "lean4-model+correspondence", "path": "/verif/lean, /verif/vt",
                     "serves_properties": [c["property_id"] for c in checks],
                     "kind_free_text": "Lean 4 models + theorems (lake), tables regenerated from /repo on every run, line-protocol differential correspondence against the real DarSIA, property oracle search on the implementation"}],
        "checks": checks,
        "not_applicable": na,
        "notes": "See DESIGN.md. Fix commits in /repo are listed in known_findings.json (state=fixed).",
    }
    (V / "MANIFEST.json").write_text(json.dumps(m, indent=1) + "\n")

if __name__ == "__main__":
    main()
