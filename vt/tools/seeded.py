"""Run the registered checks against the seeded breaking changes in /verif/seeded/<name>/.

For each seeded change: git apply it to /repo, run its demonstration (must fail), run the quick
(and optionally thorough) check of the property it breaks (must exit 1 with a VIOLATION line),
and undo the change straight afterwards (git checkout -- .). Results go to seeded/RESULTS.json.

usage: /venv/bin/python vt/tools/seeded.py [name ...] [--thorough]
Sharded: run from a worktree of /verif with SEEDED_REPO=<worktree of /repo> SEEDED_RESULTS=<file>; merge the files afterwards.
"""
import json
import os
import subprocess
import sys
import time
from pathlib import Path

V = Path(__file__).resolve().parents[2]
REPO = os.environ.get("SEEDED_REPO", "/repo")  # a scratch worktree of /repo for sharded runs (then DARSIA_REPO is passed to the check)
RESULTS = os.environ.get("SEEDED_RESULTS")  # alternative results file for a shard


def sh(cmd, **kw):
    return subprocess.run(cmd, shell=True, capture_output=True, text=True, **kw)


def main():
    args = [a for a in sys.argv[1:] if not a.startswith("--")]
    thorough = "--thorough" in sys.argv
    names = args or sorted(p.name for p in (V / "seeded").iterdir() if (p / "patch.diff").exists())
    res_path = Path(RESULTS) if RESULTS else V / "seeded" / "RESULTS.json"
    results = json.loads(res_path.read_text()) if res_path.exists() else {}
    assert sh(f"git -C {REPO} status --porcelain").stdout.strip() == "", "/repo not clean"
    for name in names:
        d = V / "seeded" / name
        meta = json.loads((d / "meta.json").read_text())
        prop = meta["property"]
        r = {"property": prop}
        a = sh(f"git -C {REPO} apply {d / 'patch.diff'}")
        if a.returncode != 0:
            r["error"] = "patch does not apply: " + a.stderr[-300:]
            results[name] = r
            continue
        try:
            demo = sh(f"PYTHONPATH={REPO}/src /venv/bin/python {d / 'demo.py'}", timeout=900)
            r["demo_fails_with_change"] = demo.returncode != 0
            for tier in ["quick"] + (["thorough"] if thorough else []):
                t0 = time.time()
                dr = "" if REPO == "/repo" else f"DARSIA_REPO={REPO} "
                c = sh(f"cd {V} && {dr}VERIF_SEED={os.environ.get('VERIF_SEED', '0')} ./check {prop} {tier}", timeout=7200)
                viol = [l for l in c.stdout.splitlines() if l.startswith("VIOLATION")]
                r[tier] = {"exit": c.returncode, "violations": viol[:5], "wall_s": round(time.time() - t0, 1),
                           "detected": c.returncode == 1 and bool(viol),
                           "with_failing_input": any("no-failing-input-found" not in l for l in viol)}
                if c.returncode not in (0, 1):
                    r[tier]["stderr_tail"] = c.stderr[-500:]
        finally:
            sh(f"git -C {REPO} checkout -- . && git -C {REPO} clean -fdq src")
            # generated tables / evidence written while the change was applied describe the changed tree: restore
            sh(f"git -C {V} checkout -- lean/DarsiaGen evidence")
        clean = sh(f"PYTHONPATH={REPO}/src /venv/bin/python {d / 'demo.py'}", timeout=900)
        r["demo_passes_clean"] = clean.returncode == 0
        results[name] = r
        print(name, json.dumps(r)[:400], flush=True)
        res_path.write_text(json.dumps(results, indent=1))
    assert sh(f"git -C {REPO} status --porcelain").stdout.strip() == "", "/repo not clean after run"


if __name__ == "__main__":
    main()
