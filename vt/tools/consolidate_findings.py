"""Merge findings/*.json into known_findings.json, resolving 'commit' subjects to /repo hashes.

Run by the maintainer of /verif (never by a check). Entries:
  {"state": "known"|"fixed", "property", "signature", "what", "commit"?}
For fixed entries `what` is normalised to start with "fixed: property=<id> <hash> ".
"""
import json
import re
import subprocess
from pathlib import Path

V = Path(__file__).resolve().parents[2]


def main():
    log = subprocess.run(["git", "-C", "/repo", "log", "--format=%h\t%s"], capture_output=True, text=True).stdout
    commits = [l.split("\t", 1) for l in log.splitlines() if "\t" in l]
    base = json.loads((V / "known_findings.json").read_text())
    out, seen = [], set()
    entries = list(base.get("findings", []))
    for f in sorted((V / "findings").glob("*.json")):
        entries += json.loads(f.read_text()).get("findings", [])
    for e in entries:
        key = (e.get("property"), e.get("signature"), e.get("state"))
        if key in seen:
            continue
        seen.add(key)
        e = dict(e)
        if e.get("state") == "fixed":
            c = str(e.get("commit", ""))
            h = None
            if re.fullmatch(r"[0-9a-f]{7,40}", c) and any(x[0].startswith(c[:7]) for x in commits):
                h = c[:7]
            else:
                subj = c.split(" ", 1)[1] if re.match(r"[0-9a-f]{7} ", c) else c
                subj = subj.strip()
                cands = [x for x in commits if subj and (x[1] == subj or x[1].startswith(subj[:60]) or subj.startswith(x[1][:60]))]
                if cands:
                    h = cands[0][0]
            if h:
                e["commit"] = h
                e["commit_subject"] = next(x[1] for x in commits if x[0] == h)
            else:
                e["commit_unresolved"] = c
            what = re.sub(r"^fixed:\s*property=\S+\s*([0-9a-f]{7}\s*)?", "", e.get("what", ""))
            e["what"] = f"fixed: property={e['property']} {e.get('commit', '?')} {what}".strip()
        out.append(e)
    out.sort(key=lambda e: (e.get("property", ""), e.get("state", ""), e.get("signature", "")))
    base["findings"] = out
    (V / "known_findings.json").write_text(json.dumps(base, indent=1) + "\n")
    unresolved = [e for e in out if "commit_unresolved" in e]
    print(len(out), "entries;", sum(e["state"] == "known" for e in out), "known;", len(unresolved), "unresolved fixed commits")
    for e in unresolved:
        print("  unresolved:", e["property"], e["commit_unresolved"][:80])


if __name__ == "__main__":
    main()
