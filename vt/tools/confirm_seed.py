"""Confirm a candidate breaking change independently, then register it under /verif/seeded/<name>/.

usage: /venv/bin/python vt/tools/confirm_seed.py <candidate_dir> <name> [--base <git rev of /repo>]
Confirms in a scratch worktree of /repo (outside /repo and /verif, removed afterwards):
  demo passes on the clean tree; patch applies; demo fails with the change; the package imports;
  the pinned unit-test suite still passes with the change (no failures, >= 123 passed).
"""
import json
import re
import shutil
import subprocess
import sys
from pathlib import Path

V = Path(__file__).resolve().parents[2]


def sh(cmd, **kw):
    return subprocess.run(cmd, shell=True, capture_output=True, text=True, **kw)


def main():
    cand, name = Path(sys.argv[1]), sys.argv[2]
    base = sys.argv[sys.argv.index("--base") + 1] if "--base" in sys.argv else "main"
    wt = Path(f"/work/seedcheck_{name}")
    sh(f"git -C /repo worktree remove --force {wt}")
    r = sh(f"git -C /repo worktree add --detach {wt} {base}")
    assert r.returncode == 0, r.stderr
    out = {"base": sh(f"git -C {wt} rev-parse --short HEAD").stdout.strip()}
    try:
        env = f"PYTHONPATH={wt}/src"
        # demos refer to the candidate author's worktree path; point them at ours
        demo_src = (cand / "demo.py").read_text()
        demo = wt / "_demo_seed.py"
        demo.write_text(re.sub(r"/work/mut/wt_C\d+", str(wt), demo_src))
        c = sh(f"cd {wt} && {env} /venv/bin/python {demo}", timeout=1800)
        out["demo_clean_exit"] = c.returncode
        a = sh(f"git -C {wt} apply {cand / 'patch.diff'}")
        out["patch_applies"] = a.returncode == 0
        if a.returncode == 0:
            c = sh(f"cd {wt} && {env} /venv/bin/python {demo}", timeout=1800)
            out["demo_changed_exit"] = c.returncode
            out["demo_changed_tail"] = (c.stdout + c.stderr)[-400:]
            t = sh(f"cd {wt} && {env} /venv/bin/python -m pytest -q -p no:cacheprovider --timeout=900 -x tests/unit 2>&1 | tail -3", timeout=3600)
            out["unit_tests_with_change"] = t.stdout.strip().splitlines()[-1] if t.stdout.strip() else "?"
        ok = (out.get("demo_clean_exit") == 0 and out.get("patch_applies") and out.get("demo_changed_exit", 0) != 0
              and re.search(r"\b(\d+) passed", out.get("unit_tests_with_change", ""))
              and int(re.search(r"\b(\d+) passed", out["unit_tests_with_change"]).group(1)) >= 123
              and not re.search(r"\b\d+ (failed|error)", out.get("unit_tests_with_change", "")))
        out["confirmed"] = bool(ok)
    finally:
        sh(f"git -C /repo worktree remove --force {wt}")
        shutil.rmtree(wt, ignore_errors=True)
    print(name, json.dumps(out)[:600])
    if out["confirmed"]:
        d = V / "seeded" / name
        d.mkdir(parents=True, exist_ok=True)
        shutil.copy(cand / "patch.diff", d / "patch.diff")
        (d / "demo.py").write_text(re.sub(r"/work/mut/wt_C\d+", "/repo", (cand / "demo.py").read_text()))
        meta = json.loads((cand / "meta.json").read_text())
        meta["confirmation"] = out
        meta["what_i_ran"] = ("scratch worktree of /repo: demo on clean tree (exit 0), git apply patch.diff, demo (non-zero exit), "
                              "pytest tests/unit with the change (no failures); then vt/tools/seeded.py: git -C /repo apply, "
                              "./check <property> quick, git -C /repo checkout -- .")
        (d / "meta.json").write_text(json.dumps(meta, indent=1))
    return 0 if out["confirmed"] else 1


if __name__ == "__main__":
    sys.exit(main())
