"""Print the markdown table 'which check catches which seeded change' from seeded/*/meta.json + seeded/RESULTS.json."""
import json
from pathlib import Path

V = Path(__file__).resolve().parents[2]


def main():
    res = json.loads((V / "seeded" / "RESULTS.json").read_text())
    print("| seeded change | property | what it changes / what it needs to manifest | quick check | how it is caught |")
    print("|---|---|---|---|---|")
    for d in sorted((V / "seeded").iterdir()):
        if not (d / "meta.json").exists():
            continue
        m = json.loads((d / "meta.json").read_text())
        r = res.get(d.name, {})
        q = r.get("quick", {})
        if not q:
            status = r.get("error", "not run")
        elif q.get("detected"):
            status = "caught, replay with failing input" if q.get("with_failing_input") else "caught (proof/tie broken, no-failing-input-found)"
        else:
            status = f"MISSED (exit {q.get('exit')})"
        how = m.get("caught_by", "")
        summ = (m.get("summary", "") + " — needs: " + m.get("needs_to_manifest", "")).replace("|", "/").replace("\n", " ")
        print(f"| {d.name} | {m['property']} | {summ[:420]} | {status} | {how} |")


if __name__ == "__main__":
    main()
