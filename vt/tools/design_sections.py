"""Regenerate the generated sections of DESIGN.md (between <!-- GEN:name --> ... <!-- /GEN:name --> markers):
as-built per-property sections (from docs/asbuilt), findings table, seeded-change table, per-property level table. Run with /venv/bin/python."""
import importlib
import json
import re
import sys
from pathlib import Path

V = Path(__file__).resolve().parents[2]
sys.path.insert(0, str(V))


def findings_table():
    d = json.loads((V / "known_findings.json").read_text())["findings"]
    if (V / "findings").is_dir():
        seen = {(e.get("property"), e.get("signature"), e.get("state")) for e in d}
        for f in sorted((V / "findings").glob("*.json")):
            for e in json.loads(f.read_text()).get("findings", []):
                k = (e.get("property"), e.get("signature"), e.get("state"))
                if k not in seen:
                    seen.add(k)
                    d.append(e)
    d.sort(key=lambda e: (e.get("property", ""), e.get("state", ""), e.get("signature", "")))
    out = ["| property | state | signature (input class that fails) | commit in /repo | what |", "|---|---|---|---|---|"]
    for e in d:
        what = re.sub(r"^fixed: property=\S+ \S+ ", "", e.get("what", "")).replace("|", "/").replace("\n", " ")
        out.append(f"| {e['property']} | {e['state']} | `{e['signature'][:160]}` | {e.get('commit', '—') if e['state'] == 'fixed' else '—'} | {what[:260]} |")
    n_fixed = sum(e["state"] == "fixed" for e in d)
    return f"{n_fixed} fixed entries, {len(d) - n_fixed} known findings.\n\n" + "\n".join(out)


def seeded_table():
    res = json.loads((V / "seeded" / "RESULTS.json").read_text())
    rows = ["| seeded change | property | what it changes — what it needs to manifest | quick check on /repo with the change applied |", "|---|---|---|---|"]
    n = c = w = 0
    for dd in sorted((V / "seeded").iterdir()):
        if not (dd / "meta.json").exists():
            continue
        m = json.loads((dd / "meta.json").read_text())
        q = res.get(dd.name, {}).get("quick", {})
        n += 1
        if q.get("detected") and q.get("with_failing_input"):
            st = "caught: VIOLATION with a concrete failing input"
            c += 1
        elif q.get("detected"):
            st = "caught: proof/tie broken, `no-failing-input-found`"
            w += 1
        elif res.get(dd.name, {}).get("error"):
            st = "patch no longer applies"
        elif not q:
            st = "not run"
        else:
            st = f"**missed** (exit {q.get('exit')})"
        summ = (m.get("summary", "")[:170] + " — needs: " + m.get("needs_to_manifest", "")[:130]).replace("|", "/").replace("\n", " ")
        rows.append(f"| {dd.name} | {m['property']} | {summ} | {st} |")
    return f"{n} seeded changes: {c} caught with a failing input, {w} caught without one, {n - c - w} missed / not applicable.\n\n" + "\n".join(rows)


def level_table():
    rows = ["| property | level claimed | technique | theorems (DarsiaProps) | what the claim says |", "|---|---|---|---|---|"]
    for f in sorted((V / "vt" / "checks").glob("c[0-9]*.py")):
        m = importlib.import_module("vt.checks." + f.stem)
        c = getattr(m, "CLAIM", None)
        if not c:
            continue
        pid = f.stem.upper()
        src = (V / "lean" / "DarsiaProps" / f"{pid}.lean").read_text() if (V / "lean" / "DarsiaProps" / f"{pid}.lean").exists() else ""
        nthm = len(re.findall(r"^theorem\s", src, re.M))
        rows.append(f"| {pid} | {c['category']} | {c['technique'][:120]} | {nthm} | {c['text'][:600].replace('|', '/')} |")
    return "\n".join(rows)


def asbuilt():
    out = []
    for f in sorted((V / "docs" / "asbuilt").glob("C[0-9]*.md")):
        out.append(f.read_text().strip())
    return "\n\n".join(out)


def main():
    p = V / "DESIGN.md"
    s = p.read_text()
    for name, fn in (("asbuilt", asbuilt), ("findings", findings_table), ("seeded", seeded_table), ("levels", level_table)):
        a, b = f"<!-- GEN:{name} -->", f"<!-- /GEN:{name} -->"
        if a in s and b in s:
            s = s[: s.index(a) + len(a)] + "\n" + fn() + "\n" + s[s.index(b):]
    p.write_text(s)


if __name__ == "__main__":
    main()
