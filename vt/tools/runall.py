"""Run every claimed check (MANIFEST.json) for one or more seeds and summarise.

usage: /venv/bin/python vt/tools/runall.py [quick|thorough] [--seeds 0,1,2] [--only C01,C02] [-j 4]
Exit 0 iff every run exited 0 and printed no VIOLATION line.
"""
import json
import os
import subprocess
import sys
import time
from concurrent.futures import ThreadPoolExecutor
from pathlib import Path

V = Path(__file__).resolve().parents[2]


def main():
    a = sys.argv[1:]
    tier = "thorough" if "thorough" in a else "quick"
    seeds = [0]
    only = None
    jobs = 4
    for i, x in enumerate(a):
        if x == "--seeds":
            seeds = [int(s) for s in a[i + 1].split(",")]
        if x == "--only":
            only = a[i + 1].split(",")
        if x == "-j":
            jobs = int(a[i + 1])
    m = json.loads((V / "MANIFEST.json").read_text())
    props = [c["property_id"] for c in m["checks"] if not only or c["property_id"] in only]

    def one(args):
        p, s = args
        t0 = time.time()
        r = subprocess.run(["./check", p, tier], cwd=V, capture_output=True, text=True,
                           env={**os.environ, "VERIF_SEED": str(s)})
        lines = [l for l in r.stdout.splitlines() if l.startswith(("VIOLATION", "KNOWN-FINDING"))]
        return p, s, r.returncode, round(time.time() - t0, 1), lines, r.stderr[-400:] if r.returncode not in (0, 1) else ""

    bad = 0
    with ThreadPoolExecutor(jobs) as ex:
        for p, s, rc, wall, lines, err in ex.map(one, [(p, s) for s in seeds for p in props]):
            flag = "ok " if rc == 0 and not any(l.startswith("VIOLATION") for l in lines) else "BAD"
            bad += flag == "BAD"
            print(f"{flag} {p} seed={s} rc={rc} {wall}s", *lines[:4], err.replace("\n", " | ")[-200:], flush=True)
    print("all ok" if not bad else f"{bad} bad runs")
    return 1 if bad else 0


if __name__ == "__main__":
    sys.exit(main())
