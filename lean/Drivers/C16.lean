/-
Line-protocol driver for C16 (no hidden state between calls).  One scenario per line:
  seq <restore 0|1> <keep 0|1> J <n> {maxiter tol|none dim coef coef}^n M <n> {depth smIter maxiter dim coef coef}^n
      A <n> {depth restart|none}^n W <n> OPS <n> {op}^n
  coef ::= u | s <rat> | a <id>
  op   ::= jc i h data | ju i dim? coef? coef? | mc i data | mu i dim? coef? coef?
         | h1 sref mu omega dim channels data | sb sref ell omega dim iters data
         | an i <list data> | di i kind data iters   (kind: 0 Newton, 1 Bregman, k>=2 adaptive Bregman, update when (iter+1) % k == 0)
  sref ::= d | j i | m i            (optional values: `none` or the value)
Response, per operation k (joined by " ; "):
  eq|ne  — whether the result after the whole prefix equals the result after only the parameter-setting
           part of the prefix — followed by a short description of the record.
-/
import DarsiaModel.Basic
import DarsiaModel.Stateful
import DarsiaModel.SolverArith
open Darsia Darsia.Stateful

def pCoef : P Coef := do
  let t ← P.tok
  if t = "u" then pure .unset
  else if t = "s" then do let r ← P.rat; pure (.scalar r)
  else if t = "a" then do let i ← P.nat; pure (.array i [])
  else failure

def pOptCoef : P (Option Coef) := do
  let t ← P.tok
  if t = "none" then pure none
  else fun s => (pCoef.run (t :: s)).map (fun (a, s') => (some a, s'))

def pJac : P Jac := do
  let maxiter ← P.nat; let tol ← P.opt P.rat; let dim ← P.nat; let m ← pCoef; let f ← pCoef
  pure (Jac.new maxiter tol ⟨dim, m, f⟩)

def pMG : P MG := do
  let depth ← P.nat; let smIter ← P.nat; let maxiter ← P.nat; let dim ← P.nat; let m ← pCoef; let f ← pCoef
  pure (MG.new depth smIter maxiter ⟨dim, m, f⟩)

def pAA : P AA := do
  let depth ← P.nat; let restart ← P.opt P.nat
  pure (AA.new depth restart)

def pSref : P SolverRef := do
  let t ← P.tok
  if t = "d" then pure .default
  else if t = "j" then do let i ← P.nat; pure (.jac i)
  else if t = "m" then do let i ← P.nat; pure (.mg i)
  else failure

def pOp : P Op := do
  let t ← P.tok
  if t = "jc" then do let i ← P.nat; let h ← P.rat; let d ← P.nat; pure (.jacCall i h d)
  else if t = "ju" then do let i ← P.nat; let d ← P.opt P.nat; let m ← pOptCoef; let f ← pOptCoef; pure (.jacUpdate i d m f)
  else if t = "mc" then do let i ← P.nat; let d ← P.nat; pure (.mgCall i d)
  else if t = "mu" then do let i ← P.nat; let d ← P.opt P.nat; let m ← pOptCoef; let f ← pOptCoef; pure (.mgUpdate i d m f)
  else if t = "h1" then do
    let s ← pSref; let mu ← pCoef; let om ← pCoef; let dim ← P.nat; let ch ← P.nat; let d ← P.nat
    pure (.h1 s mu om dim ch d)
  else if t = "sb" then do
    let s ← pSref; let ell ← pCoef; let om ← pCoef; let dim ← P.nat; let it ← P.nat; let d ← P.nat
    pure (.sb s ell om dim it d)
  else if t = "an" then do let i ← P.nat; let ds ← P.list P.nat; pure (.anderson i ds)
  else if t = "di" then do let i ← P.nat; let b ← P.nat; let d ← P.nat; let it ← P.nat; pure (.distance i b d it)
  else failure

def showCoef : Coef → String
  | .unset => "u"
  | .scalar v => "s " ++ showRat v
  | .array i w => "a " ++ toString i ++ " w" ++ String.join (w.map fun b => if b then "R" else "P")

def showOut : Out → String
  | .jac r => s!"J {r.diag.p.dim} {showCoef r.diag.p.mass} {showCoef r.diag.p.diff} {showRat r.diag.h} {r.maxiter} " ++
      (match r.tol with | none => "none" | some t => showRat t)
  | .mg es => s!"MG {es.length}"
  | .solves rs => s!"S {rs.length} {(rs.map List.length).sum}"
  | .aa rs => s!"AA {rs.length}"
  | .dist ss => s!"D {ss.length}"
  | .none => "none"
  | .noObject => "noobj"

def pArr : P Arr := do
  let shape ← P.list P.nat
  let vals ← P.list P.rat
  pure ⟨shape, vals.toArray⟩

def pEnvEntry : P (Nat × Arr) := do
  let id ← P.nat; let a ← pArr; pure (id, a)

/-- `sb` operations may carry the TV weight `mu` (needed only by the arithmetic): `... <data> tvw <coef>` -/
def pOpX : P (Op × Option Coef) := do
  let op ← pOp
  fun s => match s with
    | "tvw" :: rest => (pCoef.run rest).map fun (c, s') => ((op, some c), s')
    | _ => some ((op, none), s)

def dataOf : Op → Option Nat
  | .jacCall _ _ d => some d
  | .mgCall _ d => some d
  | .h1 _ _ _ _ _ d => some d
  | .sb _ _ _ _ _ d => some d
  | _ => none

def flip0 (a : Arr) : Arr :=
  Arr.tab a.shape fun idx => a.get (modifyAt idx 0 fun i => listGetD a.shape 0 1 - 1 - i)

def showArrs (as : List Arr) : String := showRats (as.flatMap fun a => a.data.toList)

/-- results of a regulariser come back channel by channel; the implementation stores them with the channel index last -/
def interleave (as : List Arr) : List Rat :=
  match as with
  | [] => []
  | a :: _ => (List.range a.data.size).flatMap fun k => as.map fun b => b.data.getD k 0

/-! canonical trace tokens: what the harness observes on the live objects (instrumented `Jacobi._diag` / `__call__`,
`MG.operator`, `update_params`, `AndersonAcceleration.__call__` / `reset`, `linear_solve` set-up vs re-use) -/

def tCoef : Coef → String
  | .unset => "None"
  | .scalar v => showRat v
  | .array i w => s!"a{i}R{(w.filter (· == true)).length}" ++ (if w.any (· == false) then "P" else "")

def tOptCoef : Option Coef → String
  | none => "-"
  | some c => tCoef c

def tOptNat : Option Nat → String
  | none => "-"
  | some n => toString n

def tJac (r : JacRun) : String :=
  s!"J({r.maxiter};{r.diag.p.dim},{tCoef r.diag.p.mass},{tCoef r.diag.p.diff},{showRat r.diag.h})"

def tEvent : MGEvent → String
  | .smooth r => tJac r
  | .operator p h => s!"O({p.dim},{tCoef p.mass},{tCoef p.diff},{showRat h})"

def traceOut (w0 : World) (op : Op) : Out → String
  | .jac r => tJac r
  | .mg es => " ".intercalate (es.map tEvent)
  | .solves rs =>
    let u := match op with
      | .h1 _ mu omega dim _ _ => s!"U({dim},{tCoef omega},{tCoef mu})"
      | .sb _ ell omega dim _ _ => s!"U({dim},{tCoef omega},{tCoef ell})"
      | _ => "?"
    " ".intercalate (u :: (rs.flatMap fun es => es.map tEvent))
  | .aa rs =>
    -- rendered from the RECORD: per call the number of mixed columns and which of them are zero columns
    " ".intercalate (rs.zipIdx.map fun (r, k) =>
      match r with
      | .plain _ => s!"A({k};0;)"
      | .mixed _ cols => s!"A({k};{cols.length};" ++ String.join (cols.map fun c => match c with | .zero => "z" | .diff .. => "d") ++ ")"
      | .attributeError => s!"A({k};!)")
  | .dist ss => " ".intercalate (ss.map fun s => if s.2.2 then "L(S)" else "L(R)")
  | .none =>
    match op with
    | .jacUpdate _ d m f => s!"U({tOptNat d},{tOptCoef m},{tOptCoef f})"
    | .mgUpdate _ d m f => s!"U({tOptNat d},{tOptCoef m},{tOptCoef f})"
    | _ => ""
  | .noObject => "noobj"

def scenario : P String := do
  let restore ← P.bool
  let keep ← P.bool
  let _ ← P.tok; let js ← P.list pJac
  let _ ← P.tok; let ms ← P.list pMG
  let _ ← P.tok; let as ← P.list pAA
  let _ ← P.tok; let nw ← P.nat
  let _ ← P.tok; let envl ← P.list pEnvEntry
  let _ ← P.tok; let datas ← P.list pArr
  let _ ← P.tok; let opsx ← P.list pOpX
  P.done
  let ops := opsx.map (·.1)
  let mus := opsx.map (·.2)
  let env : Nat → Option Arr := fun id => (envl.find? fun e => e.1 == id).map (·.2)
  let w0 := World.init js ms as nw
  let rec go (pre : List Op) : List Op → List String
    | [] => []
    | op :: rest =>
      let a := (step restore keep (run restore keep w0 pre) op).2
      let b := (step restore keep (run restore keep w0 (pre.flatMap Op.settingPart)) op).2
      let num := match dataOf op with
        | none => "-"
        | some d =>
          match datas[d]? with
          | none => "-"
          | some x =>
            match op, a, (mus[pre.length]?).join with
            | .sb _ ell omega dim _ _, .solves rs, some mu =>
              (match evalSB env dim mu ell omega rs x with
               | some r => showRats r.data.toList
               | none => "!")
            | .sb .., _, _ => "-"
            | _, _, _ =>
              match evalOut env op x (flip0 x) a with
              | some rs => showRats (interleave rs)
              | none => "!"
      ((if a == b then "eq " else "ne ") ++ showOut a ++ " | " ++ num ++ " | " ++ traceOut w0 op a) :: go (pre ++ [op]) rest
  pure (" ; ".intercalate (go [] ops))

def dispatch : List String → Option String
  | "seq" :: rest => (scenario.run rest).map (·.1)
  | _ => none

def main : IO Unit := runDriver dispatch
