/-
Line-protocol driver for C03 (geometric integration). One request per line:
  hist <refresh 0|1> <geo> <k> <data>^k      -> return values of k successive integrate() calls on one object, joined by " ; "
  norm <refresh> <geo> <img data> <ref data> -> values of the normalised image (C order) " ; " its integral " ; " integral of ref
  <geo>   ::= plain <dim> <nv list> <dims list> | weighted <dim> <nv list> <dims list> <weight>
            | ep <dim> <nv list> <dims list> <weight> <weight>
  <weight>::= s <rat> | a <shape list> <values list (C order)>
  <data>  ::= <shape list> <ncomp> <values list (C order over shape ++ [ncomp])>
Lists are length-prefixed.
-/
import DarsiaModel.Basic
import DarsiaModel.Resample
import DarsiaModel.Integrate
open Darsia

/-- row-major flat index -/
def encC : List Nat → List Nat → Nat
  | n :: ns, i :: is => i * prodL ns + encC ns is
  | _, _ => 0

/-- all multi-indices of a box in C order -/
def boxC : List Nat → List (List Nat)
  | [] => [[]]
  | n :: ns => (List.range n).flatMap fun i => (boxC ns).map fun is => i :: is

def pWeight : P Weight := do
  let t ← P.tok
  if t = "s" then do
    let r ← P.rat; pure (.scalar r)
  else if t = "a" then do
    let shape ← P.list P.nat
    let vals ← P.list P.rat
    let arr := vals.toArray
    pure (.array shape fun idx => arr.getD (encC shape idx) 0)
  else failure

def pGeo : P (Except Err Geo) := do
  let kind ← P.tok
  let dim ← P.nat
  let nv ← P.list P.nat
  let dims ← P.list P.rat
  if kind = "plain" then pure (.ok (Geo.plain dim nv dims))
  else if kind = "weighted" then do
    let w ← pWeight; pure (Geo.weighted w dim nv dims)
  else if kind = "ep" then do
    let p ← pWeight; let d ← pWeight; pure (Geo.extrudedPorous p d dim nv dims)
  else failure

def pData : P Data := do
  let shape ← P.list P.nat
  let ncomp ← P.nat
  let vals ← P.list P.rat
  let arr := vals.toArray
  pure { shape := shape, ncomp := ncomp, val := fun idx c => arr.getD (encC shape idx * ncomp + c) 0 }

def showOut : Except Err (List Rat) → String
  | .ok rs => showRats rs
  | .error e => e.show

def handle : P String := do
  let cmd ← P.tok
  let refresh ← P.bool
  let g ← pGeo
  if cmd = "hist" then do
    let ds ← P.list pData
    P.done
    match g with
    | .error e => pure e.show
    | .ok g => pure (" ; ".intercalate ((runOuts refresh g ds).map showOut))
  else if cmd = "norm" then do
    let img ← pData
    let ref ← pData
    P.done
    match g with
    | .error e => pure e.show
    | .ok g =>
      match normalize refresh g img ref with
      | .error e => pure e.show
      | .ok (g2, out) =>
        let vals := (boxC out.shape).flatMap fun idx => (List.range out.ncomp).map fun c => out.val idx c
        let i1 := (step refresh g2 out).2
        let i2 := (step refresh g2 ref).2
        pure (showRats vals ++ " ; " ++ showOut i1 ++ " ; " ++ showOut i2)
  else failure

def dispatch (toks : List String) : Option String := (handle.run toks).map (·.1)

def main : IO Unit := runDriver dispatch
