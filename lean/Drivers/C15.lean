/-
C15 model driver. Requests (one per line):
  gauss <dim> <order|max>    table as the model resolves it, evaluated in IEEE doubles
  cell <dim> <order|max>     the same after the model's `toUnitCell`
  corners <dim>
  l1rule <L1Mode name> <dim>  the unit-cell rule transport_density sums over in that mode
  check <dim> <order>        the kernel-evaluated obligation, for diagnostics (1/0)
Response: `!Error` or `<npts> <nwts> | x x .. ; x x .. | w w ..` (coordinates of a point separated by spaces,
points by `;`; each number is the IEEE-754 bit pattern of the double, as a decimal integer). Floats are only the *view* of the symbolic table; all exact reasoning is in DarsiaProps.C15.
-/
import DarsiaModel.Basic
import DarsiaModel.Quadrature
import DarsiaGen.QuadratureTables
open Darsia Darsia.Quad

def ratF (r : Rat) : Float :=
  let n := Float.ofInt r.num
  if r.den = 1 then n else n / Float.ofNat r.den

def evalF : QExpr → Float
  | .rat r => ratF r
  | .add a b => evalF a + evalF b
  | .mul a b => evalF a * evalF b
  | .div a b => evalF a / evalF b
  | .neg a => -evalF a
  | .sqrt a => Float.sqrt (evalF a)

def showRule (r : Rule) : String :=
  let pts := r.pts.map fun p => " ".intercalate (p.map fun x => toString (evalF x).toBits.toNat)
  s!"{r.pts.length} {r.wts.length} | " ++ " ; ".intercalate pts ++ " | " ++
    " ".intercalate (r.wts.map fun w => toString (evalF w).toBits.toNat)

def parseOrder (s : String) : Option Order :=
  if s = "max" then some .max else s.toNat?.map .n

def showE (r : Except Err Rule) (f : Rule → Rule := id) : String :=
  match r with
  | .ok r => showRule (f r)
  | .error e => e.show

def dispatch : List String → Option String
  | ["gauss", dim, o] => do
    let dim ← dim.toNat?; let o ← parseOrder o
    pure (showE (gaussM Gen.maxOrder Gen.rule dim o))
  | ["cell", dim, o] => do
    let dim ← dim.toNat?; let o ← parseOrder o
    pure (showE (gaussM Gen.maxOrder Gen.rule dim o) Rule.toUnitCell)
  | ["l1rule", mode, dim] => do
    let dim ← dim.toNat?
    let mode ← match mode with
      | "RAVIART_THOMAS" => some L1Mode.raviartThomas
      | "CONSTANT_SUBCELL_PROJECTION" => some L1Mode.constantSubcell
      | "CONSTANT_CELL_PROJECTION" => some L1Mode.constantCell
      | _ => none
    pure (showE (l1Rule Gen.maxOrder Gen.rule Gen.corners Gen.l1Source mode dim))
  | ["corners", dim] => do
    let dim ← dim.toNat?
    pure (showE (Gen.corners dim))
  | ["check", dim, o] => do
    let dim ← dim.toNat?; let o ← o.toNat?
    pure (showBool (checkTable Gen.rule (dim, o)))
  | ["checkc", dim] => do
    let dim ← dim.toNat?
    pure (showBool (checkCorners Gen.corners dim))
  | _ => none

def main : IO Unit := runDriver dispatch
