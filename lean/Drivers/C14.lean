/-
C14 model driver. Requests:
  run <comb|single> <n> <model>.. | <skip | all np p.. | sub k (pos spec).. np p..> | <npix> (label val)..
      model: clip lo hi|none · scal s · lin s o · het L s1..sL o1..oL ; spec: all | names m dof.. (min max sc off)
      -> output values, or the error class of the update
  thr hom lo hi|none | nomask / mask b.. | <npix> (label val)..      -> bits
  thr het L lo.. none / some hi.. | …
  poly d                                                            -> size | i j i j ..
-/
import DarsiaModel.Basic
import DarsiaModel.SignalModels
import DarsiaModel.SignalOps
import DarsiaModel.KernelInterp
import DarsiaGen.SignalTables
open Darsia Darsia.Sig

def pOptRat : P (Option Rat) := P.opt P.rat

def pModel : P M := do
  let t ← P.tok
  match t with
  | "clip" => do let lo ← P.rat; let hi ← pOptRat; pure (.clip lo hi)
  | "scal" => do let s ← P.rat; pure (.scaling s)
  | "lin" => do let s ← P.rat; let o ← P.rat; pure (.linear s o)
  | "het" => do let L ← P.nat; let s ← P.rep P.rat L; let o ← P.rep P.rat L; pure (.het L s o)
  | _ => failure

def pDof : P Dof := do
  let t ← P.tok
  match t with
  | "min" => pure .minValue | "max" => pure .maxValue | "sc" => pure .scaling | "off" => pure .offset
  | _ => failure

def pSpec : P DofSpec := do
  let t ← P.tok
  match t with
  | "all" => pure .all
  | "names" => do let l ← P.list pDof; pure (.names l)
  | _ => failure

inductive Upd | skip | all (ps : List Rat) | sub (dofs : List (Nat × DofSpec)) (ps : List Rat)

def pUpd : P Upd := do
  let t ← P.tok
  match t with
  | "skip" => pure .skip
  | "all" => do let ps ← P.list P.rat; pure (.all ps)
  | "sub" => do
    let k ← P.nat
    let dofs ← P.rep (do let p ← P.nat; let s ← pSpec; pure (p, s)) k
    let ps ← P.list P.rat
    pure (.sub dofs ps)
  | _ => failure

def bar : P Unit := do let t ← P.tok; if t = "|" then pure () else failure

def pPix : P (List Pixel) := P.list (do let l ← P.nat; let v ← P.rat; pure ⟨l, v⟩)

def parseDType : String → Option DType
  | "u8" => some .u8 | "u16" => some .u16 | "u32" => some .u32 | "u64" => some .u64
  | "i8" => some .i8 | "i16" => some .i16 | "i32" => some .i32 | "i64" => some .i64
  | "f16" => some .f16 | "f32" => some .f32 | "f64" => some .f64
  | "bool" => some .bool | _ => none

def Darsia.Sig.DType.show : DType → String
  | .u8 => "u8" | .u16 => "u16" | .u32 => "u32" | .u64 => "u64" | .i8 => "i8" | .i16 => "i16" | .i32 => "i32" | .i64 => "i64"
  | .f16 => "f16" | .f32 => "f32" | .f64 => "f64" | .bool => "bool"

/-- operational call: label VALUES per pixel, element type of the signal; response `<dtype> v ..` -/
def showCall (ms : List M) (d : DType) (sig : List Pixel) : String :=
  let out := callAll ms (sig.map (·.label)) d (sig.map (·.val))
  out.1.show ++ " " ++ showRats out.2

/-- a failing update: only the error class is compared (the state the code leaves behind is not part of C14) -/
def showOut (old : List M) (r : Except Err (List M)) (d : DType) (sig : List Pixel) : String :=
  match r with
  | .error e => let _ := old; e.show
  | .ok ms => showCall ms d sig

def pRun : P String := do
  let mode ← P.tok
  let dt ← P.tok
  let d ← (match parseDType dt with | some d => pure d | none => failure : P DType)
  let ms ← P.list pModel
  bar; let u ← pUpd; bar; let sig ← pPix; P.done
  if mode = "comb" then
    match u with
    | .skip => pure (showOut ms (.ok ms) d sig)
    | .all ps => pure (showOut ms (updateAll ms ps) d sig)
    | .sub dofs ps => pure (showOut ms (updateSubset ms dofs ps) d sig)
  else
    match ms, u with
    | [m], .skip => pure (showOut [m] (.ok [m]) d sig)
    | [m], .all ps => pure (showOut [m] ((m.update ps .all).map fun r => [r.1]) d sig)
    | [m], .sub [(_, spec)] ps => pure (showOut [m] ((m.update ps spec).map fun r => [r.1]) d sig)
    | _, _ => failure

def pMaskL (n : Nat) : P (Option (List Bool)) := do
  let t ← P.tok
  match t with
  | "nomask" => pure none
  | "mask" => do let bs ← P.rep P.bool n; pure (some bs)
  | _ => failure

def showThr (r : DType × List Bool) : String := r.1.show ++ " " ++ " ".intercalate (r.2.map showBool)

/-- `thr hom lo hi|none rf | nomask / mask b.. | npix (labelvalue val)..` ; `thr het L lo.. none / some hi.. rf | …` -/
def pThr : P String := do
  let t ← P.tok
  match t with
  | "hom" => do
    let lo ← P.rat; let hi ← pOptRat; let rf ← P.bool; bar
    -- mask length is known only after the pixels: read the remaining tokens in two passes
    let rest ← get
    let maskToks := rest.takeWhile (· ≠ "|")
    set (rest.dropWhile (· ≠ "|")); bar
    let sig ← pPix; P.done
    let (mask, _) ← (pMaskL sig.length).run maskToks
    pure (showThr (thrFinish rf mask (thrHomCall lo hi (sig.map (·.val)))))
  | "het" => do
    let L ← P.nat; let lo ← P.rep P.rat L
    let h ← P.tok
    let hi ← if h = "none" then pure none else (do let l ← P.rep P.rat L; pure (some l))
    let rf ← P.bool
    bar
    let rest ← get
    let maskToks := rest.takeWhile (· ≠ "|")
    set (rest.dropWhile (· ≠ "|")); bar
    let sig ← pPix; P.done
    let (mask, _) ← (pMaskL sig.length).run maskToks
    pure (showThr (thrFinish rf mask (thrHetCall lo hi (sig.map (·.label)) (sig.map (·.val)))))
  | _ => failure

/-! ### kernel interpolation state machine
  kern <k0> <nops> op..   op: upd <k|none> <pts n x y z ..|none> <vals n v ..|none> <append 0|1> · ker k · vp n v..
  -> `!Err@i` (first failing op) or `k | numSupports | x y z ; .. | v .. | W keyKernel ; x y z ; .. ; v ..` / `W none` -/

open Darsia.Kern in
def pPts : P (Option (List Pt)) := do
  let t ← P.tok
  if t = "none" then pure none else
    if t = "pts" then do let n ← P.nat; let l ← P.rep (P.rep P.rat 3) n; pure (some l) else failure

def pVals : P (Option (List Rat)) := do
  let t ← P.tok
  if t = "none" then pure none else
    if t = "vals" then do let l ← P.list P.rat; pure (some l) else failure

open Darsia.Kern in
def pKOp : P KOp := do
  let t ← P.tok
  match t with
  | "upd" => do
    let k ← P.opt P.nat; let s ← pPts; let v ← pVals; let a ← P.bool
    pure (.update k s v a)
  | "ker" => do let k ← P.nat; pure (.updateKernel k)
  | "vp" => do let l ← P.list P.rat; pure (.valuesParam l)
  | "pdef" => pure .paramsDefaultDofs
  | "pker" => pure .paramsKernelDof
  | _ => failure

open Darsia.Kern in
def showPts (l : List Pt) : String := " ; ".intercalate (l.map showRats)

open Darsia.Kern in
def showState (st : KState) : String :=
    let w := match st.weights with
      | none => "W none"
      | some (key, vals) => s!"W {key.1} ; " ++ showPts key.2 ++ " ; " ++ showRats vals
    s!"{st.kernel} | {st.numSupports} | " ++ (match st.supports with | some S => showPts S | none => "none") ++ " | "
      ++ (match st.values with | some V => showRats V | none => "none") ++ " | " ++ w

open Darsia.Kern in
def runShow (st : KState) : List KOp → Nat → String
  | [], _ =>
    let w := match st.weights with
      | none => "W none"
      | some (key, vals) => s!"W {key.1} ; " ++ showPts key.2 ++ " ; " ++ showRats vals
    s!"{st.kernel} | {st.numSupports} | " ++ (match st.supports with | some S => showPts S | none => "none") ++ " | "
      ++ (match st.values with | some V => showRats V | none => "none") ++ " | " ++ w
  | op :: ops, i =>
    match step st op with
    | .ok st' => runShow st' ops (i + 1)
    | .error e => e.show ++ s!"@{i}"

open Darsia.Kern in
def pKern : P String := do
  let k0 ← P.nat
  let ops ← P.list pKOp
  P.done
  pure (runShow (init k0) ops 0)

/-- `lincomb a n (w sx sy sz).. | p x y z / l N x y z .. / g H W x y z ..` : LinearKernel(a).linear_combination -/
def pLinComb : P String := do
  let a ← P.rat
  let wss ← P.list (do let w ← P.rat; let s ← P.rep P.rat 3; pure (w, s))
  bar
  let t ← P.tok
  let sig ← (match t with
    | "p" => do let x ← P.rep P.rat 3; pure (Kern.Signal.pixel x)
    | "l" => do let xs ← P.list (P.rep P.rat 3); pure (Kern.Signal.list xs)
    | "g" => do
      let h ← P.nat; let w ← P.nat
      let rows ← P.rep (P.rep (P.rep P.rat 3) w) h
      pure (Kern.Signal.grid rows)
    | _ => failure : P Kern.Signal)
  P.done
  pure (showRats (sig.combine (Kern.linK a) (wss.map (·.1)) (wss.map (·.2))))

/-- `wrap <L> <model>×L | <npix> (label val)..` : HeterogeneousModel with one model per label -/
def pWrap : P String := do
  let ms ← P.list pModel
  bar; let sig ← pPix; P.done
  pure ("f64 " ++ showRats (wrapCall ms (sig.map (·.label)) (sig.map (·.val))))

/-- `resize h w H W v..` : row-major h×w map resized to H×W -/
def pResize : P String := do
  let h ← P.nat; let w ← P.nat; let H ← P.nat; let W ← P.nat
  let rows ← P.rep (P.rep P.nat w) h
  P.done
  pure (" ; ".intercalate ((labelsFor Gen.nearDev rows H W).map showNats))

/-- `labelseq h w v.. | k H W ..` : the label map in force after calls with signals of these shapes -/
def pLabelSeq : P String := do
  let h ← P.nat; let w ← P.nat
  let rows ← P.rep (P.rep P.nat w) h
  bar
  let shapes ← P.list (do let a ← P.nat; let b ← P.nat; pure (a, b))
  P.done
  pure (" ; ".intercalate ((cacheRun Gen.nearDev rows shapes).map showNats))

/-- `hetcall h w v.. | L s.. o.. | H W | n x..` : HeterogeneousLinearModel(labels h×w)(signal H×W), row-major values -/
def pHetCall : P String := do
  let h ← P.nat; let w ← P.nat
  let rows ← P.rep (P.rep P.nat w) h
  bar
  let L ← P.nat; let s ← P.rep P.rat L; let o ← P.rep P.rat L
  bar
  let H ← P.nat; let W ← P.nat
  bar
  let xs ← P.list P.rat
  P.done
  pure (showRats (hetCallResized Gen.nearDev rows s o H W xs))

def pStage : P Stage := do
  let rest ← get
  match rest with
  | "thrh" :: _ => do
    let _ ← P.tok; let lo ← P.rat; let hi ← pOptRat; let rf ← P.bool; pure (.thrHom lo hi rf)
  | "thrt" :: _ => do
    let _ ← P.tok; let L ← P.nat; let lo ← P.rep P.rat L
    let h ← P.tok
    let hi ← if h = "none" then pure none else (do let l ← P.rep P.rat L; pure (some l))
    let rf ← P.bool
    pure (.thrHet lo hi rf)
  | _ => do let m ← pModel; pure (.model m)

/-- `runargs <dtype> <n> stage.. | nomask / mask b.. | npix (labelvalue val)..` : CombinedModel(stages)(signal[, mask]) -/
def pRunArgs : P String := do
  let dt ← P.tok
  let d ← (match parseDType dt with | some d => pure d | none => failure : P DType)
  let sts ← P.list pStage
  bar
  let rest ← get
  let maskToks := rest.takeWhile (· ≠ "|")
  set (rest.dropWhile (· ≠ "|")); bar
  let sig ← pPix; P.done
  let (mask, _) ← (pMaskL sig.length).run maskToks
  let out := callStages sts (sig.map (·.label)) (match mask with | some m => [m] | none => []) d (sig.map (·.val))
  pure (out.1.show ++ " " ++ showRats out.2)

def dispatch : List String → Option String
  | "kern" :: rest => (pKern.run rest).map (·.1)
  | "runargs" :: rest => (pRunArgs.run rest).map (·.1)
  | "hetcall" :: rest => (pHetCall.run rest).map (·.1)
  | "labelseq" :: rest => (pLabelSeq.run rest).map (·.1)
  | "wrap" :: rest => (pWrap.run rest).map (·.1)
  | "lincomb" :: rest => (pLinComb.run rest).map (·.1)
  | "resize" :: rest => (pResize.run rest).map (·.1)
  | "run" :: rest => (pRun.run rest).map (·.1)
  | "thr" :: rest => (pThr.run rest).map (·.1)
  | ["poly", d] => do
    let d ← d.toNat?
    pure (s!"{polySize d} | " ++ " ".intercalate ((polyExps d).map fun e => s!"{e.1} {e.2}"))
  | _ => none

def main : IO Unit := runDriver dispatch
