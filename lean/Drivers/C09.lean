/-
Line-protocol driver for C09 (affine maps and pull-back warp). One request per line, one response per line.
-/
import DarsiaModel.Basic
import DarsiaModel.Affine
import DarsiaModel.Warp
import DarsiaModel.GenPerspective
open Darsia Darsia.Affine Darsia.Warp Darsia.GenPerspective

def pV2 : P (V2 Rat) := do let x ← P.rat; let y ← P.rat; pure ⟨x, y⟩
def pV3 : P (V3 Rat) := do let x ← P.rat; let y ← P.rat; let z ← P.rat; pure ⟨x, y, z⟩
def pAx3 : P Ax3 := do
  let n ← P.nat
  match n with | 0 => pure .a0 | 1 => pure .a1 | 2 => pure .a2 | _ => failure
def pFactor : P (Factor Rat) := do
  let a ← pAx3; let f ← P.bool; let t ← P.rat
  pure ⟨a, f, cosT t, sinT t⟩
def pAffine2 : P (Affine2 Rat) := do
  let t ← pV2; let σ ← P.rat; let a ← P.rat
  pure (Affine2.mk' t σ (cosT a) (sinT a))
def pAffine3 : P (Affine3 Rat) := do
  let t ← pV3; let σ ← P.rat; let fs ← P.list pFactor
  pure (Affine3.mk' t σ fs)
def pCS2 : P CS2 := do
  let n0 ← P.nat; let n1 ← P.nat; let ox ← P.rat; let oy ← P.rat; let h0 ← P.rat; let h1 ← P.rat
  pure ⟨n0, n1, ox, oy, h0, h1⟩
def pCS3 : P CS3 := do
  let n0 ← P.nat; let n1 ← P.nat; let n2 ← P.nat
  let ox ← P.rat; let oy ← P.rat; let oz ← P.rat
  let h0 ← P.rat; let h1 ← P.rat; let h2 ← P.rat
  pure ⟨n0, n1, n2, ox, oy, oz, h0, h1, h2⟩
def pRounding : P Rounding := do
  let t ← P.tok
  match t with | "trunc" => pure .trunc | "floor" => pure .floor | _ => failure
def pMode : P Mode := do
  let t ← P.tok
  match t with | "coord" => pure .coord | "voxel" => pure .voxel | "center" => pure .center | _ => failure

def showM2 (A : M2 Rat) : String := showRats [A.a11, A.a12, A.a21, A.a22]
def showM3 (A : M3 Rat) : String :=
  showRats [A.a11, A.a12, A.a13, A.a21, A.a22, A.a23, A.a31, A.a32, A.a33]
def showV2s (vs : List (V2 Rat)) : String := showRats (vs.flatMap fun v => [v.x, v.y])
def showV3s (vs : List (V3 Rat)) : String := showRats (vs.flatMap fun v => [v.x, v.y, v.z])

def run {α} (p : P α) (toks : List String) : Option α := (p.run toks).map (·.1)

def fragile (eps : Rat) (qs : List Rat) : Bool := qs.any fun q => decide (fracDist q < eps)

def handle : List String → Option String
  | "rot2" :: rest => run (do
      let t ← P.rat; P.done
      pure (showM2 (rot2 (cosT t) (sinT t)) ++ " | " ++ showM2 (rot2Inv (cosT t) (sinT t)))) rest
  | "rot3" :: rest => run (do
      let fs ← P.list pFactor; P.done
      pure (showM3 (rotation fs) ++ " | " ++ showM3 (rotationInv fs))) rest
  | "aff2" :: dir :: rest => run (do
      let T ← pAffine2; let pts ← P.list pV2; P.done
      pure (showV2s (pts.map (if dir = "call" then T.call else T.inverse)))) rest
  | "aff3" :: dir :: rest => run (do
      let T ← pAffine3; let pts ← P.list pV3; P.done
      pure (showV3s (pts.map (if dir = "call" then T.call else T.inverse)))) rest
  | "cs2" :: "coord" :: rest => run (do
      let cs ← pCS2; let pts ← P.list pV2; P.done
      pure (showV2s (pts.map cs.coordinate))) rest
  | "cs2" :: "voxel" :: rest => run (do
      let cs ← pCS2; let pts ← P.list pV2; P.done
      pure (showInts (pts.flatMap fun c => let p := cs.voxel c; [p.1, p.2]))) rest
  | "cs3" :: "coord" :: rest => run (do
      let cs ← pCS3; let pts ← P.list pV3; P.done
      pure (showV3s (pts.map cs.coordinate))) rest
  | "cs3" :: "voxel" :: rest => run (do
      let cs ← pCS3; let pts ← P.list pV3; P.done
      pure (showInts (pts.flatMap fun c => let p := cs.voxel c; [p.1, p.2.1, p.2.2]))) rest
  | "warp2" :: rest => run (do
      let rnd ← pRounding; let mode ← pMode; let eps ← P.rat
      let csS ← pCS2; let csD ← pCS2; let T ← pAffine2; P.done
      let cells := (List.range csD.n0).flatMap fun (a0 : Nat) => (List.range csD.n1).map fun (a1 : Nat) =>
        let v0 : Int := a0; let v1 : Int := a1
        let p := src2 mode T csS csD rnd v0 v1
        if fragile eps (pre2 mode T csS csD rnd v0 v1) then "?"
        else if csS.valid p then toString (p.1 * csS.n1 + p.2) else "-1"
      pure (s!"{csD.n0} {csD.n1} | " ++ " ".intercalate cells)) rest
  | "warp3" :: rest => run (do
      let rnd ← pRounding; let mode ← pMode; let eps ← P.rat
      let csS ← pCS3; let csD ← pCS3; let T ← pAffine3; P.done
      let cells := (List.range csD.n0).flatMap fun (a0 : Nat) => (List.range csD.n1).flatMap fun (a1 : Nat) =>
        (List.range csD.n2).map fun (a2 : Nat) =>
        let v0 : Int := a0; let v1 : Int := a1; let v2 : Int := a2
        let p := src3 mode T csS csD rnd v0 v1 v2
        if fragile eps (pre3 mode T csS csD rnd v0 v1 v2) then "?"
        else if csS.valid p then toString ((p.1 * csS.n1 + p.2.1) * csS.n2 + p.2.2) else "-1"
      pure (s!"{csD.n0} {csD.n1} {csD.n2} | " ++ " ".intercalate cells)) rest
  | "phist" :: rest => run (do
      -- phist nops (S <t?> [tx ty] <σ?> [σ] <rot?> [ang] | V <iso> tx ty σ ang)* n pts : one AffineTransformation(2) object
      let ops ← P.list (do
        let k ← P.tok
        if k = "S" then (do
          let ht ← P.bool; let t ← (if ht then (do let v ← pV2; pure (some v)) else pure none)
          let hs ← P.bool; let σ ← (if hs then (do let v ← P.rat; pure (some v)) else pure none)
          let hr ← P.bool; let r ← (if hr then (do let a ← P.rat; pure (some (cosT a, sinT a))) else pure none)
          pure (POp.set t σ r))
        else (do
          let iso ← P.bool; let t ← pV2; let σ ← P.rat; let a ← P.rat
          pure (POp.vec iso t σ (cosT a) (sinT a))))
      let pts ← P.list pV2; P.done
      let p := prun (⟨⟨0, 0⟩, 1, 1, 0⟩ : PState Rat) ops
      let T := Affine2.mk' p.t p.σ p.c p.s
      pure (showV2s [p.t] ++ " " ++ showRat p.σ ++ " | " ++ showM2 T.R ++ " | " ++ showV2s (pts.map T.call))) rest
  | "taff2" :: dir :: rest => run (do
      -- taff2 <call|inv> <mode> <rounding> tx ty σ ang n (x y)* : typed evaluation (result wrapped in the point type)
      let mode ← pMode; let rnd ← pRounding; let T ← pAffine2; let pts ← P.list pV2; P.done
      pure (showV2s (pts.map (if dir = "call" then typedCall2 mode rnd T else typedInverse2 mode rnd T)))) rest
  | "fitfold" :: rest => run (do
      -- fitfold <precondition> t'x t'y σ ang n (sx sy)*n (dx dy)*n
      --   -> folded translation | objective of the identity start on the (shifted) pairs | folded map applied to the sources
      let pre ← P.bool; let t' ← pV2; let σ ← P.rat; let ang ← P.rat
      let n ← P.nat; let src ← P.rep pV2 n; let dst ← P.rep pV2 n; P.done
      let p : V2 Rat := if pre then precond2 (n : Rat) src dst else ⟨0, 0⟩
      let T := fit2 pre (n : Rat) (fun _ => (t', σ, cosT ang, sinT ang)) src dst
      let start := fitObjective2 (Affine2.mk' ⟨0, 0⟩ 1 1 0) ((src.map fun x => V2.add x p).zip dst)
      pure (showV2s [T.t] ++ " | " ++ showRat start ++ " | " ++ showV2s (src.map T.call))) rest
  | "fitfold3" :: rest => run (do
      let pre ← P.bool; let t' ← pV3; let σ ← P.rat; let fs ← P.list pFactor
      let n ← P.nat; let src ← P.rep pV3 n; let dst ← P.rep pV3 n; P.done
      let p : V3 Rat := if pre then precond3 (n : Rat) src dst else ⟨0, 0, 0⟩
      let R := rotation fs
      let t := if pre then foldBack3 t' σ R p else t'
      let T : Affine3 Rat := ⟨t, σ, R, rotationInv fs⟩
      let start := fitObjective3 ⟨⟨0, 0, 0⟩, 1, M3.one, M3.one⟩ ((src.map fun x => V3.add x p).zip dst)
      pure (showV3s [T.t] ++ " | " ++ showRat start ++ " | " ++ showV3s (src.map T.call))) rest
  | "ctmeta" :: rest => run (do
      -- ctmeta kind srcdims(2) srcorigin(2) <n> others.. dstdims(2) dstorigin(2) -> kind | dimensions | origin | others
      let kind ← P.nat; let sd ← P.rep P.rat 2; let so ← P.rep P.rat 2; let oth ← P.list P.nat
      let dd ← P.rep P.rat 2; let dor ← P.rep P.rat 2; P.done
      let r := coordTransfCall kind ⟨sd, so, oth⟩ dd dor
      pure (s!"{r.1} | {showRats r.2.dimensions} | {showRats r.2.origin} | {showNats r.2.other}")) rest
  | "isoshift" :: rest => run (do
      let csS ← pCS2; let csD ← pCS2; let k0 ← P.int; let k1 ← P.int; P.done
      pure (showV2s [isoShiftVec csS csD k0 k1])) rest
  | "gp" :: rest => run (do
      -- A(4) b c stretch_factor stretch_off bulge_factor bulge_off center max min, then points
      let a ← P.rep P.rat 4
      let vs ← P.rep pV2 9
      let pts ← P.list pV2; P.done
      match a, vs with
      | [a11, a12, a21, a22], [b, c, sf, so, bf, bo, ce, mx, mn] =>
        let p : GP Rat := ⟨⟨a11, a12, a21, a22⟩, b, c, sf, so, bf, bo, ce, mx, mn⟩
        if pts.any (fun x => p.denom x == 0) then pure "!div0"
        else pure (showV2s (pts.map p.inverse))
      | _, _ => failure) rest
  | _ => none

def main : IO Unit := runDriver handle
