/-
Line-protocol driver for C07 (grid numbering / connectivity).  `lake env lean --run Drivers/C07.lean < ops.txt`
Requests: `<what> <dim> n0 .. n(dim-1)`.
-/
import DarsiaModel.Basic
import DarsiaModel.Grid
import DarsiaGen.GridTables
import DarsiaModel.GridFromImage
open Darsia

def sep (xs : List String) : String := " | ".intercalate xs

def handle (what : String) (shape : List Nat) : Option String :=
  let dim := shape.length
  let axes := List.range dim
  match what with
  | "counts" => some (sep [showNats (axes.map (nfa shape)), toString (numFaces shape), toString (numCells shape)])
  | "faces" => some (sep (axes.map fun a => showNats (facesOf shape a)))
  | "conn" =>
    -- the scatter-built table (zeros + assignments), as the code assembles it
    let c0 := connTable shape 0; let c1 := connTable shape 1
    some (showNats ((List.range (numFaces shape)).flatMap fun f => [c0.getD f 0, c1.getD f 0]))
  | "rev" => some (sep (axes.map fun a =>
      let r0 := revTable shape a 0; let r1 := revTable shape a 1
      showInts ((List.range (numCells shape)).flatMap fun c => [r0.getD c 0, r1.getD c 0])))
  | "interior" => some (sep (axes.map fun a => showNats (interiorFaces shape a)))
  | "exterior" => some (sep (axes.map fun a => showNats (exteriorFaces shape a)))
  | "cellindex" => some (showNats ((boxF shape).map (encF shape)))
  | "faceindex" => some (sep (axes.map fun a => showNats ((boxF (fshape shape a)).map (faceNum shape a))))
  | "facesshape" => some (sep (axes.map fun a => showNats (fshape shape a)))
  | "cci" => some (showNats ((List.range (numFaces shape)).flatMap fun f =>
      Gen.cornerIdx dim (faceAxis shape f) 0 ++ Gen.cornerIdx dim (faceAxis shape f) 1))
  | "corners" => some (sep ((Gen.cellCorners dim).map showNats))
  | _ => none

def dispatch : List String → Option String
  | "gengrid" :: rest => do
    -- generate_grid on the image geometry: voxel shape (matrix order), dimensions (matrix order)
    let ((shape, dims), _) ← (do let s ← P.list P.nat; let d ← P.list P.rat; pure (s, d)).run rest
    let dim ← (match shape.length with | 1 => some Dim.d1 | 2 => some Dim.d2 | 3 => some Dim.d3 | _ => none)
    let cs : CS := { dim := dim, shape := shape, dims := dims, origin := shape.map fun _ => (0 : Rat) }
    let g := generateGrid cs
    pure (sep [showNats g.1, showRats g.2, showRat (vol g.2 * (numCells g.1 : Nat)), showRat (prodR dims),
      (match gridGuard g.1 g.2 with | .ok _ => "ok" | .error e => e.show)])
  | "guard" :: rest => do
    -- which constructor calls are accepted: shape, per-axis voxel sizes
    let ((shape, h), _) ← (do let s ← P.list P.nat; let h ← P.list P.rat; pure (s, h)).run rest
    pure (match gridGuard shape h with | .ok _ => "ok" | .error e => e.show)
  | what :: rest => do
    let (shape, _) ← (P.list P.nat).run rest
    handle what shape
  | _ => none

def main : IO Unit := runDriver dispatch
