/-
Line-protocol driver for C07 (grid numbering / connectivity).  `lake env lean --run Drivers/C07.lean < ops.txt`
Requests: `<what> <dim> n0 .. n(dim-1)`.
-/
import DarsiaModel.Basic
import DarsiaModel.Grid
import DarsiaGen.GridTables
open Darsia

def sep (xs : List String) : String := " | ".intercalate xs

def handle (what : String) (shape : List Nat) : Option String :=
  let dim := shape.length
  let axes := List.range dim
  match what with
  | "counts" => some (sep [showNats (axes.map (nfa shape)), toString (numFaces shape), toString (numCells shape)])
  | "faces" => some (sep (axes.map fun a => showNats (facesOf shape a)))
  | "conn" => some (showNats ((List.range (numFaces shape)).flatMap fun f => [(conn shape f).1, (conn shape f).2]))
  | "rev" => some (sep (axes.map fun a => showInts ((List.range (numCells shape)).flatMap fun c =>
      [rev shape a c 0, rev shape a c 1])))
  | "interior" => some (sep (axes.map fun a => showNats (interiorFaces shape a)))
  | "exterior" => some (sep (axes.map fun a => showNats (exteriorFaces shape a)))
  | "cci" => some (showNats ((List.range (numFaces shape)).flatMap fun f =>
      Gen.cornerIdx dim (faceAxis shape f) 0 ++ Gen.cornerIdx dim (faceAxis shape f) 1))
  | "corners" => some (sep ((Gen.cellCorners dim).map showNats))
  | _ => none

def dispatch : List String → Option String
  | what :: rest => do
    let (shape, _) ← (P.list P.nat).run rest
    handle what shape
  | _ => none

def main : IO Unit := runDriver dispatch
