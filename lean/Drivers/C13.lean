/-
C13 driver. Request:
  call <opt> <restorationFirst 0/1> <kind> <base: none | ARR> <nextra> ARR* <probe ARR> <reduction> <balancing> <restoration> <model>
  ARR   := <scalar 0/1> <npx> <nchan> v...          (pixel-major)
  stage := none | chan k | chanAdd k l | affine a b | clip lo (hi|none)
Response: `<stage>=<ARR>;...|<kind>|<ARR>` : recorded input of every stage *object* in call order, class of the
result, result array.
-/
import DarsiaModel.Basic
import DarsiaModel.Pipeline
import DarsiaModel.Persist
open Darsia Darsia.Pipeline

def chunk (n : Nat) (xs : List Rat) : Nat → List (List Rat)
  | 0 => []
  | k + 1 => xs.take n :: chunk n (xs.drop n) k

def pArr : P Arr := do
  let sc ← P.bool; let npx ← P.nat; let nch ← P.nat
  let vs ← P.rep P.rat (npx * nch)
  pure { scalar := sc, px := chunk nch vs npx }

def showArr (a : Arr) : String :=
  let nch := (a.px.head?.map List.length).getD 0
  s!"{showBool a.scalar} {a.px.length} {nch} {showRats a.px.flatten}"

def pStage : P (Option Stage) := do
  let t ← P.tok
  match t with
  | "none" => pure none
  | "chan" => do let k ← P.nat; pure (some (Stage.pure (StageFn.chan k).eval))
  | "chanAdd" => do let k ← P.nat; let l ← P.nat; pure (some (Stage.pure (StageFn.chanAdd k l).eval))
  | "gray" => pure (some (Stage.pure (StageFn.gray).eval))
  | "negkey" => pure (some (Stage.pure (StageFn.negKey).eval))
  | "hsv" => do
    let a1 ← P.rat; let a2 ← P.rat; let a3 ← P.rat; let a4 ← P.rat
    pure (some (Stage.pure (StageFn.hsv a1 a2 a3 a4).eval))
  | "affine" => do let a ← P.rat; let b ← P.rat; pure (some (Stage.pure (StageFn.affine a b).eval))
  | "clip" => do let lo ← P.rat; let hi ← P.opt P.rat; pure (some (Stage.pure (StageFn.clip lo hi).eval))
  | _ => failure

def pOpt : P DiffOpt := do
  let t ← P.tok
  match t with
  | "positive" => pure .positive | "negative" => pure .negative
  | "absolute" => pure .absolute | "plain" => pure .plain | _ => failure

def pKind : P Kind := do
  let t ← P.tok
  match t with
  | "Image" => pure .image | "ScalarImage" => pure .scalarImage | "OpticalImage" => pure .opticalImage | _ => failure

def kindShow : Kind → String
  | .image => "Image" | .scalarImage => "ScalarImage" | .opticalImage => "OpticalImage"

/-! result metadata: the constructors of `DarsiaModel.Persist` on symbolic values -/

inductive Sym | kw (k : Persist.Key) | c (name : String)
  deriving DecidableEq

def isC (n : String) : Sym → Bool | .c m => m == n | _ => false

def symSem : Persist.Sem Sym :=
  { none := .c "None", two := .c "2", ij := .c "ij", tru := .c "True", fls := .c "False", rgb := .c "RGB",
    isNone := isC "None", truthy := isC "True", up := id,
    defaultIndexing := fun _ => .c "ijk", defaultDims := fun _ => .c "ones",
    applyHWD := fun d h w z => match h, w, z with | none, none, none => d | _, _, _ => .c "hwd",
    defaultOrigin := fun _ _ _ => .c "origin", defaultDate := fun _ => .c "nodate",
    defaultRef := fun _ => .c "ref", deriveTime := fun _ _ _ => .c "time" }

def baseKeyNames : List (Persist.Key × String) :=
  [(.space_dim, "space_dim"), (.indexing, "indexing"), (.dimensions, "dimensions"), (.origin, "origin"), (.series, "series"),
   (.scalar, "scalar"), (.date, "date"), (.reference_date, "reference_date"), (.time, "time"), (.name, "name")]

def keysOf : Persist.Cls → List Persist.Key
  | .opticalImage => baseKeyNames.map (·.1) ++ [.color_space]
  | _ => baseKeyNames.map (·.1)

def clsOf : Kind → Persist.Cls
  | .image => .image | .scalarImage => .scalarImage | .opticalImage => .opticalImage

/-- attributes of a constructed probe of the class (forced flags as the constructors leave them) -/
def probeAttrs (c : Persist.Cls) (k : Persist.Key) : Sym :=
  match c, k with
  | .opticalImage, .space_dim => .c "2" | .opticalImage, .indexing => .c "ij" | .opticalImage, .scalar => .c "False"
  | .scalarImage, .scalar => .c "True"
  | _, k => .kw k

/-- per physical metadata key: does the result carry the probe's value (`same`), `True`, or something else -/
def metaLine (probeKind resKind : Kind) : String :=
  let a := probeAttrs (clsOf probeKind)
  let r := Persist.construct symSem (clsOf resKind) (Persist.metadataOf keysOf (clsOf probeKind) a)
  " ".intercalate (baseKeyNames.map fun (k, n) =>
    n ++ "=" ++ (if r k = a k then "same" else if r k = Sym.c "True" then "True" else "other"))

def scribbling (s : Option Stage) : Option Stage :=
  s.map fun f => fun a => ((f a).1, { a with px := a.px.map fun p => p.map fun _ => 7 })

def pCall : P String := do
  let opt ← pOpt; let first ← P.bool; let kind ← pKind
  let base ← P.opt pArr
  let n ← P.nat
  let extras ← P.rep pArr n
  let nu ← P.nat
  let updates ← P.rep pArr nu
  let probe ← pArr
  let scr ← P.bool
  let r ← pStage; let b ← pStage; let rs ← pStage; let m ← pStage
  let w := fun (s : Option Stage) => if scr then scribbling s else s
  -- the filter is learnt at construction with well-behaved copies (`probe_img = img.copy()` per extra baseline)
  let c0 : Config := { opt := opt, reduction := r, balancing := b, restoration := rs, model := m, restorationFirst := first }
  let c : Config := { c0 with reduction := w r, balancing := w b, restoration := w rs, model := w m }
  let st := updates.foldl (fun s u => s.update (some u)) (AState.init c0 base extras)
  let res := callSt c kind st probe
  let op := callOp true c st probe
  let tr := res.trace.filter (fun p => p.1 != StageName.cleaning)
  let ts := ";".intercalate (tr.map fun p => p.1.show ++ "=" ++ showArr p.2)
  let showO := fun (a : Option Arr) => match a with | some a => showArr a | none => "none"
  let outOp := showO (op.1[op.2]?)
  pure s!"{ts}|{kindShow res.kind}|{showArr res.out}|{outOp}|{showO (op.1[0]?)}|{if st.base.isSome then showO (op.1[1]?) else "none"}|{metaLine kind res.kind}"

/-- `diffint <bits> <opt> <n> probe... <n> base...` → promoted differences, exact -/
def pDiffInt : P String := do
  let bits ← P.nat; let opt ← pOpt
  let probe ← P.list P.nat; let base ← P.list P.nat
  pure (showRats (diffPromoted bits opt base probe))

def pDKind : P DKind := do
  let t ← P.tok
  match t with | "u" => pure .u | "i" => pure .i | "b" => pure .b | "f" => pure .f | _ => failure

/-- `diffdt <opt> <kb> <bitsb> <kp> <bitsp> <n> probe... <n> base...` → differences of the promoted values, exact -/
def pDiffDt : P String := do
  let opt ← pOpt
  let kb ← pDKind; let bb ← P.nat; let kp ← pDKind; let bp ← P.nat
  let probe ← P.list P.rat; let base ← P.list P.rat
  pure (showRats (diffDList opt kb bb kp bp base probe))

def dispatch : List String → Option String
  | "diffdt" :: rest => (pDiffDt.run rest).map (·.1)
  | "diffint" :: rest => (pDiffInt.run rest).map (·.1)
  | "call" :: rest => (pCall.run rest).map (·.1)
  | _ => none

def main : IO Unit := runDriver dispatch
