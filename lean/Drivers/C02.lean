/-
Line-protocol driver for the image-metadata model (C02): one extraction program per line.
-/
import DarsiaModel.Basic
import DarsiaModel.Coord
import DarsiaModel.ImageMeta
import DarsiaModel.ImageArr
open Darsia Darsia.Im

def pDim : P Dim := do let t ← P.tok; match Dim.parse t with | some d => pure d | none => failure

def pCS : P CS := do
  let d ← pDim
  let shape ← P.list P.nat
  let dims ← P.list P.rat
  let origin ← P.list P.rat
  pure ⟨d, shape, dims, origin⟩

/-- root: rid cs series scalar T time(none | list opt rat) date(list opt int) -/
def pRoot : P (Except Err Img) := do
  let rid ← P.nat
  let cs ← pCS
  let series ← P.bool; let scalar ← P.bool; let T ← P.nat
  let time ← P.opt (P.list (P.opt P.rat))
  let date ← P.list (P.opt P.int)
  pure (mkRoot rid cs series scalar T time date)

/-- root with explicit `reference_date`: same as `pRoot`, then `default` or an optional integer -/
def pRootRef : P (Except Err Img) := do
  let rid ← P.nat
  let cs ← pCS
  let series ← P.bool; let scalar ← P.bool; let T ← P.nat
  let time ← P.opt (P.list (P.opt P.rat))
  let date ← P.list (P.opt P.int)
  let t ← P.tok
  let refArg ← (if t = "default" then pure none else if t = "none" then pure (some none) else
    match t.toInt? with | some r => pure (some (some r)) | none => failure : P (Option (Option Int)))
  pure (mkRootR rid cs series scalar T time date refArg)

def pSlice : P PySlice := do let a ← P.opt P.int; let b ← P.opt P.int; pure (a, b)

def pStep : P Step := do
  let t ← P.tok
  match t with
  | "sub" => do let s ← P.list pSlice; pure (.sub s)
  | "subvox" => do let p ← P.list (P.list P.int); pure (.subVox p)
  | "subcoord" => do let p ← P.list (P.list P.rat); pure (.subCoord p)
  | "tslice" => do let k ← P.int; pure (.tslice k)
  | "tint" => do let s ← pSlice; pure (.tinterval s)
  | _ => failure

partial def pSteps : P (List Step) := fun s =>
  match s with
  | [] => some ([], [])
  | ";" :: rest => do
    let (st, rest') ← pStep.run rest
    let (more, rest'') ← pSteps rest'
    pure (st :: more, rest'')
  | _ => none

def showOpt {α} (f : α → String) : Option α → String | none => "none" | some a => f a

def showSlab (s : Slab) : String :=
  s!"{s.rid}:{s.t}:" ++ "/".intercalate (s.idx.map fun l => ",".intercalate (l.map toString))

def showImg (im : Img) : String :=
  showNats im.cs.shape ++ " | " ++ showRats im.cs.dims ++ " | " ++ showRats im.cs.origin ++ " | " ++
  showBool im.series ++ " " ++ showBool im.scalar ++ " | " ++
  " ".intercalate (im.time.map (showOpt showRat)) ++ " | " ++
  " ".intercalate (im.date.map (showOpt toString)) ++ " | " ++ showOpt toString im.ref ++ " | " ++
  " ".intercalate (im.slabs.map showSlab)

/-- root with pixel array: C rid cs series scalar T time date -/
def pRootA (C : List Nat) : P (Except Err ImgA) := do
  let rid ← P.nat
  let cs ← pCS
  let series ← P.bool; let scalar ← P.bool; let T ← P.nat
  let time ← P.opt (P.list (P.opt P.rat))
  let date ← P.list (P.opt P.int)
  pure (mkRootA rid cs series scalar T C time date)

/-- all multi-indices of a box in C order (last index fastest), as numpy `ravel()` lists them -/
def boxC : List Nat → List (List Nat)
  | [] => [[]]
  | n :: ns => (List.range n).flatMap fun i => (boxC ns).map (i :: ·)

def flatC (shape idx : List Nat) : Nat := (List.zip shape idx).foldl (fun acc p => acc * p.1 + p.2) 0

/-- the whole pixel array as numpy prints it: shape, then every entry's tag encoded like the harness payload -/
def showArr (C rootShape : List Nat) (a : ImgA) : String :=
  showNats a.arr.shape ++ " | " ++ showNats ((boxC a.arr.shape).map fun idx =>
    let tg := a.arr.get idx
    ((tg.rid * 8 + tg.t) * 4096 + flatC rootShape tg.vox) * (if C.isEmpty then 2 else prodL C) + flatC C tg.comp)

def handle : P String := do
  let op ← P.tok
  match op with
  | "prog" => do
    let r ← pRoot; let steps ← pSteps
    pure (showExcept showImg (r >>= fun im => im.run steps))
  | "stack" => do
    let roots ← P.list pRoot; let steps ← pSteps
    pure (showExcept showImg (do let ims ← roots.mapM id; let s ← stack ims; s.run steps))
  | "stackr" => do
    let roots ← P.list pRootRef; let steps ← pSteps
    pure (showExcept showImg (do let ims ← roots.mapM id; let s ← stack ims; s.run steps))
  | "appendr" => do
    let a ← pRootRef; let b ← pRootRef; let off ← P.opt P.rat; let steps ← pSteps
    pure (showExcept showImg (do let x ← a; let y ← b; let s ← x.append y off; s.run steps))
  | "append" => do
    let a ← pRoot; let b ← pRoot; let off ← P.opt P.rat; let steps ← pSteps
    pure (showExcept showImg (do let x ← a; let y ← b; let s ← x.append y off; s.run steps))
  | "aprog" => do
    let C ← P.list P.nat; let r ← pRootA C; let steps ← pSteps
    pure (showExcept (fun x => x) (do let im ← r; let f ← im.run steps; pure (showArr C im.md.cs.shape f)))
  | "astack" => do
    let C ← P.list P.nat; let roots ← P.list (pRootA C); let steps ← pSteps
    pure (showExcept (fun x => x) (do
      let ims ← roots.mapM id; let s ← stackA ims; let f ← s.run steps
      pure (showArr C ((ims.head?.map (·.md.cs.shape)).getD []) f)))
  | "aappend" => do
    let C ← P.list P.nat; let a ← pRootA C; let b ← pRootA C; let off ← P.opt P.rat; let steps ← pSteps
    pure (showExcept (fun x => x) (do
      let x ← a; let y ← b; let s ← x.append y off; let f ← s.run steps
      pure (showArr C x.md.cs.shape f)))
  | _ => failure

def dispatch (toks : List String) : Option String := (handle.run toks).map Prod.fst

def main : IO Unit := runDriver dispatch
