/-
Line-protocol driver for the image-metadata model (C02): one extraction program per line.
-/
import DarsiaModel.Basic
import DarsiaModel.Coord
import DarsiaModel.ImageMeta
open Darsia Darsia.Im

def pDim : P Dim := do let t ← P.tok; match Dim.parse t with | some d => pure d | none => failure

def pCS : P CS := do
  let d ← pDim
  let shape ← P.list P.nat
  let dims ← P.list P.rat
  let origin ← P.list P.rat
  pure ⟨d, shape, dims, origin⟩

/-- root: rid cs series scalar T time(none | list opt rat) date(list opt int) -/
def pRoot : P (Except Err Img) := do
  let rid ← P.nat
  let cs ← pCS
  let series ← P.bool; let scalar ← P.bool; let T ← P.nat
  let time ← P.opt (P.list (P.opt P.rat))
  let date ← P.list (P.opt P.int)
  pure (mkRoot rid cs series scalar T time date)

def pSlice : P PySlice := do let a ← P.opt P.int; let b ← P.opt P.int; pure (a, b)

def pStep : P Step := do
  let t ← P.tok
  match t with
  | "sub" => do let s ← P.list pSlice; pure (.sub s)
  | "subvox" => do let p ← P.list (P.list P.int); pure (.subVox p)
  | "subcoord" => do let p ← P.list (P.list P.rat); pure (.subCoord p)
  | "tslice" => do let k ← P.int; pure (.tslice k)
  | "tint" => do let s ← pSlice; pure (.tinterval s)
  | _ => failure

partial def pSteps : P (List Step) := fun s =>
  match s with
  | [] => some ([], [])
  | ";" :: rest => do
    let (st, rest') ← pStep.run rest
    let (more, rest'') ← pSteps rest'
    pure (st :: more, rest'')
  | _ => none

def showOpt {α} (f : α → String) : Option α → String | none => "none" | some a => f a

def showSlab (s : Slab) : String :=
  s!"{s.rid}:{s.t}:" ++ "/".intercalate (s.idx.map fun l => ",".intercalate (l.map toString))

def showImg (im : Img) : String :=
  showNats im.cs.shape ++ " | " ++ showRats im.cs.dims ++ " | " ++ showRats im.cs.origin ++ " | " ++
  showBool im.series ++ " " ++ showBool im.scalar ++ " | " ++
  " ".intercalate (im.time.map (showOpt showRat)) ++ " | " ++
  " ".intercalate (im.date.map (showOpt toString)) ++ " | " ++ showOpt toString im.ref ++ " | " ++
  " ".intercalate (im.slabs.map showSlab)

def handle : P String := do
  let op ← P.tok
  match op with
  | "prog" => do
    let r ← pRoot; let steps ← pSteps
    pure (showExcept showImg (r >>= fun im => im.run steps))
  | "stack" => do
    let roots ← P.list pRoot; let steps ← pSteps
    pure (showExcept showImg (do let ims ← roots.mapM id; let s ← stack ims; s.run steps))
  | "append" => do
    let a ← pRoot; let b ← pRoot; let off ← P.opt P.rat; let steps ← pSteps
    pure (showExcept showImg (do let x ← a; let y ← b; let s ← x.append y off; s.run steps))
  | _ => failure

def dispatch (toks : List String) : Option String := (handle.run toks).map Prod.fst

def main : IO Unit := runDriver dispatch
