/-
Line-protocol driver for C10: the shared correction workflow instantiated with a toy correction
  f(arr) = a * arr + b (entrywise, integer arrays), optional whole-series routine (reverse the time slices),
  declared metadata update = list of (key, value) overrides.
request : call <overwrite> <series> <a> <b> <hasSeriesRoutine> <nmeta> (k v)* <nupd> (k v)* <nslices> (<len> v..)*
response: <result is input> | input data afterwards | result data | result metadata
-/
import DarsiaModel.Basic
import DarsiaModel.Correction
open Darsia Darsia.Correction

abbrev A := List Int
abbrev M := List (Nat × Int)

def updM (m u : M) : M :=
  let m' := m.map fun kv => match u.find? (fun p => p.1 == kv.1) with | some p => (kv.1, p.2) | none => kv
  m' ++ u.filter (fun p => !(m.any fun kv => kv.1 == p.1))

def showData : Data A → String
  | .single a => "[" ++ showInts a ++ "]"
  | .series sl => " ".intercalate (sl.map fun a => "[" ++ showInts a ++ "]")

def showM (m : M) : String := " ".intercalate (m.map fun kv => s!"{kv.1}={kv.2}")

def pKV : P (Nat × Int) := do let k ← P.nat; let v ← P.int; pure (k, v)

def handle : List String → Option String
  | "call" :: rest => ((do
      let ow ← P.bool; let series ← P.bool; let a ← P.int; let b ← P.int; let hasS ← P.bool
      let m ← P.list pKV; let u ← P.list pKV
      let slices ← P.list (P.list P.int); P.done
      let c : Corr A M := { f := fun arr => arr.map fun x => a * x + b,
                            fSeries := if hasS then some List.reverse else none,
                            g := fun _ => u, upd := updM }
      let d : Data A := if series then .series slices else .single (slices.headD [])
      let o : Obj A M := ⟨7, .scalar, d, m⟩
      let r := c.callImage o ow 8
      pure (s!"{showBool (r.1.tag == o.tag)} | {showData r.2.data} | {showData r.1.data} | {showM r.1.md}")
    ) : P String).run rest |>.map (fun r => r.1)
  | _ => none

def main : IO Unit := runDriver handle
