/-
Line-protocol driver for C10: the shared correction workflow instantiated with a toy correction
  f(arr) = a * arr + b (entrywise, integer arrays), optional whole-series routine (reverse the time slices),
  declared metadata update = list of (key, value) overrides.
request : call <overwrite> <series> <a> <b> <hasSeriesRoutine> <nmeta> (k v)* <nupd> (k v)* <nslices> (<len> v..)*
response: <result is input> | input data afterwards | result data | result metadata
-/
import DarsiaModel.Basic
import DarsiaModel.Correction
import DarsiaModel.Corrections
import DarsiaModel.CorrHeap
import DarsiaModel.Corrections2
open Darsia Darsia.Correction Darsia.Corrections Darsia.Affine Darsia.Warp

abbrev A := List Int
abbrev M := List (Nat × Int)

def updM (m u : M) : M :=
  let m' := m.map fun kv => match u.find? (fun p => p.1 == kv.1) with | some p => (kv.1, p.2) | none => kv
  m' ++ u.filter (fun p => !(m.any fun kv => kv.1 == p.1))

def showData : Data A → String
  | .single a => "[" ++ showInts a ++ "]"
  | .series sl => " ".intercalate (sl.map fun a => "[" ++ showInts a ++ "]")

def showM (m : M) : String := " ".intercalate (m.map fun kv => s!"{kv.1}={kv.2}")

def pKV : P (Nat × Int) := do let k ← P.nat; let v ← P.int; pure (k, v)

def handle : List String → Option String
  | "call" :: rest => ((do
      let ow ← P.bool; let series ← P.bool; let a ← P.int; let b ← P.int; let hasS ← P.bool
      let m ← P.list pKV; let u ← P.list pKV
      let slices ← P.list (P.list P.int); P.done
      let c : Corr A M := { f := fun arr => arr.map fun x => a * x + b,
                            fSeries := if hasS then some List.reverse else none,
                            g := fun _ => u, upd := updM }
      let d : Data A := if series then .series slices else .single (slices.headD [])
      let o : Obj A M := ⟨7, .scalar, d, m⟩
      let r := c.callImage o ow 8
      pure (s!"{showBool (r.1.tag == o.tag)} | {showData r.2.data} | {showData r.1.data} | {showM r.1.md}")
    ) : P String).run rest |>.map (fun r => r.1)
  | _ => none

/-! ### round 2: concrete corrections on 2-D / 3-D arrays (C order) -/

def arr2OfList (n0 n1 : Nat) (l : List Rat) : Arr2 Rat :=
  ⟨n0, n1, fun i j => if 0 ≤ i ∧ i < n0 ∧ 0 ≤ j ∧ j < n1 then l.getD (i * n1 + j).toNat 0 else 0⟩
def arr3OfList (n0 n1 n2 : Nat) (l : List Rat) : Arr3 Rat :=
  ⟨n0, n1, n2, fun i j k => if 0 ≤ i ∧ i < n0 ∧ 0 ≤ j ∧ j < n1 ∧ 0 ≤ k ∧ k < n2
    then l.getD ((i * n1 + j) * n2 + k).toNat 0 else 0⟩
def arr2ToList (a : Arr2 Rat) : List Rat :=
  (List.range a.n0).flatMap fun (i : Nat) => (List.range a.n1).map fun (j : Nat) => a.get i j
def arr3ToList (a : Arr3 Rat) : List Rat :=
  (List.range a.n0).flatMap fun (i : Nat) => (List.range a.n1).flatMap fun (j : Nat) =>
    (List.range a.n2).map fun (k : Nat) => a.get i j k

def pDT : P DT := do
  let t ← P.tok
  match t with | "u8" => pure .u8 | "u16" => pure .u16 | "f64" => pure .f64 | _ => failure
def showDT : DT → String | .u8 => "u8" | .u16 => "u16" | .f64 => "f64"
def pArr2 : P (Arr2 Rat) := do
  let n0 ← P.nat; let n1 ← P.nat; let l ← P.rep P.rat (n0 * n1); pure (arr2OfList n0 n1 l)
def pTArr : P TArr := do let dt ← pDT; let a ← pArr2; pure ⟨dt, a⟩
def showTArr (a : TArr) : String := s!"{showDT a.dt} {a.arr.n0} {a.arr.n1} | " ++ showRats (arr2ToList a.arr)
def pV2' : P (V2 Rat) := do let x ← P.rat; let y ← P.rat; pure ⟨x, y⟩
def pM2' : P (M2 Rat) := do let a ← P.rat; let b ← P.rat; let c ← P.rat; let d ← P.rat; pure ⟨a, b, c, d⟩
def pM3' : P (M3 Rat) := do
  let l ← P.rep P.rat 9
  match l with | [a, b, c, d, e, f, g, h, i] => pure ⟨a, b, c, d, e, f, g, h, i⟩ | _ => failure
def pCS2' : P CS2 := do
  let n0 ← P.nat; let n1 ← P.nat; let ox ← P.rat; let oy ← P.rat; let h0 ← P.rat; let h1 ← P.rat
  pure ⟨n0, n1, ox, oy, h0, h1⟩
def pRnd : P Rounding := do
  let t ← P.tok
  match t with | "trunc" => pure .trunc | "floor" => pure .floor | _ => failure
def pMode' : P Mode := do
  let t ← P.tok
  match t with | "coord" => pure .coord | "voxel" => pure .voxel | "center" => pure .center | _ => failure

def runP {α} (p : P α) (toks : List String) : Option α := (p.run toks).map (fun r => r.1)

def handle2 : List String → Option String
  | "type" :: rest => runP (do
      let target ← pDT; let a ← pTArr; P.done
      match typeCorrE target a with
      | .ok r => pure (showTArr r)
      | .error er => pure er.show) rest
  | "trans" :: rest => runP (do
      let act ← P.bool; let tx ← P.int; let ty ← P.int; let a ← pTArr; P.done
      pure (showTArr (transCorrInt act tx ty a))) rest
  | "drift" :: rest => runP (do let a ← pTArr; P.done; pure (showTArr (driftInactive a))) rest
  | "rot2" :: rest => runP (do
      let anchor ← pV2'; let R ← pM2'; let a ← pTArr; P.done
      pure (showTArr (rotCorr2 anchor R a))) rest
  | "rot3" :: rest => runP (do
      let ax ← P.rat; let ay ← P.rat; let az ← P.rat; let R ← pM3'; let dt ← pDT
      let n0 ← P.nat; let n1 ← P.nat; let n2 ← P.nat; let l ← P.rep P.rat (n0 * n1 * n2); P.done
      let r := rotCorr3 ⟨ax, ay, az⟩ R ⟨dt, arr3OfList n0 n1 n2 l⟩
      pure (s!"{showDT r.dt} {n0} {n1} {n2} | " ++ showRats (arr3ToList r.arr))) rest
  | "transfops" :: rest => runP (do
      -- transfops <rounding> <mode> csS csD tx ty σ ang <nops> (A <tarr> | S tx ty σ ang)* : one correction object; prints the result
      -- of the LAST apply
      let rnd ← pRnd; let mode ← pMode'; let csS ← pCS2'; let csD ← pCS2'
      let t ← pV2'; let σ ← P.rat; let ang ← P.rat
      let ops ← P.list (do
        let k ← P.tok
        if k = "A" then (do let a ← pTArr; pure (TOp.apply a))
        else (do let t' ← pV2'; let σ' ← P.rat; let ang' ← P.rat; pure (TOp.setParams (Affine2.mk' t' σ' (cosT ang') (sinT ang')))))
      P.done
      let step := tstep mode csS csD rnd
      let fin := ops.foldl (fun (acc : TState × Option TArr) op =>
        let r := step acc.1 op
        (r.1, match r.2 with | some x => some x | none => acc.2)) (⟨0, Affine2.mk' t σ (cosT ang) (sinT ang), none⟩, none)
      match fin.2 with
      | some r => pure (showTArr r)
      | none => pure "none") rest
  | "transfrun" :: rest => runP (do
      let rnd ← pRnd; let mode ← pMode'; let csS ← pCS2'; let csD ← pCS2'
      let t ← pV2'; let σ ← P.rat; let ang ← P.rat
      let hist ← P.list pTArr; let a ← pTArr; P.done
      let T := Affine2.mk' t σ (cosT ang) (sinT ang)
      -- a call on an array that is too small for the source system raises (also inside the history)
      match (hist ++ [a]).findSome? (fun x => match transfCorrE mode T csS csD rnd x with | .error er => some er | .ok _ => none) with
      | some er => pure er.show
      | none => pure (showTArr (transfRun mode T csS csD rnd none hist a))) rest
  | _ => none

/-! ### round 3: operational heap workflow with an effectful toy `correct_array`
hcall <overwrite> <series> a b <inplace> <retarg> <nmeta> (k v)* <nupd> (k v)* <nslices> (<len> v..)*
  toy correct_array: result a*x+b (computed first), optional in-place write x+100 into its argument, optionally returns its argument
response: <result is input> | input buffer afterwards | result data | <result buffer is the input's buffer> | metadata of result -/
def handle3 : List String → Option String
  | "hcall" :: rest => runP (do
      let ow ← P.bool; let series ← P.bool; let a ← P.int; let b ← P.int; let inpl ← P.bool; let retarg ← P.bool
      let m ← P.list pKV; let u ← P.list pKV
      let slices ← P.list (P.list P.int); P.done
      -- views are taken from the working array (the code as it is); `.original` only documents the tree before the fix (theorems)
      let src : CorrHeap.SliceSrc := .work
      let e : CorrHeap.Eff := ⟨fun x => x.map fun v => a * v + b,
        if inpl then some (fun x => x.map (· + 100)) else none, if retarg then .arg else .fresh⟩
      let h : CorrHeap.Heap := ⟨1, fun _ => CorrHeap.bufOfList slices⟩
      let o : CorrHeap.Obj M := ⟨7, 0, series, m⟩
      let r := CorrHeap.callImage src e (fun _ => u) updM h o ow 8
      let showBuf := fun (bf : CorrHeap.Buf) => " ".intercalate (bf.toList.map fun sl => "[" ++ showInts sl ++ "]")
      pure (s!"{showBool (r.2.1.tag == o.tag)} | {showBuf (r.1.buf o.buf)} | {showBuf (r.1.buf r.2.1.buf)} | "
        ++ s!"{showBool (r.2.1.buf == o.buf)} | {showM r.2.1.md}")) rest
  | "harr" :: rest => runP (do
      -- harr <overwrite> a b <inplace> <retarg> <len> v.. -> <returned is the caller's array> | caller's array afterwards | returned values
      let ow ← P.bool; let a ← P.int; let b ← P.int; let inpl ← P.bool; let retarg ← P.bool
      let x ← P.list P.int; P.done
      let e : CorrHeap.Eff := ⟨fun x => x.map fun v => a * v + b,
        if inpl then some (fun x => x.map (· + 100)) else none, if retarg then .arg else .fresh⟩
      let h : CorrHeap.Heap := ⟨1, fun _ => CorrHeap.bufOfList [x]⟩
      let r := CorrHeap.callArray e h 0 ow
      pure (s!"{showBool (r.2 == 0)} | [{showInts ((r.1.buf 0).get 0)}] | [{showInts ((r.1.buf r.2).get 0)}]")) rest
  | _ => none

/-! ### round 4: curvature, illumination, active drift -/

def pBS : P BS := do
  let hb ← P.rat; let hs ← P.rat; let ho ← P.rat; let vb ← P.rat; let vs ← P.rat; let vo ← P.rat
  pure ⟨hb, hs, ho, vb, vs, vo⟩
def pOptBS : P (Option BS) := do
  let f ← P.bool
  if f then (do let c ← pBS; pure (some c)) else pure none

def handle4 : List String → Option String
  | "tcoords" :: rest => runP (do
      let c ← pBS; let nx ← P.nat; let ny ← P.nat; P.done
      let pts := (List.range ny).flatMap fun (i : Nat) => (List.range nx).map fun (j : Nat) => transformCoords c nx ny j i
      pure (showRats (pts.map (·.1)) ++ " | " ++ showRats (pts.map (·.2)))) rest
  | "curv" :: rest => runP (do
      -- curv <order 0|1> <use file cache> <resize factor> <init?> <bulge?> <stretch?> <nhist> (<new object?> n0 n1 vals)* <new object?> n0 n1 vals
      -- cells whose value depends on which side of a breakpoint (half-integer for order 0, domain boundary) a resampling coordinate
      -- falls are printed as `?`
      let order ← P.nat; let useFile ← P.bool
      let f ← P.rat; let ini ← pOptBS; let bul ← pOptBS; let str ← pOptBS
      let hist ← P.list (do let fr ← P.bool; let x ← pArr2; pure (fr, x))
      let lastFresh ← P.bool; let a ← pArr2; P.done
      let cfg0 : CurvCfg := ⟨ini, false, bul, str⟩
      let cfg := if f = 1 then cfg0 else adaptCfg f cfg0
      let eps : Rat := 1 / 1000
      let ip := fun (δ : Rat) => if order = 0 then interpNearestShift δ else interpLinearShift δ
      let run := fun (δ : Rat) =>
        if useFile then curvRunFile (ip δ) id cfg (none, none) hist lastFresh a
        else curvRun (ip δ) id cfg none (hist.map (·.2)) a
      let r0 := run 0
      let rp := run eps
      let rm := run (-eps)
      let cells := (List.range r0.n0).flatMap fun (i : Nat) => (List.range r0.n1).map fun (j : Nat) =>
        let v := r0.get i j
        if rp.n0 = r0.n0 ∧ rp.n1 = r0.n1 ∧ rp.get i j = v ∧ rm.get i j = v then showRat v else "?"
      pure (s!"{r0.n0} {r0.n1} | " ++ " ".intercalate cells)) rest
  | "colinact" :: rest => runP (do
      -- colinact <clip> <whitebalancing> <affine> <colour> <tarr> : inactive ColorCorrection
      let cl ← P.bool; let wb ← P.bool; let af ← P.bool; let co ← P.bool; let a ← pTArr; P.done
      pure (showTArr (colourInactive ⟨cl, wb, af, co⟩ a))) rest
  | "illum" :: rest => runP (do
      -- illum <rgb> <dt> n0 n1 <3*n0*n1 values, channel fastest> <nscal> (n0*n1 values)*
      let rgb ← P.bool; let dt ← pDT; let n0 ← P.nat; let n1 ← P.nat
      let vals ← P.rep P.rat (3 * n0 * n1); let sc ← P.list (P.rep P.rat (n0 * n1)); P.done
      let a : Arr2C := ⟨dt, n0, n1, fun i j ch => vals.getD (((i * n1 + j) * 3).toNat + ch) 0⟩
      let scal := fun (k : Nat) (i j : Int) => (sc.getD k []).getD (i * n1 + j).toNat 0
      let r := illumCorr rgb scal a
      let out := (List.range n0).flatMap fun (i : Nat) => (List.range n1).flatMap fun (j : Nat) =>
        (List.range 3).map fun ch => r.get i j ch
      pure (s!"{showDT r.dt} {n0} {n1} | " ++ showRats out)) rest
  | "drift" :: "active" :: rest => runP (do
      -- drift active <found> tx ty b0 b1 <tarr>
      let found ← P.bool; let tx ← P.int; let ty ← P.int; let b0 ← P.nat; let b1 ← P.nat; let a ← pTArr; P.done
      match driftActive (fun _ => if found then some (tx, ty) else none) b0 b1 a with
      | .ok r => pure (showTArr r)
      | .error er => pure er.show) rest
  | _ => none

def main : IO Unit := runDriver fun toks =>
  (((handle4 toks).orElse fun _ => handle toks).orElse fun _ => handle2 toks).orElse fun _ => handle3 toks
