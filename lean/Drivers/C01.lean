/-
Line-protocol driver for the coordinate-system model (C01).
`lake env lean --run Drivers/C01.lean < ops.txt`; one request per line, one `> response` per line.
-/
import DarsiaModel.Basic
import DarsiaModel.Coord
open Darsia

def pDim : P Dim := do let t ← P.tok; match Dim.parse t with | some d => pure d | none => failure

def pCS : P CS := do
  let d ← pDim
  let shape ← P.list P.nat
  let dims ← P.list P.rat
  let origin ← P.list P.rat
  pure ⟨d, shape, dims, origin⟩

def showPts {α} (f : List α → String) (ps : List (List α)) : String := " ; ".intercalate (ps.map f)

def showPt : Pt → String
  | .coord x => "coord " ++ showRats x
  | .vox v => "vox " ++ showInts v
  | .ctr c => "ctr " ++ showRats c

def pPt : P Pt := do
  let k ← P.tok
  match k with
  | "coord" => do let x ← P.list P.rat; pure (.coord x)
  | "vox" => do let v ← P.list P.int; pure (.vox v)
  | "ctr" => do let c ← P.list P.rat; pure (.ctr c)
  | _ => failure

def handle : P String := do
  let op ← P.tok
  match op with
  | "coord" => do
    let cs ← pCS; let vs ← P.list (P.list P.rat); P.done
    pure (showExcept (showPts showRats) (cs.coordinateB vs))
  | "voxel" => do
    let cs ← pCS; let xs ← P.list (P.list P.rat); P.done
    pure (showExcept (showPts showInts) (cs.voxelB xs))
  | "opp" => do let cs ← pCS; P.done; pure (showExcept showRats cs.opposite)
  | "vsize" => do let cs ← pCS; P.done; pure (showRats cs.voxelSize)
  | "dorigin" => do
    let d ← pDim; let dims ← P.list P.rat; P.done
    pure (showExcept showRats (defaultOrigin d dims))
  | "numvox" => do
    let cs ← pCS; let len ← P.rat; let p ← P.nat; P.done
    pure (toString (cs.numVoxels len p))
  | "pt" => do
    let conv ← P.tok; let cs ← pCS; let pt ← pPt; P.done
    match conv with
    | "toCoord" => pure (showExcept showPt (pt.toCoordinate cs))
    | "toVoxel" => pure (showExcept showPt (pt.toVoxel cs))
    | "toCenter" => pure (showExcept showPt (pt.toVoxelCenter cs))
    | _ => failure
  | "mk" => do
    let k ← P.tok; let xs ← P.list P.rat; P.done
    match k with
    | "vox" => pure (showInts (mkVoxel xs))
    | "ctr" => pure (showRats (mkCenter xs))
    | _ => failure
  | _ => failure

def dispatch (toks : List String) : Option String := (handle.run toks).map Prod.fst

def main : IO Unit := runDriver dispatch
