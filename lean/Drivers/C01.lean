/-
Line-protocol driver for the coordinate-system model (C01).
`lake env lean --run Drivers/C01.lean < ops.txt`; one request per line, one `> response` per line.
-/
import DarsiaModel.Basic
import DarsiaModel.Coord
import DarsiaModel.Slice
open Darsia

def pDim : P Dim := do let t ← P.tok; match Dim.parse t with | some d => pure d | none => failure

def pCS : P CS := do
  let d ← pDim
  let shape ← P.list P.nat
  let dims ← P.list P.rat
  let origin ← P.list P.rat
  pure ⟨d, shape, dims, origin⟩

def showPts {α} (f : List α → String) (ps : List (List α)) : String := " ; ".intercalate (ps.map f)

def showPt : Pt → String
  | .coord x => "coord " ++ showRats x
  | .vox v => "vox " ++ showInts v
  | .ctr c => "ctr " ++ showRats c

def pPt : P Pt := do
  let k ← P.tok
  match k with
  | "coord" => do let x ← P.list P.rat; pure (.coord x)
  | "vox" => do let v ← P.list P.int; pure (.vox v)
  | "ctr" => do let c ← P.list P.rat; pure (.ctr c)
  | _ => failure

def handle : P String := do
  let op ← P.tok
  match op with
  | "coord" => do
    let cs ← pCS; let vs ← P.list (P.list P.rat); P.done
    pure (showExcept (showPts showRats) (cs.coordinateB vs))
  | "voxel" => do
    let cs ← pCS; let xs ← P.list (P.list P.rat); P.done
    pure (showExcept (showPts showInts) (cs.voxelB xs))
  | "opp" => do let cs ← pCS; P.done; pure (showExcept showRats cs.opposite)
  | "vsize" => do let cs ← pCS; P.done; pure (showRats cs.voxelSize)
  | "dorigin" => do
    let d ← pDim; let dims ← P.list P.rat; P.done
    pure (showExcept showRats (defaultOrigin d dims))
  | "pt" => do
    let conv ← P.tok; let cs ← pCS; let pt ← pPt; P.done
    match conv with
    | "toCoord" => pure (showExcept showPt (pt.toCoordinate cs))
    | "toVoxel" => pure (showExcept showPt (pt.toVoxel cs))
    | "toCenter" => pure (showExcept showPt (pt.toVoxelCenter cs))
    | _ => failure
  | "mk" => do
    let k ← P.tok; let xs ← P.list P.rat; P.done
    match k with
    | "vox" => pure (showInts (mkVoxel xs))
    | "ctr" => pure (showRats (mkCenter xs))
    | _ => failure
  | "slicen" => do
    -- Image.slice(cut, name): matrix axis and index selected
    let n ← P.tok; let cs ← pCS; let cut ← P.rat; P.done
    let a ← Ax.parse n
    pure (showExcept (fun r => s!"{r.1} {r.2}") (sliceByName cs a cut))
  | "slicei" => do
    let cs ← pCS; let p ← P.nat; let v ← P.int; P.done
    pure (showExcept (fun r => s!"{r.1} {r.2}") (sliceByIndex cs p v))
  | "getitem" => do
    -- getitem <coord|vox|ctr> <int k | idx <list int> | mask <list bool> | other> <rows>
    let kt ← P.tok
    let kind ← (match kt with | "coord" => some ArrKind.coord | "vox" => some ArrKind.vox | "ctr" => some ArrKind.ctr | _ => none : Option ArrKind)
    let ft ← P.tok
    let key ← (match ft with
      | "int" => do let k ← P.int; pure (GetKey.int k)
      | "idx" => do let ks ← P.list P.int; pure (GetKey.idx ks)
      | "mask" => do let m ← P.list P.bool; pure (GetKey.mask m)
      | "other" => pure GetKey.other
      | _ => failure : P GetKey)
    let rows ← P.list (P.list P.rat); P.done
    let showK : ArrKind → String | .coord => "coord" | .vox => "vox" | .ctr => "ctr"
    pure (showExcept (fun r =>
      (match r.1 with | .elem k => "elem " ++ showK k | .arr k => "arr " ++ showK k | .plain => "plain") ++ " | " ++ showPts showRats r.2)
      (getItem kind rows key))
  | "ptto" => do
    let k ← P.tok; let cs ← pCS; let pt ← pPt; P.done
    let kind ← (match k with | "coord" => some PtKind.coord | "vox" => some PtKind.vox | "ctr" => some PtKind.ctr | "other" => some PtKind.other | _ => none : Option PtKind)
    pure (showExcept showPt (pt.to cs kind))
  | "form" => do
    let which ← P.tok; let f ← P.tok; let cs ← pCS; let x ← P.list P.rat; P.done
    let form ← (match f with | "list" => some CallForm.list | "tuple" => some CallForm.tuple | "array" => some CallForm.array | _ => none : Option CallForm)
    match which with
    | "coordinate" => pure (showExcept showRats (cs.coordinateForm form x))
    | "voxel" => pure (showExcept showInts (cs.voxelForm form x))
    | _ => failure
  | "hist" => do
    -- hist <cs> <k> (touch | reset | origin <list rat> | dims <list rat>)*  ->  final dims | origin | coordinate(0) | opposite
    let cs ← pCS; let k ← P.nat
    let ops ← P.rep (do
      let t ← P.tok
      match t with
      | "touch" => pure GeomOp.touch
      | "reset" => pure GeomOp.resetOrigin
      | "origin" => do let o ← P.list P.rat; pure (GeomOp.setOrigin o)
      | "dims" => do let o ← P.list P.rat; pure (GeomOp.setDimensions o)
      | _ => failure) k
    P.done
    pure (showExcept (fun x => x) (do
      let c ← cs.applyOps ops
      let z ← c.coordinate (List.replicate c.dim.toNat 0)
      let o ← c.opposite
      pure (showRats c.dims ++ " | " ++ showRats c.origin ++ " | " ++ showRats z ++ " | " ++ showRats o)))
  | "cvec" => do
    let cs ← pCS; let w ← P.list P.rat; P.done
    pure (showExcept showRats (cs.coordinateVector w))
  | "length" => do
    let cs ← pCS; let num ← P.rat; let i ← P.nat; P.done
    pure (showExcept showRat (cs.length num i))
  | "numvoxax" => do
    let cs ← pCS; let len ← P.rat; let i ← P.nat; P.done
    pure (showExcept toString (cs.numVoxelsAx len i))
  | "mincoord" => do let cs ← pCS; P.done; pure (showExcept showRats cs.minCoordinate)
  | "maxcoord" => do let cs ← pCS; P.done; pure (showExcept showRats cs.maxCoordinate)
  | "imgdomain" => do let cs ← pCS; P.done; pure (showExcept showRats cs.imageDomain)
  | "voxels" => do let cs ← pCS; P.done; pure (showPts showNats cs.voxels)
  | "coords" => do let cs ← pCS; P.done; pure (showExcept (showPts showRats) cs.coordinates)
  | "mkrev" => do
    let k ← P.tok; let xs ← P.list P.rat; P.done
    match k with
    | "vox" => pure (showInts (mkVoxelRev xs))
    | "ctr" => pure (showRats (mkCenterRev xs))
    | _ => failure
  | "mkb" => do
    let k ← P.tok; let mi ← P.bool; let pts ← P.list (P.list P.rat); P.done
    match k with
    | "vox" => pure (showExcept (showPts showInts) (mkVoxelB pts mi))
    | "ctr" => pure (showExcept (showPts showRats) (mkCenterB pts mi))
    | "coord" => pure (showExcept (showPts showRats) (mkCoordinateB pts))
    | _ => failure
  | "cseq" => do
    let c1 ← pCS; let c2 ← pCS; let ex ← P.bool; P.done
    let name : CsField → String
      | .indexing => "indexing" | .spaceDim => "space_dim" | .shape => "shape" | .dimensions => "dimensions"
      | .axes => "axes" | .voxelSize => "voxel_size" | .originVoxel => "coordinate_of_origin_voxel"
      | .oppositeVoxel => "coordinate_of_opposite_voxel"
    pure (showExcept (fun r => showBool r.1 ++ " | " ++ " ".intercalate (r.2.map name)) (checkEqual c1 c2 ex))
  | _ => failure

def dispatch (toks : List String) : Option String := (handle.run toks).map Prod.fst

def main : IO Unit := runDriver dispatch
