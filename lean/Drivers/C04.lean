/-
C04 line-protocol driver.
  loop <newton|bregman> <gen|asFound|repaired> <numIter> <n> ev..      ev ∈ ok0 ok1 fb fa nan
      → `<converged 0/1 | error class> <iter|none> <distTag|none> <solTag> <stopped>`
-/
import DarsiaModel.Basic
import DarsiaModel.SolveLoop
import DarsiaGen.SolveLoopGen
open Darsia Darsia.SolveLoop

def parseEvent : String → Option Event
  | "ok0" => some (.ok false) | "ok1" => some (.ok true) | "fb" => some .failBeforeUpdate
  | "fa" => some .failAfterUpdate | "nan" => some .nan | _ => none

def showOptNat : Option Nat → String
  | none => "none" | some n => toString n

def handleLoop : List String → Option String
  | m :: sh :: rest => do
    let m ← (match m with | "newton" => some Method.newton | "bregman" => some Method.bregman | _ => none)
    let shape ← (match sh with
      | "gen" => some (Gen.shapeOf m) | "asFound" => some Shape.asFound | "repaired" => some Shape.repaired | _ => none)
    let ((n, evs), _) ← (do let n ← P.nat; let es ← P.list P.tok; P.done; pure (n, es) : P _).run rest
    let evs ← evs.mapM parseEvent
    let env := envOf evs
    let r := run shape m n env
    let c := match converged shape n env r with
      | .ok b => showBool b
      | .error e => e.show
    pure s!"{c} {showOptNat r.iter} {showOptNat r.distTag} {r.solTag} {showBool r.stopped}"
  | _ => none

def dispatch : List String → Option String
  | "loop" :: rest => handleLoop rest
  | _ => none

def main : IO Unit := runDriver dispatch
