/-
C04 line-protocol driver.
  loop <newton|bregman> <gen|asFound> <numIter> <n> ev..
      ev ∈ ok0[:<branch>] | ok1[:<branch>] | nan | f:<branch>:<label>   (fault at the first statement of that body carrying the label)
      (a trailing token `post`: the solve after the loop fails)
      → `<converged 0/1 | error class> <iter|none> <distTag|none> <solTag> <stopped> <pressure: iterate | nan | raise>`
  points <newton|bregman>  → the generated bodies, `branch: label/effect ...`
-/
import DarsiaModel.Basic
import DarsiaModel.SolveLoop
import DarsiaModel.WassersteinAux
import DarsiaModel.Anderson
import DarsiaGen.SolveLoopGen
open Darsia Darsia.SolveLoop

def parseLabel : String → Option Label
  | "assemble" => some .assemble | "regularisation" => some .regularisation | "linearSolve" => some .linearSolve
  | "shrink" => some .shrink | "anderson" => some .anderson | "distance" => some .distance
  | "nanCheck" => some .nanCheck | "history" => some .history | "timings" => some .timings
  | "criteria" => some .criteria | "commit" => some .commit | "setSolution" => some .setSolution
  | "setDistance" => some .setDistance | "other" => some .other | _ => none

def showLabel : Label → String
  | .assemble => "assemble" | .regularisation => "regularisation" | .linearSolve => "linearSolve"
  | .shrink => "shrink" | .anderson => "anderson" | .distance => "distance" | .nanCheck => "nanCheck"
  | .history => "history" | .timings => "timings" | .criteria => "criteria" | .commit => "commit"
  | .setSolution => "setSolution" | .setDistance => "setDistance" | .other => "other"

def showEffect : Effect → String
  | .none => "-" | .writeSol => "sol" | .writeDist => "dist" | .criteria => "crit" | .commitDist => "commit"

def parseEvent (c : LoopCode) (t : String) : Option Event :=
  match t with
  | "ok0" => some (.ok 0 false) | "ok1" => some (.ok 0 true) | "nan" => some .nan
  | _ => match t.splitOn ":" with
    | ["ok0", b] => (b.toNat?).map fun b => .ok b false
    | ["ok1", b] => (b.toNat?).map fun b => .ok b true
    | ["f", b, l] => do
      let b ← b.toNat?
      let l ← parseLabel l
      let body := c.body b
      let idx := labelIndex c b l
      if idx < body.length then some (.fail b idx) else none
    | _ => none

def parseMethod : String → Option Method
  | "newton" => some .newton | "bregman" => some .bregman | _ => none

def handleLoop : List String → Option String
  | m :: sh :: rest => do
    let m ← parseMethod m
    let code ← (match sh with
      | "gen" => some (Gen.codeOf m)
      | "asFound" => some (match m with | .newton => asFoundNewton | .bregman => asFoundBregman)
      | _ => none)
    let ((n, evs), _) ← (do let n ← P.nat; let es ← P.list P.tok; P.done; pure (n, es) : P _).run rest
    -- a trailing `post` token: the solve after the loop fails
    let postFails := evs.getLast? == some "post"
    let evs := if postFails then evs.dropLast else evs
    let evs ← evs.mapM (parseEvent code)
    let env := envOf evs
    let r := run code n env
    let c := match converged code n env r with
      | .ok b => showBool b
      | .error e => e.show
    let showO : Option Nat → String := fun o => match o with | none => "none" | some v => toString v
    let pr := match finish code r postFails with
      | .error _ => "raise"
      | .ok f => match f.pressure with | none => "nan" | some v => toString v
    pure s!"{c} {showO r.iter} {showO r.distTag} {r.solTag} {showBool r.stopped} {pr}"
  | _ => none

def handlePoints : List String → Option String
  | [m] => do
    let m ← parseMethod m
    let c := Gen.codeOf m
    let bodies := c.bodies.map fun b => " ".intercalate (b.map fun s => showLabel s.label ++ "/" ++ showEffect s.effect)
    pure (s!"sound={showBool c.sound} | " ++ " | ".intercalate bodies)
  | _ => none

/-- `aux <dim> shape.. <dim> h.. <nc> cellweights.. <nq> wq.. <nq*dim> nodes.. <n> x..`
→ `flux (cell-major F order, axis minor) | weighted flux | pressure (F order) | per cell, per quadrature point: squared norm of
the weighted cell vector | weights` -/
def handleAux (rest : List String) : Option String := do
  let ((shape, h, cw, wq, nodes, x), _) ← (do
    let s ← P.list P.nat; let h ← P.list P.rat; let cw ← P.list P.rat; let wq ← P.list P.rat
    let nodes ← P.list P.rat; let x ← P.list P.rat; P.done
    pure (s, h, cw, wq, nodes, x) : P _).run rest
  let dim := shape.length
  let xf : Nat → Rat := fun i => x.getD i 0
  let wgt : List Nat → Nat → Rat := fun idx _ => cw.getD (encF shape idx) 1
  let ptq : Nat → List Rat := fun q => (List.range dim).map fun a => nodes.getD (q * dim + a) 0
  let o := WAux.callOut (fun _ => 0) shape h wq.length (fun q => wq.getD q 0) ptq wgt xf
  let cells := boxF shape
  let flux := cells.flatMap fun idx => (List.range dim).map fun a => o.flux idx a
  let wflux := cells.flatMap fun idx => (List.range dim).map fun a => o.weightedFlux idx a
  let press := cells.map o.pressure
  let sq := cells.flatMap fun idx => (List.range wq.length).map fun q =>
    WAux.sqNorm dim (cellVec shape xf wgt (ptq q) idx)
  pure s!"{showRats flux} | {showRats wflux} | {showRats press} | {showRats sq}"

/-- `anderson <depth> <restart|none> <dim> <ncalls> (gk(dim) fk(dim) <ng> gamma..)*` → `xkp1 | xkp1 | …`; the least-squares
routine of call `k` returns the given `gamma` -/
def handleAnderson (rest : List String) : Option String := do
  let ((depth, restart, dim, calls), _) ← (do
    let depth ← P.nat; let r ← P.opt P.nat; let dim ← P.nat; let n ← P.nat
    let calls ← P.rep (do let g ← P.rep P.rat dim; let f ← P.rep P.rat dim; let gm ← P.list P.rat; pure (g, f, gm)) n
    P.done
    pure (depth, r, dim, calls) : P _).run rest
  let toV : List Rat → Anderson.V := fun l i => l.getD i 0
  let (_, outs) := ((List.range calls.length).zip calls).foldl (fun (acc : Anderson.St × List String) (k, (g, f, gm)) =>
    -- the stubbed least-squares routine returns as many of the given weights as it is handed (active) columns
    let (x, st') := Anderson.callFiltered dim depth restart (fun F _ => gm.take F.length) acc.1 (toV g) (toV f) k
    (st', acc.2 ++ [showRats ((List.range dim).map x)])) (Anderson.reset depth, [])
  pure (" | ".intercalate outs)

def dispatch : List String → Option String
  | "anderson" :: rest => handleAnderson rest
  | "aux" :: rest => handleAux rest
  | "loop" :: rest => handleLoop rest
  | "points" :: rest => handlePoints rest
  | _ => none

def main : IO Unit := runDriver dispatch
