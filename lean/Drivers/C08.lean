/-
C08 line-protocol driver. Requests:
  surgery <k> <n> data.. <n> indices.. <n> indptr..
      → `<patternOk> <surgeryCheck> | n data.. | n indices.. | n indptr..`  or the error class
  assemble <nf> <nc> <k> w.. <nT> (c e v)..
      → `<n> <nnz> (i j v)..`  row-major non-zeros of the full block matrix
  reduce   <nf> <nc> <k> w.. <nT> (c e v).. rhs..
      → `<m> <nnz> (i j v).. | rr.. | <m'> <nnz> (i j v).. | frr..`  flux-reduced and fully reduced systems
  solve <form> <prevPk|none> <dscale> <nf> <nc> <k> w.. <nT> (c e v).. rhs..
      → exact solution `x..` or the error class
-/
import DarsiaModel.Basic
import DarsiaModel.Saddle
import DarsiaModel.Csc
import DarsiaModel.SolverCache
open Darsia

def showCsc (m : Csc.CSC Rat) : String :=
  s!"{m.data.length} {showRats m.data} | {m.indices.length} {showNats m.indices} | {m.indptr.length} {showNats m.indptr}"

def handleSurgery (rest : List String) : Option String := do
  let ((k, data, indices, indptr), _) ← (do
    let k ← P.nat; let d ← P.list P.rat; let i ← P.list P.nat; let p ← P.list P.nat; P.done
    pure (k, d, i, p) : P _).run rest
  let m : Csc.CSC Rat := ⟨data, indices, indptr⟩
  let pat := Csc.patternOk indices indptr k
  match Csc.surgery m k with
  | .error e => pure e.show
  | .ok r => pure s!"{showBool pat} {showBool (Csc.surgeryCheck indices indptr k)} | {showCsc r}"

def pTrip : P (Nat × Nat × Rat) := do let c ← P.nat; let e ← P.nat; let v ← P.rat; pure (c, e, v)

def pSystem : P (Nat × Nat × Nat × Saddle.Vec × Saddle.Mat) := do
  let nf ← P.nat; let nc ← P.nat; let k ← P.nat
  let w ← P.rep P.rat nf
  let ts ← P.list pTrip
  pure (nf, nc, k, w.toArray, Saddle.ofTriplets nc nf ts)

def showSparse (a : Saddle.Mat) : String :=
  let nz := (List.range a.size).flatMap fun i => (List.range (a.getD i #[]).size).filterMap fun j =>
    let v := a.get i j
    if v = 0 then none else some s!"{i} {j} {showRat v}"
  s!"{a.size} {nz.length} " ++ " ".intercalate nz

def handleAssemble (rest : List String) : Option String := do
  let ((_, _, k, w, D), _) ← (do let s ← pSystem; P.done; pure s : P _).run rest
  pure (showSparse (Saddle.assembleFull w D k))

def handleReduce (rest : List String) : Option String := do
  let (((nf, nc, k, w, D), rhs), _) ← (do
    let s ← pSystem; let rhs ← P.rep P.rat (s.1 + s.2.1 + 1); P.done; pure (s, rhs) : P _).run rest
  let _ := nc
  let full := Saddle.assembleFull w D k
  let (red, rr, _) := Saddle.eliminateFlux full full rhs.toArray nf
  let tail := match Saddle.eliminateMultiplier red rr k with
    | .error e => e.show
    | .ok (fr, frr) => s!"{showSparse fr} | {showRats frr.toList}"
  pure s!"{showSparse red} | {showRats rr.toList} | {tail}"

def parseForm : String → Option Saddle.Form
  | "full" => some .full | "flux_reduced" => some .fluxReduced | "pressure" => some .pressure | _ => none

/-- `solve <form> <prevPk|none> <dscale> system rhs`: the matrix handed to `linear_solve` has its divergence blocks
scaled by `dscale` (1 = the matrix the solver assembles itself); the cached blocks always come from the unscaled `D` -/
def handleSolve : List String → Option String
  | form :: rest => do
    let form ← parseForm form
    let ((prev, dscale, (nf, nc, k, w, D), rhs), _) ← (do
      let prev ← P.opt P.rat
      let ds ← P.rat
      let s ← pSystem; let rhs ← P.rep P.rat (s.1 + s.2.1 + 1); P.done; pure (prev, ds, s, rhs) : P _).run rest
    let _ := nc
    let cache := Saddle.assembleFull w D k
    let full := Saddle.assembleFull w (D.map fun row => row.map (· * dscale)) k
    match Saddle.linearSolve form cache full rhs.toArray nf k prev with
    | .error e => pure e.show
    | .ok x => pure (showRats x.toList)
  | _ => none

/-- `cache <full|flux_reduced|pressure> <direct|amg|cg> <n> (matrixId reuse)*` → per call `used setup precond|none`, `;`-separated -/
def handleCache : List String → Option String
  | f :: b :: rest => do
    let f ← (match f with | "full" => some SolverCache.Formulation.full | "flux_reduced" => some .fluxReduced
                           | "pressure" => some .pressure | _ => none)
    let b ← (match b with | "direct" => some SolverCache.Backend.direct | "amg" => some .amg | "cg" => some .cg | _ => none)
    let (calls, _) ← (do let cs ← P.list (do let m ← P.nat; let r ← P.bool; pure ((m, 0), r)); P.done; pure cs : P _).run rest
    match SolverCache.run f b SolverCache.fresh calls with
    | .error e => pure e.show
    | .ok (_, os) => pure (" ; ".intercalate (os.map fun o =>
        s!"{o.used.1} {showBool o.setup} " ++ (match o.precond with | none => "none" | some m => toString m.1)))
  | _ => none

def dispatch : List String → Option String
  | "cache" :: rest => handleCache rest
  | "surgery" :: rest => handleSurgery rest
  | "assemble" :: rest => handleAssemble rest
  | "reduce" :: rest => handleReduce rest
  | "solve" :: rest => handleSolve rest
  | _ => none

/-- canonical whitespace: single blanks between tokens -/
def canon (s : String) : String := " ".intercalate ((s.splitOn " ").filter (· ≠ ""))

def main : IO Unit := runDriver fun ts => (dispatch ts).map canon
