/-
Line-protocol driver for C11 (resampling and reduction conserve integrals).  Requests:
  resize n1 n2 m1 m2 <vals>                    -> values of the conservatively resized m1×m2 array (C order)
  level <up 0|1> <shape list> <vals>           -> one level of uniform refinement (up=1) / coarsening (up=0): "shape | vals"
  reduce <avg 0|1> a <shape list> <vals>       -> values of the reduced array
  extrude num <shape list> <vals>              -> values of the (num :: shape) array
  superpose <canvas list> k {<offset list> <shape list> <vals>}^k -> canvas values
Lists are length-prefixed; values in C order.
-/
import DarsiaModel.Basic
import DarsiaModel.Resample
import DarsiaModel.Conserve
open Darsia

def encC : List Nat → List Nat → Nat
  | _ :: ns, i :: is => i * prodL ns + encC ns is
  | _, _ => 0

def boxC : List Nat → List (List Nat)
  | [] => [[]]
  | n :: ns => (List.range n).flatMap fun i => (boxC ns).map fun is => i :: is

def ofList (shape : List Nat) (vals : List Rat) : List Nat → Rat :=
  let arr := vals.toArray
  fun idx => arr.getD (encC shape idx) 0

def tab (shape : List Nat) (f : List Nat → Rat) : String := showRats ((boxC shape).map f)

def handle : P String := do
  let cmd ← P.tok
  if cmd = "resize" then do
    let n1 ← P.nat; let n2 ← P.nat; let m1 ← P.nat; let m2 ← P.nat
    let vals ← P.list P.rat
    P.done
    let f := ofList [n1, n2] vals
    pure (tab [m1, m2] fun idx => match idx with
      | [j1, j2] => conservativeResize2 n1 n2 m1 m2 (fun a b => f [a, b]) j1 j2
      | _ => 0)
  else if cmd = "level" then do
    let up ← P.bool
    let shape ← P.list P.nat
    let vals ← P.list P.rat
    P.done
    let f := ofList shape vals
    if up then pure (showNats (refinedShape shape) ++ " | " ++ tab (refinedShape shape) (refineAll shape f))
    else pure (showNats (coarsenedShape shape) ++ " | " ++ tab (coarsenedShape shape) (coarsenAll shape f))
  else if cmd = "reduce" then do
    let avg ← P.bool; let a ← P.nat
    let shape ← P.list P.nat
    let vals ← P.list P.rat
    P.done
    pure (tab (eraseAt a shape) (reduceAxis avg a shape (ofList shape vals)))
  else if cmd = "extrude" then do
    let num ← P.nat
    let shape ← P.list P.nat
    let vals ← P.list P.rat
    P.done
    pure (tab (num :: shape) (extrude (ofList shape vals)))
  else if cmd = "superpose" then do
    let canvas ← P.list P.nat
    let imgs ← P.list (do
      let off ← P.list P.nat; let shape ← P.list P.nat; let vals ← P.list P.rat
      pure ({ offset := off, shape := shape, val := ofList shape vals } : Placed))
    P.done
    pure (tab canvas (superpose imgs))
  else if cmd = "coded" then do
    -- coded <n> <levels> <vals>: multi-level coarsening of a 1-D array exactly as coded
    let n ← P.nat; let levels ← P.nat
    let vals ← P.list P.rat
    P.done
    let f := ofList [n] vals
    match coarsenLevels levels n (fun i => f [i]) with
    | .error e => pure e.show
    | .ok (m, g) => pure (toString m ++ " | " ++ showRats ((List.range m).map g))
  else if cmd = "rseq" then do
    -- rseq m1 m2 k {n1 n2 vals}^k: successive conservative resizes on ONE Resize object with target m1 x m2
    let m1 ← P.nat; let m2 ← P.nat
    let calls ← P.list (do let n1 ← P.nat; let n2 ← P.nat; let vals ← P.list P.rat; pure (n1, n2, vals))
    P.done
    let rec go (o : ResizeObj) : List (Nat × Nat × List Rat) → List String
      | [] => []
      | (n1, n2, vals) :: rest =>
        let f := ofList [n1, n2] vals
        let r := o.call false n1 n2 (fun a b => f [a, b])
        tab [m1, m2] (fun idx => match idx with | [j1, j2] => r.2 j1 j2 | _ => 0) :: go r.1 rest
    pure (" ; ".intercalate (go ⟨m1, m2, true, none⟩ calls))
  else if cmd = "canvas" then do
    -- canvas k {top left rows cols vals}^k: canvas computed by the model; "top left R C | values"
    let imgs ← P.list (do
      let t ← P.int; let l ← P.int; let r ← P.nat; let c ← P.nat; let vals ← P.list P.rat
      pure ({ top := t, left := l, rows := r, cols := c, val := ofList [r, c] vals } : PlacedZ))
    P.done
    let cv := canvasOf imgs
    pure (s!"{cv.top} {cv.left} {showNats cv.shape} | " ++ tab cv.shape (superpose (imgs.map (onCanvas cv))))
  else if cmd = "equalize" then do
    -- equalize <shape list> <dims list> <vs|none>: target shape of equalize_voxel_size
    let shape ← P.list P.nat; let dims ← P.list P.rat; let vs ← P.opt P.rat
    P.done
    pure (showNats (equalizeShape { shape := shape, dims := dims, origin := [] } vs))
  else failure

def dispatch (toks : List String) : Option String := (handle.run toks).map (·.1)

def main : IO Unit := runDriver dispatch
