/-
C18 driver.  `kind gray` | `kind chan <n>` → class of the image `imread_from_bytes` builds (or the error);
`perm read|file|write a b c` → the pixel after the tabulated channel permutation; `suffix <s>` → reader;
`npz <class>` → class of the re-read image.
-/
import DarsiaModel.Basic
import DarsiaModel.Persist
import DarsiaGen.PersistTables
open Darsia Darsia.Persist

def showE {α} (f : α → String) : Except Err α → String
  | .ok a => f a
  | .error e => e.show

def parseSuffix : String → Option Suffix
  | "npy" => some .npy | "npz" => some .npz | "jpg" => some .jpg | "jpeg" => some .jpeg | "png" => some .png
  | "tif" => some .tif | "tiff" => some .tiff | "dcm" => some .dcm | "vtu" => some .vtu | "txt" => some .txt
  | "JPG" => some .JPG | "PNG" => some .PNG | _ => none

def parseCls : String → Option Cls
  | "Image" => some .image | "ScalarImage" => some .scalarImage | "OpticalImage" => some .opticalImage | _ => none

/-- symbolic values: which keyword (if any) an attribute of a constructed image comes from -/
inductive Sym | kw (k : Key) | c (name : String) | app (f : String) (args : List Sym)

def isC (n : String) : Sym → Bool | .c m => m == n | _ => false

def symSem : Sem Sym :=
  { none := .c "None", two := .c "2", ij := .c "ij", tru := .c "True", fls := .c "False", rgb := .c "RGB",
    isNone := isC "None", truthy := isC "True",
    up := fun v => match v with | .kw k => .kw k | v => .app "upper" [v],
    defaultIndexing := fun d => .app "ijk" [d], defaultDims := fun d => .app "ones" [d],
    applyHWD := fun d h w z => match h, w, z with | none, none, none => d | _, _, _ => .app "hwd" [d],
    defaultOrigin := fun a b c => .app "origin" [a, b, c], defaultDate := fun s => .app "nodate" [s],
    defaultRef := fun d => .app "ref" [d], deriveTime := fun s d r => .app "time" [s, d, r] }

def parseKey : String → Option Key
  | "space_dim" => some .space_dim | "indexing" => some .indexing | "dimensions" => some .dimensions
  | "name" => some .name | "height" => some .height | "width" => some .width | "depth" => some .depth
  | "origin" => some .origin | "series" => some .series | "date" => some .date
  | "reference_date" => some .reference_date | "time" => some .time | "scalar" => some .scalar
  | "color_space" => some .color_space | _ => none

def showKey : Key → String
  | .space_dim => "space_dim" | .indexing => "indexing" | .dimensions => "dimensions" | .name => "name"
  | .height => "height" | .width => "width" | .depth => "depth" | .origin => "origin" | .series => "series"
  | .date => "date" | .reference_date => "reference_date" | .time => "time" | .scalar => "scalar"
  | .color_space => "color_space" | .other n => s!"other{n}"

/-- `construct <Class> key*` : for every `metadata()` key of the class, does the attribute of
`Class(array, **{key: sentinel})` carry the sentinel given for that key? -/
def handleConstruct (c : Cls) (given : List Key) : String :=
  let kw : Kw Sym := fun k => if given.contains k then some (.kw k) else none
  let a := construct symSem c kw
  " ".intercalate ((Gen.metaKeys c).map fun k =>
    showKey k ++ "=" ++ (match a k with | .kw k' => (if k' == k then "kw" else "other") | _ => "other"))

/-! field-level provenance of the corrections: the model evaluated on symbolic values (tags) -/

def strSem : CSem String :=
  { tru := "const:True", zero := "const:0", one := "const:1", fls := "const:False", affine := "const:affine",
    darsia := "const:darsia", isTuple := fun _ => true, bbox := fun r p b => s!"bbox({r},{p},{b})",
    makeVoxel := fun r => s!"makeVoxel({r})" }

def so (o : Option String) : String := o.getD "none"

def corrProvenance : List String → Option String
  | ["TypeCorrection"] =>
    let f := (TypeState.mk "attr:dataType").save
    let s := (TypeFile.mk "file:data_type").load
    some s!"save: data_type={f.data_type} | load: dataType={s.dataType}"
  | ["DriftCorrection", roi] =>
    let r := if roi = "roi" then some "attr:roi" else none
    let f := (DriftState.mk "attr:base" "attr:active" "attr:padding" r).save
    let fr := if roi = "roi" then some "file:cfgRoi" else none
    let s := (DriftFile.mk "file:base" (some "file:cfgActive") (some "file:cfgPadding") fr).load strSem
    some s!"save: base={f.base} cfgActive={so f.cfgActive} cfgPadding={so f.cfgPadding} cfgRoi={so f.cfgRoi} | load: base={s.base} active={s.active} padding={s.padding} roi={so s.roi}"
  | ["CurvatureCorrection"] =>
    let f := (CurvState.mk "attr:config" "attr:interpolationOrder").save
    let s := (CurvFile.mk "file:config" (some "file:interpolation_order")).load strSem
    some s!"save: config={f.config} interpolation_order={so f.interpolation_order} | load: config={s.config} interpolationOrder={s.interpolationOrder}"
  | ["IlluminationCorrection"] =>
    let f := (IllumState.mk "attr:colorspace" "attr:localScaling").save
    let s := (IllumFile.mk "file:cfgColorspace" "file:cfgLocalScaling").load
    some s!"save: cfgColorspace={f.cfgColorspace} cfgLocalScaling={f.cfgLocalScaling} | load: colorspace={s.colorspace} localScaling={s.localScaling}"
  | "ColorCorrection" :: present =>
    let g := fun (k : String) => if present.contains k then some s!"file:config.{k}" else none
    let cfg : ColorCfg String := ⟨"file:config.roi", g "active", g "whitebalancing", g "colorbalancing", g "balancing", g "clip"⟩
    let s := (ColorFile.mk "file:base" cfg).load strSem
    let a := fun (k : String) => if present.contains k then some s!"attr:config.{k}" else none
    let cfgA : ColorCfg String := ⟨"attr:config.roi", a "active", a "whitebalancing", a "colorbalancing", a "balancing", a "clip"⟩
    let f := (ColorState.ofConfig strSem cfgA "attr:swatches").save
    some s!"save: base={f.base} config.roi={f.config.roi} config.active={so f.config.active} config.whitebalancing={so f.config.whitebalancing} config.colorbalancing={so f.config.colorbalancing} config.balancing={so f.config.balancing} config.clip={so f.config.clip} | load: swatches={s.swatches} active={s.active} whitebalancing={s.whitebalancing} colorbalancing={s.colorbalancing} balancing={s.balancing} clip={s.clip} roi={s.roi}"
  | _ => none

def dispatch : List String → Option String
  | "corr" :: rest => corrProvenance rest
  | "construct" :: c :: ks => do
    let c ← parseCls c
    let ks ← ks.mapM parseKey
    pure (handleConstruct c ks)
  | ["kind", "gray"] => some (showE Cls.show (kindRule .gray))
  | ["kind", "chan", n] => n.toNat?.map fun n => showE Cls.show (kindRule (.chan n))
  | ["perm", which, a, b, c] => do
    let a ← a.toInt?; let b ← b.toInt?; let c ← c.toInt?
    let p := if which = "read" then Gen.readPerm else if which = "file" then Gen.filePerm else Gen.writePerm
    pure (showInts (permute p [a, b, c]))
  | ["suffix", s] => (parseSuffix s).map fun s => showE Reader.show (Gen.suffixReader s)
  | ["npz", c] => (parseCls c).map fun c => (Gen.npzClass c).show
  | _ => none

def main : IO Unit := runDriver dispatch
