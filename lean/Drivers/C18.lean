/-
C18 driver.  `kind gray` | `kind chan <n>` → class of the image `imread_from_bytes` builds (or the error);
`perm read|file|write a b c` → the pixel after the tabulated channel permutation; `suffix <s>` → reader;
`npz <class>` → class of the re-read image.
-/
import DarsiaModel.Basic
import DarsiaModel.Persist
import DarsiaGen.PersistTables
open Darsia Darsia.Persist

def showE {α} (f : α → String) : Except Err α → String
  | .ok a => f a
  | .error e => e.show

def parseSuffix : String → Option Suffix
  | "npy" => some .npy | "npz" => some .npz | "jpg" => some .jpg | "jpeg" => some .jpeg | "png" => some .png
  | "tif" => some .tif | "tiff" => some .tiff | "dcm" => some .dcm | "vtu" => some .vtu | "txt" => some .txt
  | "JPG" => some .JPG | "PNG" => some .PNG | _ => none

def parseCls : String → Option Cls
  | "Image" => some .image | "ScalarImage" => some .scalarImage | "OpticalImage" => some .opticalImage | _ => none

def dispatch : List String → Option String
  | ["kind", "gray"] => some (showE Cls.show (kindRule .gray))
  | ["kind", "chan", n] => n.toNat?.map fun n => showE Cls.show (kindRule (.chan n))
  | ["perm", which, a, b, c] => do
    let a ← a.toInt?; let b ← b.toInt?; let c ← c.toInt?
    let p := if which = "read" then Gen.readPerm else if which = "file" then Gen.filePerm else Gen.writePerm
    pure (showInts (permute p [a, b, c]))
  | ["suffix", s] => (parseSuffix s).map fun s => showE Reader.show (Gen.suffixReader s)
  | ["npz", c] => (parseCls c).map fun c => (Gen.npzClass c).show
  | _ => none

def main : IO Unit := runDriver dispatch
