/-
Line-protocol driver for the patches model (C19).
-/
import DarsiaModel.Basic
import DarsiaModel.Coord
import DarsiaModel.Patches
import DarsiaModel.PatchesImg
open Darsia Darsia.Patch Darsia.Im

def pDim : P Dim := do let t ← P.tok; match Dim.parse t with | some d => pure d | none => failure

def pCS : P CS := do
  let d ← pDim
  let shape ← P.list P.nat
  let dims ← P.list P.rat
  let origin ← P.list P.rat
  pure ⟨d, shape, dims, origin⟩

def pAxis : P Axis := do
  let N ← P.nat; let n ← P.nat; let pv ← P.nat; let ov ← P.nat
  pure ⟨N, n, pv, ov⟩

def showGrid (N1 : Nat) (g : Grid) : String :=
  let w := match g with | [] => 0 | r :: _ => r.length
  s!"{g.length} {w} | " ++ showNats (g.flatten.map fun p => p.1 * N1 + p.2)

def showSl (s : Nat × Nat) : String := s!"{s.1}:{s.2}"

def pairs (n0 n1 : Nat) : List (Nat × Nat) := (List.range n0).flatMap fun i => (List.range n1).map fun j => (i, j)

/-- root with pixel array: rid cs series scalar T time date (C components) -/
def pRootA (C : List Nat) : P (Except Err ImgA) := do
  let rid ← P.nat
  let cs ← pCS
  let series ← P.bool; let scalar ← P.bool; let T ← P.nat
  let time ← P.opt (P.list (P.opt P.rat))
  let date ← P.list (P.opt P.int)
  pure (mkRootA rid cs series scalar T C time date)

def boxC : List Nat → List (List Nat)
  | [] => [[]]
  | n :: ns => (List.range n).flatMap fun i => (boxC ns).map (i :: ·)

def flatC (shape idx : List Nat) : Nat := (List.zip shape idx).foldl (fun acc p => acc * p.1 + p.2) 0

/-- patch image: shape, dimensions, origin, then the whole pixel array (tags encoded like the harness payload) -/
def showPatch (C rootShape : List Nat) (a : ImgA) : String :=
  showNats a.md.cs.shape ++ " | " ++ showRats a.md.cs.dims ++ " | " ++ showRats a.md.cs.origin ++ " | " ++
  showNats a.arr.shape ++ " | " ++ showNats ((boxC a.arr.shape).map fun idx =>
    let tg := a.arr.get idx
    ((tg.rid * 8 + tg.t) * 4096 + flatC rootShape tg.vox) * (if C.isEmpty then 2 else prodL C) + flatC C tg.comp)

def handle : P String := do
  let op ← P.tok
  match op with
  | "axes" => do
    let cs ← pCS; let n0 ← P.nat; let n1 ← P.nat; let rel ← P.rat; P.done
    let (a0, a1) := axesOf cs n0 n1 rel
    pure s!"{a0.pv} {a0.ov} {a1.pv} {a1.ov}"
  | "rois" => do
    let a0 ← pAxis; let a1 ← pAxis; P.done
    let f (a : Axis) := " ".intercalate ((List.range a.n).map fun i => showSl (a.roi i))
    let g (a : Axis) := " ".intercalate ((List.range a.n).map fun i => showSl (a.relRoi i))
    pure (f a0 ++ " | " ++ f a1 ++ " | " ++ g a0 ++ " | " ++ g a1)
  | "patch" => do
    let a0 ← pAxis; let a1 ← pAxis; let i ← P.nat; let j ← P.nat; P.done
    pure (showGrid a1.N (patchImg a0 a1 i j))
  | "piece" => do
    let a0 ← pAxis; let a1 ← pAxis; let i ← P.nat; let j ← P.nat; P.done
    pure (showGrid a1.N (pieceImg a0 a1 i j))
  | "assemble" => do
    let a0 ← pAxis; let a1 ← pAxis; P.done
    pure (showGrid a1.N (assemble a0 a1))
  | "cornersv" => do
    let a0 ← pAxis; let a1 ← pAxis; P.done
    pure (" ; ".intercalate ((pairs a0.n a1.n).map fun (i, j) =>
      showNats [a0.cornerLo i, a1.cornerLo j, a0.cornerHi i, a1.cornerLo j, a0.cornerHi i, a1.cornerHi j, a0.cornerLo i, a1.cornerHi j]))
  | "centres" => do
    let cs ← pCS; let n0 ← P.nat; let n1 ← P.nat; P.done
    pure (" ; ".intercalate ((pairs n0 n1).map fun (i, j) =>
      showRats (centerCart cs n0 n1 i j) ++ " " ++ showExcept showInts (centerVox cs n0 n1 i j)))
  | "cornersc" => do
    let cs ← pCS; let n0 ← P.nat; let n1 ← P.nat; P.done
    pure (" ; ".intercalate ((pairs n0 n1).map fun (i, j) =>
      showRats (cornerCart cs n0 n1 i j ++ cornerCart cs n0 n1 (i + 1) j ++ cornerCart cs n0 n1 (i + 1) (j + 1) ++ cornerCart cs n0 n1 i (j + 1))))
  | "apatch" => do
    let C ← P.list P.nat; let r ← pRootA C; let a0 ← pAxis; let a1 ← pAxis; let i ← P.nat; let j ← P.nat; P.done
    pure (showExcept (fun x => x) (do let base ← r; let p ← patchOf base a0 a1 i j; pure (showPatch C base.md.cs.shape p)))
  | "position" => do
    let n0 ← P.nat; let n1 ← P.nat; let i ← P.nat; let j ← P.nat; P.done
    let r := position n0 n1 i j
    let h := match r.1 with | .left => "left" | .right => "right" | .internal => "internal"
    let v := match r.2 with | .bottom => "bottom" | .top => "top" | .internal => "internal"
    pure (h ++ " " ++ v)
  | "order" => do
    let n0 ← P.nat; let n1 ← P.nat; P.done
    pure (" ; ".intercalate ((patchOrder n0 n1).map fun q => s!"{q.1} {q.2}"))
  | "blend" => do
    let a0 ← pAxis; let a1 ← pAxis; P.done
    pure (showExcept (fun _ => "grid") (blendAndAssemble a0 a1))
  | _ => failure

def dispatch (toks : List String) : Option String := (handle.run toks).map Prod.fst

def main : IO Unit := runDriver dispatch
