/-
Line-protocol driver for C12 (colour balance composition).
  stages <new|old> n (mode a11..a33 b1 b2 b3)*n m (x y z)*m
    -> accumulated A | accumulated b | accumulated balance applied to the m colours | stage balances applied one after the other
  residual a11..a33 b1 b2 b3 m (sx sy sz dx dy dz)*m -> least-squares objective
-/
import DarsiaModel.Basic
import DarsiaModel.Affine
import DarsiaModel.Balance
open Darsia Darsia.Affine Darsia.Balance

def pV3 : P (V3 Rat) := do let x ← P.rat; let y ← P.rat; let z ← P.rat; pure ⟨x, y, z⟩
def pM3 : P (M3 Rat) := do
  let l ← P.rep P.rat 9
  match l with
  | [a, b, c, d, e, f, g, h, i] => pure ⟨a, b, c, d, e, f, g, h, i⟩
  | _ => failure
def pMode : P StageMode := do
  let t ← P.tok
  match t with
  | "diagonal" => pure .diagonal | "linear" => pure .linear | "affine" => pure .affine | _ => failure
def pStage : P (Stage Rat) := do let m ← pMode; let A ← pM3; let b ← pV3; pure ⟨m, A, b⟩

def showM3 (A : M3 Rat) : String :=
  showRats [A.a11, A.a12, A.a13, A.a21, A.a22, A.a23, A.a31, A.a32, A.a33]
def showV3s (vs : List (V3 Rat)) : String := showRats (vs.flatMap fun v => [v.x, v.y, v.z])

def run {α} (p : P α) (toks : List String) : Option α := (p.run toks).map (·.1)

def handle : List String → Option String
  | "stages" :: which :: rest => run (do
      let stages ← P.list pStage; let pts ← P.list pV3; P.done
      let B := if which = "old" then runCodeOld stages else runCode stages
      pure (showM3 B.A ++ " | " ++ showV3s [B.b] ++ " | " ++ showV3s (pts.map B.apply) ++ " | "
        ++ showV3s (pts.map (applySeq stages)))) rest
  | "ops" :: rest => run (do
      -- ops n (S <stage> | R)* m pts : one long-lived AdaptiveBalance; prints accumulated A | b | applied
      let ops ← P.list (do
        let k ← P.tok
        if k = "R" then pure (BalOp.reset : BalOp Rat) else (do let s ← pStage; pure (BalOp.stage s)))
      let pts ← P.list pV3; P.done
      let B := runOps ops
      pure (showM3 B.A ++ " | " ++ showV3s [B.b] ++ " | " ++ showV3s (pts.map B.apply))) rest
  | "pipeline" :: rest => run (do
      -- pipeline <whitebalancing> <clip> <wb stage> <colour stage> R C (x y z)*(R*C) -> corrected pixels, row major
      let wbOn ← P.bool; let clip ← P.bool; let wb ← pStage; let col ← pStage
      let r ← P.nat; let c ← P.nat; let px ← P.rep pV3 (r * c); P.done
      pure (showV3s (pipelineClip wbOn clip wb col (chunk c px)).flatten)) rest
  | "residual" :: rest => run (do
      let A ← pM3; let b ← pV3
      let pairs ← P.list (do let s ← pV3; let d ← pV3; pure (s, d)); P.done
      pure (showRat (residual ⟨A, b⟩ pairs))) rest
  | _ => none

def main : IO Unit := runDriver handle
