/-
Line-protocol driver: one request per line on stdin, one response per line on stdout.
Run with `lake env lean --run Drivers/C20.lean < ops.txt`. Imports models and generated tables only.
-/
import DarsiaModel.Basic
import DarsiaModel.Indexing
import DarsiaGen.IndexingTables
open Darsia

def quote (s : String) : String := "'" ++ s ++ "'"

/-- C20 requests -/
def handleAxis : List String → Option String
  | ["toMatrix", a, ind] => do
    let a ← AxArg.parse a; let ind ← Ind.parse ind
    pure (showExcept (fun ax => quote ax.show) (Gen.toMatrix a ind))
  | ["toCartesian", a, ind] => do
    let a ← AxArg.parse a; let ind ← Ind.parse ind
    pure (showExcept (fun ax => quote ax.show) (Gen.toCartesian a ind))
  | ["interpret", a, ind] => do
    let a ← Ax.parse a; let ind ← Ind.parse ind
    pure (showExcept (fun p => s!"{p.1} {showBool p.2}") (Gen.interpret a ind))
  | _ => none

def handleLayout : List String → Option String
  | which :: dim :: rest => do
    let d ← Dim.parse dim
    let (shape, _) ← (P.list P.nat).run rest
    let spec := if which = "m2c" then Gen.m2c d else Gen.c2m d
    match spec with
    | .error e => pure e.show
    | .ok spec =>
      let outShape := spec.outShape shape
      let srcs := (boxF outShape).map fun out => encF shape (spec.pull shape out)
      pure (showNats outShape ++ " | " ++ showNats srcs)
  | _ => none

def dispatch : List String → Option String
  | "axis" :: rest => handleAxis rest
  | "layout" :: rest => handleLayout rest
  | _ => none

def main : IO Unit := runDriver dispatch
