/-
Line-protocol driver for C06 (finite-volume operators).  `lake env lean --run Drivers/C06.lean < ops.txt`
Requests: `<what> <shape> <voxel sizes> ...` with length-prefixed lists.
-/
import DarsiaModel.Basic
import DarsiaModel.Grid
import DarsiaModel.FV
open Darsia

def sep (xs : List String) : String := " | ".intercalate xs
def fn (l : List Rat) : Nat → Rat := fun k => l.getD k 0

def handle : List String → Option String
  | "divmat" :: rest => do
    -- asm = 1: the matrix as the code assembles it (COO triplets summed, `divAssembled`); asm = 0: pointwise `divEntry`
    let ((shape, h, asm), _) ← (do let s ← P.list P.nat; let h ← P.list P.rat; let a ← P.nat; pure (s, h, a)).run rest
    let nf := numFaces shape
    let tbl := if asm = 1 then divAssembled shape h else []
    let entry : Nat → Nat → Rat := fun c f => if asm = 1 then tbl.getD (c * nf + f) 0 else divEntry shape h c f
    let cols := (List.range nf).map fun f =>
      " ".intercalate (((List.range (numCells shape)).filter fun c => entry c f ≠ 0).map fun c =>
        s!"{c}:{showRat (entry c f)}")
    pure (" ; ".intercalate cols)
  | "div" :: rest => do
    let ((shape, h, u, dense), _) ← (do
      let s ← P.list P.nat; let h ← P.list P.rat; let u ← P.list P.rat; let d ← P.nat; pure (s, h, u, d)).run rest
    let cells := List.range (numCells shape)
    let net := cells.map fun c => netOutflow shape h (fn u) (decF shape c)
    let app := if dense = 1 then cells.map (divApply shape h (fn u)) else net
    pure (sep [showRats app, showRats net])
  | "mass" :: rest => do
    let ((shape, h), _) ← (do let s ← P.list P.nat; let h ← P.list P.rat; pure (s, h)).run rest
    let n := numCells shape; let m := numFaces shape
    pure (sep [s!"{n} {showRat (massEntry h 0 0)} {showRat (massEntry h 0 1)}",
               s!"{m} {showRat (massEntry h 0 0)} {showRat (massEntry h 1 0)}"])
  | "f2c" :: rest => do
    let ((shape, pt, u), _) ← (do
      let s ← P.list P.nat; let pt ← P.list P.rat; let u ← P.list P.rat; pure (s, pt, u)).run rest
    -- the tables as the code builds them: zeros + two slice accumulations per component (`faceToCellTable`)
    let tbls := (List.range shape.length).map fun a => faceToCellTable shape (fn u) pt a
    pure (showRats ((List.range (numCells shape)).flatMap fun c => tbls.map fun t => t.getD c 0))
  | "c2fq" :: mode :: kind :: rest => do
    -- full cell array: Fortran-flattened cell index, trailing component axes in C order
    let ((shape, arr), _) ← (do let s ← P.list P.nat; let q ← P.list P.rat; pure (s, q)).run rest
    let m ← (if mode = "arithmetic" then some AvgMode.arithmetic else if mode = "harmonic" then some AvgMode.harmonic else none)
    let k ← (if kind = "scalar" then some QKind.scalar else if kind = "vector" then some QKind.vector
             else if kind = "tensor" then some QKind.tensor else none)
    pure (" ".intercalate ((List.range (numFaces shape)).map fun f =>
      match cellToFaceQ shape m k (fn arr) f with | some v => showRat v | none => "nan"))
  | "c2fshape" :: rest => do
    -- dispatch on the trailing axes of cell_qty.shape
    let ((dim, tr), _) ← (do let d ← P.nat; let t ← P.list P.nat; pure (d, t)).run rest
    pure (match kindOf dim tr with
      | .ok .scalar => "scalar" | .ok .vector => "vector" | .ok .tensor => "tensor" | .error e => e.show)
  | ["c2fshapeok", _] => none
  | "c2fshapeok" :: rest => do
    let ((dim, tr), _) ← (do let d ← P.nat; let t ← P.list P.nat; pure (d, t)).run rest
    pure (match kindOf dim tr with | .ok _ => "accepted" | .error e => e.show)
  | ["massguard", mode, lump] => do
    let m := if mode = "cells" then MassMode.cells else if mode = "faces" then MassMode.faces else MassMode.other
    pure (match massGuard m (lump = "1") with | .ok _ => "ok" | .error e => e.show)
  | ["c2fmode", name] => do
    pure (match avgModeOf (name = "arithmetic") (name = "harmonic") with | .ok _ => "ok" | .error e => e.show)
  | "tang" :: rest => do
    let ((shape, u), _) ← (do let s ← P.list P.nat; let u ← P.list P.rat; pure (s, u)).run rest
    pure (sep ((List.range (shape.length - 1)).map fun i => showRats ((List.range (numFaces shape)).map (tang shape (fn u) i))))
  | "full" :: rest => do
    let ((shape, u), _) ← (do let s ← P.list P.nat; let u ← P.list P.rat; pure (s, u)).run rest
    pure (showRats ((List.range (numFaces shape)).flatMap fun f => (List.range shape.length).map (fullFlux shape (fn u) f)))
  | _ => none

def main : IO Unit := runDriver handle
