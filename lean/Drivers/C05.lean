/-
Line-protocol driver for C05 (transport cost).  `lake env lean --run Drivers/C05.lean < ops.txt`
-/
import DarsiaModel.Basic
import DarsiaModel.Transport
import DarsiaGen.TransportDispatch
open Darsia

def fn (l : List Rat) : Nat → Rat := fun k => l.getD k 0

def parseMethod : String → Option Gen.Transport.Method
  | "newton" => some .newton | "bregman" => some .bregman | "cv2emd" => some .cv2emd
  | "newtonCap" => some .newtonCap | "bregmanUpper" => some .bregmanUpper | "cv2emdUpper" => some .cv2emdUpper
  | "sinkhorn" => some .sinkhorn | "emd" => some .emd | "empty" => some .empty
  | _ => none

def showBackend : Gen.Transport.Backend → String
  | .newton => "newton" | .bregman => "bregman" | .emd => "emd"

def handle : List String → Option String
  | "thin" :: rest => do
    -- thin grid: shape, voxel sizes, axis a, quadrature weights, nodes (nq·dim numbers, node-major), mass difference f.
    -- response: thinB, feasibility of the prefix-sum flux, its flat values, its exact cost (|component a| = Euclidean norm)
    let ((shape, h, a, wq, pq, f), _) ← (do
      let s ← P.list P.nat; let h ← P.list P.rat; let a ← P.nat; let w ← P.list P.rat; let p ← P.list P.rat
      let f ← P.list P.rat; pure (s, h, a, w, p, f)).run rest
    let dim := shape.length
    let U := uniqueFluxThin shape h a (fn f)
    let ptq : Nat → List Rat := fun q => (List.range dim).map fun b => pq.getD (q * dim + b) 0
    let c := cost (normAxis a) shape h wq.length (fn wq) ptq (fun _ _ => 1) U
    pure (s!"{showBool (thinB shape a)} {showBool (feasibleB shape h (fn f) U)} | " ++
      showRats ((List.range (numFaces shape)).map U) ++ " | " ++ showRat c)
  | "cert" :: rest => do
    -- dual certificate: shape, voxel sizes, mass difference f, potential p (per cell), g (cell-major, dim per cell)
    let ((shape, h, f, p, g), _) ← (do
      let s ← P.list P.nat; let h ← P.list P.rat; let f ← P.list P.rat; let p ← P.list P.rat; let g ← P.list P.rat
      pure (s, h, f, p, g)).run rest
    let dim := shape.length
    let gf : Nat → Nat → Rat := fun c a => if a < dim then g.getD (c * dim + a) 0 else 0
    pure (s!"{showBool (certOK shape h (fn p) gf)} {showRat (certValue shape h (fn f) (fn p))}")
  | "certq" :: rest => do
    -- per-point dual certificate for the corner rule: shape, voxel sizes, f, p (per cell), g (cell-major, then corner, then axis)
    let ((shape, h, f, p, g), _) ← (do
      let s ← P.list P.nat; let h ← P.list P.rat; let f ← P.list P.rat; let p ← P.list P.rat; let g ← P.list P.rat
      pure (s, h, f, p, g)).run rest
    let dim := shape.length
    let nq := 2 ^ dim
    let gf : Nat → Nat → Nat → Rat := fun c q a => if a < dim ∧ q < nq then g.getD ((c * nq + q) * dim + a) 0 else 0
    pure (s!"{showBool (certRuleOK shape h nq (cornerW dim) (cornerPt dim) (fn p) gf)} {showRat (certValue shape h (fn f) (fn p))}")
  | ["cornerrule", dim] => do
    let d ← dim.toNat?
    pure (" | ".intercalate ((List.range (2 ^ d)).map fun q => showRats (cornerPt d q) ++ " : " ++ showRat (cornerW d q)))
  | "sig" :: rest => do
    -- signature of an image: R C dy dx, pixels row-major
    let ((r, c, dy, dx, a), _) ← (do
      let r ← P.nat; let c ← P.nat; let dy ← P.rat; let dx ← P.rat; let a ← P.list P.rat; pure (r, c, dy, dx, a)).run rest
    pure (" | ".intercalate ((sigOf r c dy dx (fn a)).map fun t => showRats [t.1, t.2.1, t.2.2]))
  | "emd" :: rest => do
    let ((v, dy, dx, dr, dc), _) ← (do
      let v ← P.rat; let dy ← P.rat; let dx ← P.rat; let dr ← P.int; let dc ← P.int; pure (v, dy, dx, dr, dc)).run rest
    pure (showRat (emdSingleSq v dy dx dr dc))
  | ["dispatch", m] => do
    let m ← parseMethod m
    pure (match Gen.Transport.dispatch m with | .ok b => showBackend b | .error e => e.show)
  | _ => none

def main : IO Unit := runDriver handle
