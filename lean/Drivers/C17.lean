/-
C17 driver: one program per line. `prog ; stmt ; stmt ...`; every statement yields a variable
(the address of the object it creates/returns). After each statement the state of all variables is
dumped in canonical form (values + object identities relabelled in first-occurrence order).
-/
import DarsiaModel.Basic
import DarsiaModel.Heap
import DarsiaGen.MulGuard
open Darsia Darsia.Heap

def showOR : Option Rat → String | none => "none" | some r => showRat r
def showORs (xs : List (Option Rat)) : String := " ".intercalate (xs.map showOR)

abbrev L := StateM (List Nat)
def lbl (a : Nat) : L String := do
  let seen ← get
  match seen.findIdx? (· == a) with
  | some i => pure (toString i)
  | none => set (seen ++ [a]); pure (toString seen.length)

def dumpArr (h : Heap) (a : Nat) : L String := do
  let owner := match h[a]? with | some (.view b _ _) => b | _ => a
  let l ← lbl owner
  match readArr h a with
  | .ok (s, d) => pure s!"a{l} {showNats s}|{showRats d}"
  | .error e => pure s!"a{l} {e.show}"

def dumpT (h : Heap) (tag : String) (a : Nat) : L String :=
  match h[a]? with
  | some (.tval x) => pure s!"{tag}- {showOR x}"
  | some (.tlist xs) => do let l ← lbl a; pure s!"{tag}{l} [{showORs xs}]"
  | _ => pure s!"{tag}?"

def dumpNums (h : Heap) (tag : String) (a : Nat) : L String := do
  let l ← lbl a
  match h[a]? with
  | some (.nums xs) => pure s!"{tag}{l} {showRats xs}"
  | _ => pure s!"{tag}{l} ?"

def dumpVar (h : Heap) (a : Nat) : L String := do
  match h[a]? with
  | some (.img r) =>
    let o ← lbl a
    let sa ← dumpArr h r.arr
    let sd ← dumpNums h "d" r.dims
    let so ← dumpNums h "o" r.origin
    let sD ← dumpT h "D" r.date
    let sT ← dumpT h "T" r.time
    pure s!"I{o}[{sa} {sd} {so} {sD} {sT} s{showBool r.series} c{showBool r.scalar} n{r.timeNum}]"
  | some (.nums _) => dumpNums h "L" a
  | some (.arr _ _) | some (.view _ _ _) => dumpArr h a
  | some (.tval _) | some (.tlist _) => dumpT h "T" a
  | some (.objs rs) => do
    let l ← lbl a
    let ms ← rs.mapM lbl
    pure s!"O{l}({" ".intercalate ms})"
  | none => pure "?"

def dump (h : Heap) (vars : List Nat) : String :=
  let (ss, _) := (vars.mapM (dumpVar h)).run []
  " ".intercalate ss

def parseTag : String → Option TyTag
  | "int" => some .int | "float" => some .float | "bool" => some .bool
  | "npFloat64" => some .npFloat64 | "npFloat32" => some .npFloat32 | "npInt64" => some .npInt64
  | "npUint8" => some .npUint8 | "str" => some .str | "none" => some .none | _ => none

def parseCmp : String → Option Cmp
  | "lt" => some .lt | "gt" => some .gt | "eq" => some .eq | "le" => some .le | "ge" => some .ge | _ => none

/-- variable reference -/
def pvar (vars : List Nat) : P Nat := do
  let i ← P.nat
  match vars[i]? with | some a => pure a | none => failure

inductive Stmt
  | alloc (v : Val)
  | op (o : Op)
  | append (s i : Nat) (off : Option Rat)
  | wpix (s : Nat) (vals : List Rat)
  | rebind (s : Nat) (shape : List Nat) (vals : List Rat)

def pstmt (vars : List Nat) : P Stmt := do
  let t ← P.tok
  match t with
  | "arr" => do let s ← P.list P.nat; let d ← P.list P.rat; pure (.alloc (.arr s d))
  | "nums" => do let d ← P.list P.rat; pure (.alloc (.nums d))
  | "tv" => do let x ← P.opt P.rat; pure (.alloc (.tval x))
  | "tl" => do let xs ← P.list (P.opt P.rat); pure (.alloc (.tlist xs))
  | "objs" => do let xs ← P.list (pvar vars); pure (.alloc (.objs xs))
  | "ctor" => do
    let arr ← pvar vars; let sd ← P.nat
    let dims ← P.opt (pvar vars)
    let hh ← P.opt P.rat; let w ← P.opt P.rat; let d ← P.opt P.rat
    let origin ← P.opt (pvar vars)
    let defO ← P.list P.rat
    let series ← P.bool; let scalar ← P.bool
    let date ← P.opt (pvar vars)
    let refDate ← P.opt P.rat
    let time ← P.opt (pvar vars)
    pure (.op (.ctor {
      arr := arr, spaceDim := sd, dims := dims, height := hh, width := w, depth := d,
      origin := origin, defOrigin := defO, series := series, scalar := scalar, date := date,
      refDate := refDate, time := time }))
  | "copy" => do let a ← pvar vars; pure (.op (.copy a))
  | "add" => do let a ← pvar vars; let b ← pvar vars; pure (.op (.add a b))
  | "sub" => do let a ← pvar vars; let b ← pvar vars; pure (.op (.sub a b))
  | "mul" => do
    let a ← pvar vars; let tg ← P.tok; let s ← P.rat
    match parseTag tg with | some tg => pure (.op (.mul a tg s)) | none => failure
  | "cmpi" => do
    let k ← P.tok; let a ← pvar vars; let b ← pvar vars
    match parseCmp k with | some k => pure (.op (.cmpImg k a b)) | none => failure
  | "cmpn" => do
    let k ← P.tok; let a ← pvar vars; let s ← P.rat
    match parseCmp k with | some k => pure (.op (.cmpNum k a s)) | none => failure
  | "astype" => do let a ← pvar vars; pure (.op (.astype a))
  | "tslice" => do let a ← pvar vars; let i ← P.nat; pure (.op (.timeSlice a i))
  | "tint" => do let a ← pvar vars; let lo ← P.nat; let hi ← P.nat; pure (.op (.timeInterval a lo hi))
  | "subreg" => do
    let a ← pvar vars
    let rs ← P.list (do let lo ← P.nat; let hi ← P.nat; pure (lo, hi))
    let nd ← P.list P.rat; let no ← P.list P.rat
    pure (.op (.subregion a rs nd no))
  | "wnum" => do let a ← pvar vars; let w ← P.rat; pure (.op (.weightNum a w))
  | "wimg" => do let a ← pvar vars; let w ← pvar vars; let rz ← P.list P.rat; pure (.op (.weightImg a w rz))
  | "stack" => do let l ← pvar vars; pure (.op (.stack l))
  | "append" => do let s ← pvar vars; let i ← pvar vars; let off ← P.opt P.rat; pure (.append s i off)
  | "wpix" => do let s ← pvar vars; let vs ← P.list P.rat; pure (.wpix s vs)
  | "rebind" => do let s ← pvar vars; let sh ← P.list P.nat; let vs ← P.list P.rat; pure (.rebind s sh vs)
  | "crebind" => do let a ← pvar vars; let sh ← P.list P.nat; let vs ← P.list P.rat; pure (.op (.copyRebind a sh vs))
  | "derive" => do let a ← pvar vars; let sh ← P.list P.nat; let vs ← P.list P.rat; pure (.op (.derive a sh vs))
  | "aclass" => do let a ← pvar vars; let fs ← P.bool; pure (.op (.astypeClass a fs))
  | "tomono" => do let a ← pvar vars; let k ← P.opt P.nat; let cv ← P.list P.rat; pure (.op (.toMono a k cv))
  | "reduce" => do
    let a ← pvar vars; let ax ← P.nat; let sh ← P.list P.nat; let vs ← P.list P.rat; let no ← P.list P.rat
    pure (.op (.reduceAxis a ax sh vs no))
  | "extrude" => do
    let a ← pvar vars; let ht ← P.rat; let num ← P.nat; let no ← P.list P.rat
    pure (.op (.extrude a ht num no))
  | "superpose" => do
    let l ← pvar vars; let sh ← P.list P.nat; let vs ← P.list P.rat; let nd ← P.list P.rat; let no ← P.list P.rat
    pure (.op (.superpose l sh vs nd no))
  | "measure" => do let args ← P.list (pvar vars); let v ← P.rat; pure (.op (.measure args v))
  | "arrmap" => do let a ← pvar vars; let vs ← P.list P.rat; pure (.op (.arrMap a vs))
  | _ => failure

partial def splitStmts : List String → List (List String)
  | [] => []
  | ts =>
    let st := ts.takeWhile (· ≠ ";")
    let rest := (ts.dropWhile (· ≠ ";")).drop 1
    if st.isEmpty then splitStmts rest else st :: splitStmts rest


partial def runProg (h : Heap) (vars : List Nat) (acc : List String) : List (List String) → List String
  | [] => acc
  | st :: rest =>
    match (pstmt vars).run st with
    | none => acc ++ ["!bad-statement"]
    | some (s, _) =>
      match s with
      | .alloc v =>
        let h1 := h ++ [v]; let vars1 := vars ++ [h.length]
        runProg h1 vars1 (acc ++ [dump h1 vars1]) rest
      | .op o =>
        match step Gen.mulGuard h o with
        | .ok (h1, r) => let vars1 := vars ++ [r]; runProg h1 vars1 (acc ++ [dump h1 vars1]) rest
        | .error e => acc ++ [e.show ++ " " ++ dump h vars]
      | .append s i off =>
        match Heap.append h s i off with
        | .ok h1 => let vars1 := vars ++ [s]; runProg h1 vars1 (acc ++ [dump h1 vars1]) rest
        | .error e => acc ++ [e.show ++ " " ++ dump h vars]
      | .wpix s vs =>
        match Heap.writePixels h s vs with
        | .ok h1 => let vars1 := vars ++ [s]; runProg h1 vars1 (acc ++ [dump h1 vars1]) rest
        | .error e => acc ++ [e.show ++ " " ++ dump h vars]
      | .rebind s sh vs =>
        match Heap.rebindImg h s sh vs with
        | .ok h1 => let vars1 := vars ++ [s]; runProg h1 vars1 (acc ++ [dump h1 vars1]) rest
        | .error e => acc ++ [e.show ++ " " ++ dump h vars]

def dispatch : List String → Option String
  | "prog" :: rest => some (" # ".intercalate (runProg [] [] [] (splitStmts rest)))
  | _ => none

def main : IO Unit := runDriver dispatch
