/-
C15 — every quadrature rule is exact to its nominal degree.

`DarsiaGen.QuadratureTables` is extracted from `darsia/utils/quadrature.py` on every check (G2; the
extraction is validated numerically against the running `gauss`). The two `…_obligations` theorems are
evaluated by the kernel on the current tables; everything else follows from the soundness theorems of
`DarsiaProofs.Quadrature*`, which are about real numbers (`np.sqrt` ↦ `Real.sqrt`).
-/
import DarsiaProofs.QuadratureConsumer
import DarsiaGen.QuadratureTables
namespace Darsia.C15
open Darsia Darsia.Quad

/-- One obligation per accepted `(dim, order)`: the 1-D rule of that order has `order+1` nodes, positive
weights, is symmetric and has exact even moments in ℚ(√d); the `dim`-D table is a permutation of its
product grid with product weights. -/
theorem table_obligations : ∀ p ∈ Gen.accepted, checkTable Gen.rule p = true := by decide +kernel

/-- `reference_cell_corners(dim)` is a permutation of `{0,1}^dim` with weights `2^-dim`. -/
theorem corner_obligations : ∀ dim ∈ Gen.cornerDims, checkCorners Gen.corners dim = true := by
  decide +kernel

/-- `"max"` resolves, in every dimension that has a table at all, to an order that has a table. -/
theorem max_alias : ∀ p ∈ Gen.accepted, ∃ o, Gen.maxOrder p.1 = some o ∧ (p.1, o) ∈ Gen.accepted := by
  decide

/-- **the rejected part of the API**: on the whole probed range (dims 0..4, orders 0..6) the extracted table
accepts exactly the pairs the running `gauss` accepts and rejects exactly the pairs it rejects, with the same
error class; every accepted pair lies in the probed range and returns as many points / weights as the table
lists. A pair that becomes accepted (like an unfinished `(3, 3)` branch) therefore either enters `Gen.accepted`
— and must pass `table_obligations` — or breaks this obligation. -/
theorem rejected_pairs_raise :
    (∀ e ∈ Gen.observedRaise, apiShape (Gen.rule e.1 e.2.1) = .error e.2.2 ∧ (e.1, e.2.1) ∉ Gen.accepted) ∧
    (∀ p ∈ Gen.probed, p ∈ Gen.accepted ∨ ∃ e ∈ Gen.observedRaise, (e.1, e.2.1) = p) ∧
    (∀ p ∈ Gen.accepted, p ∈ Gen.probed) ∧
    (∀ e ∈ Gen.observedAccept, (e.1, e.2.1) ∈ Gen.accepted ∧
      apiShape (Gen.rule e.1 e.2.1) = .ok (e.2.2.1, e.2.2.2)) := by
  decide

/-- **C15 on `[-1,1]^dim`.** For every `(dim, order)` the API accepts: as many weights as points,
`(order+1)^dim` points, positive weights summing to `2^dim`, and every monomial of per-variable degree
`≤ 2(order+1)−1` is integrated exactly (`GaussSpec`, spelled out in `gauss_integrates_monomials`). -/
theorem gauss_exact : ∀ p ∈ Gen.accepted, ∃ r, Gen.rule p.1 p.2 = .ok r ∧ GaussSpec r p.1 (p.2 + 1) := by
  intro p hp
  obtain ⟨r, hr, hs, _⟩ := checkTable_sound (table_obligations p hp)
  exact ⟨r, hr, hs⟩

/-- the exactness clause of `gauss_exact` written out -/
theorem gauss_integrates_monomials : ∀ p ∈ Gen.accepted, ∃ r, Gen.rule p.1 p.2 = .ok r ∧
    ∀ es : List ℕ, es.length = p.1 → (∀ e ∈ es, e ≤ 2 * p.2 + 1) →
      (r.real.map fun pw => pw.2 * monoEval es pw.1).sum
        = (es.map fun k => ∫ x in (-1 : ℝ)..1, x ^ k).prod := by
  intro p hp
  obtain ⟨r, hr, hs⟩ := gauss_exact p hp
  exact ⟨r, hr, fun es h1 h2 => hs.exact es h1 (fun e he => by have := h2 e he; omega)⟩

/-- **every polynomial** of per-variable degree `≤ 2(order+1)−1`, given by its terms
`(coefficient, exponents)`, is integrated to its term-wise integral `Σ c·Π ∫_{-1}^{1} x^{e_j}`
(which is the iterated integral over the square / cube, see `monomial_integral_2d/3d`). -/
theorem gauss_integrates_polynomials : ∀ p ∈ Gen.accepted, ∃ r, Gen.rule p.1 p.2 = .ok r ∧
    ∀ terms : List (ℝ × List ℕ), (∀ c ∈ terms, c.2.length = p.1 ∧ ∀ e ∈ c.2, e ≤ 2 * p.2 + 1) →
      (r.real.map fun pw => pw.2 * polyEval terms pw.1).sum
        = (terms.map fun c => c.1 * (c.2.map fun k => ∫ x in (-1 : ℝ)..1, x ^ k).prod).sum := by
  intro p hp
  obtain ⟨r, hr, hs⟩ := gauss_exact p hp
  refine ⟨r, hr, fun terms ht => exact_polyN hs.exact terms (fun c hc => ?_)⟩
  exact ⟨(ht c hc).1, fun e he => by have := (ht c hc).2 e he; omega⟩

/-- **d = 2, one object**: for every polynomial `P` of per-variable degree `≤ 2(order+1)−1` (given by its
terms), the rule applied to `P` is the iterated integral of `P` over the square — on `[-1,1]²` for `gauss`
and on `[0,1]²` for `gauss_reference_cell`. -/
theorem gauss_exact_polynomials_2d : ∀ p ∈ Gen.accepted, p.1 = 2 → ∃ r, Gen.rule 2 p.2 = .ok r ∧
    ∀ terms : List (ℝ × List ℕ), (∀ c ∈ terms, c.2.length = 2 ∧ ∀ e ∈ c.2, e ≤ 2 * p.2 + 1) →
      (r.real.map fun pw => pw.2 * polyEval terms pw.1).sum
          = ∫ x in (-1 : ℝ)..1, ∫ y in (-1 : ℝ)..1, polyEval terms [x, y] ∧
      (r.toUnitCell.real.map fun pw => pw.2 * polyEval terms pw.1).sum
          = ∫ x in (0 : ℝ)..1, ∫ y in (0 : ℝ)..1, polyEval terms [x, y] := by
  intro p hp h2
  obtain ⟨d, o⟩ := p
  simp only at h2; subst h2
  obtain ⟨r, hr, hs, hu⟩ := checkTable_sound (table_obligations (2, o) hp)
  refine ⟨r, hr, fun terms ht => ?_⟩
  have hdeg : ∀ c ∈ terms, c.2.length = 2 ∧ ∀ e ∈ c.2, e ≤ 2 * (o + 1) - 1 :=
    fun c hc => ⟨(ht c hc).1, fun e he => by have := (ht c hc).2 e he; omega⟩
  rw [integral_polyEval_2d terms (fun c hc => (ht c hc).1), integral_polyEval_2d terms (fun c hc => (ht c hc).1)]
  exact ⟨exact_polyN hs.exact terms hdeg, exact_polyN hu.exact terms hdeg⟩

/-- **d = 3, one object** -/
theorem gauss_exact_polynomials_3d : ∀ p ∈ Gen.accepted, p.1 = 3 → ∃ r, Gen.rule 3 p.2 = .ok r ∧
    ∀ terms : List (ℝ × List ℕ), (∀ c ∈ terms, c.2.length = 3 ∧ ∀ e ∈ c.2, e ≤ 2 * p.2 + 1) →
      (r.real.map fun pw => pw.2 * polyEval terms pw.1).sum
          = ∫ x in (-1 : ℝ)..1, ∫ y in (-1 : ℝ)..1, ∫ z in (-1 : ℝ)..1, polyEval terms [x, y, z] ∧
      (r.toUnitCell.real.map fun pw => pw.2 * polyEval terms pw.1).sum
          = ∫ x in (0 : ℝ)..1, ∫ y in (0 : ℝ)..1, ∫ z in (0 : ℝ)..1, polyEval terms [x, y, z] := by
  intro p hp h3
  obtain ⟨d, o⟩ := p
  simp only at h3; subst h3
  obtain ⟨r, hr, hs, hu⟩ := checkTable_sound (table_obligations (3, o) hp)
  refine ⟨r, hr, fun terms ht => ?_⟩
  have hdeg : ∀ c ∈ terms, c.2.length = 3 ∧ ∀ e ∈ c.2, e ≤ 2 * (o + 1) - 1 :=
    fun c hc => ⟨(ht c hc).1, fun e he => by have := (ht c hc).2 e he; omega⟩
  rw [integral_polyEval_3d terms (fun c hc => (ht c hc).1), integral_polyEval_3d terms (fun c hc => (ht c hc).1)]
  exact ⟨exact_polyN hs.exact terms hdeg, exact_polyN hu.exact terms hdeg⟩

/-- the product of 1-D integrals used above is the iterated integral of the monomial (2-D, 3-D) -/
theorem monomial_integral_2d (i j : ℕ) :
    ∫ x in (-1 : ℝ)..1, ∫ y in (-1 : ℝ)..1, x ^ i * y ^ j
      = ([i, j].map fun k => ∫ x in (-1 : ℝ)..1, x ^ k).prod := by
  rw [iterated_integral_2d]; simp only [List.map_cons, List.map_nil, List.prod_cons, List.prod_nil, mul_one]

theorem monomial_integral_3d (i j k : ℕ) :
    ∫ x in (-1 : ℝ)..1, ∫ y in (-1 : ℝ)..1, ∫ z in (-1 : ℝ)..1, x ^ i * y ^ j * z ^ k
      = ([i, j, k].map fun n => ∫ x in (-1 : ℝ)..1, x ^ n).prod := by
  rw [iterated_integral_3d]; simp only [List.map_cons, List.map_nil, List.prod_cons, List.prod_nil, mul_one]

/-- the default / symbolic order `"max"` is one of the proved rules -/
theorem gauss_max_exact : ∀ p ∈ Gen.accepted, ∃ o r, Gen.maxOrder p.1 = some o ∧
    gaussM Gen.maxOrder Gen.rule p.1 .max = .ok r ∧ GaussSpec r p.1 (o + 1) := by
  intro p hp
  obtain ⟨o, ho, hacc⟩ := max_alias p hp
  obtain ⟨r, hr, hs⟩ := gauss_exact (p.1, o) hacc
  exact ⟨o, r, ho, by simp only [gaussM, ho]; exact hr, hs⟩

/-- **1-D, all polynomials.** The 1-D rule of order `o` integrates every real polynomial of degree
`≤ 2o+1` exactly against the interval integral over `[-1,1]`. -/
theorem gauss1d_polynomials : ∀ p ∈ Gen.accepted, p.1 = 1 → ∃ r l, Gen.rule 1 p.2 = .ok r ∧
    r.real = l.map (fun xw => ([xw.1], xw.2)) ∧
    ∀ q : Polynomial ℝ, q.natDegree ≤ 2 * p.2 + 1 → quad1 l q = ∫ x in (-1 : ℝ)..1, q.eval x := by
  intro p hp h1
  obtain ⟨d, o⟩ := p
  simp only at h1; subst h1
  exact checkTable_sound_poly (table_obligations (1, o) hp)

/-- **C15 on the unit cell** (`gauss_reference_cell`): weights positive, summing to 1, exact for the
same monomials on `[0,1]^dim`. -/
theorem gauss_reference_cell_exact : ∀ p ∈ Gen.accepted, ∃ r, Gen.rule p.1 p.2 = .ok r ∧
    UnitSpec r p.1 (p.2 + 1) := by
  intro p hp
  obtain ⟨r, hr, _, hu⟩ := checkTable_sound (table_obligations p hp)
  exact ⟨r, hr, hu⟩

/-- **corner rule**: `2^dim` corners, weights positive summing to 1, every multilinear monomial
integrated exactly over `[0,1]^dim`. -/
theorem corner_rule_multilinear : ∀ dim ∈ Gen.cornerDims, ∃ r, Gen.corners dim = .ok r ∧ CornerSpec r dim :=
  fun dim hd => checkCorners_sound (corner_obligations dim hd)

/-! ### the consumer: `transport_density` / `l1_dissipation` (wasserstein.py) -/

/-- the unit-cell rule of every accepted `(dim, order)` has what a consumer needs: non-negative weights
summing to 1, `dim` coordinates per point, centroid at the cell centre (exported for C05) -/
theorem unit_cell_rule_facts : ∀ p ∈ Gen.accepted, ∃ r, Gen.rule p.1 p.2 = .ok r ∧
    UnitRuleFacts r.toUnitCell.real p.1 := by
  intro p hp
  obtain ⟨r, hr, hu⟩ := gauss_reference_cell_exact p hp
  exact ⟨r, hr, hu.facts (by omega)⟩

/-- … and so has the corner rule -/
theorem corner_rule_facts : ∀ dim ∈ Gen.cornerDims, ∃ r, Gen.corners dim = .ok r ∧ UnitRuleFacts r.real dim := by
  intro dim hd
  obtain ⟨r, hr, hc⟩ := corner_rule_multilinear dim hd
  exact ⟨r, hr, hc.facts⟩

/-- every L1 mode's quadrature call (extracted from `transport_density`) resolves to a proved rule -/
theorem l1_obligation : checkL1 Gen.accepted Gen.cornerDims Gen.l1Source = true := by decide

/-- **the rule `transport_density` sums over, in every L1 mode and every dimension with tables**, has the
consumer facts. -/
theorem l1_rule_facts : ∀ mode ∈ L1Mode.all, ∀ p ∈ Gen.accepted,
    ∃ r, l1Rule Gen.maxOrder Gen.rule Gen.corners Gen.l1Source mode p.1 = .ok r ∧ UnitRuleFacts r.real p.1 := by
  intro mode hmode p hp
  have hc := l1_obligation
  simp only [checkL1, List.all_eq_true] at hc
  have h := hc mode hmode p hp
  unfold l1Rule
  cases hs : Gen.l1Source mode with
  | error e => simp [hs] at h
  | ok src =>
    cases src with
    | corners =>
      simp only [hs, decide_eq_true_eq] at h
      obtain ⟨r, hr, hf⟩ := corner_rule_facts p.1 h
      exact ⟨r, hr, hf⟩
    | cell o =>
      cases o with
      | n k =>
        simp only [hs, decide_eq_true_eq] at h
        obtain ⟨r, hr, hf⟩ := unit_cell_rule_facts (p.1, k) h
        exact ⟨r.toUnitCell, by simp only [gaussM]; rw [hr]; rfl, hf⟩
      | max =>
        obtain ⟨o, ho, hacc⟩ := max_alias p hp
        obtain ⟨r, hr, hf⟩ := unit_cell_rule_facts (p.1, o) hacc
        exact ⟨r.toUnitCell, by simp only [gaussM, ho]; rw [hr]; rfl, hf⟩

/-- **exact for the components of a cell-wise affine flux**: the rule of every L1 mode returns, for each
component `c0 + Σ_j c_j p_j`, its value at the cell centre (= its mean over the cell). -/
theorem transport_quadrature_affine_exact : ∀ mode ∈ L1Mode.all, ∀ p ∈ Gen.accepted,
    ∃ r, l1Rule Gen.maxOrder Gen.rule Gen.corners Gen.l1Source mode p.1 = .ok r ∧
      ∀ (c0 : ℝ) (c : ℕ → ℝ), (r.real.map fun pw => pw.2 * (c0 + ∑ j ∈ Finset.range p.1, c j * pw.1.getD j 0)).sum
        = c0 + ∑ j ∈ Finset.range p.1, c j * (1 / 2) := by
  intro mode hmode p hp
  obtain ⟨r, hr, hf⟩ := l1_rule_facts mode hmode p hp
  exact ⟨r, hr, fun c0 c => quad_affine hf c0 c p.1 le_rfl⟩

/-- **‖mean flux‖ ≤ transport density** for every seminorm, every L1 mode and every flux that is affine in the
cell (RT0 reconstruction, with or without cell weights): the hypothesis of C05's first-moment bound. -/
theorem transport_density_ge_mean : ∀ mode ∈ L1Mode.all, ∀ p ∈ Gen.accepted,
    ∃ r, l1Rule Gen.maxOrder Gen.rule Gen.corners Gen.l1Source mode p.1 = .ok r ∧
      ∀ (N : (ℕ → ℝ) → ℝ), IsSeminormR N → ∀ flux, IsAffineFlux p.1 flux →
        N (flux (List.replicate p.1 (1 / 2))) ≤ density N r.real flux := by
  intro mode hmode p hp
  obtain ⟨r, hr, hf⟩ := l1_rule_facts mode hmode p hp
  exact ⟨r, hr, fun N hN flux ha => norm_mean_le_density hN hf ha⟩

/-- the same on the exact ℚ model of `transport_density` (DarsiaModel.Transport): any rule with
non-negative weights summing to 1 and centroid `mid` -/
theorem transport_density_ge_mean_rat {N : (Nat → Rat) → Rat} (hN : IsSeminorm N) (shape : List Nat) (nq : Nat)
    (wq : Nat → Rat) (ptq : Nat → List Rat) (wgt : List Nat → Nat → Rat) (U : Nat → Rat) (c : Nat)
    (mid : List Rat) (hw : ∀ q, q < nq → 0 ≤ wq q) (h0 : sumTo nq wq = 1)
    (hmom : ∀ a, sumTo nq (fun q => wq q * (ptq q).getD a 0) = mid.getD a 0) :
    N (cellVec shape U wgt mid (decF shape c)) ≤ transportDensity N shape nq wq ptq wgt U c :=
  mean_le_transportDensity hN shape nq wq ptq wgt U c mid hw h0 hmom

/-! ### the general theorems the obligations rest on (any table, any dimension) -/

/-- soundness of the normaliser w.r.t. real numbers -/
theorem normaliser_sound (d : ℕ) (e : QExpr) (v : Val) (h : evalN d e = some v) :
    0 ≤ v.q.toReal d ∧ evalR e = v.c.toReal d * Real.sqrt (v.q.toReal d) := evalN_sound d e v h

/-- `check1d r n = true → ∀ k ≤ 2n−1, Σ wᵢ xᵢ^k = ∫_{-1}^{1} x^k` (plus lengths, positivity) -/
theorem exact_of_check1d (r : Rule) (n : ℕ) (h : check1d r n = true) :
    ∃ l : List (ℝ × ℝ), r.real = l.map (fun xw => ([xw.1], xw.2)) ∧ l.length = n ∧ (∀ xw ∈ l, 0 < xw.2) ∧
      ∀ k ≤ 2 * n - 1, mom l k = ∫ x in (-1 : ℝ)..1, x ^ k := by
  obtain ⟨l, s⟩ := check1d_sound h
  exact ⟨l, s.real, s.npts, s.pos, fun k hk => by
    rw [← refMoment_eq_integral]; exact s.moments k (by have := s.npos; omega)⟩

/-- a 1-D rule exact to degree `m` ⇒ every permutation of its product grid is exact for per-variable
degree `≤ m`, in every dimension -/
theorem tensor_exact_any (l : List (ℝ × ℝ)) (m : ℕ) (I : ℕ → ℝ) (h1 : ∀ k ≤ m, mom l k = I k)
    (t : List (List ℝ × ℝ)) (dim : ℕ) (hp : t.Perm (tensorR l dim)) : ExactOn t dim m I :=
  tensor_exact h1 hp

/-- the affine map to the unit cell with renormalised weights keeps exactness -/
theorem unit_cell_map (l : List (ℝ × ℝ)) (m : ℕ) (h1 : ∀ k ≤ m, mom l k = ∫ x in (-1 : ℝ)..1, x ^ k)
    (t : List (List ℝ × ℝ)) (dim : ℕ) (hp : t.Perm (tensorR l dim)) :
    ExactOn (unitMapN (2 ^ dim) t) dim m (fun k => ∫ x in (0 : ℝ)..1, x ^ k) :=
  unit_cell_exact h1 hp

/-! ### non-vacuity -/

/-- the accepted set is not empty and contains the nested-radical rules -/
example : (1, 4) ∈ Gen.accepted ∧ (2, 3) ∈ Gen.accepted ∧ (3, 2) ∈ Gen.accepted := by decide
/-- the checker rejects a wrong table: 1-D weights used in 2-D (the shape of the former (2,3) defect) -/
example : checkTensor Gen.rule_1_1 ⟨1, Gen.rule_2_1.pts, [.rat 1, .rat 1, .rat 1, .rat 2]⟩ 2 = false := by
  decide +kernel
/-- … and a rule with too few nodes for the claimed degree -/
example : check1d Gen.rule_1_1 3 = false := by decide +kernel
/-- the normaliser handles a nested radical: `√(3/7 + 2/7·√(6/5)) = 1·√(3/7 + (2/35)√30)` -/
example : evalN 30 (.sqrt (.add (.rat (3 / 7)) (.mul (.rat (2 / 7)) (.sqrt (.rat (6 / 5))))))
    = some ⟨⟨1, 0⟩, ⟨3 / 7, 2 / 35⟩⟩ := by decide +kernel

end Darsia.C15
