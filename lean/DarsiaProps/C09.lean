/-
C09 — coordinate transformations are invertible and move voxels exactly.

Affine part: over an arbitrary commutative ring / field `α`; an angle is a pair (c, s) with c·c + s·s = 1
(over ℝ: (cos θ, sin θ)), so the statements hold for every real parameter choice, not for samples.
Warp part: over ℚ (exact arithmetic of the pull-back through voxel centres), for every shape, every
voxel size ≠ 0, every origin, every destination voxel.

What is NOT proved here and only observed by the check: that scipy's `Rotation.from_rotvec(..).as_matrix()`
produces the elementary matrices `elem`/`rot2` (compared entrywise at 1e-12), float rounding of the
implementation (measured), numpy fancy-index assignment in `correct_array`, the Powell `fit`.
-/
import DarsiaModel.Affine
import DarsiaModel.Warp
import DarsiaProofs.Affine
import DarsiaProofs.Warp
import DarsiaGen.PointRounding
import DarsiaModel.Corrections
import DarsiaProofs.Corrections
import DarsiaProofs.Floor
import DarsiaModel.GenPerspective
namespace Darsia.C09
open Darsia.Affine Darsia.Warp

variable {α : Type}

/-! ## rotation pair built by `set_parameters` / `RotationCorrection.__init__` -/

/-- 3-D, any number of factors, any axes and flips, any angles: the separately accumulated `rotation_inv`
is a two-sided inverse of `rotation`. -/
theorem rot_mul_inv_3d [CommRing α] (fs : List (Factor α)) (h : UnitAngles fs) :
    M3.mul (rotation fs) (rotationInv fs) = M3.one ∧ M3.mul (rotationInv fs) (rotation fs) = M3.one := by
  rw [rotation_eq_rec, rotationInv_eq_rec]
  exact ⟨rotRec_mul_inv fs h, rotInvRec_mul fs h⟩

/-- `rotation_inv` is the transpose of `rotation` (no hypothesis on the angles needed). -/
theorem rotInv_eq_transpose_3d [CommRing α] (fs : List (Factor α)) :
    rotationInv fs = (rotation fs).transpose := by
  rw [rotation_eq_rec, rotationInv_eq_rec, rotInvRec_eq_transpose]

/-- the rotation part is orthonormal: R·Rᵀ = I and Rᵀ·R = I. -/
theorem rot_orthonormal_3d [CommRing α] (fs : List (Factor α)) (h : UnitAngles fs) :
    M3.mul (rotation fs) (rotation fs).transpose = M3.one ∧
    M3.mul (rotation fs).transpose (rotation fs) = M3.one := by
  rw [← rotInv_eq_transpose_3d]; exact rot_mul_inv_3d fs h

/-- … with determinant one, for any three (or more) angles. -/
theorem rot_det_one_3d [CommRing α] (fs : List (Factor α)) (h : UnitAngles fs) :
    (rotation fs).det = 1 := by
  rw [rotation_eq_rec]; exact rotRec_det fs h

/-- 2-D: inverse pair, transpose, orthonormal, determinant one. -/
theorem rot_2d [CommRing α] (c s : α) (h : c * c + s * s = 1) :
    M2.mul (rot2 c s) (rot2Inv c s) = M2.one ∧ M2.mul (rot2Inv c s) (rot2 c s) = M2.one ∧
    rot2Inv c s = (rot2 c s).transpose ∧ (rot2 c s).det = 1 := by
  refine ⟨(rot2_mul_inv c s h).1, (rot2_mul_inv c s h).2, ?_, ?_⟩
  · ext <;> simp [rot2, rot2Inv, M2.transpose]
  · simp only [M2.det, rot2]; linear_combination h

/-- DEFECT of the unfixed tree, as a theorem: accumulating the inverse factors in the *same* order as the
forward ones (`rotation_inv = rotation_inv @ E'`) is not an inverse as soon as two angles are non-zero.
Witness: angles 2·atan(1/2) about x and 2·atan(1/3) about y. -/
theorem same_order_not_inverse :
    ∃ fs : List (Factor Rat), (∀ f ∈ fs, f.c * f.c + f.s * f.s = 1) ∧
      M3.mul (rotation fs) (rotInvSameOrder fs) ≠ M3.one :=
  ⟨[⟨.a0, false, cosT (1/2), sinT (1/2)⟩, ⟨.a1, false, cosT (1/3), sinT (1/3)⟩],
    by decide +kernel, by decide +kernel⟩

/-- … whereas with a single factor the order cannot matter (why the existing single-angle uses were fine). -/
theorem same_order_single_ok [CommRing α] (f : Factor α) (h : f.c * f.c + f.s * f.s = 1) :
    M3.mul (rotation [f]) (rotInvSameOrder [f]) = M3.one := by
  simp only [rotation, rotationLoop, rotInvSameOrder, List.foldl_cons, List.foldl_nil, M3.one_mul]
  exact Factor.fwd_mul_inv f h

/-! ## forward / inverse evaluation -/

/-- inverse ∘ call = id (3-D), guard: scaling ≠ 0. -/
theorem inv_call_3d [Field α] (t : V3 α) (σ : α) (fs : List (Factor α)) (hσ : σ ≠ 0) (h : UnitAngles fs)
    (x : V3 α) : (Affine3.mk' t σ fs).inverse ((Affine3.mk' t σ fs).call x) = x :=
  inverse_call3 _ _ (rot_mul_inv_3d fs h).2 t x σ hσ

/-- call ∘ inverse = id (3-D), guard: scaling ≠ 0. -/
theorem call_inv_3d [Field α] (t : V3 α) (σ : α) (fs : List (Factor α)) (hσ : σ ≠ 0) (h : UnitAngles fs)
    (y : V3 α) : (Affine3.mk' t σ fs).call ((Affine3.mk' t σ fs).inverse y) = y :=
  call_inverse3 _ _ (rot_mul_inv_3d fs h).1 t y σ hσ

theorem inv_call_2d [Field α] (t : V2 α) (σ c s : α) (hσ : σ ≠ 0) (h : c * c + s * s = 1) (x : V2 α) :
    (Affine2.mk' t σ c s).inverse ((Affine2.mk' t σ c s).call x) = x :=
  inverse_call2 _ _ (rot2_mul_inv c s h).2 t x σ hσ

theorem call_inv_2d [Field α] (t : V2 α) (σ c s : α) (hσ : σ ≠ 0) (h : c * c + s * s = 1) (y : V2 α) :
    (Affine2.mk' t σ c s).call ((Affine2.mk' t σ c s).inverse y) = y :=
  call_inverse2 _ _ (rot2_mul_inv c s h).1 t y σ hσ

/-- scaling and translation act as documented: without rotation the map is x ↦ t + σ·x, the origin goes to
the translation vector … -/
theorem scaling_translation_act [CommRing α] [Div α] (t x : V3 α) (σ : α) :
    (Affine3.mk' t σ []).call x = V3.add t (V3.smul σ x) ∧
    (Affine3.mk' t σ []).call ⟨0, 0, 0⟩ = t := by
  constructor
  · simp only [Affine3.call, Affine3.mk', rotation, rotationLoop, List.foldl_nil, M3.one_mulVec]
  · ext <;> simp [Affine3.call, Affine3.mk', rotation, rotationLoop, M3.mulVec, M3.one, V3.add, V3.smul]

/-- … and with any rotation, squared distances are multiplied by scaling² (angles are conserved). -/
theorem call_scales_distances_3d [CommRing α] [Div α] (t : V3 α) (σ : α) (fs : List (Factor α))
    (h : UnitAngles fs) (x y : V3 α) :
    let T := Affine3.mk' t σ fs
    V3.dot (V3.sub (T.call x) (T.call y)) (V3.sub (T.call x) (T.call y))
      = σ * σ * V3.dot (V3.sub x y) (V3.sub x y) := by
  intro T
  have e : V3.sub (T.call x) (T.call y) = V3.smul σ ((rotation fs).mulVec (V3.sub x y)) := by
    rw [M3.mulVec_sub]
    ext <;> simp only [T, Affine3.call, Affine3.mk', V3.sub, V3.add, V3.smul] <;> ring
  have o := (rot_orthonormal_3d fs h).2
  have d : V3.dot ((rotation fs).mulVec (V3.sub x y)) ((rotation fs).mulVec (V3.sub x y))
      = V3.dot (V3.sub x y) (V3.sub x y) := by
    rw [M3.dot_mulVec, ← M3.mulVec_mul, o, M3.one_mulVec]
  rw [e, ← d]
  simp only [V3.dot, V3.smul]; ring

theorem call_scales_distances_2d [CommRing α] [Div α] (t : V2 α) (σ c s : α) (h : c * c + s * s = 1)
    (x y : V2 α) :
    let T := Affine2.mk' t σ c s
    V2.dot (V2.sub (T.call x) (T.call y)) (V2.sub (T.call x) (T.call y))
      = σ * σ * V2.dot (V2.sub x y) (V2.sub x y) := by
  intro T
  simp only [T, Affine2.call, Affine2.mk', V2.sub, V2.add, V2.smul, V2.dot, M2.mulVec, rot2]
  linear_combination (σ * σ * ((x.x - y.x) * (x.x - y.x) + (x.y - y.y) * (x.y - y.y))) * h

/-! ## non-vacuity of the hypotheses -/

example : UnitAngles (xyzFactors [false, false, false] [1/2, 1/3, -1/4]) := by
  intro f hf; revert f; decide +kernel
example : (Affine3.mk' ⟨1, 2, 3⟩ 2 (xyzFactors [false, false, false] [1/2, 1/3, -1/4])).inverse
    ((Affine3.mk' ⟨1, 2, 3⟩ 2 (xyzFactors [false, false, false] [1/2, 1/3, -1/4])).call ⟨5, -7, 11⟩)
    = (⟨5, -7, 11⟩ : V3 Rat) := by decide +kernel
example : rotation (xyzFactors [false, false, false] [1/2, 1/3, -1/4]) ≠ (M3.one : M3 Rat) := by
  decide +kernel

/-! ## pull-back warp of `TransformationCorrection.correct_array` -/

/-- identity map (2-D), source = destination system: every destination voxel pulls back to itself, in
coordinate, voxel and voxel-centre mode, for either rounding of the point constructors. -/
theorem src_identity_2d (rnd : Rounding) (mode : Mode) (cs : CS2) (h0 : cs.h0 ≠ 0) (h1 : cs.h1 ≠ 0)
    (v0 v1 : Int) (hv0 : 0 ≤ v0) (hv1 : 0 ≤ v1) :
    src2 mode (Affine2.mk' ⟨0, 0⟩ 1 1 0) cs cs rnd v0 v1 = (v0, v1) := by
  cases mode
  · simp only [src2, CS2.voxel, CS2.coordinate, Affine2.inverse, Affine2.mk', rot2Inv, M2.mulVec, V2.sub,
      V2.smul]
    refine Prod.ext ?_ ?_
    · convert floor_int_add_half v0 using 2; field_simp; ring
    · convert floor_int_add_half v1 using 2; field_simp; ring
  · simp only [src2, Affine2.inverse, Affine2.mk', rot2Inv, M2.mulVec, V2.sub, V2.smul,
      rnd_nonneg_add_half rnd v0 hv0, rnd_nonneg_add_half rnd v1 hv1]
    refine Prod.ext ?_ ?_
    · convert rnd_int rnd v0 using 2; ring
    · convert rnd_int rnd v1 using 2; ring
  · simp only [src2, Affine2.inverse, Affine2.mk', rot2Inv, M2.mulVec, V2.sub, V2.smul]
    have e0 : (1 / 1 * (1 * ((v0 : Rat) + half - 0) + 0 * ((v1 : Rat) + half - 0)) : Rat) = (v0 : Rat) + half := by
      ring
    have e1 : (1 / 1 * (-0 * ((v0 : Rat) + half - 0) + 1 * ((v1 : Rat) + half - 0)) : Rat) = (v1 : Rat) + half := by
      ring
    rw [e0, e1, rnd_nonneg_add_half rnd v0 hv0, rnd_nonneg_add_half rnd v1 hv1,
      rnd_nonneg_add_half rnd v0 hv0, rnd_nonneg_add_half rnd v1 hv1]

/-- identity map ⇒ identical array (on the whole image). -/
theorem warp_identity_2d {β : Type} (zero : β) (rnd : Rounding) (mode : Mode) (cs : CS2)
    (h0 : cs.h0 ≠ 0) (h1 : cs.h1 ≠ 0) (arr : Int → Int → β) (v0 v1 : Int)
    (hv0 : 0 ≤ v0) (hv1 : 0 ≤ v1) (hn0 : v0 < cs.n0) (hn1 : v1 < cs.n1) :
    warp2 zero mode (Affine2.mk' ⟨0, 0⟩ 1 1 0) cs cs rnd arr v0 v1 = arr v0 v1 := by
  simp [warp2, src_identity_2d rnd mode cs h0 h1 v0 v1 hv0 hv1, CS2.valid, hv0, hv1, hn0, hn1]


/-- whole-voxel translation (2-D): every destination voxel pulls back to the voxel k to the "left", in all
three modes when the point constructors round by `floor`; with `astype(int)` truncation still in coordinate
and voxel mode (voxel-centre mode: see `shift_center_trunc_fails`). -/
theorem src_shift_2d (rnd : Rounding) (mode : Mode) (cs : CS2) (h0 : cs.h0 ≠ 0) (h1 : cs.h1 ≠ 0)
    (k0 k1 v0 v1 : Int) (hv0 : 0 ≤ v0) (hv1 : 0 ≤ v1) (hr : rnd = .floor ∨ mode ≠ .center) :
    src2 mode (Affine2.mk' (shiftVec2 mode cs k0 k1) 1 1 0) cs cs rnd v0 v1 = (v0 - k0, v1 - k1) := by
  cases mode
  · simp only [src2, CS2.voxel, CS2.coordinate, Affine2.inverse, Affine2.mk', rot2Inv, M2.mulVec, V2.sub,
      V2.smul, shiftVec2]
    refine Prod.ext ?_ ?_
    · convert floor_int_add_half (v0 - k0) using 2; push_cast; field_simp; ring
    · convert floor_int_add_half (v1 - k1) using 2; push_cast; field_simp; ring
  · simp only [src2, Affine2.inverse, Affine2.mk', rot2Inv, M2.mulVec, V2.sub, V2.smul, shiftVec2,
      rnd_nonneg_add_half rnd v0 hv0, rnd_nonneg_add_half rnd v1 hv1]
    refine Prod.ext ?_ ?_
    · convert rnd_int rnd (v0 - k0) using 2; push_cast; ring
    · convert rnd_int rnd (v1 - k1) using 2; push_cast; ring
  · have hf : rnd = .floor := by rcases hr with h | h; exact h; exact absurd rfl h
    subst hf
    simp only [src2, Affine2.inverse, Affine2.mk', rot2Inv, M2.mulVec, V2.sub, V2.smul, shiftVec2,
      Rounding.app]
    have e0 : (1 / 1 * (1 * ((v0 : Rat) + half - k0) + 0 * ((v1 : Rat) + half - k1)) : Rat)
        = ((v0 - k0 : Int) : Rat) + half := by push_cast; ring
    have e1 : (1 / 1 * (-0 * ((v0 : Rat) + half - k0) + 1 * ((v1 : Rat) + half - k1)) : Rat)
        = ((v1 - k1 : Int) : Rat) + half := by push_cast; ring
    rw [e0, e1, floor_int_add_half, floor_int_add_half, floor_int_add_half, floor_int_add_half]

/-- whole-voxel translation ⇒ zero-filled shift of the array, for every shift (also larger than the image). -/
theorem warp_shift_2d {β : Type} (zero : β) (rnd : Rounding) (mode : Mode) (cs : CS2)
    (h0 : cs.h0 ≠ 0) (h1 : cs.h1 ≠ 0) (k0 k1 : Int) (arr : Int → Int → β) (v0 v1 : Int)
    (hv0 : 0 ≤ v0) (hv1 : 0 ≤ v1) (hr : rnd = .floor ∨ mode ≠ .center) :
    warp2 zero mode (Affine2.mk' (shiftVec2 mode cs k0 k1) 1 1 0) cs cs rnd arr v0 v1
      = shift2 zero cs.n0 cs.n1 k0 k1 arr v0 v1 := by
  simp only [warp2, src_shift_2d rnd mode cs h0 h1 k0 k1 v0 v1 hv0 hv1 hr, CS2.valid, shift2,
    Bool.and_eq_true, decide_eq_true_eq, and_assoc]

/-- a shift larger than the image gives the zero array. -/
theorem warp_shift_large_2d {β : Type} (zero : β) (rnd : Rounding) (mode : Mode) (cs : CS2)
    (h0 : cs.h0 ≠ 0) (h1 : cs.h1 ≠ 0) (k0 k1 : Int) (arr : Int → Int → β) (v0 v1 : Int)
    (hv0 : 0 ≤ v0) (hv1 : 0 ≤ v1) (hn0 : v0 < cs.n0) (hr : rnd = .floor ∨ mode ≠ .center)
    (hk : (cs.n0 : Int) ≤ k0) :
    warp2 zero mode (Affine2.mk' (shiftVec2 mode cs k0 k1) 1 1 0) cs cs rnd arr v0 v1 = zero := by
  rw [warp_shift_2d zero rnd mode cs h0 h1 k0 k1 arr v0 v1 hv0 hv1 hr, shift2, if_neg]
  omega

/-- DEFECT of the point constructors before the point fix (utils/point.py, `astype(int)`), as a theorem about the
truncating model:
in voxel-centre mode with truncation the shift by (1, 2) on a 5 × 6 image replicates the border voxel
(destination voxel (0,0) pulls back to source voxel (0,0) instead of the invalid (−1,−2)). -/
theorem shift_center_trunc_fails :
    src2 .center (Affine2.mk' (shiftVec2 .center ⟨5, 6, 0, 5/2, 1/2, 1/2⟩ 1 2) 1 1 0)
      ⟨5, 6, 0, 5/2, 1/2, 1/2⟩ ⟨5, 6, 0, 5/2, 1/2, 1/2⟩ .trunc 0 0 = (0, 0) ∧
    warp2 (0 : Int) .center (Affine2.mk' (shiftVec2 .center ⟨5, 6, 0, 5/2, 1/2, 1/2⟩ 1 2) 1 1 0)
      ⟨5, 6, 0, 5/2, 1/2, 1/2⟩ ⟨5, 6, 0, 5/2, 1/2, 1/2⟩ .trunc (fun i j => 6 * i + j + 1) 0 0 = 1 ∧
    shift2 (0 : Int) 5 6 1 2 (fun i j => 6 * i + j + 1) 0 0 = 0 := by
  decide +kernel

/-- quarter turn (2-D, angle +π/2, i.e. (c, s) = (0, 1)) in voxel-centre mode with translation (n1, 0):
destination voxel (v0, v1) of the n1 × n0 result pulls back to source voxel (v1, n1 − 1 − v0). -/
theorem src_quarter_turn_center (rnd : Rounding) (csS csD : CS2) (v0 v1 : Int)
    (hv0 : 0 ≤ v0) (hv1 : 0 ≤ v1) (hn : v0 < csS.n1) :
    src2 .center (Affine2.mk' ⟨(csS.n1 : Rat), 0⟩ 1 0 1) csS csD rnd v0 v1 = (v1, (csS.n1 : Int) - 1 - v0) := by
  simp only [src2, Affine2.inverse, Affine2.mk', rot2Inv, M2.mulVec, V2.sub, V2.smul]
  have e0 : (1 / 1 * (0 * ((v0 : Rat) + half - (csS.n1 : Rat)) + 1 * ((v1 : Rat) + half - 0)) : Rat)
      = (v1 : Rat) + half := by ring
  have e1 : (1 / 1 * (-1 * ((v0 : Rat) + half - (csS.n1 : Rat)) + 0 * ((v1 : Rat) + half - 0)) : Rat)
      = (((csS.n1 : Int) - 1 - v0 : Int) : Rat) + half := by unfold half; push_cast; ring
  have hn' : 0 ≤ (csS.n1 : Int) - 1 - v0 := by omega
  rw [e0, e1, rnd_nonneg_add_half rnd v1 hv1, rnd_nonneg_add_half rnd _ hn',
    rnd_nonneg_add_half rnd v1 hv1, rnd_nonneg_add_half rnd _ hn']

/-- the same quarter turn expressed in physical coordinates: destination system with swapped voxel sizes,
translation (ox' + oy, oy' − ox − n1·h1). -/
theorem src_quarter_turn_coord (rnd : Rounding) (csS csD : CS2) (h0 : csS.h0 ≠ 0) (h1 : csS.h1 ≠ 0)
    (hd0 : csD.h0 = csS.h1) (hd1 : csD.h1 = csS.h0) (v0 v1 : Int) :
    src2 .coord (Affine2.mk' ⟨csD.ox + csS.oy, csD.oy - csS.ox - (csS.n1 : Rat) * csS.h1⟩ 1 0 1)
      csS csD rnd v0 v1 = (v1, (csS.n1 : Int) - 1 - v0) := by
  simp only [src2, CS2.voxel, CS2.coordinate, Affine2.inverse, Affine2.mk', rot2Inv, M2.mulVec, V2.sub,
    V2.smul, hd0, hd1]
  refine Prod.ext ?_ ?_
  · convert floor_int_add_half v1 using 2; field_simp; ring
  · convert floor_int_add_half ((csS.n1 : Int) - 1 - v0) using 2; unfold half; push_cast; field_simp; ring

/-- quarter turn ⇒ `np.rot90(arr, 1)` (both in voxel-centre and in coordinate mode). -/
theorem warp_quarter_turn_2d {β : Type} (zero : β) (rnd : Rounding) (csS csD : CS2)
    (arr : Int → Int → β) (v0 v1 : Int) (hv0 : 0 ≤ v0) (hv1 : 0 ≤ v1) (hn0 : v0 < csS.n1) (hn1 : v1 < csS.n0) :
    warp2 zero .center (Affine2.mk' ⟨(csS.n1 : Rat), 0⟩ 1 0 1) csS csD rnd arr v0 v1 = rot90 csS.n1 arr v0 v1 ∧
    (csS.h0 ≠ 0 → csS.h1 ≠ 0 → csD.h0 = csS.h1 → csD.h1 = csS.h0 →
      warp2 zero .coord (Affine2.mk' ⟨csD.ox + csS.oy, csD.oy - csS.ox - (csS.n1 : Rat) * csS.h1⟩ 1 0 1)
        csS csD rnd arr v0 v1 = rot90 csS.n1 arr v0 v1) := by
  have hv : csS.valid (v1, (csS.n1 : Int) - 1 - v0) = true := by
    simp only [CS2.valid, Bool.and_eq_true, decide_eq_true_eq]; omega
  constructor
  · simp only [warp2, src_quarter_turn_center rnd csS csD v0 v1 hv0 hv1 hn0, hv, rot90, if_true]
  · intro h0 h1 hd0 hd1
    simp only [warp2, src_quarter_turn_coord rnd csS csD h0 h1 hd0 hd1 v0 v1, hv, rot90, if_true]

/-! ### 3-D -/

theorem src_shift_3d (rnd : Rounding) (mode : Mode) (cs : CS3) (h0 : cs.h0 ≠ 0) (h1 : cs.h1 ≠ 0)
    (h2 : cs.h2 ≠ 0) (k0 k1 k2 v0 v1 v2 : Int) (hv0 : 0 ≤ v0) (hv1 : 0 ≤ v1) (hv2 : 0 ≤ v2)
    (hr : rnd = .floor ∨ mode ≠ .center) :
    src3 mode (Affine3.mk' (shiftVec3 mode cs k0 k1 k2) 1 []) cs cs rnd v0 v1 v2
      = (v0 - k0, v1 - k1, v2 - k2) := by
  cases mode
  · simp only [src3, CS3.voxel, CS3.coordinate, Affine3.inverse, Affine3.mk', rotationInv, rotationLoop,
      List.foldl_nil, M3.one, M3.mulVec, V3.sub, V3.smul, shiftVec3]
    refine Prod.ext ?_ (Prod.ext ?_ ?_)
    · convert floor_int_add_half (v0 - k0) using 2; push_cast; field_simp; ring
    · convert floor_int_add_half (v1 - k1) using 2; push_cast; field_simp; ring
    · convert floor_int_add_half (v2 - k2) using 2; push_cast; field_simp; ring
  · simp only [src3, Affine3.inverse, Affine3.mk', rotationInv, rotationLoop, List.foldl_nil, M3.one,
      M3.mulVec, V3.sub, V3.smul, shiftVec3, rnd_nonneg_add_half rnd v0 hv0,
      rnd_nonneg_add_half rnd v1 hv1, rnd_nonneg_add_half rnd v2 hv2]
    refine Prod.ext ?_ (Prod.ext ?_ ?_)
    · convert rnd_int rnd (v0 - k0) using 2; push_cast; ring
    · convert rnd_int rnd (v1 - k1) using 2; push_cast; ring
    · convert rnd_int rnd (v2 - k2) using 2; push_cast; ring
  · have hf : rnd = .floor := by rcases hr with h | h; exact h; exact absurd rfl h
    subst hf
    simp only [src3, Affine3.inverse, Affine3.mk', rotationInv, rotationLoop, List.foldl_nil, M3.one,
      M3.mulVec, V3.sub, V3.smul, shiftVec3, Rounding.app]
    have e0 : (1 / 1 * (1 * ((v0 : Rat) + half - k0) + 0 * ((v1 : Rat) + half - k1)
        + 0 * ((v2 : Rat) + half - k2)) : Rat) = ((v0 - k0 : Int) : Rat) + half := by push_cast; ring
    have e1 : (1 / 1 * (0 * ((v0 : Rat) + half - k0) + 1 * ((v1 : Rat) + half - k1)
        + 0 * ((v2 : Rat) + half - k2)) : Rat) = ((v1 - k1 : Int) : Rat) + half := by push_cast; ring
    have e2 : (1 / 1 * (0 * ((v0 : Rat) + half - k0) + 0 * ((v1 : Rat) + half - k1)
        + 1 * ((v2 : Rat) + half - k2)) : Rat) = ((v2 - k2 : Int) : Rat) + half := by push_cast; ring
    rw [e0, e1, e2]; simp only [floor_int_add_half]

/-- whole-voxel translation ⇒ zero-filled shift (3-D; k = 0 is the identity map ⇒ identical array). -/
theorem warp_shift_3d {β : Type} (zero : β) (rnd : Rounding) (mode : Mode) (cs : CS3)
    (h0 : cs.h0 ≠ 0) (h1 : cs.h1 ≠ 0) (h2 : cs.h2 ≠ 0) (k0 k1 k2 : Int) (arr : Int → Int → Int → β)
    (v0 v1 v2 : Int) (hv0 : 0 ≤ v0) (hv1 : 0 ≤ v1) (hv2 : 0 ≤ v2) (hr : rnd = .floor ∨ mode ≠ .center) :
    warp3 zero mode (Affine3.mk' (shiftVec3 mode cs k0 k1 k2) 1 []) cs cs rnd arr v0 v1 v2
      = shift3 zero cs.n0 cs.n1 cs.n2 k0 k1 k2 arr v0 v1 v2 := by
  simp only [warp3, src_shift_3d rnd mode cs h0 h1 h2 k0 k1 k2 v0 v1 v2 hv0 hv1 hv2 hr, CS3.valid,
    shift3, Bool.and_eq_true, decide_eq_true_eq, and_assoc]

/-! ### tie of the rounding parameter (G1) -/

/-- the rounding tabulated from the running `Voxel` / `VoxelCenter` constructors is the named model rounding on
every probe (negative and positive halves, quarters and integers). -/
theorem point_rounding_tabulated :
    ∀ p ∈ Gen.pointProbes, Gen.pointRounding.app p.1 = p.2.1 ∧
      ((Gen.pointRounding.app p.1 : Int) : Rat) + half = p.2.2 := by decide +kernel

/-- the point constructors of the current tree round by `floor` (after the point fix); if a change brings the
truncation back, the regenerated table makes this obligation (and the two theorems below) fail. -/
theorem point_rounding_is_floor : Gen.pointRounding = .floor := by decide

/-- whole-voxel translation ⇒ zero-filled shift for the code as it is now, in ALL three modes (2-D) … -/
theorem warp_shift_current_2d {β : Type} (zero : β) (mode : Mode) (cs : CS2)
    (h0 : cs.h0 ≠ 0) (h1 : cs.h1 ≠ 0) (k0 k1 : Int) (arr : Int → Int → β) (v0 v1 : Int)
    (hv0 : 0 ≤ v0) (hv1 : 0 ≤ v1) :
    warp2 zero mode (Affine2.mk' (shiftVec2 mode cs k0 k1) 1 1 0) cs cs Gen.pointRounding arr v0 v1
      = shift2 zero cs.n0 cs.n1 k0 k1 arr v0 v1 :=
  warp_shift_2d zero _ mode cs h0 h1 k0 k1 arr v0 v1 hv0 hv1 (Or.inl point_rounding_is_floor)

/-- … and in 3-D. -/
theorem warp_shift_current_3d {β : Type} (zero : β) (mode : Mode) (cs : CS3)
    (h0 : cs.h0 ≠ 0) (h1 : cs.h1 ≠ 0) (h2 : cs.h2 ≠ 0) (k0 k1 k2 : Int) (arr : Int → Int → Int → β)
    (v0 v1 v2 : Int) (hv0 : 0 ≤ v0) (hv1 : 0 ≤ v1) (hv2 : 0 ≤ v2) :
    warp3 zero mode (Affine3.mk' (shiftVec3 mode cs k0 k1 k2) 1 []) cs cs Gen.pointRounding arr v0 v1 v2
      = shift3 zero cs.n0 cs.n1 cs.n2 k0 k1 k2 arr v0 v1 v2 :=
  warp_shift_3d zero _ mode cs h0 h1 h2 k0 k1 k2 arr v0 v1 v2 hv0 hv1 hv2 (Or.inl point_rounding_is_floor)

/-! ### metadata -/

/-- (definitional: the model `correctMeta` / `coordTransfCall` IS this statement; its content is the exact tie of the model to
`CoordinateTransformation.__call__` — driver op `ctmeta`, class / dimensions / origin / other entries of the result compared for
different source and destination systems.) `CoordinateTransformation.__call__` labels the result with the destination
dimensions and origin, keeps every other metadata entry and the class of the source image. -/
theorem coordtransf_meta (src : Meta) (d o : List Rat) (kind : Nat) :
    (correctMeta src d o).dimensions = d ∧ (correctMeta src d o).origin = o ∧
    (correctMeta src d o).other = src.other ∧ (coordTransfCall kind src d o).1 = kind := ⟨rfl, rfl, rfl, rfl⟩

/-! ### non-vacuity -/

example : warp2 (0 : Int) .coord (Affine2.mk' (shiftVec2 .coord ⟨5, 6, 0, 5/2, 1/2, 1/2⟩ 1 2) 1 1 0)
    ⟨5, 6, 0, 5/2, 1/2, 1/2⟩ ⟨5, 6, 0, 5/2, 1/2, 1/2⟩ .trunc (fun i j => 6 * i + j + 1) 2 3 = 8 := by
  decide +kernel
example : warp2 (0 : Int) .center (Affine2.mk' ⟨6, 0⟩ 1 0 1)
    ⟨5, 6, 0, 5/2, 1/2, 1/2⟩ ⟨6, 5, 0, 3, 1/2, 1/2⟩ .trunc (fun i j => 6 * i + j + 1) 0 0 = 6 := by
  decide +kernel

/-! ## Round 2 -/

section round2
open Darsia.Corrections

/-! ### RotationCorrection's own warp: quarter turns move voxels exactly -/

/-- quarter turn (angle +π/2, exact matrix) about the central voxel of a (2m+1)² image: `np.rot90(img, 1)`. -/
theorem rotcorr_quarter_turn_2d (m : Nat) (a : TArr) (h0 : a.arr.n0 = 2 * m + 1) (h1 : a.arr.n1 = 2 * m + 1)
    (i j : Int) (hi0 : 0 ≤ i) (hi1 : i < a.arr.n0) (hj0 : 0 ≤ j) (hj1 : j < a.arr.n1) :
    (rotCorr2 ⟨(m : Rat), (m : Rat)⟩ (rot2Inv 0 1) a).arr.get i j = rot90 a.arr.n1 a.arr.get i j := by
  simp only [rotCorr2, rotSrc2, rot2Inv, M2.mulVec, V2.add, V2.sub, rot90]
  have e0 : (m : Rat) + (0 * ((i : Rat) - (m : Rat)) + 1 * ((j : Rat) - (m : Rat))) = ((j : Int) : Rat) := by ring
  have e1 : (m : Rat) + (-1 * ((i : Rat) - (m : Rat)) + 0 * ((j : Rat) - (m : Rat)))
      = (((a.arr.n1 : Int) - 1 - i : Int) : Rat) := by rw [h1]; push_cast; ring
  rw [e0, e1, trunc_int, trunc_int, clipInt_id j _ hj0 (by omega), clipInt_id _ _ (by omega) (by omega)]

/-- 3-D quarter turns (+π/2 about each matrix axis, exact matrices) about the central voxel of a (2m+1)³ image
are `np.rot90` in the planes (1,2), (2,0), (0,1). -/
theorem rotcorr_quarter_turn_3d (axis : Ax3) (m : Nat) (a : TArr3)
    (h0 : a.arr.n0 = 2 * m + 1) (h1 : a.arr.n1 = 2 * m + 1) (h2 : a.arr.n2 = 2 * m + 1)
    (i j k : Int) (hi0 : 0 ≤ i) (hi1 : i < a.arr.n0) (hj0 : 0 ≤ j) (hj1 : j < a.arr.n1)
    (hk0 : 0 ≤ k) (hk1 : k < a.arr.n2) :
    (rotCorr3 ⟨(m : Rat), (m : Rat), (m : Rat)⟩ (rotationInv [⟨axis, false, 0, 1⟩]) a).arr.get i j k
      = rot90_3 axis (2 * m + 1) a.arr.get i j k := by
  have hR : rotationInv [(⟨axis, false, 0, 1⟩ : Factor Rat)] = elem axis 0 (-1) := by
    simp only [rotationInv, rotationLoop, List.foldl_cons, List.foldl_nil, Factor.inv, Factor.sf]
    exact M3.mul_one _
  rw [hR]
  cases axis
  · simp only [rotCorr3, rotSrc3, elem, M3.mulVec, V3.add, V3.sub, rot90_3]
    have e0 : (m : Rat) + (1 * ((i : Rat) - m) + 0 * ((j : Rat) - m) + 0 * ((k : Rat) - m)) = ((i : Int) : Rat) := by ring
    have e1 : (m : Rat) + (0 * ((i : Rat) - m) + 0 * ((j : Rat) - m) + - -1 * ((k : Rat) - m)) = ((k : Int) : Rat) := by ring
    have e2 : (m : Rat) + (0 * ((i : Rat) - m) + -1 * ((j : Rat) - m) + 0 * ((k : Rat) - m))
        = (((2 * m + 1 : Nat) : Int) - 1 - j : Int) := by push_cast; ring
    rw [e0, e1, e2, trunc_int, trunc_int, trunc_int, clipInt_id i _ hi0 hi1, clipInt_id k _ hk0 (by omega),
      clipInt_id _ _ (by omega) (by omega)]
  · simp only [rotCorr3, rotSrc3, elem, M3.mulVec, V3.add, V3.sub, rot90_3]
    have e0 : (m : Rat) + (0 * ((i : Rat) - m) + 0 * ((j : Rat) - m) + -1 * ((k : Rat) - m))
        = (((2 * m + 1 : Nat) : Int) - 1 - k : Int) := by push_cast; ring
    have e1 : (m : Rat) + (0 * ((i : Rat) - m) + 1 * ((j : Rat) - m) + 0 * ((k : Rat) - m)) = ((j : Int) : Rat) := by ring
    have e2 : (m : Rat) + (- -1 * ((i : Rat) - m) + 0 * ((j : Rat) - m) + 0 * ((k : Rat) - m)) = ((i : Int) : Rat) := by ring
    rw [e0, e1, e2, trunc_int, trunc_int, trunc_int, clipInt_id _ _ (by omega) (by omega), clipInt_id j _ hj0 hj1,
      clipInt_id i _ hi0 (by omega)]
  · simp only [rotCorr3, rotSrc3, elem, M3.mulVec, V3.add, V3.sub, rot90_3]
    have e0 : (m : Rat) + (0 * ((i : Rat) - m) + - -1 * ((j : Rat) - m) + 0 * ((k : Rat) - m)) = ((j : Int) : Rat) := by ring
    have e1 : (m : Rat) + (-1 * ((i : Rat) - m) + 0 * ((j : Rat) - m) + 0 * ((k : Rat) - m))
        = (((2 * m + 1 : Nat) : Int) - 1 - i : Int) := by push_cast; ring
    have e2 : (m : Rat) + (0 * ((i : Rat) - m) + 0 * ((j : Rat) - m) + 1 * ((k : Rat) - m)) = ((k : Int) : Rat) := by ring
    rw [e0, e1, e2, trunc_int, trunc_int, trunc_int, clipInt_id j _ hj0 (by omega), clipInt_id _ _ (by omega) (by omega),
      clipInt_id k _ hk0 hk1]


/-! ### TransformationCorrection: 3-D quarter turns in voxel-centre mode -/

theorem rnd_center (rnd : Rounding) (q : Rat) (n : Int) (hn : 0 ≤ n) (hq : q = (n : Rat) + half) :
    rnd.app ((rnd.app q : Rat) + half) = n := by
  rw [hq, rnd_nonneg_add_half rnd n hn, rnd_nonneg_add_half rnd n hn]

/-- +π/2 about each matrix axis with translation (0,n2,0) / (0,0,n0) / (n1,0,0): destination voxel (i,j,k) pulls
back to the source voxel of `np.rot90` in the plane (1,2) / (2,0) / (0,1); either rounding of the point constructors. -/
theorem src_quarter_turn_3d (rnd : Rounding) (csS csD : CS3) (i j k : Int) (hi : 0 ≤ i) (hj : 0 ≤ j) (hk : 0 ≤ k) :
    (j < csS.n2 → src3 .center (Affine3.mk' ⟨0, (csS.n2 : Rat), 0⟩ 1 [⟨.a0, false, 0, 1⟩]) csS csD rnd i j k
        = (i, k, (csS.n2 : Int) - 1 - j)) ∧
    (k < csS.n0 → src3 .center (Affine3.mk' ⟨0, 0, (csS.n0 : Rat)⟩ 1 [⟨.a1, false, 0, 1⟩]) csS csD rnd i j k
        = ((csS.n0 : Int) - 1 - k, j, i)) ∧
    (i < csS.n1 → src3 .center (Affine3.mk' ⟨(csS.n1 : Rat), 0, 0⟩ 1 [⟨.a2, false, 0, 1⟩]) csS csD rnd i j k
        = (j, (csS.n1 : Int) - 1 - i, k)) := by
  refine ⟨fun h => ?_, fun h => ?_, fun h => ?_⟩ <;>
  · simp only [src3, Affine3.inverse, Affine3.mk', rotationInv, rotationLoop, List.foldl_cons, List.foldl_nil,
      Factor.inv, Factor.sf, elem, M3.mul, M3.one, M3.mulVec, V3.sub, V3.smul, Bool.false_eq_true, if_false]
    refine Prod.ext ?_ (Prod.ext ?_ ?_) <;> apply rnd_center <;>
      first | omega | (dsimp only; omega) | (unfold half; push_cast; ring)

/-- 3-D quarter turn ⇒ `np.rot90` in the corresponding plane (on the whole result). -/
theorem warp_quarter_turn_3d {β : Type} (zero : β) (rnd : Rounding) (csS csD : CS3)
    (arr : Int → Int → Int → β) (i j k : Int) (hi : 0 ≤ i) (hj : 0 ≤ j) (hk : 0 ≤ k) :
    (i < csS.n0 → k < csS.n1 → j < csS.n2 →
      warp3 zero .center (Affine3.mk' ⟨0, (csS.n2 : Rat), 0⟩ 1 [⟨.a0, false, 0, 1⟩]) csS csD rnd arr i j k
        = rot90_3 .a0 csS.n2 arr i j k) ∧
    (k < csS.n0 → j < csS.n1 → i < csS.n2 →
      warp3 zero .center (Affine3.mk' ⟨0, 0, (csS.n0 : Rat)⟩ 1 [⟨.a1, false, 0, 1⟩]) csS csD rnd arr i j k
        = rot90_3 .a1 csS.n0 arr i j k) ∧
    (j < csS.n0 → i < csS.n1 → k < csS.n2 →
      warp3 zero .center (Affine3.mk' ⟨(csS.n1 : Rat), 0, 0⟩ 1 [⟨.a2, false, 0, 1⟩]) csS csD rnd arr i j k
        = rot90_3 .a2 csS.n1 arr i j k) := by
  obtain ⟨h0, h1, h2⟩ := src_quarter_turn_3d rnd csS csD i j k hi hj hk
  refine ⟨fun a b c => ?_, fun a b c => ?_, fun a b c => ?_⟩
  · have hv : csS.valid (i, k, (csS.n2 : Int) - 1 - j) = true := by
      simp only [CS3.valid, Bool.and_eq_true, decide_eq_true_eq]; omega
    simp only [warp3, h0 c, hv, rot90_3, if_true]
  · have hv : csS.valid ((csS.n0 : Int) - 1 - k, j, i) = true := by
      simp only [CS3.valid, Bool.and_eq_true, decide_eq_true_eq]; omega
    simp only [warp3, h1 a, hv, rot90_3, if_true]
  · have hv : csS.valid (j, (csS.n1 : Int) - 1 - i, k) = true := by
      simp only [CS3.valid, Bool.and_eq_true, decide_eq_true_eq]; omega
    simp only [warp3, h2 b, hv, rot90_3, if_true]

/-! ### voxel mode quarter turn: exact model = rot90; which voxels float noise can move -/

/-- on the exact model the Voxel-typed quarter turn (translation (n1 − 1, 0)) IS `np.rot90`. -/
theorem warp_quarter_turn_voxel_exact {β : Type} (zero : β) (rnd : Rounding) (csS csD : CS2)
    (arr : Int → Int → β) (v0 v1 : Int) (hv0 : 0 ≤ v0) (hv1 : 0 ≤ v1) (hn0 : v0 < csS.n1) (hn1 : v1 < csS.n0) :
    pre2 .voxel (Affine2.mk' ⟨(csS.n1 : Rat) - 1, 0⟩ 1 0 1) csS csD rnd v0 v1
      = [((v1 : Int) : Rat), (((csS.n1 : Int) - 1 - v0 : Int) : Rat)] ∧
    warp2 zero .voxel (Affine2.mk' ⟨(csS.n1 : Rat) - 1, 0⟩ 1 0 1) csS csD rnd arr v0 v1 = rot90 csS.n1 arr v0 v1 := by
  have e0 : ∀ a b : Rat, (1 / 1 * (0 * (a - ((csS.n1 : Rat) - 1)) + 1 * (b - 0)) : Rat) = b := by intro a b; ring
  have e1 : (1 / 1 * (-1 * ((v0 : Rat) - ((csS.n1 : Rat) - 1)) + 0 * ((v1 : Rat) - 0)) : Rat)
      = (((csS.n1 : Int) - 1 - v0 : Int) : Rat) := by push_cast; ring
  constructor
  · simp only [pre2, Affine2.inverse, Affine2.mk', rot2Inv, M2.mulVec, V2.sub, V2.smul,
      rnd_nonneg_add_half rnd v0 hv0, rnd_nonneg_add_half rnd v1 hv1, e0, e1]
  · have hs : src2 .voxel (Affine2.mk' ⟨(csS.n1 : Rat) - 1, 0⟩ 1 0 1) csS csD rnd v0 v1
        = (v1, (csS.n1 : Int) - 1 - v0) := by
      simp only [src2, Affine2.inverse, Affine2.mk', rot2Inv, M2.mulVec, V2.sub, V2.smul,
        rnd_nonneg_add_half rnd v0 hv0, rnd_nonneg_add_half rnd v1 hv1, e0, e1, rnd_int]
    have hv : csS.valid (v1, (csS.n1 : Int) - 1 - v0) = true := by
      simp only [CS2.valid, Bool.and_eq_true, decide_eq_true_eq]; omega
    simp only [warp2, hs, hv, rot90, if_true]

theorem fracDist_int (n : Int) : fracDist (n : Rat) = 0 := by
  unfold fracDist; simp only [floor_int, sub_self]; rw [if_pos (by unfold half; norm_num)]

theorem fracDist_half (n : Int) : fracDist ((n : Rat) + half) = half := by
  unfold fracDist; simp only [floor_int_add_half]
  have : (n : Rat) + half - (n : Rat) = half := by ring
  rw [this, if_pos (le_refl _)]

/-- GUARD (float bridge): a pre-rounding quantity whose distance to the nearest integer is at least δ keeps its
floor under every perturbation smaller than δ. Hence a float evaluation of the pull-back can select a different
source voxel ONLY at destination voxels whose exact pre-image is closer than the float error to a breakpoint. -/
theorem floor_stable_of_fracDist (q e δ : Rat) (hd : δ ≤ fracDist q) (he : |e| < δ) :
    (q + e).floor = q.floor := by
  have hf0 : (q.floor : Rat) ≤ q := by
    have := Int.floor_le q; rwa [← ratFloor_eq] at this
  apply Darsia.floor_stable q e δ
  · unfold fracDist at hd; simp only at hd; split at hd <;> unfold half at * <;> linarith
  · unfold fracDist at hd; simp only at hd; split at hd <;> unfold half at * <;> linarith
  · exact he

/-- voxel-centre mode quarter turn: every pre-image component is a half-integer, so ANY perturbation below 1/2
(float noise of cos(π/2) is 6e-17) leaves the source voxel unchanged — the mode is robust. -/
theorem quarter_turn_center_robust (rnd : Rounding) (csS csD : CS2) (v0 v1 : Int) (e : Rat) (he : |e| < 1 / 2) :
    ∀ q ∈ pre2 .center (Affine2.mk' ⟨(csS.n1 : Rat), 0⟩ 1 0 1) csS csD rnd v0 v1,
      fracDist q = half ∧ (q + e).floor = q.floor := by
  have e0 : (1 / 1 * (0 * ((v0 : Rat) + half - (csS.n1 : Rat)) + 1 * ((v1 : Rat) + half - 0)) : Rat)
      = ((v1 : Int) : Rat) + half := by ring
  have e1 : (1 / 1 * (-1 * ((v0 : Rat) + half - (csS.n1 : Rat)) + 0 * ((v1 : Rat) + half - 0)) : Rat)
      = (((csS.n1 : Int) - 1 - v0 : Int) : Rat) + half := by unfold half; push_cast; ring
  intro q hq
  simp only [pre2, Affine2.inverse, Affine2.mk', rot2Inv, M2.mulVec, V2.sub, V2.smul, e0, e1,
    List.mem_cons, List.mem_nil_iff, or_false] at hq
  rcases hq with rfl | rfl <;>
    exact ⟨fracDist_half _, floor_stable_of_fracDist _ e (1 / 2) (by rw [fracDist_half]; unfold half; norm_num) he⟩

/-- voxel mode quarter turn: every pre-image component is an integer — it lies ON a rounding breakpoint
(distance 0), and an arbitrarily small negative perturbation moves the source voxel by one. This is exactly the set of
voxels of the known finding `C09:warp(quarter-turn,mode=voxel):not-rot90`: all of them are exposed to float noise. -/
theorem quarter_turn_voxel_on_breakpoint (rnd : Rounding) (csS csD : CS2) (v0 v1 : Int)
    (hv0 : 0 ≤ v0) (hv1 : 0 ≤ v1) (ε : Rat) (h0 : 0 < ε) (h1 : ε ≤ 1) :
    ∀ q ∈ pre2 .voxel (Affine2.mk' ⟨(csS.n1 : Rat) - 1, 0⟩ 1 0 1) csS csD rnd v0 v1,
      fracDist q = 0 ∧ (q - ε).floor = q.floor - 1 := by
  have e0 : ∀ a b : Rat, (1 / 1 * (0 * (a - ((csS.n1 : Rat) - 1)) + 1 * (b - 0)) : Rat) = b := by intro a b; ring
  have e1 : (1 / 1 * (-1 * ((v0 : Rat) - ((csS.n1 : Rat) - 1)) + 0 * ((v1 : Rat) - 0)) : Rat)
      = (((csS.n1 : Int) - 1 - v0 : Int) : Rat) := by push_cast; ring
  have key : ∀ n : Int, fracDist (n : Rat) = 0 ∧ ((n : Rat) - ε).floor = (n : Rat).floor - 1 := by
    intro n
    refine ⟨fracDist_int n, ?_⟩
    rw [floor_int]
    exact Darsia.floor_eq_of_bounds (by push_cast; linarith) (by push_cast; linarith)
  intro q hq
  simp only [pre2, Affine2.inverse, Affine2.mk', rot2Inv, M2.mulVec, V2.sub, V2.smul,
    rnd_nonneg_add_half rnd v0 hv0, rnd_nonneg_add_half rnd v1 hv1, e0, e1,
    List.mem_cons, List.mem_nil_iff, or_false] at hq
  rcases hq with rfl | rfl <;> exact key _

end round2

/-! ### GeneralizedPerspectiveTransformation.inverse_array (rational part), over any field -/

section genperspective
open Darsia.GenPerspective

variable {F : Type} [Field F]

/-- identity: with the constructor's default parameters every point is mapped to itself, for any image box. -/
theorem gp_identity (center maxC minC x : V2 F) : (GP.default center maxC minC).inverse x = x := by
  ext <;> simp [GP.inverse, GP.stretch, GP.bulge, GP.perspective, GP.default, M2.mulVec, M2.one, V2.add, V2.dot]

/-- affine reduction: without perspective scaling, bulge and stretch the map is x ↦ A x + b … -/
theorem gp_affine_reduction (A : M2 F) (b center maxC minC x : V2 F) :
    (GP.affine A b center maxC minC).inverse x = V2.add (A.mulVec x) b := by
  ext <;> simp [GP.inverse, GP.stretch, GP.bulge, GP.perspective, GP.affine, V2.add, V2.dot]

/-- … in particular a pure translation for A = I. -/
theorem gp_translation (b center maxC minC x : V2 F) :
    (GP.affine M2.one b center maxC minC).inverse x = V2.add x b := by
  rw [gp_affine_reduction, M2.one_mulVec]

/-- the affine sub-case with the parameters of an `AffineTransformation` (A = R_inv / σ, b = −R_inv t / σ) is that
transformation's `inverse_array`. -/
theorem gp_affine_eq_affine_inverse (t : V2 F) (σ c s : F) (center maxC minC x : V2 F) :
    (GP.affine ⟨(1 / σ) * c, (1 / σ) * s, (1 / σ) * (-s), (1 / σ) * c⟩
        (V2.smul (-(1 / σ)) ((rot2Inv c s).mulVec t)) center maxC minC).inverse x
      = (Affine2.mk' t σ c s).inverse x := by
  rw [gp_affine_reduction]
  ext <;> simp only [Affine2.inverse, Affine2.mk', rot2Inv, M2.mulVec, V2.add, V2.sub, V2.smul] <;> ring

/-- inverse of the affine sub-case: for det A ≠ 0 the map is a bijection of the plane, undone by
y ↦ adj(A)(y − b)/det A (both compositions are the identity). -/
theorem gp_affine_invertible (A : M2 F) (b center maxC minC : V2 F) (hd : A.det ≠ 0) (x y : V2 F) :
    affineUndo A b ((GP.affine A b center maxC minC).inverse x) = x ∧
    (GP.affine A b center maxC minC).inverse (affineUndo A b y) = y := by
  have hd' : A.a11 * A.a22 - A.a12 * A.a21 ≠ 0 := hd
  rw [gp_affine_reduction, gp_affine_reduction]
  constructor <;> ext <;>
    simp only [affineUndo, GenPerspective.M2.adj, M2.mulVec, M2.det, V2.add, V2.sub] <;>
    generalize hD : A.a11 * A.a22 - A.a12 * A.a21 = D at hd' ⊢ <;> field_simp <;> rw [← hD] <;> ring

/-- perspective division: both components are divided by the same scalar c·x + 1; where it does not vanish,
(c·x + 1)·y = A x + b (a projective map; bulge and stretch switched off). -/
theorem gp_perspective_division (p : GP F) (x : V2 F) (h : p.denom x ≠ 0) :
    V2.smul (p.denom x) (p.perspective x) = V2.add (p.A.mulVec x) p.b := by
  have h' : V2.dot p.c x + 1 ≠ 0 := h
  ext <;> simp only [GP.perspective, GP.denom, V2.smul, V2.add] <;> field_simp

/-- the bulge moves neither the (offset) centre lines nor the image boundary: component i of the correction vanishes
where component i of the point equals centre + offset, the maximal or the minimal coordinate. -/
theorem gp_bulge_fixes_centre_and_boundary (p : GP F) (y : V2 F)
    (hx : y.x = p.center.x + p.bulgeOff.x ∨ y.x = p.maxC.x ∨ y.x = p.minC.x)
    (hy : y.y = p.center.y + p.bulgeOff.y ∨ y.y = p.maxC.y ∨ y.y = p.minC.y) : p.bulge y = y := by
  ext
  · rcases hx with h | h | h <;> simp [GP.bulge, h]
  · rcases hy with h | h | h <;> simp [GP.bulge, h]

/-- zero factors switch bulge and stretch off, whatever the offsets and the image box. -/
theorem gp_no_bulge_no_stretch (p : GP F) (hb : p.bulgeFactor = ⟨0, 0⟩) (hs : p.stretchFactor = ⟨0, 0⟩) (x : V2 F) :
    p.inverse x = p.perspective x := by
  ext <;> simp [GP.inverse, GP.stretch, GP.bulge, hb, hs]

example : (GP.affine (⟨2, 1, 0, 1/2⟩ : M2 Rat) ⟨1, -1⟩ ⟨0, 0⟩ ⟨1, 1⟩ ⟨-1, -1⟩).inverse ⟨3, 4⟩ = ⟨11, 1⟩ := by
  decide +kernel
example : ((⟨⟨1, 0, 0, 1⟩, ⟨0, 0⟩, ⟨1/2, 0⟩, ⟨0, 0⟩, ⟨0, 0⟩, ⟨1, 0⟩, ⟨0, 0⟩, ⟨0, 0⟩, ⟨2, 2⟩, ⟨-2, -2⟩⟩ : GP Rat).inverse ⟨2, 4⟩)
    = ⟨4, 2⟩ := by decide +kernel

end genperspective

/-! ### maps expressed in physical coordinates between DIFFERENT systems (AffineCorrection / CoordinateTransformation
with `isometry`) -/

section twosystems

/-- the reference pairs built in the isometry branch (source voxel centre in the source system, shifted voxel centre in
the destination system; equal voxel sizes) are related by one translation, `isoShiftVec`, whatever the point: so
(translation = isoShiftVec, scaling 1, no rotation) is a zero-residual fit. -/
theorem isometry_pairs_are_translation (csS csD : CS2) (hh0 : csD.h0 = csS.h0) (hh1 : csD.h1 = csS.h1)
    (k0 k1 : Int) (p : V2 Rat) :
    csD.coordinate ⟨p.x + (k0 : Rat) + half, p.y + (k1 : Rat) + half⟩
      = V2.add (csS.coordinate ⟨p.x + half, p.y + half⟩) (isoShiftVec csS csD k0 k1) := by
  ext <;> simp only [CS2.coordinate, isoShiftVec, V2.add, V2.sub, hh0, hh1] <;> ring

/-- with that translation the pull-back between the two systems (different shape and origin, equal voxel sizes) sends
destination voxel v to source voxel v − k … -/
theorem src_shift_two_systems (rnd : Rounding) (csS csD : CS2) (h0 : csS.h0 ≠ 0) (h1 : csS.h1 ≠ 0)
    (hh0 : csD.h0 = csS.h0) (hh1 : csD.h1 = csS.h1) (k0 k1 v0 v1 : Int) :
    src2 .coord (Affine2.mk' (isoShiftVec csS csD k0 k1) 1 1 0) csS csD rnd v0 v1 = (v0 - k0, v1 - k1) := by
  simp only [src2, CS2.voxel, CS2.coordinate, Affine2.inverse, Affine2.mk', rot2Inv, M2.mulVec, V2.sub,
    V2.smul, isoShiftVec, hh0, hh1]
  refine Prod.ext ?_ ?_
  · convert floor_int_add_half (v0 - k0) using 2; unfold half; push_cast; field_simp; ring
  · convert floor_int_add_half (v1 - k1) using 2; unfold half; push_cast; field_simp; ring

/-- … hence the result on the destination canvas is the source array shifted by k with zero fill. -/
theorem warp_shift_two_systems {β : Type} (zero : β) (rnd : Rounding) (csS csD : CS2) (h0 : csS.h0 ≠ 0)
    (h1 : csS.h1 ≠ 0) (hh0 : csD.h0 = csS.h0) (hh1 : csD.h1 = csS.h1) (k0 k1 : Int) (arr : Int → Int → β)
    (v0 v1 : Int) :
    warp2 zero .coord (Affine2.mk' (isoShiftVec csS csD k0 k1) 1 1 0) csS csD rnd arr v0 v1
      = shift2 zero csS.n0 csS.n1 k0 k1 arr v0 v1 := by
  simp only [warp2, src_shift_two_systems rnd csS csD h0 h1 hh0 hh1 k0 k1 v0 v1, CS2.valid, shift2,
    Bool.and_eq_true, decide_eq_true_eq, and_assoc]

/-- using the SOURCE system for the destination points as well (the copy-paste slip) gives a different translation
as soon as the origins differ: witness 4×5 onto 6×7 unit voxels, shift one row. -/
theorem isometry_wrong_system_differs :
    isoShiftVec ⟨4, 5, 0, 4, 1, 1⟩ ⟨6, 7, 0, 6, 1, 1⟩ 1 0 ≠ isoShiftVec ⟨4, 5, 0, 4, 1, 1⟩ ⟨4, 5, 0, 4, 1, 1⟩ 1 0 := by
  decide +kernel

end twosystems

/-! ### round 3: source ≠ destination systems in all three modes; 3-D quarter turn in coordinate mode -/

section anysystems

/-- in voxel and voxel-centre mode the pull-back does not look at the coordinate systems at all (only the validity mask uses
the SOURCE shape): any two pairs of systems give the same source voxel. -/
theorem src_voxelmodes_indep_of_systems (mode : Mode) (hm : mode ≠ .coord) (T : Affine2 Rat) (csS csD csS' csD' : CS2)
    (rnd : Rounding) (v0 v1 : Int) : src2 mode T csS csD rnd v0 v1 = src2 mode T csS' csD' rnd v0 v1 := by
  cases mode
  · exact absurd rfl hm
  · rfl
  · rfl

/-- whole-voxel translation between ANY two systems (different shape, voxel size, origin) in voxel / voxel-centre mode:
the source array shifted by k with zero fill, on the destination canvas. -/
theorem warp_shift_anysystems_voxelmodes {β : Type} (zero : β) (rnd : Rounding) (mode : Mode) (hm : mode ≠ .coord)
    (csS csD : CS2) (k0 k1 : Int) (arr : Int → Int → β) (v0 v1 : Int) (hv0 : 0 ≤ v0) (hv1 : 0 ≤ v1)
    (hr : rnd = .floor ∨ mode ≠ .center) :
    warp2 zero mode (Affine2.mk' ⟨(k0 : Rat), (k1 : Rat)⟩ 1 1 0) csS csD rnd arr v0 v1
      = shift2 zero csS.n0 csS.n1 k0 k1 arr v0 v1 := by
  have one : CS2 := ⟨1, 1, 0, 0, 1, 1⟩
  have hs : src2 mode (Affine2.mk' ⟨(k0 : Rat), (k1 : Rat)⟩ 1 1 0) csS csD rnd v0 v1 = (v0 - k0, v1 - k1) := by
    rw [src_voxelmodes_indep_of_systems mode hm _ csS csD ⟨1, 1, 0, 0, 1, 1⟩ ⟨1, 1, 0, 0, 1, 1⟩]
    have := src_shift_2d rnd mode ⟨1, 1, 0, 0, 1, 1⟩ (by norm_num) (by norm_num) k0 k1 v0 v1 hv0 hv1 hr
    cases mode
    · exact absurd rfl hm
    · simpa [shiftVec2] using this
    · simpa [shiftVec2] using this
  simp only [warp2, hs, CS2.valid, shift2, Bool.and_eq_true, decide_eq_true_eq, and_assoc]

theorem floor_half_div (v : Int) (m : Nat) (hv : 0 ≤ v) (hm : 0 < m) :
    (((v : Rat) + half) / (m : Rat)).floor = v / (m : Int) := by
  have hmq : (0 : Rat) < (m : Rat) := by exact_mod_cast hm
  have hdm : (m : Int) * (v / (m : Int)) + v % (m : Int) = v := Int.mul_ediv_add_emod v m
  have hr0 := Int.emod_nonneg v (by omega : (m : Int) ≠ 0)
  have hr1 := Int.emod_lt_of_pos v (by omega : (0 : Int) < m)
  have hv' : (v : Rat) = (m : Rat) * ((v / (m : Int) : Int) : Rat) + ((v % (m : Int) : Int) : Rat) := by
    exact_mod_cast hdm.symm
  have hr0' : (0 : Rat) ≤ ((v % (m : Int) : Int) : Rat) := by exact_mod_cast hr0
  have hr1' : ((v % (m : Int) : Int) : Rat) + 1 ≤ (m : Rat) := by exact_mod_cast hr1
  apply Darsia.floor_eq_of_bounds
  · rw [le_div_iff₀ hmq]; unfold half; nlinarith
  · rw [div_lt_iff₀ hmq]; unfold half; nlinarith

/-- coordinate mode onto a REFINED destination grid (same origin, destination voxel size = source voxel size / m per axis,
any destination shape): translation by k source voxels; destination voxel v shows source voxel (v / m) − k. -/
theorem src_shift_coord_refined (rnd : Rounding) (csS csD : CS2) (m0 m1 : Nat) (hm0 : 0 < m0) (hm1 : 0 < m1)
    (h0 : csS.h0 ≠ 0) (h1 : csS.h1 ≠ 0) (hox : csD.ox = csS.ox) (hoy : csD.oy = csS.oy)
    (hd0 : csD.h0 = csS.h0 / m0) (hd1 : csD.h1 = csS.h1 / m1) (k0 k1 v0 v1 : Int) (hv0 : 0 ≤ v0) (hv1 : 0 ≤ v1) :
    src2 .coord (Affine2.mk' (shiftVec2 .coord csS k0 k1) 1 1 0) csS csD rnd v0 v1
      = (v0 / (m0 : Int) - k0, v1 / (m1 : Int) - k1) := by
  have hm0q : (m0 : Rat) ≠ 0 := by exact_mod_cast (by omega : m0 ≠ 0)
  have hm1q : (m1 : Rat) ≠ 0 := by exact_mod_cast (by omega : m1 ≠ 0)
  simp only [src2, CS2.voxel, CS2.coordinate, Affine2.inverse, Affine2.mk', rot2Inv, M2.mulVec, V2.sub,
    V2.smul, shiftVec2, hox, hoy, hd0, hd1]
  refine Prod.ext ?_ ?_
  · have e : (-1 * (1 / 1 * (-0 * (csS.ox + ((v1 : Rat) + half) * (csS.h1 / (m1 : Rat)) - (k1 : Rat) * csS.h1) +
        1 * (csS.oy + -1 * ((v0 : Rat) + half) * (csS.h0 / (m0 : Rat)) - -((k0 : Rat) * csS.h0))) - csS.oy) / csS.h0 : Rat)
        = ((v0 : Rat) + half) / (m0 : Rat) + ((-k0 : Int) : Rat) := by push_cast; field_simp; ring
    show (Rat.floor _) = _
    rw [e, ratFloor_eq, Int.floor_add_intCast, ← ratFloor_eq, floor_half_div v0 m0 hv0 hm0]; ring
  · have e : ((1 / 1 * (1 * (csS.ox + ((v1 : Rat) + half) * (csS.h1 / (m1 : Rat)) - (k1 : Rat) * csS.h1) +
        0 * (csS.oy + -1 * ((v0 : Rat) + half) * (csS.h0 / (m0 : Rat)) - -((k0 : Rat) * csS.h0))) - csS.ox) / csS.h1 : Rat)
        = ((v1 : Rat) + half) / (m1 : Rat) + ((-k1 : Int) : Rat) := by push_cast; field_simp; ring
    show (Rat.floor _) = _
    rw [e, ratFloor_eq, Int.floor_add_intCast, ← ratFloor_eq, floor_half_div v1 m1 hv1 hm1]; ring

/-- 3-D quarter turn (+π/2 about the Cartesian x axis) expressed in PHYSICAL COORDINATES between a source system (n0,n1,n2;
voxel sizes h0,h1,h2) and the destination system with shape (n2,n1,n0) and voxel sizes (h2,h1,h0), translation
(ox' − ox, oy' + oz − n0·h0, oz' − oy): destination voxel (v0,v1,v2) shows source voxel (n0 − 1 − v2, v1, v0), i.e.
`np.rot90(arr, 1, axes=(2, 0))`. -/
theorem src_quarter_turn_3d_coord (rnd : Rounding) (csS csD : CS3) (h0 : csS.h0 ≠ 0) (h1 : csS.h1 ≠ 0) (h2 : csS.h2 ≠ 0)
    (hd0 : csD.h0 = csS.h2) (hd1 : csD.h1 = csS.h1) (hd2 : csD.h2 = csS.h0) (v0 v1 v2 : Int) :
    src3 .coord (Affine3.mk' ⟨csD.ox - csS.ox, csD.oy + csS.oz - (csS.n0 : Rat) * csS.h0, csD.oz - csS.oy⟩ 1
        [⟨.a0, false, 0, 1⟩]) csS csD rnd v0 v1 v2 = ((csS.n0 : Int) - 1 - v2, v1, v0) := by
  simp only [src3, CS3.voxel, CS3.coordinate, Affine3.inverse, Affine3.mk', rotationInv, rotationLoop, List.foldl_cons,
    List.foldl_nil, Factor.inv, Factor.sf, elem, M3.mul, M3.one, M3.mulVec, V3.sub, V3.smul, Bool.false_eq_true, if_false,
    hd0, hd1, hd2]
  refine Prod.ext ?_ (Prod.ext ?_ ?_)
  · convert floor_int_add_half ((csS.n0 : Int) - 1 - v2) using 2; unfold half; push_cast; field_simp; ring
  · convert floor_int_add_half v1 using 2; unfold half; field_simp; ring
  · convert floor_int_add_half v0 using 2; unfold half; field_simp; ring

end anysystems

/-! ### round 4: `AffineTransformation.fit` — preconditioning and fold-back around the optimiser -/

section fitfold
variable {F : Type}

/-- FOLD-BACK: if the inner search returns (t', σ, R) for the source points SHIFTED by p, then the folded parameters
(t' + σ·R·p, σ, R) map every ORIGINAL source point to where the inner map sends its shifted copy — for any matrix R. -/
theorem fit_fold_back_correct [CommRing F] [Div F] (t' p x : V2 F) (σ : F) (R Rinv : M2 F) :
    (⟨foldBack2 t' σ R p, σ, R, Rinv⟩ : Affine2 F).call x = (⟨t', σ, R, Rinv⟩ : Affine2 F).call (V2.add x p) := by
  ext <;> simp only [Affine2.call, foldBack2, V2.add, V2.smul, M2.mulVec] <;> ring

theorem fit_fold_back_correct_3d [CommRing F] [Div F] (t' p x : V3 F) (σ : F) (R Rinv : M3 F) :
    (⟨foldBack3 t' σ R p, σ, R, Rinv⟩ : Affine3 F).call x = (⟨t', σ, R, Rinv⟩ : Affine3 F).call (V3.add x p) := by
  ext <;> simp only [Affine3.call, foldBack3, V3.add, V3.smul, M3.mulVec] <;> ring

/-- hence the objective of the folded map on the original pairs equals the objective the search minimised on the shifted
pairs: what the optimiser achieved is what the user gets. -/
theorem fit_objective_preserved [CommRing F] [Div F] (t' p : V2 F) (σ : F) (R Rinv : M2 F) (pairs : List (V2 F × V2 F)) :
    fitObjective2 ⟨foldBack2 t' σ R p, σ, R, Rinv⟩ pairs
      = fitObjective2 ⟨t', σ, R, Rinv⟩ (pairs.map fun q => (V2.add q.1 p, q.2)) := by
  induction pairs with
  | nil => rfl
  | cons q rest ih =>
    obtain ⟨s, d⟩ := q
    simp only [fitObjective2, List.map_cons, ih, fit_fold_back_correct]

/-- (definitional: unfolds `fit2`; the content is `fit_fold_back_correct` and the tie of `fit2` to the code.) the model of `fit`
with the optimiser as a parameter returns exactly that folded map. -/
theorem fit2_is_folded [CommRing F] [Div F] (n : F) (opt : List (V2 F × V2 F) → V2 F × F × F × F) (src dst : List (V2 F))
    (x : V2 F) :
    let p := precond2 n src dst
    let r := opt ((src.map fun y => V2.add y p).zip dst)
    (fit2 true n opt src dst).call x = (Affine2.mk' r.1 r.2.1 r.2.2.1 r.2.2.2).call (V2.add x p) := by
  intro p r
  simp only [fit2, if_true, Affine2.mk']
  exact fit_fold_back_correct _ _ _ _ _ _

theorem sumV2_shift [Field F] (k : V2 F) (l : List (V2 F)) :
    sumV2 (l.map fun x => V2.add x k) = V2.add (sumV2 l) (V2.smul (l.length : F) k) := by
  induction l with
  | nil => ext <;> simp [sumV2, V2.add, V2.smul]
  | cons v vs ih =>
    simp only [List.map_cons, sumV2, ih, List.length_cons]
    ext <;> simp only [V2.add, V2.smul] <;> push_cast <;> ring

/-- the centre-of-mass preconditioning is EXACT for pure translations: if every destination point is its source point
plus k, the preconditioning shift is k, the shifted sources ARE the destinations, and the identity parameters the search
starts from already have objective zero. -/
theorem precondition_exact_for_translation [Field F] [CharZero F] (k : V2 F) (src : List (V2 F)) (hne : src ≠ []) :
    precond2 (src.length : F) src (src.map fun x => V2.add x k) = k ∧
    fitObjective2 (Affine2.mk' ⟨0, 0⟩ 1 1 0)
      ((src.map fun x => V2.add x (precond2 (src.length : F) src (src.map fun x => V2.add x k))).zip
        (src.map fun x => V2.add x k)) = 0 := by
  have hn : (src.length : F) ≠ 0 := by
    have : src.length ≠ 0 := by simpa using hne
    exact_mod_cast this
  have hp : precond2 (src.length : F) src (src.map fun x => V2.add x k) = k := by
    simp only [precond2, meanV2, sumV2_shift]
    ext <;> simp only [V2.sub, V2.add, V2.smul] <;> field_simp <;> ring
  refine ⟨hp, ?_⟩
  rw [hp]
  have : ∀ l : List (V2 F), fitObjective2 (Affine2.mk' ⟨0, 0⟩ 1 1 0) (l.zip l) = 0 := by
    intro l
    induction l with
    | nil => rfl
    | cons v vs ih =>
      rw [List.zip_cons_cons, fitObjective2, ih]
      simp only [Affine2.call, Affine2.mk', rot2, M2.mulVec, V2.add, V2.smul, V2.sub, V2.dot]
      ring
  exact this _

example : (fit2 true (2 : Rat) (fun _ => (⟨1/2, 0⟩, 2, 0, 1)) [⟨0, 0⟩, ⟨2, 0⟩] [⟨1, 3⟩, ⟨3, 5⟩]).call ⟨1, 1⟩
    = (Affine2.mk' (⟨1/2, 0⟩ : V2 Rat) 2 0 1).call ⟨2, 5⟩ := by decide +kernel

end fitfold

/-! ### typed points: forward / inverse evaluation wraps its result in the output / input point type -/

section typedpoints

/-- wrapping in the VoxelCenter type leaves voxel centres (half-integer points) as they are … -/
theorem wrap_center_half (n m : Int) :
    wrapPoint2 .center .floor ⟨(n : Rat) + half, (m : Rat) + half⟩ = ⟨(n : Rat) + half, (m : Rat) + half⟩ := by
  simp only [wrapPoint2, Rounding.app, floor_int_add_half]

/-- … so for a map typed on voxel centres and a whole-voxel translation, map(inverse(y)) = y and inverse(map(x)) = x on
voxel centres, for single points and — the same function applied row by row — for point sets. -/
theorem typed_center_roundtrip_translation (k0 k1 n m : Int) :
    let T := Affine2.mk' (⟨(k0 : Rat), (k1 : Rat)⟩ : V2 Rat) 1 1 0
    let y : V2 Rat := ⟨(n : Rat) + half, (m : Rat) + half⟩
    typedCall2 .center .floor T (typedInverse2 .center .floor T y) = y ∧
    typedInverse2 .center .floor T (typedCall2 .center .floor T y) = y := by
  intro T y
  have hinv : T.inverse y = ⟨((n - k0 : Int) : Rat) + half, ((m - k1 : Int) : Rat) + half⟩ := by
    ext <;> simp only [T, y, Affine2.inverse, Affine2.mk', rot2Inv, M2.mulVec, V2.sub, V2.smul] <;> push_cast <;> ring
  have hcall : ∀ a b : Int, T.call ⟨(a : Rat) + half, (b : Rat) + half⟩ = ⟨((a + k0 : Int) : Rat) + half, ((b + k1 : Int) : Rat) + half⟩ := by
    intro a b
    ext <;> simp only [T, Affine2.call, Affine2.mk', rot2, M2.mulVec, V2.add, V2.smul] <;> push_cast <;> ring
  have hinv' : ∀ a b : Int, T.inverse ⟨(a : Rat) + half, (b : Rat) + half⟩ = ⟨((a - k0 : Int) : Rat) + half, ((b - k1 : Int) : Rat) + half⟩ := by
    intro a b
    ext <;> simp only [T, Affine2.inverse, Affine2.mk', rot2Inv, M2.mulVec, V2.sub, V2.smul] <;> push_cast <;> ring
  constructor
  · simp only [typedCall2, typedInverse2, hinv, wrap_center_half, hcall]
    ext <;> simp only [y] <;> push_cast <;> ring
  · simp only [typedCall2, typedInverse2, y, hcall, wrap_center_half, hinv']
    ext <;> push_cast <;> ring

/-- the slip of wrapping a VoxelCenter result in the Voxel type moves every point by half a voxel (witness). -/
theorem wrong_wrap_differs : wrapPoint2 .voxel .floor ⟨3 / 2, 5 / 2⟩ ≠ wrapPoint2 .center .floor ⟨3 / 2, 5 / 2⟩ := by
  decide +kernel

end typedpoints

/-! ### round 5: the warp cache follows the transformation; direction of the quarter-turn noise; zero angles -/

section round5
open Darsia.Corrections

/-- invariant of the keyed cache: a stored cache belongs to a version that is not newer than the current one, and if it is the
current version it is the cache of the current parameters. -/
def CacheOK (mode : Mode) (csS csD : CS2) (rnd : Rounding) (st : TState) : Prop :=
  ∀ v c, st.cache = some (v, c) → v ≤ st.ver ∧ (v = st.ver → c = mkCache mode st.T csS csD rnd)

theorem tstep_keeps (mode : Mode) (csS csD : CS2) (rnd : Rounding) (st : TState) (op : TOp)
    (h : CacheOK mode csS csD rnd st) : CacheOK mode csS csD rnd (tstep mode csS csD rnd st op).1 := by
  cases op with
  | setParams T' =>
    intro v c hc
    simp only [tstep] at hc
    obtain ⟨hle, _⟩ := h v c hc
    exact ⟨Nat.le_succ_of_le hle, fun hv => absurd hv (by simp only [tstep]; omega)⟩
  | apply a =>
    intro v c hc
    simp only [tstep] at hc
    cases hcache : st.cache with
    | none =>
      simp only [hcache, Option.some.injEq, Prod.mk.injEq] at hc
      obtain ⟨rfl, rfl⟩ := hc
      exact ⟨le_refl _, fun _ => rfl⟩
    | some vc =>
      obtain ⟨v0, c0⟩ := vc
      simp only [hcache, Option.some.injEq, Prod.mk.injEq] at hc
      obtain ⟨rfl, rfl⟩ := hc
      refine ⟨le_refl _, fun _ => ?_⟩
      by_cases hv : v0 = st.ver
      · simp only [hv, if_true]; exact (h v0 c0 hcache).2 hv
      · simp only [hv, if_false]; rfl

/-- THE WARP CACHE FOLLOWS THE TRANSFORMATION: after any sequence of applications and parameter changes on one correction
object, applying it to an array gives what a fresh object with the CURRENT parameters gives. -/
theorem warp_cache_tracks_parameters (mode : Mode) (csS csD : CS2) (rnd : Rounding) (T0 : Affine2 Rat)
    (ops : List TOp) (a : TArr) :
    let st := trun (tstep mode csS csD rnd) ⟨0, T0, none⟩ ops
    (tstep mode csS csD rnd st (.apply a)).2 = some (transfCorr mode st.T csS csD rnd a) := by
  have gen : ∀ (st : TState), CacheOK mode csS csD rnd st →
      CacheOK mode csS csD rnd (trun (tstep mode csS csD rnd) st ops) := by
    induction ops with
    | nil => intro st h; exact h
    | cons op ops ih => intro st h; exact ih _ (tstep_keeps mode csS csD rnd st op h)
  intro st
  have hok : CacheOK mode csS csD rnd st := gen _ (fun v c hc => by simp at hc)
  simp only [tstep]
  cases hcache : st.cache with
  | none => rfl
  | some vc =>
    obtain ⟨v0, c0⟩ := vc
    by_cases hv : v0 = st.ver
    · simp only [hv, if_true, (hok v0 c0 hcache).2 hv]; rfl
    · simp only [hv, if_false]; rfl

/-- DEFECT of the tree before the fix, as a theorem: without invalidation the second application still uses the first warp
(shift by one column, then parameters set to the identity: the result is still shifted). -/
theorem warp_cache_stale_witness :
    let cs : CS2 := ⟨1, 2, 0, 1, 1, 1⟩
    let a : TArr := ⟨.u8, ⟨1, 2, fun _ j => if j = 0 then 5 else 7⟩⟩
    let run := fun (step : TState → TOp → TState × Option TArr) => (step (trun step ⟨0, Affine2.mk' ⟨0, 1⟩ 1 1 0, none⟩
        [.apply a, .setParams (Affine2.mk' ⟨0, 0⟩ 1 1 0)]) (TOp.apply a)).2
    Option.map (fun r => r.arr.get 0 1) (run (tstepOld .voxel cs cs .floor)) = some 5 ∧
    Option.map (fun r => r.arr.get 0 1) (run (tstep .voxel cs cs .floor)) = some 7 := by
  decide +kernel

/-- DIRECTION of the quarter-turn noise in voxel mode: a float evaluation of cos(π/2) is a small c ≥ 0; for the angle +π/2
(translation (n1 − 1, 0)) the first pre-image component can only come out LOWER than its exact integer value, the second only
HIGHER — so floor can lower only the FIRST source index, and only where v0 < n1 − 1. (For −π/2 the roles are exchanged.) The
known-finding signature accepts exactly that pattern. -/
theorem quarter_turn_voxel_noise_direction (n1 : Nat) (c : Rat) (hc : 0 ≤ c) (v0 v1 : Int)
    (hv0 : 0 ≤ v0) (hn : v0 < n1) (hv1 : 0 ≤ v1) :
    let y := (⟨⟨(n1 : Rat) - 1, 0⟩, 1, rot2 c 1, rot2Inv c 1⟩ : Affine2 Rat).inverse ⟨(v0 : Rat), (v1 : Rat)⟩
    y.x ≤ (v1 : Rat) ∧ ((n1 : Rat) - 1 - (v0 : Rat)) ≤ y.y ∧ ((v0 : Rat) = (n1 : Rat) - 1 → y.x = (v1 : Rat)) := by
  intro y
  have h0 : (v0 : Rat) ≤ (n1 : Rat) - 1 := by
    have : v0 + 1 ≤ (n1 : Int) := by omega
    have : ((v0 + 1 : Int) : Rat) ≤ ((n1 : Int) : Rat) := by exact_mod_cast this
    push_cast at this; linarith
  have h1 : (0 : Rat) ≤ (v1 : Rat) := by exact_mod_cast hv1
  have ex : y.x = (v1 : Rat) + c * ((v0 : Rat) - ((n1 : Rat) - 1)) := by
    simp only [y, Affine2.inverse, rot2Inv, M2.mulVec, V2.sub, V2.smul]; ring
  have ey : y.y = ((n1 : Rat) - 1 - (v0 : Rat)) + c * (v1 : Rat) := by
    simp only [y, Affine2.inverse, rot2Inv, M2.mulVec, V2.sub, V2.smul]; ring
  refine ⟨?_, ?_, ?_⟩
  · rw [ex]; nlinarith
  · rw [ey]; nlinarith
  · intro h; rw [ex, h]; ring

/-- `set_parameters(rotation=[0, 0, 0])` builds three identity factors (not an empty list): the map is still x ↦ t + σ·x. -/
theorem scaling_translation_act_zero_angles [CommRing α] [Div α] (t x : V3 α) (σ : α) (f0 f1 f2 : Bool) :
    (Affine3.mk' t σ [⟨.a0, f0, 1, 0⟩, ⟨.a1, f1, 1, 0⟩, ⟨.a2, f2, 1, 0⟩]).call x = V3.add t (V3.smul σ x) := by
  have hR : rotation [(⟨.a0, f0, 1, 0⟩ : Factor α), ⟨.a1, f1, 1, 0⟩, ⟨.a2, f2, 1, 0⟩] = M3.one := by
    simp only [rotation, rotationLoop, List.foldl_cons, List.foldl_nil, Factor.fwd, Factor.sf]
    cases f0 <;> cases f1 <;> cases f2 <;> ext <;> simp [M3.mul, M3.one, elem]
  simp only [Affine3.call, Affine3.mk', hR, M3.one_mulVec]

end round5

/-! ### round 6: parameter-setting histories on one transformation object -/

section phistory

/-- `set_parameters_as_vector` forgets the history: whatever was set or fitted on the object before, the state after it is
the one a fresh object gets from the same vector — in particular the scaling of an isometry (short) vector is 1, not the
scaling left over from an earlier non-isometry setting. -/
theorem vector_forgets_history {F : Type} [OfNat F 1] (st st' : PState F) (pre pre' : List (POp F)) (iso : Bool) (t : V2 F)
    (σ c s : F) :
    prun st (pre ++ [.vec iso t σ c s]) = prun st' (pre' ++ [.vec iso t σ c s]) ∧
    (prun st (pre ++ [.vec true t σ c s])).σ = 1 := by
  simp [prun, List.foldl_append, pstep]

/-- isometry ⇒ distances preserved, after ANY history on the object. -/
theorem isometry_vector_preserves_distances {F : Type} [CommRing F] [Div F] (st : PState F) (pre : List (POp F)) (t : V2 F)
    (σ c s : F) (h : c * c + s * s = 1) (x y : V2 F) (p : PState F) (hp : p = prun st (pre ++ [.vec true t σ c s])) :
    V2.dot (V2.sub ((Affine2.mk' p.t p.σ p.c p.s).call x) ((Affine2.mk' p.t p.σ p.c p.s).call y))
        (V2.sub ((Affine2.mk' p.t p.σ p.c p.s).call x) ((Affine2.mk' p.t p.σ p.c p.s).call y))
      = V2.dot (V2.sub x y) (V2.sub x y) := by
  have hp' : p = ⟨t, 1, c, s⟩ := by rw [hp]; simp [prun, List.foldl_append, pstep]
  subst hp'
  have := call_scales_distances_2d (α := F) t 1 c s h x y
  simp only [one_mul] at this
  exact this

/-- partial `set_parameters` keeps what it is not given (so a scaling set earlier DOES survive a translation-only update). -/
theorem partial_set_keeps {F : Type} [OfNat F 1] (st : PState F) (t : V2 F) :
    (pstep st (.set (some t) none none)).σ = st.σ ∧ (pstep st (.set (some t) none none)).c = st.c := ⟨rfl, rfl⟩

end phistory

end Darsia.C09
