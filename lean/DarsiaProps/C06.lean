/-
C06 — finite-volume operators obey the discrete divergence theorem.

Model: `DarsiaModel.FV` on `DarsiaModel.Grid` (generic dimension).  All theorems are for EVERY shape (any number of
axes, extents incl. 1), every voxel-size list `h`, every flat face flux `U : ℕ → ℚ` and cell field `P : ℕ → ℚ`.
Operational models (built the way the code builds its result) are `divAssembled` (COO triplets summed into the matrix),
`faceToCellTable` (zeros + slice accumulations), `connTable`/`revTable` (C07); `div_assembled_eq`, `face_to_cell_table_eq`
prove them equal to the pointwise forms `divEntry`, `faceToCell` used in the remaining statements.  Theorems marked
"(unfolds the definition)" only restate a model definition in the vocabulary of the property; their content is the tie.
The code builds grids only for shapes passing `gridGuard` (dims 1–3, extents ≥ 1, `len(voxel_size) = dim`); the theorems
hold for the model on every shape and every list `h`.
-/
import DarsiaModel.FV
import DarsiaProofs.FV
import DarsiaProps.C07
import Mathlib.Tactic.FieldSimp
import Mathlib.Tactic.Positivity
namespace Darsia.C06
open Darsia

/-- **Assembly.** The matrix the code assembles — `2·num_faces` COO triplets `(row = ravel(connectivity), col = repeat(arange),
data = area·[1,-1])` summed into a `num_cells × num_faces` array — has exactly the entries `divEntry`: `+area` at the lower
cell of a face, `-area` at its upper cell, nothing else. -/
theorem div_assembled_eq (shape : List Nat) (h : List Rat) (c f : Nat) (hc : c < numCells shape)
    (hf : f < numFaces shape) :
    (divAssembled shape h).getD (c * numFaces shape + f) 0 = divEntry shape h c f :=
  divAssembled_eq shape h c f hc hf

/-- **`face_to_cell` as coded** — zeros, then per component `cell_flux[:-1 along a, a] += pt_a·U_a` and
`cell_flux[1: along a, a] += (1-pt_a)·U_a` — is, cell by cell, the linear interpolation `pt_a·u_hi + (1-pt_a)·u_lo` between
the fluxes through the two opposite faces of the cell (0 for a missing face). -/
theorem face_to_cell_table_eq (shape : List Nat) (U : Nat → Rat) (pt : List Rat) (a c : Nat) (ha : a < shape.length)
    (hc : c < numCells shape) :
    (faceToCellTable shape U pt a).getD c 0 =
      pt.getD a 0 * uHi shape U a (decF shape c) + (1 - pt.getD a 0) * uLo shape U a (decF shape c) :=
  faceToCellTable_eq shape U pt a c ha hc

/-- The divergence of a face flux is each cell's net outflow: Σ over axes of face area × (flux through the upper face −
flux through the lower face), fluxes oriented from the lower- to the higher-index cell, no flux through the outer
boundary. -/
theorem div_is_net_outflow (shape : List Nat) (h : List Rat) (U : Nat → Rat) (c : Nat) (hc : c < numCells shape) :
    divApply shape h U c = netOutflow shape h U (decF shape c) := by
  unfold divApply netOutflow numFaces
  rw [sumTo_offset]
  exact sumTo_congr fun a ha => div_block shape h U a c ha hc

/-- Each column of the divergence matrix has exactly the entries `+area` at the lower and `-area` at the upper cell of
the face: tested with any cell field it gives `area · (P_lo − P_hi)`; in particular every column sums to zero. -/
theorem div_column_sum_zero (shape : List Nat) (h : List Rat) (f : Nat) (hf : f < numFaces shape) :
    sumTo (numCells shape) (fun c => divEntry shape h c f) = 0 := by
  have := div_column shape h (fun _ => 1) f hf
  simp only [one_mul, sub_self, mul_zero] at this
  exact this

/-- Divergence is the negative adjoint of the (area-weighted) face difference:
`Σ_c P_c (div U)_c = − Σ_f area_f · U_f · (P_hi(f) − P_lo(f))`. -/
theorem div_adjoint (shape : List Nat) (h : List Rat) (U P : Nat → Rat) :
    sumTo (numCells shape) (fun c => P c * divApply shape h U c) =
      - sumTo (numFaces shape) (fun f =>
          area h (faceAxis shape f) * U f * (P (conn shape f).2 - P (conn shape f).1)) := by
  unfold divApply
  have e1 : ∀ c, c < numCells shape →
      P c * sumTo (numFaces shape) (fun f => divEntry shape h c f * U f) =
        sumTo (numFaces shape) (fun f => P c * divEntry shape h c f * U f) := by
    intro c _
    rw [← sumTo_mul_left]
    exact sumTo_congr fun f _ => by ring
  rw [sumTo_congr e1, sumTo_comm, ← sumTo_neg]
  refine sumTo_congr fun f hf => ?_
  rw [sumTo_mul_right, div_column shape h P f hf]
  ring

/-- The total divergence of any flux vanishes (discrete divergence theorem with no-flux outer boundary). -/
theorem sum_div_zero (shape : List Nat) (h : List Rat) (U : Nat → Rat) :
    sumTo (numCells shape) (divApply shape h U) = 0 := by
  have := div_adjoint shape h U (fun _ => 1)
  simp only [one_mul, sub_self, mul_zero, sumTo_const_zero, neg_zero] at this
  exact this

/-- … equivalently for the net-outflow form: summing every cell's net outflow gives zero. -/
theorem sum_net_outflow_zero (shape : List Nat) (h : List Rat) (U : Nat → Rat) :
    sumTo (numCells shape) (fun c => netOutflow shape h U (decF shape c)) = 0 := by
  rw [← sum_div_zero shape h U]
  exact sumTo_congr fun c hc => (div_is_net_outflow shape h U c hc).symm

/-- (unfolds the definition) Mass matrices (cells and lumped faces) are modelled as `voxel volume × identity`; the content
is the exact correspondence with `FVMass.mat` plus `vol_scale` below. -/
theorem mass_diag (h : List Rat) (i j : Nat) :
    massEntry h i i = vol h ∧ (i ≠ j → massEntry h i j = 0) := by
  unfold massEntry
  exact ⟨if_pos rfl, fun hne => if_neg hne⟩

theorem vol_scale (h : List Rat) (s : Rat) : vol (h.map (fun x => s * x)) = s ^ h.length * vol h := by
  unfold vol
  induction h with
  | nil => simp [prodR]
  | cons x xs ih => simp only [List.map_cons, prodR, ih, List.length_cons]; ring

/-- Corollaries of the interpolation law (`face_to_cell_table_eq` proves the law for the table the code builds; the first
conjunct here unfolds the pointwise definition): the face values at `pt_a = 1` / `0`, their mean at the centre. -/
theorem rt0_interp (shape : List Nat) (U : Nat → Rat) (pt : List Rat) (idx : List Nat) (a : Nat) :
    faceToCell shape U pt idx a = pt.getD a 0 * uHi shape U a idx + (1 - pt.getD a 0) * uLo shape U a idx ∧
    (pt.getD a 0 = 1 → faceToCell shape U pt idx a = uHi shape U a idx) ∧
    (pt.getD a 0 = 0 → faceToCell shape U pt idx a = uLo shape U a idx) ∧
    (pt.getD a 0 = 1 / 2 → faceToCell shape U pt idx a = (uHi shape U a idx + uLo shape U a idx) / 2) := by
  refine ⟨rfl, fun h => ?_, fun h => ?_, fun h => ?_⟩ <;> simp only [faceToCell, h] <;> ring

/-- the flux through the outer boundary is zero: first layer has no lower, last layer no upper contribution -/
theorem rt0_boundary (shape : List Nat) (U : Nat → Rat) (idx : List Nat) (a : Nat) :
    (idx.getD a 0 = 0 → uLo shape U a idx = 0) ∧ (idx.getD a 0 + 1 = shape.getD a 0 → uHi shape U a idx = 0) := by
  constructor
  · intro h; unfold uLo; rw [if_neg (by omega)]
  · intro h; unfold uHi; rw [if_neg (by omega)]

/-- The reconstruction attains the face value at the face, from both neighbouring cells (normal continuity): for the
face with multi-index `fidx` of axis `a`, the lower cell `fidx` sees `U f` as its upper value and the upper cell
`fidx + e_a` sees it as its lower value; these cells are the two cells of `conn f`. -/
theorem rt0_face_value (shape : List Nat) (U : Nat → Rat) (a : Nat) (fidx : List Nat) (ha : a < shape.length)
    (hb : inBox (fshape shape a) fidx = true) :
    uHi shape U a fidx = U (faceNum shape a fidx) ∧ uLo shape U a (bump fidx a) = U (faceNum shape a fidx) ∧
    conn shape (faceNum shape a fidx) = (encF shape fidx, encF shape (bump fidx a)) := by
  have hlen : a < fidx.length := by rw [inBox_length _ _ (inBox_of_fshape shape _ _ ha hb)]; exact ha
  refine ⟨?_, ?_, ?_⟩
  · unfold uHi; rw [if_pos ((inBox_fshape shape fidx a ha).1 hb).2]
  · unfold uLo; rw [if_pos (by rw [getD_bump_self _ _ hlen]; omega), unbump_bump]
  · show (encF shape (faceIdx shape _), encF shape (bump (faceIdx shape _) (faceAxis shape _))) = _
    rw [faceIdx_faceNum shape fidx a ha hb, faceAxis_faceNum shape fidx a ha hb]

/-- (unfolds the definition) Cell-to-face averages: arithmetic mean of the two neighbours of the face, taking for a face of
axis `a` the component `q a`; never NaN. -/
theorem c2f_arith (shape : List Nat) (q : Nat → Nat → Rat) (f : Nat) :
    cellToFace shape .arithmetic q f =
      some ((q (faceAxis shape f) (conn shape f).1 + q (faceAxis shape f) (conn shape f).2) / 2) := by
  simp only [cellToFace]; congr 1; ring

/-- Harmonic mean `2xy/(x+y)` of the two neighbours for positive data. -/
theorem c2f_harm (shape : List Nat) (q : Nat → Nat → Rat) (f : Nat)
    (hx : 0 < q (faceAxis shape f) (conn shape f).1) (hy : 0 < q (faceAxis shape f) (conn shape f).2) :
    cellToFace shape .harmonic q f =
      some (2 * q (faceAxis shape f) (conn shape f).1 * q (faceAxis shape f) (conn shape f).2 /
        (q (faceAxis shape f) (conn shape f).1 + q (faceAxis shape f) (conn shape f).2)) := by
  simp only [cellToFace, hmean2]
  rw [if_neg (by intro h; rcases h with h | h <;> linarith), if_neg (by intro h; rcases h with h | h <;> linarith)]
  have : q (faceAxis shape f) (conn shape f).1 + q (faceAxis shape f) (conn shape f).2 ≠ 0 := by positivity
  congr 1
  field_simp
  ring

/-- **Component selection** (unfolds `selectComp`, whose tie is the full-array correspondence). For a vector-valued cell
quantity the average on a face of axis `a` uses component `a` of its two neighbours, for a tensor-valued one the diagonal
entry `(a, a)`; a scalar is used as it is. -/
theorem c2f_component_selection (shape : List Nat) (arr : Nat → Rat) (f : Nat) :
    cellToFaceQ shape .arithmetic .scalar arr f = some ((arr (conn shape f).1 + arr (conn shape f).2) / 2) ∧
    cellToFaceQ shape .arithmetic .vector arr f =
      some ((arr ((conn shape f).1 * shape.length + faceAxis shape f) +
        arr ((conn shape f).2 * shape.length + faceAxis shape f)) / 2) ∧
    cellToFaceQ shape .arithmetic .tensor arr f =
      some ((arr (((conn shape f).1 * shape.length + faceAxis shape f) * shape.length + faceAxis shape f) +
        arr (((conn shape f).2 * shape.length + faceAxis shape f) * shape.length + faceAxis shape f)) / 2) ∧
    (∀ kind, cellToFaceQ shape .harmonic kind arr f =
      hmean2 (selectComp shape.length kind arr (faceAxis shape f) (conn shape f).1)
        (selectComp shape.length kind arr (faceAxis shape f) (conn shape f).2)) := by
  refine ⟨?_, ?_, ?_, fun kind => rfl⟩ <;> simp only [cellToFaceQ, cellToFace, selectComp] <;> congr 1 <;> ring

/-- … in particular the off-diagonal entries of a tensor field (and the other components of a vector field) are never
read: two arrays that agree on the selected entries have the same face averages, for both modes. -/
theorem c2f_ignores_other_components (shape : List Nat) (mode : AvgMode) (kind : QKind) (arr arr' : Nat → Rat) (f : Nat)
    (h : ∀ c, selectComp shape.length kind arr (faceAxis shape f) c = selectComp shape.length kind arr' (faceAxis shape f) c) :
    cellToFaceQ shape mode kind arr f = cellToFaceQ shape mode kind arr' f := by
  cases mode <;> simp only [cellToFaceQ, cellToFace, h]

/-- the shape dispatch: a trailing axis of length 1 is read as a scalar even in 1-D (where it could be a vector), and every
documented layout is accepted in every dimension 1–3 -/
theorem c2f_dispatch : ∀ dim ∈ [1, 2, 3],
    kindOf dim [] = .ok .scalar ∧ kindOf dim [1] = .ok .scalar ∧ kindOf dim [dim, dim] = .ok .tensor ∧
    (dim ≠ 1 → kindOf dim [dim] = .ok .vector) ∧ kindOf dim [dim + 1] = .error .notImpl := by decide

/-- harmonic mean with a zero and no negative neighbour is `0`; with a negative neighbour it is NaN (`none`) -/
theorem c2f_harm_edge (x y : Rat) :
    ((x = 0 ∨ y = 0) → 0 ≤ x → 0 ≤ y → hmean2 x y = some 0) ∧ ((x < 0 ∨ y < 0) → hmean2 x y = none) := by
  constructor
  · intro h hx hy
    unfold hmean2
    rw [if_neg (by intro h'; rcases h' with h' | h' <;> linarith), if_pos h]
  · intro h; unfold hmean2; rw [if_pos h]

/-- the harmonic mean lies between 0 and the arithmetic mean for positive data -/
theorem hmean_le_amean (x y : Rat) (hx : 0 < x) (hy : 0 < y) :
    ∃ m, hmean2 x y = some m ∧ 0 < m ∧ m ≤ (x + y) / 2 := by
  unfold hmean2
  rw [if_neg (by intro h; rcases h with h | h <;> linarith), if_neg (by intro h; rcases h with h | h <;> linarith)]
  refine ⟨_, rfl, ?_⟩
  have hs : 0 < x + y := by positivity
  have e : 2 / (1 / x + 1 / y) = 2 * x * y / (x + y) := by field_simp; ring
  rw [e]
  constructor
  · positivity
  · rw [div_le_div_iff₀ hs (by norm_num)]
    nlinarith [sq_nonneg (x - y)]

/-- Tangential reconstruction reproduces constant fields on the code's interior faces (dimension ≥ 2): if the flux
equals `k` on every face of the tangential axis `b = otherAxis a i`, the `i`-th tangential component at an interior
face of axis `a` is exactly `k`. -/
theorem tangential_const (shape idx : List Nat) (a i : Nat) (U : Nat → Rat) (k : Rat)
    (hd : shape.length ≠ 1) (ha : a < shape.length) (hi : i + 1 < shape.length)
    (hb : inBox (fshape shape a) idx = true) (hint : isInterior shape a idx = true)
    (hU : ∀ g, g < numFaces shape → faceAxis shape g = otherAxis a i → U g = k) :
    tang shape U i (faceNum shape a idx) = k := by
  have ob := otherAxis_spec a i shape.length ha hi
  have hcomp := (C07.interior_iff_tangential_complete shape idx a hd ha hb).1 hint (otherAxis a i) ob.1 ob.2
  have hf := faceNum_lt shape idx a ha hb
  have hl := conn_lt shape _ hf
  have val : ∀ c side, c < numCells shape → side < 2 → rev shape (otherAxis a i) c side ≠ -1 →
      quarter U (rev shape (otherAxis a i) c side) = (1 / 4 : Rat) * k := by
    intro c side hc hs hne
    rcases rev_cases shape (otherAxis a i) c side with e | ⟨g, e⟩
    · exact absurd e hne
    · rw [e, quarter_nat]
      have inv := C07.rev_conn_inverse shape (otherAxis a i) c g ob.1 hc
      have : side = 0 ∨ side = 1 := by omega
      rcases this with rfl | rfl
      · have := inv.2.1 e; rw [hU g this.1 this.2.1]
      · have := inv.1.1 e; rw [hU g this.1 this.2.1]
  simp only [tang, faceAxis_faceNum shape idx a ha hb]
  rw [val _ 0 hl.1 (by omega) (hcomp 0 (by omega)).1, val _ 1 hl.1 (by omega) (hcomp 1 (by omega)).1,
      val _ 0 hl.2 (by omega) (hcomp 0 (by omega)).2, val _ 1 hl.2 (by omega) (hcomp 1 (by omega)).2]
  ring

/-- (unfolds the definition) the full reconstruction keeps the normal component -/
theorem full_keeps_normal (shape : List Nat) (U : Nat → Rat) (f : Nat) :
    fullFlux shape U f (faceAxis shape f) = U f := by
  simp [fullFlux]

/-! ### non-vacuity -/

/-- the assembled matrix and the accumulated reconstruction on a 3×2 grid -/
example : (divAssembled [3, 2] [1/2, 1/4]).take 7 = [1/4, 0, 0, 0, 1/2, 0, 0] := by decide +kernel
example : faceToCellTable [3, 2] (fun f => [1, 2, 3, 4, 5, 6, 7].getD f 0) [1/4, 1/2] 0 = [1/4, 5/4, 3/2, 3/4, 13/4, 3] := by
  decide +kernel


/-- 3×2 grid, voxel sizes (1/2, 1/4): the divergence of a concrete flux, cell by cell, and its zero total -/
example : (List.range 6).map (divApply [3, 2] [1/2, 1/4] (fun f => [1, 2, 3, 4, 5, 6, 7].getD f 0))
    = [11/4, 13/4, 3, -7/4, -11/4, -9/2] := by decide +kernel
example : isInterior [3, 3] 0 [0, 1] = true ∧ inBox (fshape [3, 3] 0) [0, 1] = true ∧ (2 : Nat) ≠ 1 := by decide
example : tang [3, 3] (fun _ => 7) 0 (faceNum [3, 3] 0 [0, 1]) = 7 := by decide +kernel
/-- single-cell axis: a 1×3 grid -/
example : (List.range 3).map (divApply [1, 3] [2, 1] (fun f => [1, 5].getD f 0)) = [2, 8, -10] := by decide +kernel

end Darsia.C06
