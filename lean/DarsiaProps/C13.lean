/-
C13 — concentration analysis zeroes the baseline and applies its stages in order.

Model: `DarsiaModel.Pipeline` (skeleton of `ConcentrationAnalysis.__init__/find_cleaning_filter/__call__`;
the stage objects are arbitrary, possibly input-scribbling, callables). Exact rationals; the conversion
of integer images to float (`img_as(float)`) and the float32 arithmetic of skimage's `compare_images`
are outside the model and observed by the oracle.
-/
import DarsiaProofs.Pipeline
import DarsiaProofs.Persist
import DarsiaGen.CallOrder
import DarsiaGen.Promotion
namespace Darsia.C13
open Darsia Darsia.Pipeline

/-- the difference with the stored baseline, or of the probe alone -/
def diffOf (c : Config) (base : Option Arr) (probe : Arr) : Arr :=
  match base with | some b => diff c.opt b probe | none => diffNoBase c.opt probe

def thrOf (c : Config) (base : Option Arr) (extras : List Arr) : Option (List Px) :=
  match base with | some b => cleaningFilter c b extras | none => none

def cleanOpt (t : Option (List Px)) (a : Arr) : Arr := match t with | some t => clean t a | none => a

/-- (definitional unfolding of `call`, used below) -/
theorem call_eq (c : Config) (k : Kind) (base : Option Arr) (extras : List Arr) (probe : Arr) :
    (call c k base extras probe).trace = (runStages (stageList c (thrOf c base extras)) (diffOf c base probe)).2 ∧
    (call c k base extras probe).out = (runStages (stageList c (thrOf c base extras)) (diffOf c base probe)).1 := by
  cases base <;> exact ⟨rfl, rfl⟩

/-- **Baseline ↦ zero**, for every difference option, every baseline, any number of extra baselines
(the cleaning filter built from them is non-negative by construction) and every order of stages, provided the
stage objects map the zero signal to the zero signal — which the stock stages do: channel selections /
gray / sums, TVD, `LinearModel`/`ScalingModel` without offset, `ClipModel` with lower bound 0. -/
theorem baseline_zero (c : Config) (k : Kind) (base : Arr) (extras : List Arr)
    (hr : ZeroPreserving c.reduction) (hb : ZeroPreserving c.balancing)
    (hs : ZeroPreserving c.restoration) (hm : ZeroPreserving c.model) :
    IsZero (call c k (some base) extras base).out := by
  simp only [call]
  apply runStages_zero _ _ _ (diff_self_zero c.opt base)
  intro s hmem x hx
  simp only [stageList, List.mem_append, List.mem_map, Option.mem_toList] at hmem
  rcases hmem with ((⟨f, hf, rfl⟩ | ⟨t, ht, rfl⟩) | ⟨f, hf, rfl⟩) | hmem
  · exact hr f hf x hx
  · exact clean_zero t (cleaningFilter_nonneg c base extras t ht) x hx
  · exact hb f hf x hx
  · split at hmem
    · simp only [List.mem_append, List.mem_map, Option.mem_toList] at hmem
      rcases hmem with ⟨f, hf, rfl⟩ | ⟨f, hf, rfl⟩
      · exact hs f hf x hx
      · exact hm f hf x hx
    · simp only [List.mem_append, List.mem_map, Option.mem_toList] at hmem
      rcases hmem with ⟨f, hf, rfl⟩ | ⟨f, hf, rfl⟩
      · exact hm f hf x hx
      · exact hs f hf x hx

/-- the cleaning threshold learnt from extra baselines is non-negative everywhere (it starts at zero and only
takes element-wise maxima) — the hypothesis "threshold ≥ 0" of the baseline theorem is always met -/
theorem cleaning_filter_nonneg (c : Config) (base : Arr) (extras : List Arr) (t : List Px)
    (h : cleaningFilter c base extras = some t) : ∀ tp ∈ t, ∀ x ∈ tp, 0 ≤ x :=
  cleaningFilter_nonneg c base extras t h

def present {α} (o : Option α) (n : StageName) : List StageName := if o.isSome then [n] else []

/-- **Stage order** (definitional case split on the model's `stageList`; the link to the source is
`source_call_order` / `stage_order_from_source`): the stage objects that exist are called exactly once each, in the documented order
reduction → cleaning → balancing → restoration → model, with restoration and model swapped when
`"restoration -> model"` is false; cleaning happens iff extra baselines were given. -/
theorem stage_order (c : Config) (k : Kind) (base : Option Arr) (extras : List Arr) (probe : Arr) :
    (call c k base extras probe).trace.map Prod.fst =
      present c.reduction .reduction ++ present (thrOf c base extras) .cleaning ++ present c.balancing .balancing ++
      (if c.restorationFirst then present c.restoration .restoration ++ present c.model .model
       else present c.model .model ++ present c.restoration .restoration) := by
  rw [(call_eq c k base extras probe).1, runStages_names]
  generalize thrOf c base extras = t
  obtain ⟨opt, r, b, rs, m, first⟩ := c
  cases r <;> cases b <;> cases rs <;> cases m <;> cases first <;> cases t <;> simp [stageList, present]

/-- the order theorem for an ARBITRARY order of the private stage methods: the stage objects that exist are called
once each, in that order (induction over the order list) -/
theorem stage_order_general (order : List StageName) (c : Config) (thr : Option (List Px)) (d : Arr) :
    (runStages (stageListOf order c thr) d).2.map Prod.fst = order.filter fun n => (stageOf c thr n).isSome := by
  rw [runStages_names]
  induction order with
  | nil => rfl
  | cons n rest ih =>
    simp only [stageListOf, List.filterMap_cons, List.filter_cons] at ih ⊢
    cases h : stageOf c thr n with
    | none => simpa [h] using ih
    | some s => simpa [h] using ih

/-- the model's `stageList` is the stage list of the documented order (definitional: case split) -/
theorem stageList_is_docOrder (c : Config) (thr : Option (List Px)) :
    stageList c thr = stageListOf (docOrder c.restorationFirst) c thr := by
  obtain ⟨opt, r, b, rs, m, first⟩ := c
  cases r <;> cases b <;> cases rs <;> cases m <;> cases first <;> cases thr <;> rfl

/-- **The SOURCE calls its stages in the documented order and chains them**: the sequence of private stage calls in
`ConcentrationAnalysis.__call__`, extracted from the AST on every check for both settings of
`first_restoration_then_model`, is reduction → cleaning → balancing → restoration → model (last two swapped), and every
call is handed the variable the previous call assigned (the first one the difference). Reordering or re-wiring the
calls in the source breaks this obligation. -/
theorem source_call_order :
    ∀ first : Bool, Gen.callOrder first = docOrder first ∧ Gen.callsChained first = true := by decide

/-- **Stage order, from the source order**: with the call order extracted from the source, the stage objects that exist
are called once each in that order. -/
theorem stage_order_from_source (c : Config) (k : Kind) (st : AState) (probe : Arr) :
    (callSt c k st probe).trace.map Prod.fst =
      (Gen.callOrder c.restorationFirst).filter fun n => (stageOf c st.thr n).isSome := by
  rw [(source_call_order c.restorationFirst).1]
  simp only [callSt, stageList_is_docOrder]
  exact stage_order_general _ c st.thr _

/-- cleaning is applied iff there is a baseline and at least one extra baseline (definitional: unfolds
`cleaningFilter`) -/
theorem cleaning_iff (c : Config) (base : Arr) (extras : List Arr) :
    (cleaningFilter c base extras).isSome = !extras.isEmpty := by
  cases extras <;> simp [cleaningFilter]

/-- **Composition** (definitional case split on `stageList`): the result is model(restoration(balancing(cleaning(reduction(difference))))) — and
restoration(model(…)) when so configured — where absent stages are identities and each stage receives the
output of the previous one. -/
theorem result_eq_composition (c : Config) (k : Kind) (base : Option Arr) (extras : List Arr) (probe : Arr) :
    (call c k base extras probe).out =
      let s := applyOpt c.balancing (cleanOpt (thrOf c base extras) (applyOpt c.reduction (diffOf c base probe)))
      if c.restorationFirst then applyOpt c.model (applyOpt c.restoration s)
      else applyOpt c.restoration (applyOpt c.model s) := by
  rw [(call_eq c k base extras probe).2, runStages_out]
  generalize thrOf c base extras = t
  generalize diffOf c base probe = d
  obtain ⟨opt, r, b, rs, m, first⟩ := c
  cases r <;> cases b <;> cases rs <;> cases m <;> cases first <;> cases t <;>
    simp [stageList, applyOpt, cleanOpt, Stage.pure]

/-- every stage receives exactly the output of the stages before it (the recorded inputs; a property of `runStages`,
the chaining in the source is `source_call_order`) -/
theorem stage_inputs (c : Config) (k : Kind) (base : Option Arr) (extras : List Arr) (probe : Arr) (i : Nat)
    (hi : i < (stageList c (thrOf c base extras)).length) :
    ((call c k base extras probe).trace[i]?).map Prod.snd =
      some (((stageList c (thrOf c base extras)).take i).foldl (fun x s => (s.2 x).1) (diffOf c base probe)) := by
  rw [(call_eq c k base extras probe).1]
  exact runStages_inputs _ _ i hi

/-- **positive + negative = absolute**, **positive − negative = plain** (element-wise, any shapes) -/
theorem pos_add_neg_eq_abs (base probe : Arr) :
    arrZip (· + ·) (diff .positive base probe) (diff .negative base probe) = diff .absolute base probe :=
  diff_combine _ _ _ _ (fun p b => pos_add_neg p b) base probe

theorem pos_sub_neg_eq_plain (base probe : Arr) :
    arrZip (· - ·) (diff .positive base probe) (diff .negative base probe) = diff .plain base probe :=
  diff_combine _ _ _ _ (fun p b => pos_sub_neg p b) base probe

/-- the functional `call` is the state machine started by the constructor -/
theorem call_eq_callSt (c : Config) (k : Kind) (base : Option Arr) (extras : List Arr) (probe : Arr) :
    (call c k base extras probe).out = (callSt c k (AState.init c base extras) probe).out ∧
    (call c k base extras probe).trace = (callSt c k (AState.init c base extras) probe).trace := by
  cases base <;> exact ⟨rfl, rfl⟩

/-- **The probe is left unmodified** — on buffers. `callOp` runs the call on a heap of arrays (cell 0: the caller's
probe, cell 1: the stored baseline): the probe is deep-copied, the difference is a new array or (option `plain`,
no baseline) the array of the copy, every stage is handed a buffer it may overwrite. Whatever the stage objects
write: the caller's probe and the stored baseline are unchanged, and the returned array holds exactly the value of
the functional specification — in every state of the analysis object. -/
theorem probe_unchanged (c : Config) (k : Kind) (st : AState) (probe : Arr) :
    (callOp true c st probe).1[0]? = some probe ∧
    (∀ b, st.base = some b → (callOp true c st probe).1[1]? = some b) ∧
    (callOp true c st probe).1[(callOp true c st probe).2]? = some (callSt c k st probe).out :=
  callOp_deep c k st probe

/-- ... and this is because of the copy: without it (`deep = false`), option `plain`, no baseline and a reduction that
overwrites its input, the caller's probe is destroyed. -/
example :
    let scribbler : Stage := fun a => ((StageFn.chan 0).eval a, { a with px := a.px.map fun p => p.map fun _ => 7 })
    let c : Config := { opt := .plain, reduction := some scribbler, balancing := none, restoration := none, model := none,
                        restorationFirst := true }
    let st : AState := { base := none, thr := none }
    let probe : Arr := { scalar := false, px := [[1, 2, 3]] }
    (callOp false c st probe).1[0]? ≠ some probe ∧ (callOp true c st probe).1[0]? = some probe := by
  decide +kernel

/-- **update**: after any sequence of `update(base=…)` calls ending with baseline `b` (and whatever extra baselines
the filter was learnt from at construction — it stays non-negative), the analysis maps `b` to the zero signal. -/
theorem baseline_zero_after_updates (c : Config) (k : Kind) (base0 : Option Arr) (extras us : List Arr) (b : Arr)
    (hr : ZeroPreserving c.reduction) (hb : ZeroPreserving c.balancing)
    (hs : ZeroPreserving c.restoration) (hm : ZeroPreserving c.model) :
    IsZero (callSt c k ((us ++ [b]).foldl (fun s u => s.update (some u)) (AState.init c base0 extras)) b).out := by
  simp only [callSt, updates_base, updates_thr]
  apply runStages_zero _ _ _ (diff_self_zero c.opt b)
  intro s hmem x hx
  simp only [stageList, List.mem_append, List.mem_map, Option.mem_toList] at hmem
  rcases hmem with ((⟨f, hf, rfl⟩ | ⟨t, ht, rfl⟩) | ⟨f, hf, rfl⟩) | hmem
  · exact hr f hf x hx
  · refine clean_zero t ?_ x hx
    cases base0 with
    | none => simp [AState.init] at ht
    | some b0 => exact cleaningFilter_nonneg c b0 extras t (by simpa [AState.init] using ht)
  · exact hb f hf x hx
  · split at hmem
    · simp only [List.mem_append, List.mem_map, Option.mem_toList] at hmem
      rcases hmem with ⟨f, hf, rfl⟩ | ⟨f, hf, rfl⟩
      · exact hs f hf x hx
      · exact hm f hf x hx
    · simp only [List.mem_append, List.mem_map, Option.mem_toList] at hmem
      rcases hmem with ⟨f, hf, rfl⟩ | ⟨f, hf, rfl⟩
      · exact hm f hf x hx
      · exact hs f hf x hx

/-- and a probe is then analysed against the NEW baseline with the OLD filter: `update` replaces the baseline only -/
theorem update_replaces_baseline_only (c : Config) (base0 : Option Arr) (extras us : List Arr) (b : Arr) :
    ((us ++ [b]).foldl (fun s u => s.update (some u)) (AState.init c base0 extras)).base = some b ∧
    ((us ++ [b]).foldl (fun s u => s.update (some u)) (AState.init c base0 extras)).thr = (AState.init c base0 extras).thr :=
  ⟨updates_base _ us b, updates_thr _ _⟩

/-- **Kind rule** (unfolds the definition `resultKind`, which transcribes `is_scalar = len(concentration.shape) ==
len(img.shape) - 1`; what it adds is that the rule is applied to the FINAL array): the result is a `ScalarImage` exactly when the signal lost one axis w.r.t. the probe
(reduced to one channel), otherwise an image of the probe's own class. -/
theorem scalar_kind_rule (c : Config) (k : Kind) (base : Option Arr) (extras : List Arr) (probe : Arr) :
    let r := call c k base extras probe
    (r.out.ndim + 1 = probe.ndim → r.kind = .scalarImage) ∧ (r.out.ndim + 1 ≠ probe.ndim → r.kind = k) := by
  simp only [call, resultKind]
  constructor <;> intro h <;> simp [h]

/-- class of the image object the analysis returns, from the pipeline's kind rule -/
def clsOfKind : Kind → Persist.Cls
  | .image => .image | .scalarImage => .scalarImage | .opticalImage => .opticalImage

/-- **Result metadata** (`metadata = img.metadata(); ScalarImage(concentration, **metadata)` resp.
`type(img)(concentration, **metadata)`, constructors as modelled in `DarsiaModel.Persist`): for a probe of any class
satisfying the constructor invariant, in every state of the analysis object, the returned image — of the class the
kind rule yields on the final array — carries the probe's physical metadata (space_dim, indexing, dimensions, origin,
series, date, reference_date, time, name) key by key; its `scalar` flag is `True` when the signal was reduced to one
channel (a `color_space` entry of the probe is then dropped), otherwise all metadata keys of the probe's class,
`scalar` and `color_space` included, are the probe's. Parametric in the key table (`KeysOK`, discharged for the
generated table in C18). -/
theorem result_meta {V : Type} (S : Persist.Sem V) (ok : S.OK) (keys : Persist.Cls → List Persist.Key)
    (hk : Persist.KeysOK keys) (c : Config) (k : Kind) (st : AState) (probe : Arr) (a : Persist.Key → V)
    (inv : Persist.Inv S (clsOfKind k) a) :
    let res := callSt c k st probe
    let md := Persist.metadataOf keys (clsOfKind k) a
    (res.kind = .scalarImage →
      (∀ key ∈ Persist.baseKeys, key ≠ .scalar → Persist.construct S .scalarImage md key = a key) ∧
      Persist.construct S .scalarImage md .scalar = S.tru) ∧
    (res.kind = k → ∀ key ∈ keys (clsOfKind k), Persist.construct S (clsOfKind k) md key = a key) := by
  have hc : clsOfKind k ∈ Persist.Cls.all := by cases k <;> simp [clsOfKind, Persist.Cls.all]
  exact ⟨fun _ => Persist.scalar_from_any S ok keys hk hc a inv,
    fun _ => Persist.same_class_from_metadata S ok keys hk hc a inv⟩

/-- the key-table hypothesis of `result_meta` is satisfiable: the metadata keys of the three image classes as the code
has them today (the generated table is discharged in C18) -/
example : Persist.KeysOK (fun c => match c with
    | .opticalImage => [.space_dim, .indexing, .dimensions, .origin, .series, .scalar, .date, .reference_date, .time, .name, .color_space]
    | _ => [.space_dim, .indexing, .dimensions, .origin, .series, .scalar, .date, .reference_date, .time, .name]) :=
  ⟨by decide, by decide, by decide, by decide⟩

/-- and the kind is one of the two: `ScalarImage` or the probe's own class -/
theorem result_kind_cases (c : Config) (k : Kind) (st : AState) (probe : Arr) :
    (callSt c k st probe).kind = .scalarImage ∨ (callSt c k st probe).kind = k := by
  simp only [callSt, resultKind]
  split_ifs
  · exact Or.inl rfl
  · exact Or.inr rfl

/-- in particular: colour probe + channel reduction ↦ scalar image; no reduction ↦ class of the probe -/
theorem kind_examples (opt : DiffOpt) (k : Kind) (base probe : Arr) (hp : probe.scalar = false) (j : Nat) :
    (call { opt := opt, reduction := some (Stage.pure (StageFn.chan j).eval), balancing := none,
            restoration := none, model := none, restorationFirst := true } k (some base) [] probe).kind = .scalarImage ∧
    (call { opt := opt, reduction := none, balancing := none,
            restoration := none, model := none, restorationFirst := true } k (some base) [] probe).kind = k := by
  simp [call, resultKind, stageList, cleaningFilter, runStages, Stage.pure, StageFn.eval, Arr.ndim, diff, hp]

/-- **The stock reductions** (`MonochromaticReduction`): `gray` weighs the channels in the order R, G, B with
0.299 / 0.587 / 0.114 — a neutral pixel keeps its value, a pure red signal gives 0.299 and a pure blue one 0.114
(the order matters); every named reduction maps the zero signal to zero (hypothesis of `baseline_zero`). -/
theorem reduction_semantics (r g b v : Rat) :
    grayOf [r, g, b] = 299 / 1000 * r + 587 / 1000 * g + 114 / 1000 * b ∧ grayOf [v, v, v] = v ∧
    grayOf [1, 0, 0] = 299 / 1000 ∧ grayOf [0, 0, 1] = 114 / 1000 ∧
    (∀ f ∈ [StageFn.gray, .negKey, .chan 0, .chan 1, .chan 2, .chanAdd 0 1],
      ZeroPreserving (some (Stage.pure f.eval))) := by
  refine ⟨(by simp [grayOf, listGetD]), (by simp only [grayOf, listGetD, List.getElem?_cons_zero, List.getElem?_cons_succ, Option.getD_some]; linarith),
    (by simp [grayOf, listGetD]), (by simp [grayOf, listGetD]), ?_⟩
  intro f hf s hs a ha p hp x hx
  cases hs
  simp only [List.mem_cons, List.not_mem_nil, or_false] at hf
  have hz : ∀ q ∈ a.px, ∀ k, listGetD q k 0 = 0 := by
    intro q hq k
    simp only [listGetD]
    cases hk : q[k]? with
    | none => rfl
    | some y => simpa using ha q hq y (List.mem_of_getElem? hk)
  rcases hf with rfl | rfl | rfl | rfl | rfl | rfl
  all_goals (
    simp only [Stage.pure, StageFn.eval, List.mem_map] at hp
    obtain ⟨q, hq, rfl⟩ := hp
    simp only [List.mem_singleton] at hx
    subst hx)
  · simp [grayOf, hz q hq]
  · have hq0 : ∀ y ∈ q, y = 0 := ha q hq
    have hfold : ∀ (l : List Rat) (m : Rat), (∀ y ∈ l, y = 1) → m = 1 → l.foldl (fun m x => if x ≤ m then x else m) m = 1 := by
      intro l
      induction l with
      | nil => intro m _ hm; simpa using hm
      | cons y l ih =>
        intro m hl hm
        simp only [List.foldl_cons]
        apply ih _ (fun z hz' => hl z (by simp [hz']))
        rw [hl y (by simp), hm]; simp
    rw [hfold]
    · simp
    · intro y hy
      simp only [List.mem_map] at hy
      obtain ⟨z, hz', rfl⟩ := hy
      rw [hq0 z hz']; simp
    · cases q with
      | nil => simp
      | cons z _ => simp [hq0 z (by simp)]
  · simp [hz q hq]
  · simp [hz q hq]
  · simp [hz q hq]
  · simp [hz q hq]

/-- the `hsv` reduction (value channel inside the user's hue / saturation windows, else 0) maps zero to zero, and a
pixel outside the SATURATION window is zeroed whatever the hue window is -/
theorem hsv_reduction (a1 a2 a3 a4 : Rat) :
    ZeroPreserving (some (Stage.pure (StageFn.hsv a1 a2 a3 a4).eval)) ∧
    (∀ p : Px, ¬ (a3 < (hsvOf p).2.1 ∧ (hsvOf p).2.1 < a4) → hsvReduce a1 a2 a3 a4 p = 0) := by
  constructor
  · intro f hf a ha p hp x hx
    cases hf
    simp only [Stage.pure, StageFn.eval, List.mem_map] at hp
    obtain ⟨q, hq, rfl⟩ := hp
    simp only [List.mem_singleton] at hx
    subst hx
    have hz : ∀ k, listGetD q k 0 = 0 := by
      intro k
      simp only [listGetD]
      cases hk : q[k]? with
      | none => rfl
      | some y => simpa using ha q hq y (List.mem_of_getElem? hk)
    simp only [hsvReduce, hsvOf, hz]
    split_ifs <;> rfl
  · intro p h
    simp only [hsvReduce]
    rw [if_neg]
    intro hc
    exact h ⟨hc.2.2.1, hc.2.2.2⟩

/-- **No wrap-around for integer images** (`uint8`: bits = 8, `uint16`: bits = 16). The code promotes both images
with `img_as(float)` (value / (2^bits − 1)) before `_subtract_background`; then, for every difference option and all
pixel values of the type, the difference is exactly the (clipped / absolute / plain) *integer* difference divided by
2^bits − 1 — it lies in [−1, 1], and in [0, 1] for the clipped and absolute options. (Without promotion numpy would
compute `(p − b) mod 2^bits`: `wrapSub`.) -/
theorem diff_no_wrap (bits : Nat) (hb : 0 < bits) (base probe : List Nat)
    (hbase : ∀ b ∈ base, b < 2 ^ bits) (hprobe : ∀ p ∈ probe, p < 2 ^ bits) (o : DiffOpt) :
    diffPromoted bits o base probe =
      List.zipWith (fun (p b : Nat) => o.val (p : Rat) (b : Rat) / ((2 ^ bits - 1 : Nat) : Rat)) probe base ∧
    ∀ v ∈ diffPromoted bits o base probe, -1 ≤ v ∧ v ≤ 1 ∧ (o ≠ .plain → 0 ≤ v) := by
  constructor
  · unfold diffPromoted
    induction probe generalizing base with
    | nil => simp
    | cons p ps ih =>
      cases base with
      | nil => simp
      | cons b bs =>
        simp only [List.zipWith_cons_cons]
        rw [(val_promote bits hb p b (hprobe p (by simp)) (hbase b (by simp)) o).1,
          ih bs (fun x hx => hbase x (by simp [hx])) (fun x hx => hprobe x (by simp [hx]))]
  · intro v hv
    obtain ⟨p, hp, b, hbm, rfl⟩ := mem_zipWith' _ _ _ _ hv
    exact (val_promote bits hb p b (hprobe p hp) (hbase b hbm) o).2

/-- a wrapped difference looks nothing like the promoted one: 3 − 5 on uint8 is 254, the promoted positive part is 0 -/
example : wrapSub 8 3 5 = 254 ∧ DiffOpt.positive.val (promote 8 3) (promote 8 5) = 0 ∧
    DiffOpt.plain.val (promote 8 3) (promote 8 5) = -2 / 255 := by decide +kernel

/-- **Cleaning-filter accumulation**: with extra baselines `e :: extras` the threshold has the shape of the reduced
signal (also for multi-channel signals) and is the running maximum, started at 0, of their reduced differences with
the baseline; every entry is non-negative, dominates the corresponding entry of every extra baseline's signal, and is
attained (0 or the entry of one of them). -/
theorem cleaning_filter_is_running_max (c : Config) (base e : Arr) (extras : List Arr) :
    let signals := (e :: extras).map fun b => (extraSignal c base b).px
    cleaningFilter c base (e :: extras) = some (accumulate signals) ∧
    ∀ (i j : Nat) (row : Px) (t : Rat), (accumulate signals)[i]? = some row → row[j]? = some t →
      0 ≤ t ∧ (∀ s ∈ signals, ∀ (p : Px) (x : Rat), s[i]? = some p → p[j]? = some x → x ≤ t) ∧
      (t = 0 ∨ ∃ s ∈ signals, ∃ p : Px, s[i]? = some p ∧ p[j]? = some t) := by
  intro signals
  exact ⟨cleaningFilter_eq_accumulate c base e extras, fun i j row t hr ht => accumulate_spec signals i j row t hr ht⟩

/-- hence every extra baseline is itself cleaned to zero: wherever the threshold and its reduced signal are defined,
`clip(signal − threshold, 0)` vanishes (the structural noise the filter was learnt from is removed). -/
theorem extra_baseline_cleaned_zero (c : Config) (base e : Arr) (extras : List Arr) (b : Arr) (hb : b ∈ e :: extras)
    (i j : Nat) (row p : Px) (t x : Rat)
    (hr : (accumulate ((e :: extras).map fun b => (extraSignal c base b).px))[i]? = some row) (ht : row[j]? = some t)
    (hp : (extraSignal c base b).px[i]? = some p) (hx : p[j]? = some x) :
    Pipeline.posPart (x - t) = 0 := by
  have hle := (accumulate_spec _ i j row t hr ht).2.1 _ (List.mem_map.mpr ⟨b, hb, rfl⟩) p x hp hx
  unfold Pipeline.posPart
  split_ifs with h
  · linarith
  · rfl

/-! ### non-vacuity -/

def rgb : Arr := { scalar := false, px := [[1, 2, 3], [0, 4, 1]] }
def rgb2 : Arr := { scalar := false, px := [[2, 2, 1], [1, 0, 5]] }
def cfg : Config :=
  { opt := .absolute, reduction := some (Stage.pure (StageFn.chan 0).eval),
    balancing := some (Stage.pure (StageFn.affine 2 0).eval), restoration := none,
    model := some (Stage.pure (StageFn.clip 0 (some 1)).eval), restorationFirst := false }

/-- a concrete run: |Δ| of the red channel, cleaned with the threshold of one extra baseline, doubled, clipped -/
example : (call cfg .opticalImage (some rgb) [rgb2] rgb2).out = { scalar := true, px := [[0], [0]] } ∧
    (call cfg .opticalImage (some rgb) [rgb2] { scalar := false, px := [[3, 0, 0], [1/4, 0, 0]] }).out
      = { scalar := true, px := [[1], [0]] } ∧
    (call cfg .opticalImage (some rgb) [rgb2] rgb2).trace.map Prod.fst = [.reduction, .cleaning, .balancing, .model] := by
  decide +kernel

/-- the stock stages of the driver language satisfy the hypotheses of `baseline_zero` -/
example : ZeroPreserving (some (Stage.pure (StageFn.chan 1).eval)) ∧
    ZeroPreserving (some (Stage.pure (StageFn.affine 3 0).eval)) := by
  constructor <;>
  · intro f hf a ha p hp x hx
    cases hf
    simp only [Stage.pure, StageFn.eval, List.mem_map] at hp
    obtain ⟨q, hq, rfl⟩ := hp
    first
      | (simp only [List.mem_singleton] at hx
         subst hx
         cases hq' : q[1]? with
         | none => simp [listGetD, hq']
         | some v => simp [listGetD, hq']; exact ha q hq v (List.mem_of_getElem? hq'))
      | (simp only [List.mem_map] at hx
         obtain ⟨y, hy, rfl⟩ := hx
         rw [ha q hq y hy]; simp)

/-! ### every dtype `img_as(float)` accepts (unsigned, signed, bool, float) -/

/-- **Promotion rules tabulated from the implementation** (`DarsiaGen.Promotion`, regenerated each run by calling
`Image.img_as(float)`, the constructor, `update(base=…)` and `__call__` on sample values of each dtype): the table has
the twelve dtypes uint8…uint64, int8…int64, float16/32/64, bool, and for each of them the rule observed for
`img_as(float)`, for the stored baseline (after construction and after `update`) and for the probe inside `__call__`
is the model's rule of that dtype kind — in particular the probe is promoted exactly like the baseline. -/
theorem promotion_rules_from_implementation :
    (Gen.promotionTable.map fun r => (r.kind, r.bits)) =
      [(.u, 8), (.u, 16), (.u, 32), (.u, 64), (.i, 8), (.i, 16), (.i, 32), (.i, 64), (.f, 16), (.f, 32), (.f, 64), (.b, 8)] ∧
    ∀ r ∈ Gen.promotionTable,
      r.imgAs = r.kind.rule ∧ r.ctor = r.kind.rule ∧ r.update = r.kind.rule ∧ r.call = r.kind.rule := by
  decide

/-- **Baseline → 0 for every dtype kind**: a probe pixel equal to the baseline pixel, both of kind `k` with `bits`
bits and promoted by the rule of that kind, gives difference 0 under every option (any value, in range or not). -/
theorem baseline_zero_every_dtype (o : DiffOpt) (k : DKind) (bits : Nat) (x : Rat) :
    diffD o k bits k bits x x = 0 := diffD_self o k bits x

/-- **positive + negative = absolute, positive − negative = plain** on the promoted values, for baseline and probe of
any two (also different) dtype kinds and widths. -/
theorem diff_parts_every_dtype (kb : DKind) (bb : Nat) (kp : DKind) (bp : Nat) (b p : Rat) :
    diffD .positive kb bb kp bp b p + diffD .negative kb bb kp bp b p = diffD .absolute kb bb kp bp b p ∧
    diffD .positive kb bb kp bp b p - diffD .negative kb bb kp bp b p = diffD .plain kb bb kp bp b p :=
  diffD_parts kb bb kp bp b p

/-- **Range of the promoted values**: unsigned pixel values of a `bits`-bit type land in [0, 1]; signed values
(−2^(bits−1) … 2^(bits−1)−1, `bits ≥ 2`) land in [−1, 1] and, except for the most negative one (clipped to −1, so it
coincides with its neighbour), are the plain quotient by 2^(bits−1)−1. -/
theorem promoted_range (bits : Nat) (x : Rat) :
    (0 < bits → 0 ≤ x → x ≤ ((2 ^ bits - 1 : Nat) : Rat) →
      0 ≤ DKind.u.rule.apply bits x ∧ DKind.u.rule.apply bits x ≤ 1) ∧
    (0 < ((2 ^ (bits - 1) - 1 : Nat) : Rat) → -(((2 ^ (bits - 1) - 1 : Nat) : Rat) + 1) ≤ x →
      x ≤ ((2 ^ (bits - 1) - 1 : Nat) : Rat) →
      -1 ≤ DKind.i.rule.apply bits x ∧ DKind.i.rule.apply bits x ≤ 1 ∧
      (-((2 ^ (bits - 1) - 1 : Nat) : Rat) ≤ x → DKind.i.rule.apply bits x = x / ((2 ^ (bits - 1) - 1 : Nat) : Rat))) :=
  ⟨fun hb h0 h1 => apply_unsigned_range bits hb x h0 h1, fun hm h0 h1 => apply_signed_range _ x hm h0 h1⟩

/-- int16: −32768 and −32767 both become −1; 16384 − (−16384) is 32768/32767; a raw (unpromoted) signed probe against a
promoted baseline would be off by orders of magnitude (what the rule `asIs` for a signed probe amounts to) -/
example : DKind.i.rule.apply 16 (-32768) = -1 ∧ DKind.i.rule.apply 16 (-32767) = -1 ∧
    diffD .plain .i 16 .i 16 (-16384) 16384 = 32768 / 32767 ∧
    DiffOpt.plain.val (PRule.asIs.apply 16 16384) (DKind.i.rule.apply 16 (-16384)) = 16384 + 16384 / 32767 := by
  decide +kernel

end Darsia.C13
