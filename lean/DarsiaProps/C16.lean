/-
C16 — solvers and regularisers carry no hidden state between calls.

Model: `DarsiaModel.Stateful` — the process (`World`) holds the default-argument solver instances of
`H1_regularization` and `split_bregman_tvd`, the user's `Jacobi` / `MG` objects with their cached
attributes, `AndersonAcceleration` objects with their history matrices, and distance objects with
their cached linear solver.  An operation returns the record of everything its arithmetic reads
besides its array arguments.  `step true false` is the code after the two `fix:` commits
(diagonal computed on every `Jacobi` call; `MG` puts the fine-level coefficients back),
`step _ true` the `hasattr` caching before the first, `step false _` the coefficient
prolongation before the second.
All theorems quantify over every initial process, every history and every operation: no length bound.
-/
import DarsiaModel.Stateful
import DarsiaModel.SolverArith
import DarsiaModel.Anderson
import DarsiaProofs.Stateful
namespace Darsia.C16
open Darsia Darsia.Stateful

/-- Nothing a call reads comes from a cache: two processes that differ only in cached attributes
(`const_diag`, smoother caches, Anderson matrices, factorisations, parameters of the default
instances) give the same result for every operation, and stay equal up to caches. -/
theorem call_reads_no_cache (w w' : World) (e : w'.norm = w.norm) (op : Op) :
    (step true false w' op).2 = (step true false w op).2 ∧
      (step true false w' op).1.norm = (step true false w op).1.norm :=
  step_rel e op

/-- Statelessness: after ANY history, an operation returns what it returns after only the
parameter-setting part of that history (`update_params` on the user's solver objects, including the
one a regulariser issues on the solver handed to it).  Every solve, regularisation, accelerated run
and distance computation can be erased from the history without changing any later result. -/
theorem stateless (w0 : World) (h : List Op) (op : Op) :
    (step true false (run true false w0 h) op).2
      = (step true false (run true false w0 (h.flatMap Op.settingPart)) op).2 :=
  ((step_rel (run_settings w0 w0 rfl h) op).1).symm

/-- `out (run (h ++ [op])) = out (run [op])` for every operation that uses no user solver object:
H1 regularisation and split-Bregman denoising with the library's default solver instance,
Anderson-accelerated runs (starting at iteration 0) and distance computations with a re-used object. -/
theorem stateless_self_contained (w0 : World) (h : List Op) (op : Op) (hop : op.selfContained = true) :
    (step true false (run true false w0 h) op).2 = (step true false w0 op).2 := by
  rw [stateless w0 h op]
  obtain ⟨a, b, c, d⟩ := settings_frame w0 h
  exact selfContained_frame w0 _ op hop a b c d

/-- the same on the list of results of a history -/
theorem stateless_outs (w0 : World) (h : List Op) (op : Op) (hop : op.selfContained = true) :
    (outs true false w0 (h ++ [op])).getLast? = (outs true false w0 [op]).getLast? := by
  rw [outs_append, List.getLast?_append]
  simp [outs, stateless_self_contained w0 h op hop]

/-- Re-running a history in a fresh process gives the same results: the list of results is a function
of the initial objects and the history (the model is deterministic), and reordering two adjacent
self-contained operations does not change what either returns. -/
theorem reorder_independent (w0 : World) (h : List Op) (a b : Op)
    (ha : a.selfContained = true) (hb : b.selfContained = true) :
    (step true false (run true false w0 (h ++ [a])) b).2 = (step true false (run true false w0 h) b).2 ∧
    (step true false (run true false w0 (h ++ [b])) a).2 = (step true false (run true false w0 h) a).2 := by
  constructor
  · rw [stateless_self_contained w0 (h ++ [a]) b hb, stateless_self_contained w0 h b hb]
  · rw [stateless_self_contained w0 (h ++ [b]) a ha, stateless_self_contained w0 h a ha]

/-- Regularisers (H1, split Bregman) with ANY solver — the default instance or a user's Jacobi / MG object — are
independent of the whole history AND of the parameters `dim`, `mass_coeff`, `diffusion_coeff` the solver object was
constructed or left with (the call overwrites all three; only `maxiter`, `tol`, `depth`, `smoother_iterations` and the
heterogeneity flag of the object matter): `w0'` may be any process whose solver objects differ from those of `w0` in
those parameters and in caches. -/
theorem regulariser_stateless (w0 w0' : World) (e : w0'.normP = w0.normP) (h : List Op)
    (which : Bool) (s : SolverRef) (mass diff : Coef) (dim n : Nat) :
    (regularise true false (run true false w0 h) which s mass diff dim n).2
      = (regularise true false w0' which s mass diff dim n).2 := by
  apply regularise_normP
  rw [run_normP, e]

/-- A multigrid solve leaves the object as it found it, up to caches (the coefficients in particular). -/
theorem mg_call_restores (m : MG) : (m.call true false).1.norm = m.norm := (MG.call_norm m).1

/-! ### results, not only read-sets

`DarsiaModel.SolverArith.evalOut` computes the numerical result of a Jacobi solve, a multigrid solve (V-cycles with
`darsia.laplace`, restriction, prolongation and edge padding as coded) and an H1 regularisation over ℚ from the record
the call returns and its array arguments; the differential check compares these rationals with the implementation's
floats (exactly where every diagonal is a power of two, within 1e-12 otherwise).  Since the result is a function of the
record and the arguments, the statelessness theorems transfer to results. -/

/-- the numerical result of a call after any history equals its result after the parameter settings only -/
theorem stateless_results (env : Nat → Option Arr) (w0 : World) (h : List Op) (op : Op) (x0 rhs : Arr) :
    evalOut env op x0 rhs (step true false (run true false w0 h) op).2
      = evalOut env op x0 rhs (step true false (run true false w0 (h.flatMap Op.settingPart)) op).2 := by
  rw [stateless]

/-- ... and equals its result in a fresh process for self-contained operations -/
theorem self_contained_results (env : Nat → Option Arr) (w0 : World) (h : List Op) (op : Op) (hop : op.selfContained = true)
    (x0 rhs : Arr) :
    evalOut env op x0 rhs (step true false (run true false w0 h) op).2 = evalOut env op x0 rhs (step true false w0 op).2 := by
  rw [stateless_self_contained w0 h op hop]

/-- the image returned by `H1_regularization` with any solver depends on the call's arguments only
(history, caches and the solver object's own `dim` / coefficients are irrelevant) -/
theorem h1_result_stateless (env : Nat → Option Arr) (w0 w0' : World) (e : w0'.normP = w0.normP) (h : List Op)
    (s : SolverRef) (mu omega : Coef) (dim channels : Nat) (img : Arr) :
    evalH1 env dim omega
        (match (regularise true false (run true false w0 h) true s omega mu dim channels).2 with | .solves rs => rs | _ => []) img
      = evalH1 env dim omega
        (match (regularise true false w0' true s omega mu dim channels).2 with | .solves rs => rs | _ => []) img := by
  rw [regulariser_stateless w0 w0' e h true s omega mu dim channels]

/-! ### Anderson acceleration: arithmetic (model `DarsiaModel.Anderson` of builder c; the least-squares solve is a parameter) -/

/-- a fixed-point iteration `x ← AA(g(x), g(x) − x, k)` for `k = start, start+1, …` -/
def aaRun (depth : Nat) (restart : Option Nat) (lstsq : List Anderson.V → Anderson.V → List Rat) (gfun : Anderson.V → Anderson.V) :
    Nat → Nat → Anderson.St → Anderson.V → Anderson.V
  | _, 0, _, x => x
  | k, n + 1, st, x =>
    let r := Anderson.call depth restart lstsq st (gfun x) (Anderson.vsub (gfun x) x) k
    aaRun depth restart lstsq gfun (k + 1) n r.2 r.1

/-- the RESULT of an accelerated run that starts at iteration 0 does not depend on the history matrices and stored
iterates the object was left with (whatever they are): the first call resets them before anything is read -/
theorem anderson_run_result_stateless (depth : Nat) (restart : Option Nat) (lstsq : List Anderson.V → Anderson.V → List Rat)
    (gfun : Anderson.V → Anderson.V) (n : Nat) (st st' : Anderson.St) (x : Anderson.V) :
    aaRun depth restart lstsq gfun 0 n st x = aaRun depth restart lstsq gfun 0 n st' x := by
  cases n with
  | zero => rfl
  | succ n =>
    have h : ∀ s : Anderson.St, Anderson.call depth restart lstsq s (gfun x) (Anderson.vsub (gfun x) x) 0
        = Anderson.call depth restart lstsq (Anderson.reset depth) (gfun x) (Anderson.vsub (gfun x) x) 0 := by
      intro s
      have hi : Anderson.inner restart 0 = 0 := by cases restart <;> simp [Anderson.inner]
      simp only [Anderson.call, hi, if_true]
    simp only [aaRun, h st, h st']

/-! ### the code before the fixes does not have the property -/

def j0 : Jac := Jac.new 1 none ⟨2, .scalar 1, .scalar 1⟩
def wJ : World := World.init [j0] [] [] 0

/-- `hasattr` caching of `const_diag`: a Jacobi solve with grid spacing 1 changes what the next solve
with grid spacing 1/2 on the same object computes with. -/
theorem jacobi_cache_is_hidden_state :
    (step true true (run true true wJ [.jacCall 0 1 0]) (.jacCall 0 (1 / 2) 0)).2
      ≠ (step true true (run true true wJ ([Op.jacCall 0 1 0].flatMap Op.settingPart)) (.jacCall 0 (1 / 2) 0)).2 := by
  decide +kernel

/-- ... and, through the shared default instance, an H1 regularisation with `mu = 1` changes what a later
H1 regularisation with `mu = 5` (no solver given) computes with. -/
theorem default_instance_is_hidden_state :
    (step true true (run true true wJ [.h1 .default (.scalar 1) (.scalar 1) 2 1 0]) (.h1 .default (.scalar 5) (.scalar 1) 2 1 1)).2
      ≠ (step true true wJ (.h1 .default (.scalar 5) (.scalar 1) 2 1 1)).2 := by
  decide +kernel

def mH : MG := MG.new 1 2 1 ⟨2, .array 0 [], .scalar 1⟩

/-- `prolongate_parameters`: after one V-cycle with heterogeneous coefficients the object holds the
restricted-and-prolongated coefficients, so a second identical call computes with other coefficients. -/
theorem mg_coefficients_are_hidden_state :
    (step false false (run false false (World.init [] [mH] [] 0) [.mgCall 0 0]) (.mgCall 0 0)).2
      ≠ (step false false (World.init [] [mH] [] 0) (.mgCall 0 0)).2 := by
  decide +kernel

/-! ### non-vacuity -/

/-- in the fixed model the same histories give equal results, and the results are non-trivial records -/
example :
    (step true false (run true false wJ [.jacCall 0 1 0]) (.jacCall 0 (1 / 2) 0)).2
      = .jac ⟨⟨⟨2, .scalar 1, .scalar 1⟩, 1 / 2⟩, 1, none⟩ ∧
    (step true false (run true false (World.init [] [mH] [] 0) [.mgCall 0 0]) (.mgCall 0 0)).2
      = (step true false (World.init [] [mH] [] 0) (.mgCall 0 0)).2 ∧
    (step true false (World.init [] [mH] [] 0) (.mgCall 0 0)).2 ≠ .mg [] := by
  decide +kernel

/-- Anderson: a second run on a used object reads exactly what a first run reads (and mixes columns) -/
example :
    (step true false (run true false (World.init [] [] [AA.new 2 (some 3)] 0) [.anderson 0 [1, 2, 3, 4]]) (.anderson 0 [5, 6, 7, 8, 9])).2
      = (step true false (World.init [] [] [AA.new 2 (some 3)] 0) (.anderson 0 [5, 6, 7, 8, 9])).2 ∧
    (step true false (World.init [] [] [AA.new 2 (some 3)] 0) (.anderson 0 [5, 6, 7])).2
      = .aa [.plain 5, .mixed 6 [.diff (some 6) (some 5)], .mixed 7 [.diff (some 6) (some 5), .diff (some 7) (some 6)]] := by
  decide +kernel

/-- the arithmetic is non-trivial: one Jacobi sweep (dim 1, mass 2, diffusion 1, h = 1) on x0 = [1,2,4], rhs = [4,2,1]
gives rhs/4 + neighbours(x0)/4 = [7/4, 7/4, 7/4] -/
example :
    evalOut (fun _ => none) (.jacCall 0 1 0) ⟨[3], #[1, 2, 4]⟩ ⟨[3], #[4, 2, 1]⟩
        (.jac ⟨⟨⟨1, .scalar 2, .scalar 1⟩, 1⟩, 1, none⟩)
      = some [⟨[3], #[7 / 4, 7 / 4, 7 / 4]⟩] := by
  decide +kernel

end Darsia.C16
