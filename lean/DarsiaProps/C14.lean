/-
C14 — signal-to-data models obey their defining algebra.

Models: `DarsiaModel.SignalModels` (exact rationals; mirrors the classes after the `fix:` commits).
`DarsiaGen.SignalTables` is tabulated from the running code on every check (G1).
-/
import DarsiaProofs.SignalModels
import DarsiaProofs.KernelInterp
import DarsiaProofs.SignalOps
import DarsiaGen.SignalTables
import Mathlib.Algebra.Order.AbsoluteValue.Basic
namespace Darsia.C14
open Darsia Darsia.Sig

/-! ### clipping -/

/-- `clip_bounds` (guard `lo ≤ hi`): clipped values lie in `[lo, hi]`; with an open top, above `lo`. -/
theorem clip_bounds (lo h x : Rat) (hlh : lo ≤ h) :
    lo ≤ clipF lo (some h) x ∧ clipF lo (some h) x ≤ h ∧ lo ≤ clipF lo none x := by
  simp only [clipF]
  exact ⟨le_min (le_max_right _ _) hlh, min_le_right _ _, le_max_right _ _⟩

/-- the upper bound holds even without the guard (numpy: `minimum(maximum(x, lo), hi)`) -/
theorem clip_upper (lo h x : Rat) : clipF lo (some h) x ≤ h := by
  simp only [clipF]; exact min_le_right _ _

/-- values already inside are untouched -/
theorem clip_inside (lo h x : Rat) (h1 : lo ≤ x) (h2 : x ≤ h) : clipF lo (some h) x = x := by
  simp only [clipF]; rw [max_eq_left h1, min_eq_left h2]

/-- `clip_idem`: clipping twice is clipping once (for every pair of bounds) -/
theorem clip_idem (lo : Rat) (hi : Option Rat) (x : Rat) : clipF lo hi (clipF lo hi x) = clipF lo hi x := by
  cases hi with
  | none => simp [clipF]
  | some h =>
    simp only [clipF]
    rcases le_total lo h with hl | hl
    · rw [max_eq_left (le_min (le_max_right _ _) hl), min_eq_left (min_le_right _ _)]
    · have : min (max x lo) h = h := min_eq_right (le_trans hl (le_max_right _ _))
      rw [this, max_eq_right hl, min_eq_right hl]

/-! ### scaling and linear models -/

/-- `ScalingModel` is linear in the signal (both branches of the `isclose` shortcut) -/
theorem scaling_linear (s a b x y : Rat) : scaleF s (a * x + b * y) = a * scaleF s x + b * scaleF s y := by
  unfold scaleF; split <;> ring

/-- the shortcut returns the signal unscaled only when that changes it by at most `1.001e-5·|x|` -/
theorem scaling_close (s x : Rat) : |scaleF s x - s * x| ≤ 1001 / 100000000 * |x| := by
  have habs : ∀ y : Rat, absR y = |y| := by
    intro y; unfold absR; split
    · rename_i h; exact (abs_of_neg h).symm
    · rename_i h; exact (abs_of_nonneg (not_lt.mp h)).symm
  unfold scaleF; split
  · rename_i h
    have h' : |s - 1| ≤ 1001 / 100000000 := by
      have := of_decide_eq_true h; rwa [habs] at this
    have : x - s * x = -((s - 1) * x) := by ring
    rw [this, abs_neg, abs_mul]
    exact mul_le_mul_of_nonneg_right h' (abs_nonneg x)
  · simp; positivity

/-- `linear_affine`: `LinearModel` maps affine combinations to affine combinations -/
theorem linear_affine (s o t x y : Rat) :
    linF s o (t * x + (1 - t) * y) = t * linF s o x + (1 - t) * linF s o y := by
  unfold linF; ring

/-- the shortcut's guard, explicitly: `np.isclose(s, 1)` ⇔ `|s − 1| ≤ 1e-8 + 1e-5` (the tie checks the two
floats adjacent to either boundary against `np.isclose`) -/
theorem scaling_guard (s : Rat) : closeToOne s = true ↔ |s - 1| ≤ 1001 / 100000000 := by
  have habs : absR (s - 1) = |s - 1| := by
    unfold absR; split
    · rename_i h; exact (abs_of_neg h).symm
    · rename_i h; exact (abs_of_nonneg (not_lt.mp h)).symm
  simp [closeToOne, habs]

/-- inside the band (boundary included) the signal is returned unchanged … -/
theorem scaling_inside (s x : Rat) (h : |s - 1| ≤ 1001 / 100000000) : scaleF s x = x := by
  have := (scaling_guard s).mpr h
  simp [scaleF, this]

/-- … strictly outside it is multiplied by the scaling -/
theorem scaling_outside (s x : Rat) (h : 1001 / 100000000 < |s - 1|) : scaleF s x = s * x := by
  have : closeToOne s = false := by
    rw [Bool.eq_false_iff]; intro hc; exact absurd ((scaling_guard s).mp hc) (not_le.mpr h)
  simp [scaleF, this]

/-! ### combined model -/

/-- `combined_eq_compose`: a combined model is the sequential composition of its parts -/
theorem combined_eq_compose (ms₁ ms₂ : List M) (sig : List Pixel) :
    applyAll (ms₁ ++ ms₂) sig = applyAll ms₂ (applyAll ms₁ sig) ∧ applyAll [] sig = sig ∧
      ∀ m, applyAll [m] sig = m.apply sig := by
  simp [applyAll, List.foldl_append]

/-- … pixel by pixel: every pixel keeps its label and runs through the models in order -/
theorem combined_pixelwise (ms : List M) (sig : List Pixel) :
    applyAll ms sig = sig.map fun p => ms.foldl (fun q m => ⟨q.label, m.applyPix q⟩) p := by
  induction ms generalizing sig with
  | nil => simp [applyAll]
  | cons m ms ih =>
    have : applyAll (m :: ms) sig = applyAll ms (m.apply sig) := rfl
    rw [this, ih]; simp [M.apply, List.map_map, Function.comp]

/-- `routing_all`: with at least `Σ num_parameters` entries, updating "all" succeeds and gives model `i`
exactly the `i`-th consecutive slice of the flat vector (slice lengths = the models' `num_parameters`);
the slices concatenate to the consumed prefix, i.e. they are disjoint, in order, without gaps. -/
theorem routing_all (ms : List M) (ps : List Rat) (h : (ms.map M.numParams).sum ≤ ps.length) :
    updateAll ms ps = .ok (List.zipWith (fun m sl => m.withDofs sl .all) ms (slices (ms.map M.numParams) ps)) ∧
      (slices (ms.map M.numParams) ps).flatten = ps.take (ms.map M.numParams).sum := by
  rw [updateAll_eq ms ps h, assignAll_eq_zipWith]
  exact ⟨rfl, slices_flatten _ _ h⟩

/-- `routing_subset` (specification by slices; `assignSubset`/`withDofs` repeat the dispatch of the classes
but read ONLY the slice they are handed — the global statement is `routing_subset_slices`): for every list of `(position, dofs)` entries that are valid for the addressed
models and select `t ≤ |ps|` parameters in total, the update succeeds and entry after entry hands the
addressed model exactly the next `k` entries (`assignSubset`), where `k` is the number of parameters
the named dofs select — for every subset of updatable parameters, in the order of the list. -/
theorem routing_subset (ms : List M) (dofs : List (Nat × DofSpec)) (ps : List Rat) (t : Nat)
    (ht : totalSelected ms dofs = some t) (hlen : t ≤ ps.length) :
    updateSubset ms dofs ps = .ok (assignSubset ms dofs ps) := updateSubset_eq ms dofs ps t ht hlen

/-- … in global form: entry `t` of the dof list receives the slice `ps[off_t : off_t + k_t]` with
`off_t = Σ_{u<t} k_u` (`slices`), the `k` depend only on the kinds of the addressed models (`ksOf`), and
the slices concatenate to the first `t` entries of the vector: disjoint, in order, without gaps. -/
theorem routing_subset_slices (ms : List M) (dofs : List (Nat × DofSpec)) (ps : List Rat) (t : Nat)
    (ht : totalSelected ms dofs = some t) (hlen : t ≤ ps.length) :
    updateSubset ms dofs ps = .ok (applyEntries ms (dofs.zip (slices (ksOf ms dofs) ps))) ∧
      (slices (ksOf ms dofs) ps).flatten = ps.take t := by
  have hs := totalSelected_eq_sum ms dofs t ht
  refine ⟨by rw [updateSubset_eq ms dofs ps t ht hlen, assignSubset_eq_slices ms dofs ps t ht], ?_⟩
  rw [← hs]; exact slices_flatten _ _ (by omega)

/-- one entry: the addressed model reads exactly `ps[0:k]` and nothing else of the vector -/
theorem routing_one (m : M) (ps : List Rat) (dofs : DofSpec) (k : Nat) (hk : m.consumed dofs = some k)
    (hlen : k ≤ ps.length) : m.update ps dofs = .ok (m.withDofs (ps.take k) dofs, k) :=
  m.update_eq ps dofs k hk hlen

/-- the dof dispatch of the model (which dof sets are accepted, how many parameters they select) is the
one of the classes: tabulated from `update_model_parameters` for every class × every subset of the dof
vocabulary, and for `None` and `"all"`. -/
theorem dispatch_matches_code : ∀ k ∈ Kind.all,
    (Gen.dispatchTable k none = .ok (some k.sample.numParams) ∧ Gen.dispatchAll k = .ok (some k.sample.numParams)) ∧
    ∀ l ∈ Gen.dofSubsets, Gen.dispatchTable k (some l) =
      match k.sample.consumed (.names l) with | some n => .ok (some n) | none => .error .value := by
  decide

/-! ### label-wise models, thresholding -/

/-- clause form (holds by definition of the pointwise model; the content is `hetero_loop_eq_homog_on_label`
below): on the region of label index `ℓ` the label-wise linear model is `LinearModel(scaling[ℓ], offset[ℓ])` -/
theorem hetero_eq_homog_on_label (L : Nat) (s o : List Rat) (p : Pixel) :
    (M.het L s o).applyPix p = (M.linear (listGetD s p.label 0) (listGetD o p.label 0)).applyPix p := rfl

/-- clause form of the pointwise threshold (unfolds the definition; the code's boolean operations and label
loop are `thrHomCall` / `thrHetCall`, tied to this form by `threshold_ops_eq_clause`): a pixel is selected iff its value is strictly between the bounds (upper bound
optional) and it lies inside the mask (if one is given) -/
theorem threshold_strict (lo : Rat) (hi : Option Rat) (mask : Option Bool) (p : Pixel) :
    thrHom lo hi mask p = true ↔ lo < p.val ∧ (∀ h, hi = some h → p.val < h) ∧ mask ≠ some false := by
  cases hi <;> cases mask <;> simp [thrHom, between, and_assoc]

/-- (by definition) label-wise thresholding is homogeneous thresholding with that label's bounds -/
theorem threshold_hetero (lo : List Rat) (hi : Option (List Rat)) (mask : Option Bool) (p : Pixel) :
    thrHet lo hi mask p = thrHom (listGetD lo p.label 0) (hi.map fun h => listGetD h p.label 0) mask p := rfl

/-! ### the generic wrapper `HeterogeneousModel` and label maps of another shape -/

/-- `HeterogeneousModel(obj, labels)`: on the region of label index `ℓ` the wrapper is the model stored for
`ℓ`; with linear sub-models it is the label-wise linear model -/
theorem wrapper_eq_model_on_label (ms : List M) (p : Pixel) (m : M) (h : ms[p.label]? = some m) :
    wrapApplyPix ms p = m.applyPix p := by simp [wrapApplyPix, h]

theorem wrapper_linear_eq_hetero (L : Nat) (s o : List Rat) (p : Pixel) (hs : p.label < s.length)
    (ho : p.label < o.length) : wrapApplyPix (List.zipWith M.linear s o) p = (M.het L s o).applyPix p :=
  wrap_linear_eq_het L s o p hs ho

/-- **nearest-neighbour contract** of `cv2.resize(labels, (W, H), INTER_NEAREST)`, for OpenCV's index rule
`floor(x · (1.0/(N/n)))` in doubles = exact `⌊x·n/N⌋` minus one at the rounding points `dev` (any table `dev`
of rounding points that are exact breakpoints, `DevOk`): the result has shape `H × W`, creates no new label,
samples each axis monotonically, never above the exact index, and a map of the signal's shape is used as it is. -/
theorem resize_nearest_contract (dev : Dev) (hd : DevOk dev = true) (src : List (List Nat)) (w H W : Nat)
    (hh : 0 < src.length) (hw : 0 < w) (hrect : ∀ row ∈ src, row.length = w) :
    (resizeNearest dev src H W).length = H ∧ (∀ row ∈ resizeNearest dev src H W, row.length = W) ∧
    (∀ row ∈ resizeNearest dev src H W, ∀ v ∈ row, ∃ srow ∈ src, v ∈ srow) ∧
    (∀ n N x y, x ≤ y → nearIdx dev n N x ≤ nearIdx dev n N y) ∧ (∀ n x, x < n → nearIdx dev n n x = x) ∧
    (∀ n N x, nearIdx dev n N x ≤ nearIdxExact n N x) ∧
    labelsFor dev src src.length (listGetD src 0 []).length = src :=
  ⟨(resizeNearest_shape dev src H W).1, (resizeNearest_shape dev src H W).2, resizeNearest_subset dev src w H W hh hw hrect,
    fun n N _ _ h => nearIdx_mono dev hd n N h, fun _ _ h => nearIdx_id dev hd h, nearIdx_le_exact dev,
    by simp [labelsFor]⟩

/-- **the label map in force never depends on the call history**: after any sequence of calls with signals of
positive shapes on one `HeterogeneousLinearModel`, the map used for a signal of shape `H × W` is
`labelsFor labels H W` — the original labels if the shapes agree, else the nearest-neighbour resize of the
ORIGINAL labels (never of a previously resized copy). -/
theorem label_cache_history_free (dev : Dev) (hd : DevOk dev = true) (labels : List (List Nat)) (w : Nat)
    (hrect : ∀ row ∈ labels, row.length = w) (hw : (listGetD labels 0 []).length = w)
    (shapes : List (Nat × Nat)) (H W : Nat) (hpos : ∀ s ∈ shapes, 0 < s.1) (hH : 0 < H) :
    cacheRun dev labels (shapes ++ [(H, W)]) = labelsFor dev labels H W :=
  cacheRun_last dev hd labels w hrect hw shapes H W hpos hH

/-- the rounding points tabulated from `cv2.resize` for all sizes `n, N ≤ 64` are exact breakpoints (so the
two theorems above apply to the generated table) … -/
theorem cv2_rounding_points_ok : DevOk Gen.nearDev = true := by decide +kernel

/-- … and with them the model's index map is OpenCV's, along rows and along columns, for every size pair of
the full cross-check table (`n, N ≤ 16`; the Python side checks the same identity for all `n, N ≤ 64`) -/
theorem resize_matches_code : ∀ e ∈ Gen.nearTable,
    e.2.2.1 = (List.range e.2.1).map (nearIdx Gen.nearDev e.1 e.2.1) ∧
    e.2.2.2 = (List.range e.2.1).map (nearIdx Gen.nearDev e.1 e.2.1) := by
  decide +kernel

/-! ### the label loop as coded (`DarsiaModel.SignalOps`) computes the clause forms -/

/-- `np.unique(labels)`: strictly increasing, hence without repetition, and with exactly the labels that occur -/
theorem unique_labels (labs : List Nat) :
    (uniqSorted labs).Pairwise (· < ·) ∧ (uniqSorted labs).Nodup ∧ ∀ l, l ∈ uniqSorted labs ↔ l ∈ labs :=
  ⟨uniqSorted_pairwise labs, uniqSorted_nodup labs, fun l => mem_uniqSorted l labs⟩

/-- **`hetero_loop_eq_homog_on_label`**: `HeterogeneousLinearModel.__call__` as coded — `result = zeros`, then one
masked assignment `result[labels == label] = (scaling[i]·img + offset[i])[…]` per unique label — returns at
every pixel the homogeneous `LinearModel(scaling[j], offset[j])` of that pixel's label, `j` being the label's
position among the sorted unique labels; and every pixel's label has such a position (nothing stays 0). -/
theorem hetero_loop_eq_homog_on_label (L : Nat) (s o : List Rat) (labs : List Nat) (xs : List Rat)
    (hl : labs.length = xs.length) :
    hetCall s o labs xs = List.zipWith (fun l x => match idxIn (uniqSorted labs) l with
      | some j => (M.linear (listGetD s j 0) (listGetD o j 0)).applyPix ⟨j, x⟩ | none => 0) labs xs ∧
    ∀ l ∈ labs, ∃ j, idxIn (uniqSorted labs) l = some j ∧ j < (uniqSorted labs).length :=
  ⟨hetCall_eq_pointwise L s o labs xs hl, fun l h => label_has_index labs l h⟩

/-- the label-wise model returns the element type of the homogeneous model (after the `fix:` commit; the tie
compares the element type of every result) -/
theorem hetero_result_type (L : Nat) (s o : List Rat) (a b : Rat) (d : DType) :
    (M.het L s o).outDType d = (M.linear a b).outDType d := rfl

/-- **`threshold_ops_eq_clause`**: the code's boolean operations — `logical_and(img > lo, img < hi)`, the
label loop with `mask[roi] = True`, then `logical_and(·, mask)` or the `return_float` conversion — select exactly
the pixels of the clause form, for either value of `return_float`. -/
theorem threshold_ops_eq_clause (lo : Rat) (hi : Option Rat) (rf : Bool) (xs : List Rat)
    (los : List Rat) (his : Option (List Rat)) (labs : List Nat) (hl : labs.length = xs.length) :
    (thrFinish rf none (thrHomCall lo hi xs)).2 = xs.map (fun x => thrHom lo hi none ⟨0, x⟩) ∧
    (∀ mask : List Bool, (thrFinish rf (some mask) (thrHomCall lo hi xs)).2
      = List.zipWith (fun x m => thrHom lo hi (some m) ⟨0, x⟩) xs mask) ∧
    thrHetCall los his labs xs = List.zipWith (fun l x => match idxIn (uniqSorted labs) l with
      | some j => thrHet los his none ⟨j, x⟩ | none => false) labs xs :=
  ⟨(thrHom_finish lo hi rf xs).1, (thrHom_finish lo hi rf xs).2, thrHetCall_eq_pointwise los his labs xs hl⟩

/-- **`wrapper_loop_eq_model`**: `HeterogeneousModel.__call__` as coded (`output = zeros`,
`output[mask_i] = model_i(signal[mask_i])`) runs every pixel through the model stored for its label -/
theorem wrapper_loop_eq_model (ms : List M) (labs : List Nat) (xs : List Rat) (hl : labs.length = xs.length) :
    wrapCall ms labs xs = List.zipWith (fun l x => match idxIn (uniqSorted labs) l with
      | some j => wrapApplyPix ms ⟨j, x⟩ | none => 0) labs xs :=
  wrapCall_eq_pointwise ms labs xs hl

open Darsia.Kern in
/-- **the wrapper on colour signals** (`HeterogeneousModel(KernelInterpolation(kernel), labels)` on an `(H, W, 3)`
signal, the use in `MultichromaticTracerAnalysis`): with one interpolation per label — weights `ws j`, supports
`ss j` — every pixel of the `(H, W)` result is the plain kernel sum of ITS label's interpolation at that pixel's
colour. (Label-wise `StaticThresholdModel` documents scalar signals only; `(H, W, C)` there is outside the API.) -/
theorem wrapper_kernel_on_colour_signal {F : Type} [CommSemiring F] (k : Pt → Pt → F) (ws : Nat → List F)
    (ss : Nat → List Pt) (labs : List Nat) (pixels : List Pt) (hl : labs.length = pixels.length) :
    wrapCallG (0 : F) (fun j x => kernelLoop k (ws j) (ss j) x) labs pixels
      = List.zipWith (fun l x => match idxIn (uniqSorted labs) l with
          | some j => plainSum k (ws j) (ss j) x | none => 0) labs pixels := by
  rw [wrapCallG_eq_pointwise (0 : F) _ labs pixels hl]
  congr 1
  funext l x
  cases idxIn (uniqSorted labs) l with
  | none => rfl
  | some j =>
    simp only
    apply kernelLoop_eq_plainSum
    cases ws j with
    | nil => exact Or.inr (Or.inl rfl)
    | cons w t => cases ss j with
      | nil => exact Or.inr (Or.inr rfl)
      | cons s t' => exact Or.inl ⟨by simp, by simp⟩

/-! ### kernel interpolation (partial: `exp`, `np.linalg.inv`, float32 are observed, not modelled) -/

/-- `interp_reproduces_partial`: over any field, if the kernel matrix `K i j = k(x_i, x_j)` is invertible
and `w = K⁻¹ v`, the kernel sum at support `i` is `v i`. (Full statement for the code: additionally the
float evaluation of `exp`/`inv` and the numba kernels agree with this up to the observed tolerances.) -/
theorem interp_reproduces_partial {F : Type} [Field F] {n : Nat} (K : Matrix (Fin n) (Fin n) F)
    (hK : IsUnit K.det) (v : Fin n → F) (i : Fin n) : ∑ j, (K⁻¹.mulVec v) j * K i j = v i :=
  interp_reproduces K hK v i

/-! ### kernel interpolation as a state machine (`DarsiaModel.KernelInterp`) -/

open Darsia.Kern in
/-- **state invariant**: after every sequence of `update` / `update_kernel` / `update_model_parameters(values)`
calls that does not raise, the cached inverse (if any) belongs to the kernel in force and the current supports,
and the weights (if any) were computed with that inverse from the current values. -/
theorem kernel_cache_never_stale (k0 : Nat) (ops : List KOp) (st : KState) (h : run (init k0) ops = .ok st) :
    (∀ key, st.cache = some key → key.1 = st.kernel ∧ st.supports = some key.2 ∧ st.numSupports = key.2.length) ∧
    (∀ key vals, st.weights = some (key, vals) →
      st.cache = some key ∧ st.values = some vals ∧ vals.length = key.2.length) :=
  run_inv ops (inv_init k0) h

open Darsia.Kern in
/-- **interp_reproduces_after_updates**: for every update sequence, every kernel family `kfun` over any field:
if weights exist they are `K⁻¹ v` for the kernel matrix `K` of the kernel in force at the CURRENT supports `S`
and the CURRENT values `v`, and if that `K` is invertible the kernel sum evaluated with the kernel in force
reproduces `v i` at every current support `S i`. (`exp`, `np.linalg.inv` and float32 remain observed.) -/
theorem interp_reproduces_after_updates {F : Type} [Field F] (kfun : Nat → Pt → Pt → F) (k0 : Nat)
    (ops : List KOp) (st : KState) (h : run (init k0) ops = .ok st) (key : Key) (vals : List Rat)
    (hw : st.weights = some (key, vals)) :
    key.1 = st.kernel ∧ st.supports = some key.2 ∧ st.values = some vals ∧ vals.length = key.2.length ∧
    (IsUnit (Kmat kfun st.kernel key.2).det → ∀ i : Fin key.2.length,
      ∑ j, ((Kmat kfun key.1 key.2)⁻¹.mulVec fun j => ((listGetD vals j.val 0 : Rat) : F)) j
          * kfun st.kernel (key.2.get i) (key.2.get j)
        = ((listGetD vals i.val 0 : Rat) : F)) := by
  obtain ⟨hc, hwk⟩ := kernel_cache_never_stale k0 ops st h
  obtain ⟨h1, h2, h3⟩ := hwk key vals hw
  obtain ⟨h4, h5, _⟩ := hc key h1
  refine ⟨h4, h5, h2, h3, ?_⟩
  intro hK i
  rw [h4]
  exact interp_reproduces (Kmat kfun st.kernel key.2) hK _ i

open Darsia.Kern in
/-- **accelerated evaluation = plain kernel sum** (model of the loop both `linear_combination` implementations
run: start with `w₀·k(x, s₀)`, accumulate `w_n·k(x, s_n)`), for every kernel function over any commutative
semiring and every supported signal shape — single pixel `(3,)`, pixel list `(N, 3)`, image `(H, W, 3)`:
each entry of the result is `Σ_n w_n k(x, s_n)` at its pixel. (Tied exactly for `LinearKernel` on dyadic
float32 inputs, numba and plain; `exp` in `GaussianKernel` and fastmath reassociation are observed, 1e-5.) -/
theorem kernel_loop_eq_plain_sum {F : Type} [CommSemiring F] (k : Pt → Pt → F) (ws : List F) (ss : List Pt)
    (sig : Signal) : sig.combine k ws ss = sig.pixels.map (plainSum k ws ss) :=
  combine_eq_plainSum k ws ss sig

open Darsia.Kern in
/-- the supports a cached kernel matrix was assembled for are pairwise distinct (`np.unique` rows are strictly
increasing) — after every sequence of ops -/
theorem kernel_supports_distinct (k0 : Nat) (ops : List KOp) (st : KState) (h : run (init k0) ops = .ok st) :
    ∀ key, st.cache = some key → key.2.Nodup :=
  run_distinct ops (by intro key hk; simp [init] at hk) h

/-! ### polynomial approximation space -/

/-- `poly_span`: for every degree `d` the exponent list has no repetition, contains exactly the pairs
with `i + j ≤ d`, and has `size = (d+1)(d+2)/2` entries — a bijection from basis indices onto
`{(i,j) | i+j ≤ d}`. -/
theorem poly_span (d : Nat) : (polyExps d).Nodup ∧ (∀ i j, (i, j) ∈ polyExps d ↔ i + j ≤ d) ∧
    (polyExps d).length = polySize d :=
  ⟨nodup_polyExps d, mem_polyExps d, length_polyExps d⟩

/-- the enumeration and the size the code uses are the model's, for every tabulated degree -/
theorem poly_matches_code : ∀ d ∈ Gen.polyDegrees,
    Gen.polyTable d = (polyExps d).map some ∧ Gen.polySizeTable d = some (polySize d) := by decide

/-! ### non-vacuity -/

/-- coarse call, then native resolution: the original stripes are back -/
example : cacheRun [] [[1, 2, 1, 2], [1, 2, 1, 2]] [(1, 2), (2, 4)] = [[1, 2, 1, 2], [1, 2, 1, 2]] ∧
    cacheRun [] [[1, 2, 1, 2], [1, 2, 1, 2]] [(1, 2)] = [[1, 1]] := by decide
/-- a rounding point of OpenCV: 14 → 18, x = 9: exact ⌊9·14/18⌋ = 7, OpenCV takes 6 -/
example : (14, 18, 9) ∈ Gen.nearDev ∧ nearIdx Gen.nearDev 14 18 9 = 6 ∧ nearIdxExact 14 18 9 = 7 := by decide +kernel

open Darsia.Kern in
/-- a sequence with unsorted supports, a duplicate row, a kernel change and a value-only update: the weights
end up keyed by the new kernel and the sorted, de-duplicated supports -/
example : (run (init 0) [.update none (some [[2, 0, 0], [0, 0, 0], [2, 0, 0]]) (some [1 / 2, 1 / 4, 1]) false,
      .update (some 2) none none false, .valuesParam [1, 3, 5]]).map (·.weights)
    = .ok (some ((2, [[0, 0, 0], [2, 0, 0]]), [1, 3])) := by decide +kernel
open Darsia.Kern in
/-- … and the guard: a value vector of the wrong length raises (ValueError from the matrix product) -/
example : (run (init 0) [.update none (some [[1, 0, 0]]) (some [1 / 2]) false, .update none none (some [1, 2]) false]).map (·.weights)
    = .error .value := by decide +kernel

example : updateSubset [.clip 0 (some 1), .linear 1 0] [(0, .names [.minValue]), (1, .names [.scaling])] [1 / 4, 5]
    = .ok [.clip (1 / 4) (some 1), .linear 5 0] := by decide +kernel
example : totalSelected [.clip 0 (some 1), .linear 1 0] [(0, .names [.minValue]), (1, .names [.scaling])] = some 2 := by
  decide +kernel
example : updateAll [.het 2 [1, 1] [0, 0], .clip 0 none] [1, 2, 3, 4, 5, 6]
    = .ok [.het 2 [1, 2] [3, 4], .clip 5 (some 6)] := by decide +kernel
/-- the guard of `routing_all` is where the code raises -/
example : updateAll [.clip 0 none, .linear 1 0] [1, 2, 3] = .error .index := by decide +kernel
example : polyExps 2 = [(0, 0), (0, 1), (0, 2), (1, 0), (1, 1), (2, 0)] := by decide
example : thrHom (1 / 4) (some (3 / 4)) none ⟨0, 3 / 4⟩ = false ∧ thrHom (1 / 4) (some (3 / 4)) none ⟨0, 1 / 2⟩ = true := by
  decide +kernel

end Darsia.C14
