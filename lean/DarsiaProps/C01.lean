/-
C01 — voxel and physical coordinates convert consistently for every image geometry.

Model: `DarsiaModel.Coord` (ℚ arithmetic, axis map = the table `Gen.interpret` regenerated from the
running `interpret_indexing` on every check). The theorems hold for every dimension 1–3, every
shape with positive extents, positive physical dimensions, ARBITRARY origin and every integer
voxel (negative and beyond the image included); no bound on any size.
The generated obligations are `axis_map_ok` and `documented_orientation`; everything else is
proved for every well-formed axis map in `DarsiaProofs.Coord`.
-/
import DarsiaProofs.Coord
namespace Darsia.C01
open Darsia

/-- generated obligation: in every dimension `coordinate`/`voxel` can evaluate their axis map and
its matrix positions are a permutation of the matrix axes. -/
theorem axis_map_ok : ∀ d ∈ Dim.all, axisMapOk d = true := by decide

private theorem axis_map_wf : ∀ d ∈ Dim.all, ∃ am, axisMap d = .ok am ∧ am.wf d = true := by
  intro d hd
  have h := axis_map_ok d hd
  unfold axisMapOk at h
  split at h
  · next am e => exact ⟨am, e, h⟩
  · exact absurd h (by decide)

/-- generated obligation: the orientation is the documented one — 1-D: x along i; 2-D: x along j,
y against i; 3-D: x along j, y against k, z against i. -/
theorem documented_orientation :
    axisMap .d1 = .ok [(0, false)] ∧ axisMap .d2 = .ok [(1, false), (0, true)] ∧
      axisMap .d3 = .ok [(1, false), (2, true), (0, true)] := by decide

private theorem mem_all (d : Dim) : d ∈ Dim.all := by cases d <;> decide

/-- voxel index zero maps to the image origin. -/
theorem coord_zero (cs : CS) (hcs : cs.ok) :
    cs.coordinate (List.replicate cs.dim.toNat 0) = .ok cs.origin := by
  obtain ⟨am, ham, hw⟩ := axis_map_wf cs.dim (mem_all _)
  simp only [CS.coordinate, ham, Except.map]
  rw [coord_zero_with cs hcs am hw]

/-- the opposite corner (`Image.opposite_corner`) is displaced from the origin by exactly the
physical dimensions: on Cartesian axis `i` with axis-map entry `(p, r)` by `dimensions[p]`,
negatively iff `r`. -/
theorem coord_opposite (cs : CS) (hcs : cs.ok) :
    ∃ am opp, axisMap cs.dim = .ok am ∧ cs.opposite = .ok opp ∧
      List.zipWith (· - ·) opp cs.origin = am.map fun pr => sgn pr.2 * listGetD cs.dims pr.1 0 := by
  obtain ⟨am, ham, hw⟩ := axis_map_wf cs.dim (mem_all _)
  refine ⟨am, coordWith am cs (ratsOfNats cs.shape), ham, ?_, ?_⟩
  · simp only [CS.opposite, CS.coordinate, ham, Except.map]
  · have h := coord_opposite_with cs hcs am hw
    have hz := coord_zero_with cs hcs am hw
    unfold coordWith at hz
    simp only [coordAx_zero] at hz
    rw [hz] at h
    exact h

/-- one voxel step along matrix axis `a` moves the coordinate by exactly one voxel size along the
Cartesian axis that the axis map assigns to `a` (sign by reversal) and not at all along the others.
(`cs.ok` is the guard under which the code computes a voxel size at all: a zero extent raises ZeroDivisionError in
`Image.voxel_size`, whereas ℚ totalises x / 0 = 0; `v.length = dim` is the guard under which numpy does not raise
IndexError — the model's `listGetD` would read a missing component as 0; the algebra itself needs neither.) -/
theorem coord_step (cs : CS) (_hcs : cs.ok) (v : List Rat) (_hv : v.length = cs.dim.toNat) (a : Nat) (ha : a < v.length) :
    ∃ am, axisMap cs.dim = .ok am ∧
      (do let c1 ← cs.coordinate (stepAt v a); let c0 ← cs.coordinate v
          pure (List.zipWith (· - ·) c1 c0)) =
        .ok (am.map fun pr => if pr.1 = a then sgn pr.2 * cs.h a else 0) := by
  obtain ⟨am, ham, _⟩ := axis_map_wf cs.dim (mem_all _)
  refine ⟨am, ham, ?_⟩
  simp only [CS.coordinate, ham, Except.map, bind, Except.bind, pure, Except.pure]
  rw [coord_step_with cs am v a ha]

/-- every physical point inside a voxel (offset `t ∈ [0,1)` per axis from the voxel's index)
converts back to that voxel's index — for every integer voxel, inside or outside the image. -/
theorem voxel_of_inside (cs : CS) (hcs : cs.ok) (v : List Int) (t : List Rat)
    (hv : v.length = cs.dim.toNat) (ht : t.length = cs.dim.toNat) (hin : ∀ x ∈ t, 0 ≤ x ∧ x < 1) :
    (cs.coordinate (vadd v t) >>= cs.voxel) = .ok v := by
  obtain ⟨am, ham, hw⟩ := axis_map_wf cs.dim (mem_all _)
  simp only [CS.coordinate, CS.voxel, ham, Except.map, bind, Except.bind]
  rw [voxel_of_inside_with cs hcs am hw v t hv ht hin]

/-- a voxel centre converted to a coordinate and back is the same voxel. -/
theorem center_roundtrip (cs : CS) (hcs : cs.ok) (v : List Int) (hv : v.length = cs.dim.toNat) :
    (cs.coordinate (centerOf v) >>= cs.voxel) = .ok v := by
  rw [← vadd_half v]
  exact voxel_of_inside cs hcs v _ hv (by simp [hv]) (by
    intro x hx; rw [List.mem_replicate] at hx; rw [hx.2]; constructor <;> norm_num)

/-- batch form. NOTE (label): in the MODEL the batch functions are `mapM` of the single-point functions BY DEFINITION, so this
theorem is the single-point round trip lifted over a list of any length — it does not establish that numpy's vectorised
evaluation equals the row-by-row one; "batch = map of single" for the implementation is OBSERVED (oracle clause `batch`,
incl. N = 1 and 1-d images, and the batch correspondence). -/
theorem batch_roundtrip (cs : CS) (hcs : cs.ok) (vs : List (List Int))
    (hv : ∀ v ∈ vs, v.length = cs.dim.toNat) :
    (cs.coordinateB (vs.map centerOf) >>= cs.voxelB) = .ok vs := by
  obtain ⟨am, ham, hw⟩ := axis_map_wf cs.dim (mem_all _)
  have hc : ∀ w, cs.coordinate w = .ok (coordWith am cs w) := by
    intro w; simp only [CS.coordinate, ham, Except.map]
  have hx : ∀ x, cs.voxel x = .ok (voxelWith am cs x) := by
    intro x; simp only [CS.voxel, ham, Except.map]
  have e1 : ∀ ws : List (List Rat), cs.coordinateB ws = .ok (ws.map (coordWith am cs)) := by
    intro ws; induction ws with
    | nil => rfl
    | cons w ws ih =>
      simp only [CS.coordinateB] at ih ⊢
      rw [List.mapM_cons, hc, ih]; rfl
  have e2 : ∀ xs : List (List Rat), cs.voxelB xs = .ok (xs.map (voxelWith am cs)) := by
    intro xs; induction xs with
    | nil => rfl
    | cons x xs ih =>
      simp only [CS.voxelB] at ih ⊢
      rw [List.mapM_cons, hx, ih]; rfl
  rw [e1]; simp only [bind, Except.bind]; rw [e2]
  congr 1
  rw [List.map_map, List.map_map]
  conv => rhs; rw [← List.map_id vs]
  apply List.map_congr_left
  intro v hm
  simp only [Function.comp, id]
  rw [← vadd_half v]
  exact voxel_of_inside_with cs hcs am hw v _ (hv v hm) (by simp [hv v hm]) (by
    intro x hx; rw [List.mem_replicate] at hx; rw [hx.2]; constructor <;> norm_num)

/-- with the default origin of `Image.__init__` the image occupies the box `[0, dimensions]` on every
Cartesian axis: origin and opposite corner are `0` / the physical dimension, swapped on reversed axes
(this ties the constructor's matrix→Cartesian table to the coordinate system's Cartesian→matrix table). -/
theorem default_origin_box (d : Dim) (shape : List Nat) (dims o : List Rat)
    (ho : defaultOrigin d dims = .ok o) (hcs : (CS.mk d shape dims o).ok) :
    ∃ am opp, axisMap d = .ok am ∧ (CS.mk d shape dims o).opposite = .ok opp ∧
      o = am.map (fun pr => if pr.2 then listGetD dims pr.1 0 else 0) ∧
      opp = am.map (fun pr => if pr.2 then 0 else listGetD dims pr.1 0) := by
  have hs := hcs.shapeLen
  have hd := hcs.dimsLen
  have hp := hcs.shapePos
  cases d
  · obtain ⟨n0, rfl⟩ := len1 hs
    obtain ⟨D0, rfl⟩ := len1 hd
    have e : defaultOrigin .d1 [D0] = .ok [0] := by
      simp [defaultOrigin, matMap, Dim.matAxes, Dim.cart, Gen.interpret, defaultOriginWith, List.zipIdx, setAt, Except.map, List.mapM_cons, bind, Except.bind, pure, Except.pure]
    rw [e] at ho; injection ho with ho; subst ho
    have h0 := mul_div_self_nat D0 n0 (hp n0 (by simp))
    refine ⟨[(0, false)], _, by decide, rfl, ?_, ?_⟩ <;>
      simp [coordWith, List.zipIdx, coordAx, CS.h, listGetD, ratsOfNats, sgn, h0]
  · obtain ⟨n0, n1, rfl⟩ := len2 hs
    obtain ⟨D0, D1, rfl⟩ := len2 hd
    have e : defaultOrigin .d2 [D0, D1] = .ok [0, D0] := by
      simp [defaultOrigin, matMap, Dim.matAxes, Dim.cart, Gen.interpret, defaultOriginWith, List.zipIdx, setAt, listGetD, Except.map, List.mapM_cons, bind, Except.bind, pure, Except.pure]
    rw [e] at ho; injection ho with ho; subst ho
    have h0 := mul_div_self_nat D0 n0 (hp n0 (by simp))
    have h1 := mul_div_self_nat D1 n1 (hp n1 (by simp))
    refine ⟨[(1, false), (0, true)], _, by decide, rfl, ?_, ?_⟩ <;>
      simp [coordWith, List.zipIdx, coordAx, CS.h, listGetD, ratsOfNats, sgn, h0, h1]
  · obtain ⟨n0, n1, n2, rfl⟩ := len3 hs
    obtain ⟨D0, D1, D2, rfl⟩ := len3 hd
    have e : defaultOrigin .d3 [D0, D1, D2] = .ok [0, D2, D0] := by
      simp [defaultOrigin, matMap, Dim.matAxes, Dim.cart, Gen.interpret, defaultOriginWith, List.zipIdx, setAt, listGetD, Except.map, List.mapM_cons, bind, Except.bind, pure, Except.pure]
    rw [e] at ho; injection ho with ho; subst ho
    have h0 := mul_div_self_nat D0 n0 (hp n0 (by simp))
    have h1 := mul_div_self_nat D1 n1 (hp n1 (by simp))
    have h2 := mul_div_self_nat D2 n2 (hp n2 (by simp))
    refine ⟨[(1, false), (2, true), (0, true)], _, by decide, rfl, ?_, ?_⟩ <;>
      simp [coordWith, List.zipIdx, coordAx, CS.h, listGetD, ratsOfNats, sgn, h0, h1, h2]

/-- the typed point objects: `Voxel → VoxelCenter`, `VoxelCenter → Coordinate → Voxel`,
`VoxelCenter → Coordinate → VoxelCenter` and `VoxelCenter → Voxel` all return the voxel one started
from, for every integer voxel (negative indices included: the constructors floor). -/
theorem typed_roundtrip (cs : CS) (hcs : cs.ok) (v : List Int) (hv : v.length = cs.dim.toNat) :
    (Pt.vox v).toVoxelCenter cs = .ok (.ctr (centerOf v)) ∧
    ((Pt.ctr (centerOf v)).toCoordinate cs >>= fun p => p.toVoxel cs) = .ok (.vox v) ∧
    ((Pt.ctr (centerOf v)).toCoordinate cs >>= fun p => p.toVoxelCenter cs) = .ok (.ctr (centerOf v)) ∧
    (Pt.ctr (centerOf v)).toVoxel cs = .ok (.vox v) := by
  have h := center_roundtrip cs hcs v hv
  obtain ⟨am, ham, hw⟩ := axis_map_wf cs.dim (mem_all _)
  simp only [CS.coordinate, CS.voxel, ham, Except.map, bind, Except.bind] at h
  refine ⟨?_, ?_, ?_, ?_⟩
  · simp only [Pt.toVoxelCenter, mkCenter_ints]
  · simp only [Pt.toCoordinate, Pt.toVoxel, CS.coordinate, CS.voxel, ham, Except.map, bind, Except.bind]
    injection h with h; rw [h, mkVoxel_ints]
  · simp only [Pt.toCoordinate, Pt.toVoxelCenter, CS.coordinate, CS.voxel, ham, Except.map, bind, Except.bind]
    injection h with h; rw [h, mkCenter_ints]
  · simp only [Pt.toVoxel, mkVoxel_centerOf]

/-- the constructors are idempotent on what they produce: a voxel-centre array passed to
`make_voxel_center` / `make_voxel` again names the same voxels (negative ones included). -/
theorem constructors_idempotent (v : List Int) :
    mkCenter (centerOf v) = centerOf v ∧ mkVoxel (centerOf v) = v ∧ mkVoxel (ratsOfInts v) = v :=
  ⟨mkCenter_centerOf v, mkVoxel_centerOf v, mkVoxel_ints v⟩

/-- why the constructors must floor: with truncation toward zero (`astype(int)` alone) the centre of
voxel −1 is taken for voxel 0. -/
theorem truncation_breaks_negative_voxels : truncInt (-1 / 2) = 0 ∧ Rat.floor (-1 / 2 : Rat) = -1 := by
  decide +kernel

/-- float bridge for centres: an error below half a voxel in the quotient does not change the
voxel index. -/
theorem center_stable (v : Int) (e : Rat) (he : |e| < 1 / 2) : Rat.floor ((v : Rat) + 1 / 2 + e) = v := by
  have hf : Rat.floor ((v : Rat) + 1 / 2) = v := floor_int_add v (1 / 2) (by norm_num) (by norm_num)
  have := floor_stable ((v : Rat) + 1 / 2) e (1 / 2) (by rw [hf]) (by rw [hf]; linarith) he
  rw [this, hf]

/-! ### round 2: the remaining public surface of the coordinate system -/

/-- `coordinate_vector` is the linear part of `coordinate`: `coordinate(v + w) − coordinate(v) = coordinate_vector(w)`. -/
theorem coordinate_vector_linear (cs : CS) (v w : List Rat) (hv : v.length = cs.dim.toNat) (hw : w.length = cs.dim.toNat) :
    (do let c1 ← cs.coordinate (List.zipWith (· + ·) v w); let c0 ← cs.coordinate v
        pure (List.zipWith (· - ·) c1 c0)) = cs.coordinateVector w := by
  obtain ⟨am, ham, hwf⟩ := axis_map_wf cs.dim (mem_all _)
  obtain ⟨_, hb⟩ := wf_bound hwf
  simp only [CS.coordinate, CS.coordinateVector, ham, Except.map, bind, Except.bind, pure, Except.pure]
  rw [coordinate_vector_linear_with cs am v w (fun pr hpr => ⟨by rw [hv]; exact hb pr hpr, by rw [hw]; exact hb pr hpr⟩)]

/-- `num_voxels(length(n, axis), axis) = n` for every integer `n` and every Cartesian axis — in exact
arithmetic (the float evaluation is not stable at the integral quotient, see `ceil_bridge`), and
`num_voxels(L)` voxels cover the length `L` with less than one voxel to spare. -/
theorem num_voxels_length (cs : CS) (hcs : cs.ok) (i : Nat) (hi : i < cs.dim.toNat) (n : Int) (L : Rat) :
    (cs.length n i >>= fun len => cs.numVoxelsAx len i) = .ok n ∧
    ∃ p k, cs.axisPos i = .ok p ∧ cs.numVoxelsAx L i = .ok k ∧ L ≤ (k : Rat) * cs.h p ∧ (k : Rat) * cs.h p < L + cs.h p := by
  obtain ⟨am, ham, hwf⟩ := axis_map_wf cs.dim (mem_all _)
  obtain ⟨hl, hb⟩ := wf_bound hwf
  have hp : (listGetD am i (0, false)).1 < cs.dim.toNat := by
    apply hb; unfold listGetD; rw [List.getElem?_eq_getElem (by rw [hl]; exact hi)]; exact List.getElem_mem _
  have hh := CS.h_pos cs hcs _ hp
  have hax : cs.axisPos i = .ok (listGetD am i (0, false)).1 := by
    simp only [CS.axisPos, hi, if_true, ham, Except.map]
  refine ⟨?_, _, _, hax, ?_, ceil_covers L _ hh⟩
  · simp only [CS.length, CS.numVoxelsAx, hax, Except.map, bind, Except.bind, CS.numVoxels]
    rw [ceil_int_mul_div n _ hh]
  · simp only [CS.numVoxelsAx, hax, Except.map, CS.numVoxels]

/-- float bridge for `ceil`: an error `|e| < δ` cannot change `⌈x⌉` when `x` is at least `δ` away from the integers
below and at it from above; an integral `x` itself is a breakpoint. -/
theorem ceil_bridge (x e δ : Rat) (hlo : ((x.ceil : Int) : Rat) - 1 + δ ≤ x) (hhi : x ≤ ((x.ceil : Int) : Rat) - δ)
    (he : |e| < δ) : Rat.ceil (x + e) = Rat.ceil x := ceil_stable x e δ hlo hhi he

/-- bounding box (`min_coordinate`, `max_coordinate`, `domain`): on Cartesian axis `i` with axis-map entry `(p, r)`
the box is `[origin_i, origin_i + D_p]`, or `[origin_i − D_p, origin_i]` on reversed axes. -/
theorem min_max_coordinate (cs : CS) (hcs : cs.ok) :
    ∃ am, axisMap cs.dim = .ok am ∧
      cs.minCoordinate = .ok (am.zipIdx.map fun q =>
        if q.1.2 then listGetD cs.origin q.2 0 - listGetD cs.dims q.1.1 0 else listGetD cs.origin q.2 0) ∧
      cs.maxCoordinate = .ok (am.zipIdx.map fun q =>
        if q.1.2 then listGetD cs.origin q.2 0 else listGetD cs.origin q.2 0 + listGetD cs.dims q.1.1 0) := by
  obtain ⟨am, ham, hwf⟩ := axis_map_wf cs.dim (mem_all _)
  obtain ⟨h1, h2⟩ := min_max_with cs hcs am hwf
  refine ⟨am, ham, ?_, ?_⟩
  · simp only [CS.minCoordinate, CS.opposite, CS.coordinate, ham, Except.map]; rw [h1]
  · simp only [CS.maxCoordinate, CS.opposite, CS.coordinate, ham, Except.map]; rw [h2]

/-- every position of the image (`0 ≤ v_p ≤ N_p` on every matrix axis, fractional allowed) has its coordinate inside
that box, component by component. -/
theorem voxel_in_domain (cs : CS) (hcs : cs.ok) (v : List Rat) (_hlen : v.length = cs.dim.toNat)
    (hv : ∀ p, p < cs.dim.toNat → 0 ≤ listGetD v p 0 ∧ listGetD v p 0 ≤ ((listGetD cs.shape p 0 : Nat) : Rat)) :
    ∃ am, axisMap cs.dim = .ok am ∧ ∀ q ∈ am.zipIdx,
      (if q.1.2 then listGetD cs.origin q.2 0 - listGetD cs.dims q.1.1 0 else listGetD cs.origin q.2 0) ≤ coordAx cs v q.2 q.1 ∧
      coordAx cs v q.2 q.1 ≤ (if q.1.2 then listGetD cs.origin q.2 0 else listGetD cs.origin q.2 0 + listGetD cs.dims q.1.1 0) := by
  obtain ⟨am, ham, hwf⟩ := axis_map_wf cs.dim (mem_all _)
  obtain ⟨_, hb⟩ := wf_bound hwf
  refine ⟨am, ham, ?_⟩
  intro q hq
  have hm : q.1 ∈ am := List.mem_of_getElem? (List.mem_zipIdx_iff_getElem?.mp hq)
  exact coordAx_in_box cs hcs v q.2 q.1 (hb _ hm) (hv _ (hb _ hm)).1 (hv _ (hb _ hm)).2

/-- `Voxel(x, matrix_indexing=False)` floors and reverses the component order; applied twice it is the plain `Voxel(x)`
(likewise `VoxelCenter`). -/
theorem matrix_indexing_false_involutive (xs : List Rat) :
    mkVoxelRev (ratsOfInts (mkVoxelRev xs)) = mkVoxel xs ∧ mkCenterRev (mkCenterRev xs) = mkCenter xs ∧
      mkVoxelRev xs = (mkVoxel xs).reverse :=
  ⟨mkVoxelRev_involutive xs, mkCenterRev_twice xs, rfl⟩

/-- `check_equal_coordinatesystems(cs, cs, ·)` returns `(True, [])` (with numpy's closeness test). -/
theorem check_equal_refl (c : CS) (ex : Bool) : checkEqual c c ex = .ok (true, []) :=
  checkEqualWith_refl npClose npClose_refl c ex

/-- for coordinate systems of the same dimension the comparison is symmetric (result and failure log) whenever
the closeness test is; numpy's `isclose` is reflexive but NOT symmetric (`|a − b| ≤ atol + rtol·|b|`):
witness 1000 vs 1000.0100001 — so `check_equal_coordinatesystems(a, b)` and `(b, a)` can differ in a
relative band of width 1e-10 around the tolerance (observation, not part of the property). -/
theorem check_equal_symm_of_symm (close : Rat → Rat → Bool) (hs : ∀ x y, close x y = close y x) (c1 c2 : CS)
    (hd : c1.dim = c2.dim) (ex : Bool) : checkEqualWith close c1 c2 ex = checkEqualWith close c2 c1 ex :=
  checkEqualWith_symm close hs c1 c2 hd ex

theorem npclose_not_symmetric :
    npClose 1000 (10000100001 / 10000000) = true ∧ npClose (10000100001 / 10000000) 1000 = false := npClose_not_symm

/-- WELL-FORMEDNESS IS PRESERVED BY IN-PLACE OPERATIONS: after any sequence of `reset_origin()` and assignments of
`origin` / `dimensions` (under the stated guards) the image's fields still form a well-formed geometry of the same
dimension and shape, so every theorem of this file applies to the CURRENT fields (voxel zero ↦ current origin, centres
round-trip). NOTE what this does NOT say: the model's state is just the fields and `touch` is the identity — as in the
code, where the `coordinatesystem` property builds a fresh `CoordinateSystem(self)` on every access — so a cached / stale
coordinate system cannot even be expressed here. That the implementation hands out the coordinate system of the current
fields after such histories is OBSERVED: `hist` correspondence (dyadic geometries) and the oracle run on images with
in-place histories (both streams). -/
theorem inplace_ops_preserve_wellformedness (cs cs' : CS) (hcs : cs.ok) (ops : List GeomOp)
    (hops : ∀ op ∈ ops, op.okFor cs.dim) (h : cs.applyOps ops = .ok cs') :
    cs'.ok ∧ cs'.dim = cs.dim ∧ cs'.shape = cs.shape ∧
      cs'.coordinate (List.replicate cs'.dim.toNat 0) = .ok cs'.origin ∧
      ∀ v : List Int, v.length = cs'.dim.toNat → (cs'.coordinate (centerOf v) >>= cs'.voxel) = .ok v := by
  obtain ⟨a, b, c⟩ := applyOps_ok ops cs cs' hcs hops h
  exact ⟨a, b, c, coord_zero cs' a, fun v hv => center_roundtrip cs' a v hv⟩

/-- `reset_origin()` puts the image into the box `[0, dimensions]` again, whatever its origin was. -/
theorem reset_origin_default (cs cs' : CS) (h : cs.applyOp .resetOrigin = .ok cs') :
    defaultOrigin cs.dim cs.dims = .ok cs'.origin ∧ cs'.dims = cs.dims ∧ cs'.shape = cs.shape ∧ cs'.dim = cs.dim := by
  simp only [CS.applyOp] at h
  cases hd : defaultOrigin cs.dim cs.dims with
  | error e => rw [hd] at h; simp [Except.map] at h
  | ok o => rw [hd] at h; simp only [Except.map] at h; injection h with h; subst h; exact ⟨rfl, rfl, rfl, rfl⟩

/-- SUB-SELECTION OF TYPED BATCHES (`VoxelCenterArray.__getitem__` and its siblings): selecting rows of a batch of voxel
centres with an int, an index array or a boolean mask yields the ELEMENT class for an int key and the SAME array class
otherwise, and the selected rows are still the centres of the selected voxels (they are passed through the constructor
again, which is idempotent on centres); and selecting commutes with converting (NOTE (label): this third conjunct is the
naturality of row selection, true for ANY row-wise function, not a fact about the coordinate system): rows selected from the converted batch =
the selected rows converted — the same voxel centre has the same coordinate whether it is converted alone, in the full
batch or in a sub-batch. -/
theorem typed_subselection (cs : CS) (vs : List (List Int)) (key : GetKey) :
    getItem .ctr (vs.map centerOf) key = ((selectRows vs key).map fun sel => (getItemKind .ctr key, sel.map centerOf)) ∧
    (getItemKind .ctr (.int 0) = .elem .ctr ∧ getItemKind .ctr (.idx []) = .arr .ctr ∧ getItemKind .ctr (.mask []) = .arr .ctr) ∧
    ∀ am : AxisMap, selectRows ((vs.map centerOf).map (coordWith am cs)) key =
      (selectRows (vs.map centerOf) key).map (List.map (coordWith am cs)) :=
  ⟨getItem_ctr_centres vs key, ⟨rfl, rfl, rfl⟩, fun am => selectRows_map (coordWith am cs) (vs.map centerOf) key⟩

/-- DTYPE-AGNOSTIC STATEMENT: the model computes over ℚ, into which every numeric dtype numpy offers (uint8…uint64, int8…int64,
float32, float64, Python ints) embeds; so `coordinate` of an UNSIGNED index array is `coordinate` of the same numbers read as
signed integers — in particular the negation on reversed axes can never wrap around. All theorems of this file are therefore
statements about the VALUES of the indices, whatever array dtype carries them; the check ties every dtype to this value
semantics (oracle clause `dtype`: raw ndarrays of every integer/float dtype, tuples, the unsigned shape array). -/
theorem coordinate_dtype_agnostic (cs : CS) (v : List Nat) :
    cs.coordinate (ratsOfNats v) = cs.coordinate (ratsOfInts (v.map fun n => (n : Int))) ∧
    cs.coordinateVector (ratsOfNats v) = cs.coordinateVector (ratsOfInts (v.map fun n => (n : Int))) := by
  have e : ratsOfNats v = ratsOfInts (v.map fun n => (n : Int)) := by
    unfold ratsOfNats ratsOfInts
    induction v with
    | nil => rfl
    | cons n v ih => simp only [List.map_cons, ih]; simp
  rw [e]; exact ⟨rfl, rfl⟩

/-! non-vacuity: a 3-D 3×1×5 system with non-default origin; voxel (−2, 0, 7) lies outside. -/
def exCS : CS := ⟨.d3, [3, 1, 5], [3 / 2, 1 / 4, 10], [1000000, -7 / 3, 1 / 8]⟩

example : exCS.ok := ⟨rfl, rfl, rfl, by decide, by decide +kernel⟩
example : exCS.coordinate (centerOf [-2, 0, 7]) = .ok [1000000 + 1 / 8, -7 / 3 - 15, 1 / 8 + 3 / 4] := by
  decide +kernel
example : (exCS.coordinate (centerOf [-2, 0, 7]) >>= exCS.voxel) = .ok [-2, 0, 7] := by decide +kernel
example : exCS.opposite = .ok [1000000 + 1 / 4, -7 / 3 - 10, 1 / 8 - 3 / 2] := by decide +kernel

example : exCS.minCoordinate = .ok [1000000, -7 / 3 - 10, 1 / 8 - 3 / 2] ∧ exCS.coordinateVector [1, 2, 3] = .ok [1 / 2, -6, -1 / 2] ∧
    exCS.numVoxelsAx (7 / 5) 0 = .ok 6 := by decide +kernel
example : checkEqual exCS { exCS with dims := [3, 1 / 4, 10] } false =
    .ok (false, [.dimensions, .voxelSize, .oppositeVoxel]) := by decide +kernel

example : (exCS.applyOps [.touch, .setOrigin [1, 2, 3], .touch, .resetOrigin, .touch]).toOption.map (·.origin) =
    some [0, 10, 3 / 2] := by decide +kernel

example : getItem .ctr [[1 / 2, 3 / 2], [-1 / 2, 5 / 2], [7 / 2, 1 / 2]] (.mask [true, false, true]) =
    .ok (.arr .ctr, [[1 / 2, 3 / 2], [7 / 2, 1 / 2]]) ∧
    getItem .ctr [[1 / 2, 3 / 2], [-1 / 2, 5 / 2]] (.idx [-1, 0, 0]) = .ok (.arr .ctr, [[-1 / 2, 5 / 2], [1 / 2, 3 / 2], [1 / 2, 3 / 2]]) := by
  decide +kernel

end Darsia.C01
