/-
C17 — operations that return new objects do not modify their arguments.

Model: `DarsiaModel.Heap` (heap of cells; `Image` = record of references; every modelled call mirrors
the reads / allocations / writes of the anchored code after the `fix:` commits). The `__mul__` type
guard is `DarsiaGen.MulGuard`, tabulated from the running code on every check (G1).

Modelled calls (23): constructor (incl. `dimensions=` + `height/width/depth`), `copy`, `+`, `-`, `* scalar`,
`< > == <= >=` (image or number), `astype(<numpy type>)`, `astype(<Image class>)`, `img_as` / `to_trichromatic(..,
return_image=True)` / `ClipModel(image)` / `TVD(image)` (copy + rebind), `to_monochromatic`, `time_slice`,
`time_interval`, `subregion`, `weight` (number / image weight, resized), `stack`, `resize` / `uniform_refinement` /
`zeros_like` (`type(a)(new, **a.metadata())`), `reduce_axis`, `extrude_along_axis`, `superpose`, read-only
measurements (`Geometry.integrate`, `EMD`), model calls on raw arrays; plus the in-place operations `append`,
in-place `to_trichromatic` / attribute rebinding and `img.img[...] = v`.
New arrays computed by numpy / cv2 / skimage are parameters of the model (their *values* are outside it).
-/
import DarsiaProofs.HeapTyped
import DarsiaGen.MulGuard
import DarsiaGen.WriteSets
namespace Darsia.C17
open Darsia Darsia.Heap

/-- Every modelled call leaves every cell that existed before the call exactly as it was
(the heap only grows; writes go to cells allocated by the call itself). Any guard table. -/
theorem op_frame (g : TyTag → Except Err Unit) (h h' : Heap) (op : Op) (r : Nat)
    (hs : step g h op = .ok (h', r)) : Frame h h' :=
  step_frame g h h' op r hs

/-- **Arguments are not modified**: for every heap without dangling references, every modelled call
and every argument of the call, each object reachable from the argument (pixel array, the buffer a
view refers to, `dimensions` list, origin, date/time lists, the images of a list argument, ...) is
unchanged, and the set of reachable objects is the same after the call. -/
theorem op_preserves_args (h h' : Heap) (op : Op) (r : Nat) (wf : WF h)
    (hs : step Gen.mulGuard h op = .ok (h', r)) :
    ∀ a ∈ op.args, a < h.length → ∀ b, (Reach h a b → h'[b]? = h[b]?) ∧ (Reach h' a b ↔ Reach h a b) := by
  intro a _ ha b
  have f := step_frame _ h h' op r hs
  exact ⟨fun rb => f.2 b (reach_lt wf rb ha), frame_reach wf f ha⟩

/-- the pixel data read through any pre-existing array object (also through views) is the same -/
theorem op_preserves_pixels (h h' : Heap) (op : Op) (r : Nat) (wf : WF h)
    (hs : step Gen.mulGuard h op = .ok (h', r)) :
    ∀ a, a < h.length → readArr h' a = readArr h a :=
  fun _ ha => readArr_frame wf (step_frame _ h h' op r hs) ha

/-- **Chains**: any sequence of modelled calls on shared operands (results of earlier calls may be
arguments of later ones) leaves everything reachable from any object of the initial heap unchanged. -/
theorem chain_preserves_args (h h' : Heap) (ops : List Op) (wf : WF h)
    (hs : run Gen.mulGuard h ops = .ok h') :
    ∀ a, a < h.length → ∀ b, (Reach h a b → h'[b]? = h[b]?) ∧ (Reach h' a b ↔ Reach h a b) := by
  intro a ha b
  have f := run_frame _ ops h h' hs
  exact ⟨fun rb => f.2 b (reach_lt wf rb ha), frame_reach wf f ha⟩

/-- **Well-formedness and typing are preserved by every modelled call** (no dangling reference is created; `date` /
`time` of every image stay date / time objects; views keep referring to owning arrays) — so every intermediate heap
of a chain satisfies the hypotheses of the theorems of this file. -/
theorem step_preserves_wf_typed (h h' : Heap) (op : Op) (r : Nat) (hs : step Gen.mulGuard h op = .ok (h', r)) :
    (WF h → WF h') ∧ (Typed h → Typed h') :=
  ⟨fun wf => step_wf _ h h' op r wf hs, fun ty => step_typed _ h h' op r ty hs⟩

/-- **Chains, full statement**: split a chain anywhere; every object existing at that point — operands of the
initial heap AND results created by the first part, which the second part may use as arguments — keeps everything
reachable from it unchanged through the second part, with the same reachable set. -/
theorem chain_preserves_intermediate (h h1 h2 : Heap) (ops1 ops2 : List Op) (wf : WF h)
    (hs1 : run Gen.mulGuard h ops1 = .ok h1) (hs2 : run Gen.mulGuard h1 ops2 = .ok h2) :
    WF h1 ∧ ∀ a, a < h1.length → ∀ b, (Reach h1 a b → h2[b]? = h1[b]?) ∧ (Reach h2 a b ↔ Reach h1 a b) := by
  have wf1 := run_wf _ ops1 h h1 wf hs1
  refine ⟨wf1, fun a ha b => ?_⟩
  have f := run_frame _ ops2 h1 h2 hs2
  exact ⟨fun rb => f.2 b (reach_lt wf1 rb ha), frame_reach wf1 f ha⟩

/-- `stack(images)` in particular: the list and every image in it (first one included) are untouched. -/
theorem stack_preserves_images (h h' : Heap) (l r : Nat) (wf : WF h)
    (hs : step Gen.mulGuard h (.stack l) = .ok (h', r)) :
    h.length ≤ r ∧ ∀ b, Reach h l b → l < h.length → h'[b]? = h[b]? := by
  refine ⟨?_, fun b rb hl => (step_frame _ h h' _ r hs).2 b (reach_lt wf rb hl)⟩
  simp only [step, bind, Except.bind, pure, Except.pure] at hs
  repeat' split at hs
  all_goals first | contradiction | skip
  cases hs; omega

/-- The documented in-place operation `self.append(image)` writes only the object `self` (its attributes are
rebound to a new stacked array and NEW date / time lists); every other object, in particular `image` and any
list `self` shared with other images, is unchanged. -/
theorem append_writes_only_self (h h1 : Heap) (s i : Nat) (off : Option Rat)
    (ha : Heap.append h s i off = .ok h1) :
    h.length ≤ h1.length ∧ ∀ a, a < h.length → a ≠ s → h1[a]? = h[a]? :=
  append_frame_self ha

/-- **The result is fresh, or a documented view**: the returned object is new, and every object reachable from
it is either allocated by the call or reachable — already before the call — from one of the documented shared
cells `op.shared h` (the pixel buffer for `time_slice` / `time_interval` / `subregion`; the `date` / `time`
objects handed on by `metadata()`; what the constructor is given). For `copy`, `*`, `astype`, `img_as`,
`to_trichromatic`, `to_monochromatic`, `weight`, `stack`, model calls the shared set is empty. -/
theorem result_fresh_or_documented_view (h h' : Heap) (op : Op) (r : Nat) (wf : WF h)
    (hs : step Gen.mulGuard h op = .ok (h', r)) :
    h.length ≤ r ∧ ∀ b, Reach h' r b → h.length ≤ b ∨ ∃ s ∈ op.shared h, s < h.length ∧ Reach h s b := by
  obtain ⟨hr, ff⟩ := step_fresh _ h h' op r hs
  exact ⟨hr, fun b rb => reach_fresh wf (step_frame _ h h' op r hs) ff rb (Or.inl hr)⟩

/-- the calls documented to return a *new* image share no pixel buffer: what they share is empty or consists of
date / time objects only -/
theorem copy_ops_share_no_pixels (h : Heap) (op : Op) (ty : Typed h) (hc : op.returnsCopy = true) :
    ∀ s ∈ op.shared h, ∃ v, h[s]? = some v ∧ v.isT = true :=
  fun _ hs => shared_copy_isT ty op hc hs

/-- **Later writes through a result.** `result.img[...] = values` after any modelled call (other than the
constructor, which wraps the array it is given) can change, among the objects that existed before the call,
only cells of `op.shared h` ... -/
theorem write_result_touches_only_shared (h h' h2 : Heap) (op : Op) (r : Nat) (vals : List Rat) (ty : Typed h)
    (hnc : ∀ c, op ≠ .ctor c) (hs : step Gen.mulGuard h op = .ok (h', r)) (hw : writePixels h' r vals = .ok h2) :
    h.length ≤ h2.length ∧ ∀ c, c < h.length → c ∉ op.shared h → h2[c]? = h[c]? :=
  Heap.write_result_touches_only_shared _ h h' h2 op r vals ty hnc hs hw

/-- ... and for every call documented to return a new image it changes none of them: no later pixel write to the
result can reach an argument. -/
theorem write_result_isolated (h h' h2 : Heap) (op : Op) (r : Nat) (vals : List Rat) (ty : Typed h)
    (hcopy : op.returnsCopy = true) (hs : step Gen.mulGuard h op = .ok (h', r))
    (hw : writePixels h' r vals = .ok h2) : Frame h h2 :=
  Heap.write_result_isolated _ h h' h2 op r vals ty hcopy hs hw

/-- In-place DarSIA operations applied to a result afterwards (`result.append(x)`, in-place `to_trichromatic`,
`result.img = new`) never reach an argument — for every modelled call, view-returning ones included. -/
theorem inplace_on_result_isolated (h h' h2 : Heap) (op : Op) (r : Nat)
    (hs : step Gen.mulGuard h op = .ok (h', r)) :
    (∀ i off, Heap.append h' r i off = .ok h2 → Frame h h2) ∧
    (∀ sh vals, rebindImg h' r sh vals = .ok h2 → Frame h h2) :=
  Heap.inplace_on_result_isolated _ h h' h2 op r hs

/-- Image arithmetic is element-wise arithmetic on the raw arrays (same shape required), and the
operands read the same afterwards. -/
theorem arith_elementwise (h h' : Heap) (a b r : Nat) :
    (step Gen.mulGuard h (.add a b) = .ok (h', r) →
      ∃ ra rb sh da db rr, getImg h a = .ok ra ∧ getImg h b = .ok rb ∧ readArr h ra.arr = .ok (sh, da) ∧
        readArr h rb.arr = .ok (sh, db) ∧ getImg h' r = .ok rr ∧
        readArr h' rr.arr = .ok (sh, List.zipWith (· + ·) da db)) ∧
    (step Gen.mulGuard h (.sub a b) = .ok (h', r) →
      ∃ ra rb sh da db rr, getImg h a = .ok ra ∧ getImg h b = .ok rb ∧ readArr h ra.arr = .ok (sh, da) ∧
        readArr h rb.arr = .ok (sh, db) ∧ getImg h' r = .ok rr ∧
        readArr h' rr.arr = .ok (sh, List.zipWith (· - ·) da db)) :=
  ⟨add_elementwise _ h h' a b r, sub_elementwise _ h h' a b r⟩

/-- `image * s` multiplies every entry by `s` (and is only reached when the guard admits the type). -/
theorem mul_elementwise (h h' : Heap) (a r : Nat) (t : TyTag) (s : Rat)
    (hs : step Gen.mulGuard h (.mul a t s) = .ok (h', r)) :
    Gen.mulGuard t = .ok () ∧ ∃ ra sh da rr, getImg h a = .ok ra ∧ readArr h ra.arr = .ok (sh, da) ∧
      getImg h' r = .ok rr ∧ readArr h' rr.arr = .ok (sh, da.map (· * s)) :=
  Heap.mul_elementwise _ h h' a r t s hs

/-- The `__mul__` guard of the running code (tabulated) admits every documented scalar type
(`float`, `int`) and the numpy real scalars, and rejects non-numbers. -/
theorem mul_accepts_documented :
    (∀ t ∈ TyTag.documented, Gen.mulGuard t = .ok ()) ∧ (∀ t ∈ TyTag.numeric, Gen.mulGuard t = .ok ()) ∧
    (∀ t ∈ [TyTag.str, TyTag.none], (Gen.mulGuard t).toBool = false) := by decide

/-- **The source has exactly the write sets the model assumes** (table regenerated on every check by a SYNTACTIC
may-alias analysis of the AST of the running code): for each of the 43 covered DarSIA functions, the writes to
caller-owned objects the analysis finds — attribute stores, augmented / item assignments, method- and function-style
mutator calls (`list.append`, `np.copyto`, `random.shuffle`, …), calls of DarSIA's own self-mutating methods, `out=`,
calls into the global numpy / python random modules; on parameters (`self` outside constructors) and on names aliased
to them by plain / tuple / loop assignment, subscripts, attributes and view-returning calls (`x.reshape`,
`np.asarray(x)`, …) — are the declared ones: only `append`, `set_time`, in-place `to_trichromatic` (and the cache of
`Geometry.integrate`) write, and only to `self`. A new in-place write of one of these syntactic forms in these
functions breaks this obligation; aliasing through containers built by calls, closures, helper functions or library
internals is outside the analysis (covered by the correspondence and the oracle only). -/
theorem source_write_sets : ∀ f ∈ SrcFn.all, sameSet (Gen.writeSet f) (declaredWrites f) = true := by decide

/-- every modelled *returning* call stands for source functions with empty write sets (so the frame property of the
model is the frame property of the source, up to the syntactic may-alias analysis), and no covered function touches
the global RNG -/
theorem returning_calls_have_no_source_writes (op : Op) : ∀ f ∈ op.srcFns, declaredWrites f = [] := by
  cases op <;> simp [Op.srcFns, declaredWrites]

theorem no_global_rng_writes : ∀ f ∈ SrcFn.all, ∀ w ∈ Gen.writeSet f, w.root ≠ .globalRng := by decide

/-! ### non-vacuity and discrimination -/



/-- a heap with a 2x2 scalar image at cell 5 whose `dimensions` list is cell 1, a 1x1 weight image at 11,
and the list `[5, 5]` at 12 -/
def demo : Heap :=
  [.arr [2, 2] [1, 2, 3, 4], .nums [1, 2], .nums [0, 1], .tval none, .tval none,
   .img { arr := 0, dims := 1, origin := 2, date := 3, time := 4, refDate := none, spaceDim := 2,
          series := false, scalar := true, timeNum := 1 },
   .arr [1, 1] [2], .nums [1, 2], .nums [0, 1], .tval none, .tval none,
   .img { arr := 6, dims := 7, origin := 8, date := 9, time := 10, refDate := none, spaceDim := 2,
          series := false, scalar := true, timeNum := 1 },
   .objs [5, 5]]

/-- the demonstration heap is well-formed and well-typed (hypotheses of the theorems above are satisfiable) -/
example : WF demo ∧ Typed demo := ⟨wf_of_check (by decide), typed_of_check (by decide)⟩

def okAnd {α} (p : α → Bool) : Except Err α → Bool | .ok a => p a | .error _ => false

/-- the modelled calls succeed on it (the hypotheses of the theorems are satisfiable) ... -/
example : okAnd (fun p => p.1.length == 22) (step Gen.mulGuard demo (.stack 12)) = true := by decide +kernel
example : okAnd (fun p => readArr p.1 19 == .ok ([2, 2], [2, 4, 6, 8]))
    (step Gen.mulGuard demo (.weightImg 5 11 [2, 2, 2, 2])) = true := by decide +kernel
example : okAnd (fun p => (getImg p.1 p.2).toOption.map (·.series) == some true &&
      (getImg p.1 5).toOption.map (·.series) == some false)
    (step Gen.mulGuard demo (.stack 12)) = true := by decide +kernel
example : okAnd (fun p => getNums p.1 1 == .ok [1, 2] && (getImg p.1 p.2).toOption.map (fun r => getNums p.1 r.dims) == some (.ok [7, 2]))
    (step Gen.mulGuard demo (.ctor {
      arr := 0, spaceDim := 2, dims := some 1, height := some 7, width := none,
      depth := none, origin := none, defOrigin := [0, 7], series := false, scalar := true, date := none,
      refDate := none, time := none })) = true := by decide +kernel

/-- a pixel write through the result of `subregion` does reach the argument's buffer (documented view), through
the result of `copy` it does not -/
example : okAnd (fun p => okAnd (fun h2 => h2[0]? != demo[0]?) (writePixels p.1 p.2 [9, 9]))
    (step Gen.mulGuard demo (.subregion 5 [(0, 1), (0, 2)] [1, 2] [0, 1])) = true := by decide +kernel
example : okAnd (fun p => okAnd (fun h2 => h2[0]? == demo[0]?) (writePixels p.1 p.2 [9, 9, 9, 9]))
    (step Gen.mulGuard demo (.copy 5)) = true := by decide +kernel

/-- ... whereas the code *before* the `fix:` commits does not have the frame property: the constructor
wrote `height` into the caller's list, `stack` turned `images[0]` into a series, `weight` rebound
`weight.img`. -/
example : okAnd (fun h' => h'[1]? != demo[1]?) (Before.ctorHeight demo 0 1 7) = true := by decide +kernel
example : okAnd (fun p => p.1[5]? != demo[5]?) (Before.stack demo 12) = true := by decide +kernel
example : okAnd (fun h' => h'[11]? != demo[11]?) (Before.weightImg demo 11 [2, 2] [2, 2, 2, 2]) = true := by
  decide +kernel

end Darsia.C17
