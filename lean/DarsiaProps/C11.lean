/-
C11 — resampling and axis reduction conserve integrals.

Models: `DarsiaModel.Resample` (area resampling = the INTER_AREA contract), `DarsiaModel.Conserve`
(conservative Resize, uniform refinement / coarsening with the code's odd-extent branch, axis reduction,
extrusion, superposition on a voxel-aligned canvas).  `integral dims shape f = Π(dimsᵢ/shapeᵢ) · Σ f`.
Every theorem holds for all shapes / arrays satisfying the stated guards; no size bounds.
What is NOT proved here: that OpenCV's kernels implement the area-resampling contract (tied by the
differential check with tolerance 1e-6, OpenCV computes area weights in float32) — see CLAIM.
-/
import DarsiaModel.Conserve
import DarsiaProofs.Conserve
namespace Darsia.C11
open Darsia

/-! ### area resampling -/

/-- `area_sum`: 1-D area resampling from `N` to ANY `M` cells conserves the sum weighted by the cell size
(`Σ out · N/M = Σ in`): down-sampling (`M ≤ N`, the quantified case), integer and non-integer up-sampling. -/
theorem area_sum (N M : Nat) (hN : 0 < N) (hM : 0 < M) (f : Nat → Rat) :
    sumRange M (fun j => areaResample1 N M f j * ((N : Rat) / (M : Rat))) = sumRange N f :=
  areaResample1_sum N M hN hM f

/-- The MODEL of `Resize(..., conservative)` (separable area resampling × ratio of pixel counts) conserves the array sum for
every input and target shape.  `cv2.resize(INTER_AREA)` realises this model only inside the property's quantifier —
both target extents not larger (pure shrinking) or both integer multiples (pure enlargement); for MIXED targets (one axis
shrunk by more than 2 while the other is enlarged) OpenCV switches to a 2-tap kernel and is not conservative
(3×5 → 6×3: sum 1240 → 1223).  The check sends only targets inside the quantifier. -/
theorem conservative_resize_sum (n1 n2 m1 m2 : Nat) (hn1 : 0 < n1) (hn2 : 0 < n2) (hm1 : 0 < m1) (hm2 : 0 < m2)
    (f : Nat → Nat → Rat) :
    sumRange m1 (fun j1 => sumRange m2 fun j2 => conservativeResize2 n1 n2 m1 m2 f j1 j2)
      = sumRange n1 (fun i1 => sumRange n2 fun i2 => f i1 i2) :=
  conservativeResize2_sum n1 n2 m1 m2 hn1 hn2 hm1 hm2 f

/-- the kernel for an integer shrink factor is the box mean ... -/
theorem downsample_int_is_box_mean (m k : Nat) (hm : 0 < m) (hk : 0 < k) (f : Nat → Rat) (j : Nat) :
    areaResample1 (m * k) m f j = 1 / (k : Rat) * sumRange (m * k) (fun i => if i / k = j then f i else 0) :=
  areaResample1_coarsen m k hm hk f j

/-- ... and for an integer enlargement factor replication (`upsample_int_sum` follows from `area_sum`). -/
theorem upsample_int_is_replication (n k : Nat) (hn : 0 < n) (hk : 0 < k) (f : Nat → Rat) (j : Nat) (hj : j < n * k) :
    areaResample1 n (n * k) f j = f (j / k) :=
  areaResample1_refine n k hn hk f j hj

/-! ### uniform refinement and coarsening -/

/-- one refinement level (any dimension) preserves the physical integral -/
theorem refine_integral (dims : List Rat) (shape : List Nat) (h : dims.length = shape.length)
    (hp : allPos shape = true) (f : List Nat → Rat) :
    integral dims (refinedShape shape) (refineAll shape f) = integral dims shape f := by
  unfold integral
  rw [refine_sum, ← voxelVol_mulShape dims shape (twos shape) h (twos_length shape).symm hp (twos_pos shape)]
  simp only [refinedShape]; ring

/-- one coarsening level (any dimension) preserves the physical integral when every extent is even -/
theorem coarsen_even_integral (dims : List Rat) (shape : List Nat) (h : dims.length = shape.length)
    (hp : allPos shape = true) (he : allEven shape = true) (f : List Nat → Rat) :
    integral dims (coarsenedShape shape) (coarsenAll shape f) = integral dims shape f := by
  unfold integral
  rw [voxelVol_coarsen dims shape h hp he, ← coarsen_sum shape he f]; ring

/-- With an odd extent coarsening is NOT conservative (inherent: the coarse grid does not nest):
three voxels of value 1 on an axis of length 3 have integral 3, the coarsened image has 9/4. -/
theorem coarsen_odd_not_conservative :
    ∃ (dims : List Rat) (shape : List Nat) (f : List Nat → Rat), dims.length = shape.length ∧ allPos shape = true ∧
      integral dims (coarsenedShape shape) (coarsenAll shape f) ≠ integral dims shape f :=
  ⟨[3], [3], fun _ => 1, rfl, rfl, by decide +kernel⟩

/-- refinement followed by coarsening is the identity (shape and every entry) -/
theorem refine_coarsen_id (shape : List Nat) (f : List Nat → Rat) :
    coarsenedShape (refinedShape shape) = shape ∧
      ∀ idx, inBox shape idx = true → coarsenAll (refinedShape shape) (refineAll shape f) idx = f idx :=
  ⟨coarsened_refined_shape shape, fun idx h => coarsen_refine shape f idx h⟩

/-! ### reduction along an axis, extrusion -/

/-- `reduce_sum_eq`: mode "sum" is the plain sum along the axis (entry-wise: DEFINITIONAL, `rfl` on the model), and the total
is unchanged (Fubini for boxes: the content) -/
theorem reduce_sum_eq (a : Nat) (shape : List Nat) (ha : a < shape.length) (f : List Nat → Rat) :
    (∀ idx, reduceAxis false a shape f idx = sumRange (listGetD shape a 0) fun i => f (insertAt a i idx)) ∧
      sumBox (eraseAt a shape) (reduceAxis false a shape f) = sumBox shape f :=
  ⟨fun _ => rfl, (sumBox_eraseAt a shape ha f).symm⟩

/-- `reduce_avg_eq` (DEFINITIONAL, `rfl` on the model): mode "average" is the sum divided by the number of voxels along the axis -/
theorem reduce_avg_eq (a : Nat) (shape : List Nat) (f : List Nat → Rat) (idx : List Nat) :
    reduceAxis true a shape f idx = reduceAxis false a shape f idx / ((listGetD shape a 0 : Nat) : Rat) := rfl

/-- integral of the summed image × voxel length along the removed axis = integral of the image -/
theorem reduce_sum_integral (a : Nat) (dims : List Rat) (shape : List Nat) (h : dims.length = shape.length)
    (ha : a < shape.length) (f : List Nat → Rat) :
    integral (eraseAt a dims) (eraseAt a shape) (reduceAxis false a shape f)
        * (listGetD dims a 0 / ((listGetD shape a 0 : Nat) : Rat)) = integral dims shape f := by
  unfold integral
  rw [voxelVol_eraseAt a dims shape h ha, sumBox_eraseAt a shape ha f]
  have : sumBox (eraseAt a shape) (reduceAxis false a shape f)
      = sumBox (eraseAt a shape) (fun idx => sumRange (listGetD shape a 0) fun i => f (insertAt a i idx)) := rfl
  rw [this]; ring

/-- integral of the averaged image × physical extent of the removed axis = integral of the image -/
theorem reduce_avg_integral (a : Nat) (dims : List Rat) (shape : List Nat) (h : dims.length = shape.length)
    (ha : a < shape.length) (hn : 0 < listGetD shape a 0) (f : List Nat → Rat) :
    integral (eraseAt a dims) (eraseAt a shape) (reduceAxis true a shape f) * listGetD dims a 0
      = integral dims shape f := by
  have hq : ((listGetD shape a 0 : Nat) : Rat) ≠ 0 := by positivity
  rw [← reduce_sum_integral a dims shape h ha f]
  unfold integral
  have : sumBox (eraseAt a shape) (reduceAxis true a shape f)
      = sumBox (eraseAt a shape) (reduceAxis false a shape f) / ((listGetD shape a 0 : Nat) : Rat) := by
    rw [← sumBox_div_const]; rfl
  rw [this]; field_simp

/-- `extrude_integral`: the integral of the extruded image is the integral times the extrusion height -/
theorem extrude_integral (height : Rat) (num : Nat) (hn : 0 < num) (dims : List Rat) (shape : List Nat)
    (f : List Nat → Rat) :
    integral (height :: dims) (num :: shape) (extrude f) = height * integral dims shape f := by
  have hq : (num : Rat) ≠ 0 := by positivity
  unfold integral
  rw [extrude_sum]; simp only [voxelVol]; field_simp

/-- averaging an extruded image along the extrusion axis gives the image back -/
theorem reduce_extrude_id (num : Nat) (hn : 0 < num) (shape : List Nat) (f : List Nat → Rat) (idx : List Nat) :
    reduceAxis true 0 (num :: shape) (extrude f) idx = f idx := by
  have hq : (num : Rat) ≠ 0 := by positivity
  simp only [reduceAxis, listGetD, insertAt, extrude, List.getElem?_cons_zero, Option.getD_some, if_true]
  rw [sumRange_const]; field_simp

/-! ### superposition -/

def sumList : List Rat → Rat
  | [] => 0
  | x :: xs => x + sumList xs

theorem superpose_eq_sumList (imgs : List Placed) (idx : List Nat) :
    superpose imgs idx = sumList (imgs.map fun p => p.at idx) := by
  unfold superpose
  induction imgs with
  | nil => rfl
  | cons p ps ih => simp only [List.map_cons, List.foldr_cons, sumList, ih]

/-- images that share the canvas grid: the superposition is the pointwise sum of the arrays -/
theorem superpose_shared_grid (canvas : List Nat) (imgs : List Placed)
    (h : ∀ p ∈ imgs, p.offset = zerosLike canvas ∧ p.shape = canvas) (idx : List Nat) (hi : inBox canvas idx = true) :
    superpose imgs idx = sumList (imgs.map fun p => p.val idx) := by
  rw [superpose_eq_sumList]
  congr 1
  apply List.map_congr_left
  intro p hp
  obtain ⟨h1, h2⟩ := h p hp
  simp only [Placed.at, h1, h2]
  exact shiftAt_zero canvas p.val idx hi

/-- voxel-aligned images inside the canvas: the sum over the canvas is the sum of the images' sums
(one voxel size, so the physical integral is conserved) -/
theorem superpose_aligned (canvas : List Nat) (imgs : List Placed)
    (h : ∀ p ∈ imgs, fits p.offset p.shape canvas = true) :
    sumBox canvas (superpose imgs) = sumList (imgs.map fun p => sumBox p.shape p.val) := by
  induction imgs with
  | nil =>
    have e : superpose [] = fun _ => (0 : Rat) := by funext idx; simp [superpose]
    simp only [List.map_nil, sumList, e, sumBox_const]; ring
  | cons p ps ih =>
    have e : superpose (p :: ps) = fun idx => p.at idx + superpose ps idx := by
      funext idx; simp [superpose]
    rw [e, sumBox_add, List.map_cons, sumList, ih (fun q hq => h q (List.mem_cons_of_mem p hq))]
    congr 1
    exact shiftAt_sum canvas p.offset p.shape (h p List.mem_cons_self) p.val

/-! ### HISTORICAL: multi-level coarsening as it was coded BEFORE fix 01b9c8c (original axis length at every level)

`coarsenCodedLevels` with a fixed `orig` is the pre-fix code; nothing in the current tie exercises it (the driver's `coded`
request evaluates `coarsenLevels`, the current code).  The three theorems of this section document the defect that was
fixed: conservative iff `2^L ∣ n` ("if" for all `n`, `L`; "only if" for the first level in general and for the deeper failure
modes by witnesses: silent broadcast at current extent 3, `ValueError` at current extents 5 and 1).  The CURRENT behaviour is
in the next section (`coarsen_levels_is_iterated`, `coarsen_levels_pow2_conservative`). -/

theorem coarsen_coded_pow2_conservative (D : Rat) (n l : Nat) (hn : 0 < n) (h : 2 ^ l ∣ n) (g : Nat → Rat) :
    ∃ m g', coarsenCodedLevels n l n g = .ok (m, g') ∧ m * 2 ^ l = n ∧
      D / (m : Rat) * sumRange m g' = D / (n : Rat) * sumRange n g := by
  obtain ⟨h1, h2⟩ := coarsenIdeal_sum l n g h
  refine ⟨(coarsenIdeal l n g).1, (coarsenIdeal l n g).2, coarsenCodedLevels_pow2 n l n g h (Nat.le_refl n), h1, ?_⟩
  have hm : 0 < (coarsenIdeal l n g).1 := by
    rcases Nat.eq_zero_or_pos (coarsenIdeal l n g).1 with e | e
    · rw [e] at h1; omega
    · exact e
  have hmq : ((coarsenIdeal l n g).1 : Rat) ≠ 0 := by positivity
  have hnq : (n : Rat) ≠ 0 := by positivity
  have hp : ((2 : Rat) ^ l) ≠ 0 := by positivity
  have hc : (n : Rat) = ((coarsenIdeal l n g).1 : Rat) * 2 ^ l := by exact_mod_cast h1.symm
  rw [← h2, hc]; field_simp

theorem coarsen_coded_odd_first_level (D : Rat) (hD : D ≠ 0) (m : Nat) :
    ∃ g', coarsenCodedLevels (2 * m + 1) 1 (2 * m + 1) (fun _ => 1) = .ok (m + 1, g') ∧
      D / ((m + 1 : Nat) : Rat) * sumRange (m + 1) g' ≠ D / ((2 * m + 1 : Nat) : Rat) * sumRange (2 * m + 1) (fun _ => 1) := by
  have hh : halfUp (2 * m + 1) = m + 1 := by unfold halfUp; omega
  have hl : min ((2 * m + 1) / 2) (halfUp (2 * m + 1)) = m := by rw [hh]; omega
  have hs : (2 * m + 1) / 2 = m := by omega
  refine ⟨fun j => (1 : Rat) / 2 + (if j < m then (1 : Rat) / 2 else 0), ?_, ?_⟩
  · have hmin : min m (m + 1) = m := by omega
    simp only [coarsenCodedLevels, coarsenCoded1, hs, hh, hmin, if_true]
  · rw [coarsen_odd_const_sum, sumRange_const]
    have h1 : (((m + 1 : Nat)) : Rat) ≠ 0 := by positivity
    have h2 : (((2 * m + 1 : Nat)) : Rat) ≠ 0 := by positivity
    intro e
    field_simp at e
    push_cast at e
    nlinarith [e, hD]

theorem coarsen_coded_failure_modes :
    -- current extent 3 at the second level (n = 6): a single entry is broadcast, the result is silently not conservative
    (∃ g', coarsenCodedLevels 6 2 6 (fun i => ((i * i : Nat) : Rat)) = .ok (2, g') ∧
        (3 : Rat) / 2 * sumRange 2 g' ≠ 3 / 6 * sumRange 6 (fun i => ((i * i : Nat) : Rat))) ∧
    -- current extent 5 (n = 10) and current extent 1 (n = 2): ValueError
    coarsenCodedLevels 10 2 10 (fun _ => 1) = .error .value ∧
    coarsenCodedLevels 2 2 2 (fun _ => 1) = .error .value := by
  refine ⟨⟨_, rfl, ?_⟩, rfl, rfl⟩
  decide +kernel

/-! ### after the `fix:` commit (current extent on every level) -/

/-- multi-level coarsening as coded now IS the iterated single-level coarsening, for every extent and every number of
levels: it never raises and never broadcasts -/
theorem coarsen_levels_is_iterated (l n : Nat) (g : Nat → Rat) :
    coarsenLevels l n g = .ok (coarsenIdeal l n g) := coarsenLevels_eq_ideal l n g

/-- ... and it conserves the integral whenever `2^levels` divides the extent -/
theorem coarsen_levels_pow2_conservative (D : Rat) (n l : Nat) (hn : 0 < n) (h : 2 ^ l ∣ n) (g : Nat → Rat) :
    ∃ m g', coarsenLevels l n g = .ok (m, g') ∧ m * 2 ^ l = n ∧
      D / (m : Rat) * sumRange m g' = D / (n : Rat) * sumRange n g := by
  obtain ⟨m, g', h1, h2, h3⟩ := coarsen_coded_pow2_conservative D n l hn h g
  refine ⟨m, g', ?_, h2, h3⟩
  rw [coarsenLevels_eq_ideal, ← coarsenCodedLevels_pow2 n l n g h (Nat.le_refl n)]
  exact h1

/-! ### the canvas of `superpose` -/

/-- `superpose` of voxel-aligned images of one voxel size: with the canvas COMPUTED from the extremal corners
(`canvasOf`) and the positions computed from the canvas origin (`onCanvas`), the sum over the canvas is the sum of the
images' sums — no hypothesis that the images fit: `canvas_fits` proves it. -/
theorem superpose_canvas_sum (imgs : List PlacedZ) :
    sumBox (canvasOf imgs).shape (superpose (imgs.map (onCanvas (canvasOf imgs))))
      = sumList (imgs.map fun p => sumBox [p.rows, p.cols] p.val) := by
  rw [superpose_aligned (canvasOf imgs).shape (imgs.map (onCanvas (canvasOf imgs)))]
  · simp only [List.map_map]; rfl
  · intro q hq
    obtain ⟨p, hp, rfl⟩ := List.mem_map.mp hq
    exact canvas_fits imgs p hp

/-- a single image is its own canvas -/
theorem canvas_single (p : PlacedZ) : (canvasOf [p]).shape = [p.rows, p.cols] ∧ (onCanvas (canvasOf [p]) p).offset = [0, 0] := by
  simp [canvasOf, onCanvas, minOf, maxOf]

/-! ### metadata of `Resize` and `equalize_voxel_size` -/

/-- (DEFINITIONAL: `resizeMeta` copies the metadata, as `Resize.__call__` does with `**img.metadata()`; that the code really
does so is OBSERVED by the oracle.)  `Resize` keeps the physical extent and placement (dimensions, origin); only the shape changes ... -/
theorem resize_keeps_extent (m : ImgMeta) (t : List Nat) :
    (resizeMeta m t).dims = m.dims ∧ (resizeMeta m t).origin = m.origin ∧ (resizeMeta m t).shape = t := ⟨rfl, rfl, rfl⟩

/-- ... hence plain area resizing (mean over the destination cell, `conservative = False`) preserves the physical
integral, for every input and target shape, ... -/
theorem area_resize_integral (d1 d2 : Rat) (n1 n2 m1 m2 : Nat) (hn1 : 0 < n1) (hn2 : 0 < n2) (hm1 : 0 < m1) (hm2 : 0 < m2)
    (f : Nat → Nat → Rat) :
    d1 / m1 * (d2 / m2) * sumRange m1 (fun j1 => sumRange m2 fun j2 => areaResize2 n1 n2 m1 m2 f j1 j2)
      = d1 / n1 * (d2 / n2) * sumRange n1 (fun i1 => sumRange n2 fun i2 => f i1 i2) := by
  have q1 : (n1 : Rat) ≠ 0 := by positivity
  have q2 : (n2 : Rat) ≠ 0 := by positivity
  have q3 : (m1 : Rat) ≠ 0 := by positivity
  have q4 : (m2 : Rat) ≠ 0 := by positivity
  rw [← conservativeResize2_sum n1 n2 m1 m2 hn1 hn2 hm1 hm2 f]
  have : ∀ j1, sumRange m2 (fun j2 => conservativeResize2 n1 n2 m1 m2 f j1 j2)
      = sumRange m2 (fun j2 => areaResize2 n1 n2 m1 m2 f j1 j2) * (((n1 * n2 : Nat) : Rat) / ((m1 * m2 : Nat) : Rat)) := by
    intro j1; rw [← sumRange_mul_right]; rfl
  simp only [this]
  rw [sumRange_mul_right]; push_cast; field_simp

/-- ... while the conservative variant conserves the array sum and therefore multiplies the physical integral by the
ratio of voxel counts (why the property uses the documented counterpart, the sum) -/
theorem conservative_resize_integral (d1 d2 : Rat) (n1 n2 m1 m2 : Nat) (hn1 : 0 < n1) (hn2 : 0 < n2) (hm1 : 0 < m1) (hm2 : 0 < m2)
    (f : Nat → Nat → Rat) :
    d1 / m1 * (d2 / m2) * sumRange m1 (fun j1 => sumRange m2 fun j2 => conservativeResize2 n1 n2 m1 m2 f j1 j2)
      = d1 / n1 * (d2 / n2) * sumRange n1 (fun i1 => sumRange n2 fun i2 => f i1 i2) * (((n1 * n2 : Nat) : Rat) / ((m1 * m2 : Nat) : Rat)) := by
  have q1 : (n1 : Rat) ≠ 0 := by positivity
  have q2 : (n2 : Rat) ≠ 0 := by positivity
  have q3 : (m1 : Rat) ≠ 0 := by positivity
  have q4 : (m2 : Rat) ≠ 0 := by positivity
  rw [conservativeResize2_sum n1 n2 m1 m2 hn1 hn2 hm1 hm2 f]; push_cast; field_simp

/-- (DEFINITIONAL on the model, observed on the code.)  `equalize_voxel_size` keeps dimensions and origin -/
theorem equalize_keeps_extent (m : ImgMeta) (vs : Option Rat) :
    (equalizeMeta m vs).dims = m.dims ∧ (equalizeMeta m vs).origin = m.origin := ⟨rfl, rfl⟩

/-- an axis whose extent is an integer multiple `k` of the voxel size gets `k` voxels, i.e. exactly that voxel size;
in particular with the default (smallest voxel side) the axis that attains it keeps its number of voxels -/
theorem equalize_exact (vs : Rat) (hv : 0 < vs) (k : Nat) (hk : 0 < k) :
    equalizeCount vs ((k : Rat) * vs) = k ∧ (k : Rat) * vs / ((equalizeCount vs ((k : Rat) * vs) : Nat) : Rat) = vs := by
  have hkq : (k : Rat) ≠ 0 := by positivity
  rw [equalizeCount_of_multiple vs hv k]
  exact ⟨rfl, by field_simp⟩

/-- in general the number of voxels is the integer nearest to `extent / voxel_size` -/
theorem equalize_nearest (vs d : Rat) (hq : 0 ≤ d / vs) :
    ((equalizeCount vs d : Nat) : Rat) ≤ d / vs + 1 / 2 ∧ d / vs - 1 / 2 < ((equalizeCount vs d : Nat) : Rat) :=
  equalizeCount_nearest vs d hq

/-! ### a re-used `Resize` object -/

/-- (near-definitional for the committed code, which keeps nothing between calls — the content is the tie by call
sequences.)  The output of a `Resize` object for an input does not depend on the inputs it was applied to before. -/
theorem resize_history_indep (o : ResizeObj) (h : List (Nat × Nat × (Nat → Nat → Rat))) (n1 n2 : Nat) (f : Nat → Nat → Rat) :
    ((ResizeObj.after false o h).call false n1 n2 f).2 = (o.call false n1 n2 f).2 := by
  have inv : ∀ (h : List (Nat × Nat × (Nat → Nat → Rat))) (o : ResizeObj),
      (ResizeObj.after false o h).m1 = o.m1 ∧ (ResizeObj.after false o h).m2 = o.m2 ∧
        (ResizeObj.after false o h).conservative = o.conservative := by
    intro h
    induction h with
    | nil => intro o; exact ⟨rfl, rfl, rfl⟩
    | cons x xs ih => intro o; obtain ⟨a, b, c⟩ := x; exact ih _
  obtain ⟨a, b, c⟩ := inv h o
  simp only [ResizeObj.call, a, b, c, Bool.false_eq_true, if_false]

/-- a ratio of voxel counts cached in the first call IS hidden state: 4×4 → 2×2 followed by 2×2 → 2×2 on one object
multiplies the second (identity) resize by 4 -/
theorem resize_cached_ratio_is_hidden_state :
    ((ResizeObj.after true ⟨2, 2, true, none⟩ [(4, 4, fun _ _ => 1)]).call true 2 2 (fun _ _ => 1)).2 0 0 = 4 ∧
    ((⟨2, 2, true, none⟩ : ResizeObj).call true 2 2 (fun _ _ => 1)).2 0 0 = 1 := by
  decide +kernel

/-! ### non-vacuity -/

/-- a non-constant 3×5 array: conservative resize to 2×3 keeps the sum 3·5·… and changes the entries -/
example :
    let f : Nat → Nat → Rat := fun i j => ((i + 2 * j + 1 : Nat) : Rat)
    sumRange 2 (fun j1 => sumRange 3 fun j2 => conservativeResize2 3 5 2 3 f j1 j2) = 90 ∧
      conservativeResize2 3 5 2 3 f 0 0 ≠ conservativeResize2 3 5 2 3 f 1 2 := by
  decide +kernel

/-- coarsening a 2×4 array is conservative, a 3-voxel axis is not (guard `allEven` is needed) -/
example : allEven [2, 4] = true ∧ allEven [3] = false ∧
    integral [1, 1] (coarsenedShape [2, 4]) (coarsenAll [2, 4] fun i => ((i.headD 0 + 3 * (i.getD 1 0) : Nat) : Rat))
      = integral [1, 1] [2, 4] (fun i => ((i.headD 0 + 3 * (i.getD 1 0) : Nat) : Rat)) := by
  decide +kernel

end Darsia.C11
