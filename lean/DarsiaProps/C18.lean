/-
C18 — saved images and corrections reload to equivalent objects: the part that is DarSIA's own logic.

Everything below is about `DarsiaGen.PersistTables`, regenerated from the running code (G1) and from the AST
of the save / load / constructor bodies (G2) on every check. The byte-level serialisers (np.savez + pickle,
cv2.imencode / imdecode / imwrite, PNG / TIFF codecs) are outside the model; the round trips through them are
observed by the oracle of `vt/checks/c18.py`.
-/
import DarsiaProofs.Persist
import DarsiaGen.PersistTables
namespace Darsia.C18
open Darsia Darsia.Persist

/-- **metadata() is complete**: every keyword an image constructor consumes is (after the alias
height/width/depth ↦ dimensions) a key of `metadata()` of that class — nothing that shapes the object is lost
when `save` stores `metadata()`. -/
theorem metadata_complete :
    ∀ c ∈ Cls.all, ∀ k ∈ Gen.consumed c, k.canon ∈ Gen.metaKeys c := by decide

/-- and conversely `metadata()` only returns keywords the constructor of the same class understands
(so `Class(array, **metadata)` is a faithful re-construction). -/
theorem metadata_sound :
    ∀ c ∈ Cls.all, ∀ k ∈ Gen.metaKeys c, k ∈ Gen.consumed c := by decide

/-- **npz round trip, class level**: the reader rebuilds an object of the class that was saved, whose
`metadata()` therefore has the same keys (in particular `color_space` of optical images survives). -/
theorem npz_class_roundtrip :
    ∀ c ∈ Cls.all, Gen.npzClass c = c ∧ Gen.metaKeys (Gen.npzClass c) = Gen.metaKeys c := by decide

/-- the generated key lists have the shape the round-trip argument needs: the ten base keys in every class,
nothing but those and `color_space`, `color_space` exactly for optical images, `Image` and `ScalarImage` alike -/
theorem keys_ok : KeysOK Gen.metaKeys :=
  ⟨by decide, by decide, by decide, by decide⟩

/-- the class decision of `imread_from_npz` (dictionary has `color_space` → optical; `scalar` true → scalar image;
else image), evaluated on what `metadata()` of each class contains, is the class the running reader builds (G1) -/
theorem npz_dispatch_matches_reader :
    ∀ c ∈ Cls.all, npzDispatch (decide (Key.color_space ∈ Gen.metaKeys c)) (decide (c = .scalarImage)) = Gen.npzClass c := by
  decide

/-- the keyword handling of the subclass constructors in the model (`construct`: forced flags) is the code's: the keys
each subclass constructor pops from `kwargs` before delegating (AST) are exactly the forced ones; the base constructor
pops only keys it consumes itself (`origin`, `reference_date`, `time`), and since `imread_from_npz` passes the stored
dictionary as `**metadata` (a fresh dict per call) no pop reaches the stored metadata -/
theorem popped_keys_are_the_forced_ones :
    (∀ c ∈ [Cls.scalarImage, Cls.opticalImage], ∀ k, k ∈ Gen.popped c ↔ k ∈ forcedKeys c) ∧
    (∀ k ∈ Gen.popped .image, k ∈ Gen.consumed .image ∧ k ∈ Gen.metaKeys .image) := by
  constructor
  · intro c hc k
    simp only [List.mem_cons, List.not_mem_nil, or_false] at hc
    rcases hc with rfl | rfl <;> cases k <;> simp [Gen.popped, forcedKeys]
  · decide

/-- **Every constructed image satisfies the invariant** the round trip relies on (relative time is the given one
or the one derived from the dates; the flags forced by `ScalarImage` / `OpticalImage`; upper-case colour space). -/
theorem constructor_establishes_inv {V : Type} (S : Sem V) (ok : S.OK) (c : Cls) (kw : Kw V)
    (hb : ∀ v, kw .scalar = some v → v = S.tru ∨ v = S.fls) : Inv S c (construct S c kw) :=
  construct_inv S ok c kw hb

/-- **Metadata round trip** `metadata(imread(save(img))) = metadata(img)`, for every image class, every value
domain and every attribute assignment satisfying the constructor's invariant: `Image.save` stores `metadata()`
(keys: generated table), `imread_from_npz` picks the class from the stored dictionary and passes it as keyword
arguments, the constructor re-derives the attributes — they all come back, key by key; the class is the saved one
(a plain `Image` with `scalar=True` comes back as `ScalarImage`, same keys). The only external contract left is
that np.savez / pickle return each stored *value* unchanged. -/
theorem npz_roundtrip_metadata {V : Type} (S : Sem V) (ok : S.OK) (c : Cls) (hc : c ∈ Cls.all) (a : Key → V)
    (inv : Inv S c a) :
    ((c = .image ∧ a .scalar = S.tru → (reload S (metadataOf Gen.metaKeys c a)).1 = .scalarImage) ∧
     (¬ (c = .image ∧ a .scalar = S.tru) → (reload S (metadataOf Gen.metaKeys c a)).1 = c)) ∧
    metadataOf Gen.metaKeys (reload S (metadataOf Gen.metaKeys c a)).1 (reload S (metadataOf Gen.metaKeys c a)).2 =
      metadataOf Gen.metaKeys c a :=
  roundtrip S ok Gen.metaKeys keys_ok c hc a inv

/-- in particular a saved image that came out of a constructor: save → imread → save stores the same dictionary -/
theorem npz_roundtrip_constructed {V : Type} (S : Sem V) (ok : S.OK) (c : Cls) (hc : c ∈ Cls.all) (kw : Kw V)
    (hb : ∀ v, kw .scalar = some v → v = S.tru ∨ v = S.fls) :
    let a := construct S c kw
    metadataOf Gen.metaKeys (reload S (metadataOf Gen.metaKeys c a)).1 (reload S (metadataOf Gen.metaKeys c a)).2 =
      metadataOf Gen.metaKeys c a :=
  (roundtrip S ok Gen.metaKeys keys_ok c hc _ (construct_inv S ok c kw hb)).2

/-- **kind rule** of `imread_from_bytes` as tabulated from the running code: grey and single-channel data give
scalar images, three channels an optical image, other channel counts are rejected. -/
theorem kind_rule :
    ∀ d ∈ [Decoded.gray, .chan 1, .chan 2, .chan 3, .chan 4], Gen.bytesKind d = kindRule d := by decide

/-- **BGR ↔ RGB**: the channel permutation applied when decoding is an involution, and reading a file undoes
the permutation applied by `OpticalImage.write` — for every pixel. -/
theorem bgr_rgb_involution {α} [Inhabited α] (a b c : α) :
    permute Gen.readPerm (permute Gen.readPerm [a, b, c]) = [a, b, c] ∧
    permute Gen.filePerm (permute Gen.writePerm [a, b, c]) = [a, b, c] ∧
    permute Gen.readPerm [a, b, c] = [c, b, a] := by
  simp [permute, Gen.readPerm, Gen.filePerm, Gen.writePerm]

/-- **suffix dispatch**: every documented suffix has a reader, `.npz` (what `Image.save` writes) goes to the npz
reader, every raster format `OpticalImage.write` can produce goes to the optical reader (also in upper case),
an unknown suffix is rejected. -/
theorem suffix_dispatch :
    (∀ s ∈ Suffix.documented, (Gen.suffixReader s).toBool = true) ∧
    Gen.suffixReader .npz = .ok .npz ∧
    (∀ s ∈ Suffix.optical, Gen.suffixReader s = .ok .optical) ∧
    Gen.suffixReader .txt = .error .notImpl := by decide

/-- **read_correction is total** on what `save` produces: every correction class whose `save` writes a
`class_name` can be resolved by the generic reader and constructed without arguments. -/
theorem read_correction_total :
    ∀ c ∈ Gen.Corr.all, Gen.writesClassName c = true → Gen.resolvable c = true ∧ Gen.defaultConstructible c = true := by
  decide

/-- the corrections `read_correction` announces (its `AnyCorrection` union: type, drift, curvature, illumination,
colour) all implement `save`, write `class_name`, resolve and default-construct. -/
theorem read_correction_union_savable :
    ∀ c ∈ Gen.Corr.all, Gen.inUnion c = true →
      Gen.implementsSave c = true ∧ Gen.writesClassName c = true ∧ Gen.resolvable c = true ∧
      Gen.defaultConstructible c = true := by decide

/-- Full statement wanted: `∀ c, implementsSave c → writesClassName c` (every correction that can be saved reloads
through the generic reader). It is FALSE for the current code: `RelativeColorCorrection.save` writes
`coefficients, config` without `class_name` and the class is unknown to `read_correction` (known finding, reported
by the check from the regenerated table). Proved part: it holds for every class of the announced union and for
every class whose file carries a `class_name`. -/
theorem savable_writes_class_name_partial :
    ∀ c ∈ Gen.Corr.all, Gen.implementsSave c = true → Gen.inUnion c = true → Gen.writesClassName c = true := by decide

/-- **fields**: whatever a correction's `load` reads from the file was written by its `save`. -/
theorem fields_saved_superset_loaded :
    ∀ c ∈ Gen.Corr.all, ∀ f ∈ Gen.loaded c, f ∈ Gen.saved c := by decide

/-- attributes `correct_array` reads that `load` does not restore although the constructor lets the user choose them —
each with its reason. They only steer WHERE the memoised sampling grid is kept (file cache on / off, its path); the grid
itself is a function of `config` and the input shape (see `curv_output_independent_of_cache`), so the output does not
depend on them. -/
def restoreExceptions : List (Gen.Corr × Gen.CAttr) :=
  [(.CurvatureCorrection, .a_use_cache), (.CurvatureCorrection, .a_cache_path)]

/-- **Attribute provenance of the savable corrections** (AST of the classes, syntactic): every attribute of `self`
that `correct_array` reads (transitively through the methods it calls) is
* stored by `load` (transitively, e.g. `_init_from_config`), or
* a constant of the constructor: stored by `__init__` and NOT derived from any constructor parameter / keyword (directly,
  through another such attribute or a local, or under a condition on them) — the no-argument constructor of the generic
  reader then sets the same value the original had (`translation_estimator` of `DriftCorrection`, the empty `cache`), or
* one of the explicitly listed exceptions.
A constructor-configurable attribute that `load` forgets is NOT accepted (this is what failed for
`interpolation_order` before the fix). -/
theorem correct_reads_are_restored :
    ∀ c ∈ Gen.Corr.all, Gen.implementsSave c = true → Gen.writesClassName c = true →
      ∀ a ∈ Gen.correctReads c,
        a ∈ Gen.loadStores c ∨ (a ∈ Gen.initStores c ∧ a ∉ Gen.ctorConfigurable c) ∨ (c, a) ∈ restoreExceptions := by
  decide

/-- and `load` restores something `correct_array` uses, for each of them (the saved file is not decorative) -/
theorem load_restores_used_state :
    ∀ c ∈ Gen.Corr.all, Gen.implementsSave c = true → Gen.writesClassName c = true →
      ∃ a ∈ Gen.loadStores c, a ∈ Gen.correctReads c := by decide

/-- **reload_equiv**: for each of the five savable corrections, the state `correct_array` depends on is the same after
`save` → `read_correction` (no-argument constructor, then `load`, incl. `_init_from_config`) as before — hence the
output function is the same — for every state the class's own initialisation can produce (`Inv`), under the external
contract that np.savez / pickle return each stored value unchanged. Caches are memoisation and not part of the state. -/
theorem reload_equiv {V : Type} (S : CSem V) :
    (∀ s : TypeState V, s.save.load = s) ∧
    (∀ s : DriftState V, s.Inv S → s.save.load S = s) ∧
    (∀ s : CurvState V, s.save.load S = s) ∧
    (∀ s : IllumState V, s.save.load = s) ∧
    (∀ (cfg : ColorCfg V) (sw : V), (ColorState.ofConfig S cfg sw).save.load S = ColorState.ofConfig S cfg sw) := by
  refine ⟨fun s => rfl, fun s inv => ?_, fun s => rfl, fun s => rfl, fun cfg sw => rfl⟩
  cases s with
  | mk base active padding roi =>
    cases roi with
    | none => rfl
    | some r =>
      have h := inv r rfl
      simp [DriftState.save, DriftFile.load, h]

/-- **The persisted grid cache does not change the output**: the cache of a `CurvatureCorrection` always holds the grid
of the object's own configuration (`CacheOK`: true for a fresh object, preserved by every application and by
save → load), and then the grid used for an input of ANY shape is the one computed from `config` — so the reloaded
correction samples with the same grid as the original, also for inputs of another shape than the cached one. -/
theorem curv_output_independent_of_cache {V : Type} [DecidableEq V] (S : CurvSem V) (s : CurvStateC V) (sh : V)
    (ok : s.CacheOK S) :
    (s.apply S sh).1 = S.grid s.config sh ∧ (s.apply S sh).2.CacheOK S ∧ (s.apply S sh).2.config = s.config ∧
    (s.save.load S).CacheOK S ∧ ((s.save.load S).apply S sh).1 = (s.apply S sh).1 := by
  have happly : ∀ t : CurvStateC V, t.CacheOK S → (t.apply S sh).1 = S.grid t.config sh := by
    intro t okt
    unfold CurvStateC.apply
    cases hc : t.cache with
    | none => rfl
    | some p =>
      obtain ⟨sh0, g⟩ := p
      by_cases e : sh0 = sh
      · simp [e]; subst e; exact okt sh0 g hc
      · simp [e]
  have hload : (s.save.load S).CacheOK S := by
    intro sh' g' h'; exact ok sh' g' h'
  refine ⟨happly s ok, ?_, ?_, hload, ?_⟩
  · unfold CurvStateC.apply
    cases hc : s.cache with
    | none => intro sh' g' h'; simp at h'; obtain ⟨rfl, rfl⟩ := h'; rfl
    | some p =>
      obtain ⟨sh0, g⟩ := p
      by_cases e : sh0 = sh
      · simp [e]; subst e; exact ok
      · simp only [e, if_false]
        intro sh' g' h'; simp at h'; obtain ⟨rfl, rfl⟩ := h'; rfl
  · unfold CurvStateC.apply
    cases hc : s.cache with
    | none => rfl
    | some p =>
      obtain ⟨sh0, g⟩ := p
      by_cases e : sh0 = sh <;> simp [e]
  · rw [happly _ hload, happly s ok]; rfl

/-- a `load` that adapts the configuration again after restoring the cache leaves a cache that belongs to ANOTHER
configuration: inputs of the cached shape are sampled with the old grid, others with the new one (witness) -/
example : let S : CurvSem Nat := { one := 1, grid := fun cfg sh => 10 * cfg + sh }
    let s : CurvStateC Nat := { config := 2, interpolationOrder := 1, cache := some (3, 23) }
    s.CacheOK S ∧ ¬ (s.save.loadAdapting S (· * 2)).CacheOK S := by
  refine ⟨?_, ?_⟩
  · intro sh g h; simp at h; obtain ⟨rfl, rfl⟩ := h; rfl
  · intro h
    have := h 3 23 rfl
    simp [CurvFileC.loadAdapting, CurvStateC.save] at this

/-- the interpolation order is part of that state: the code before the fix did not store it, and a correction built with
another order than the constructor's default came back different -/
theorem curvature_before_fix_loses_order {V : Type} (S : CSem V) (s : CurvState V) (h : s.interpolationOrder ≠ S.one) :
    s.saveBefore.load S ≠ s := by
  intro e
  have := congrArg CurvState.interpolationOrder e
  simp [CurvState.saveBefore, CurvFile.load] at this
  exact h this.symm

/-- a drift correction's ROI given as points is turned into a tuple of slices by `_init_from_config`; the invariant of
`reload_equiv` is what that initialisation establishes (when `bounding_box` returns a tuple of slices) -/
theorem drift_init_establishes_inv {V : Type} (S : CSem V) (f : DriftFile V)
    (hb : ∀ r p b, S.isTuple (S.bbox r p b) = true) : (f.load S).Inv S := by
  intro r hr
  simp only [DriftFile.load] at hr
  cases hroi : f.cfgRoi with
  | none => simp [hroi] at hr
  | some r0 =>
    simp [hroi] at hr
    by_cases ht : S.isTuple r0 = true
    · simp [ht] at hr; subst hr; exact ht
    · simp [ht] at hr; subst hr; exact hb _ _ _

/-- non-vacuity: a value domain with well-behaved helpers exists (numbers: 0 = None, 1 = True, 9 = False, ...) and an
image built by the optical constructor from it satisfies the invariant -/
def natSem : Sem Nat :=
  { none := 0, two := 2, ij := 7, tru := 1, fls := 9, rgb := 5, isNone := (· == 0), truthy := (· == 1), up := id,
    defaultIndexing := id, defaultDims := id, applyHWD := fun d h w z => match h, w, z with | none, none, none => d | _, _, _ => d + 1,
    defaultOrigin := fun a _ _ => a, defaultDate := fun _ => 0, defaultRef := id, deriveTime := fun _ d r => d - r }

example : natSem.OK := ⟨rfl, rfl, fun _ => rfl, fun _ => rfl⟩
example : (reload natSem (metadataOf Gen.metaKeys .opticalImage
    (construct natSem .opticalImage (fun k => if k = .date then some 40 else if k = .color_space then some 6 else none)))).1
    = .opticalImage := by decide

/-- non-vacuity: the tables are populated -/
example : (Gen.consumed .opticalImage).length ≥ 10 ∧ (Gen.metaKeys .image).length ≥ 8 ∧ Gen.Corr.all.length ≥ 5 ∧
    (Gen.Corr.all.filter Gen.writesClassName).length ≥ 5 ∧
    (Gen.Corr.all.filter Gen.inUnion).length = 5 := by decide

end Darsia.C18
