/-
C18 — saved images and corrections reload to equivalent objects: the part that is DarSIA's own logic.

Everything below is about `DarsiaGen.PersistTables`, regenerated from the running code (G1) and from the AST
of the save / load / constructor bodies (G2) on every check. The byte-level serialisers (np.savez + pickle,
cv2.imencode / imdecode / imwrite, PNG / TIFF codecs) are outside the model; the round trips through them are
observed by the oracle of `vt/checks/c18.py`.
-/
import DarsiaModel.Persist
import DarsiaGen.PersistTables
namespace Darsia.C18
open Darsia Darsia.Persist

/-- **metadata() is complete**: every keyword an image constructor consumes is (after the alias
height/width/depth ↦ dimensions) a key of `metadata()` of that class — nothing that shapes the object is lost
when `save` stores `metadata()`. -/
theorem metadata_complete :
    ∀ c ∈ Cls.all, ∀ k ∈ Gen.consumed c, k.canon ∈ Gen.metaKeys c := by decide

/-- and conversely `metadata()` only returns keywords the constructor of the same class understands
(so `Class(array, **metadata)` is a faithful re-construction). -/
theorem metadata_sound :
    ∀ c ∈ Cls.all, ∀ k ∈ Gen.metaKeys c, k ∈ Gen.consumed c := by decide

/-- **npz round trip, class level**: the reader rebuilds an object of the class that was saved, whose
`metadata()` therefore has the same keys (in particular `color_space` of optical images survives). -/
theorem npz_class_roundtrip :
    ∀ c ∈ Cls.all, Gen.npzClass c = c ∧ Gen.metaKeys (Gen.npzClass c) = Gen.metaKeys c := by decide

/-- **kind rule** of `imread_from_bytes` as tabulated from the running code: grey and single-channel data give
scalar images, three channels an optical image, other channel counts are rejected. -/
theorem kind_rule :
    ∀ d ∈ [Decoded.gray, .chan 1, .chan 2, .chan 3, .chan 4], Gen.bytesKind d = kindRule d := by decide

/-- **BGR ↔ RGB**: the channel permutation applied when decoding is an involution, and reading a file undoes
the permutation applied by `OpticalImage.write` — for every pixel. -/
theorem bgr_rgb_involution {α} [Inhabited α] (a b c : α) :
    permute Gen.readPerm (permute Gen.readPerm [a, b, c]) = [a, b, c] ∧
    permute Gen.filePerm (permute Gen.writePerm [a, b, c]) = [a, b, c] ∧
    permute Gen.readPerm [a, b, c] = [c, b, a] := by
  simp [permute, Gen.readPerm, Gen.filePerm, Gen.writePerm]

/-- **suffix dispatch**: every documented suffix has a reader, `.npz` (what `Image.save` writes) goes to the npz
reader, every raster format `OpticalImage.write` can produce goes to the optical reader (also in upper case),
an unknown suffix is rejected. -/
theorem suffix_dispatch :
    (∀ s ∈ Suffix.documented, (Gen.suffixReader s).toBool = true) ∧
    Gen.suffixReader .npz = .ok .npz ∧
    (∀ s ∈ Suffix.optical, Gen.suffixReader s = .ok .optical) ∧
    Gen.suffixReader .txt = .error .notImpl := by decide

/-- **read_correction is total** on what `save` produces: every correction class whose `save` writes a
`class_name` can be resolved by the generic reader and constructed without arguments. -/
theorem read_correction_total :
    ∀ c ∈ Gen.Corr.all, Gen.writesClassName c = true → Gen.resolvable c = true ∧ Gen.defaultConstructible c = true := by
  decide

/-- the corrections `read_correction` announces (its `AnyCorrection` union: type, drift, curvature, illumination,
colour) all implement `save`, write `class_name`, resolve and default-construct. -/
theorem read_correction_union_savable :
    ∀ c ∈ Gen.Corr.all, Gen.inUnion c = true →
      Gen.implementsSave c = true ∧ Gen.writesClassName c = true ∧ Gen.resolvable c = true ∧
      Gen.defaultConstructible c = true := by decide

/-- Full statement wanted: `∀ c, implementsSave c → writesClassName c` (every correction that can be saved reloads
through the generic reader). It is FALSE for the current code: `RelativeColorCorrection.save` writes
`coefficients, config` without `class_name` and the class is unknown to `read_correction` (known finding, reported
by the check from the regenerated table). Proved part: it holds for every class of the announced union and for
every class whose file carries a `class_name`. -/
theorem savable_writes_class_name_partial :
    ∀ c ∈ Gen.Corr.all, Gen.implementsSave c = true → Gen.inUnion c = true → Gen.writesClassName c = true := by decide

/-- **fields**: whatever a correction's `load` reads from the file was written by its `save`. -/
theorem fields_saved_superset_loaded :
    ∀ c ∈ Gen.Corr.all, ∀ f ∈ Gen.loaded c, f ∈ Gen.saved c := by decide

/-- non-vacuity: the tables are populated -/
example : (Gen.consumed .opticalImage).length ≥ 10 ∧ (Gen.metaKeys .image).length ≥ 8 ∧ Gen.Corr.all.length ≥ 5 ∧
    (Gen.Corr.all.filter Gen.writesClassName).length ≥ 5 ∧
    (Gen.Corr.all.filter Gen.inUnion).length = 5 := by decide

end Darsia.C18
