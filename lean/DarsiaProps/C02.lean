/-
C02 — extracted sub-images keep their data and their physical placement.

Model: `DarsiaModel.ImageMeta` (images = geometry + list of time slabs, each slab naming the root
array / root time index and the root indices it holds per axis; numpy slicing = drop/take; dates in
seconds, relative times rational). The invariant `Placed root im off` (DarsiaProofs.ImageMeta) says:
`im` holds exactly the root block starting at voxel `off`; every (fractional) voxel position `v` of
`im` has the coordinate of root position `v + off`; the voxel size is the root's; every time slab
carries the relative time and date of the root slab it was taken from; scalar/vector layout and
reference date are the root's.
-/
import DarsiaProofs.ImageMeta
import DarsiaProofs.ImageArr
namespace Darsia.C02
open Darsia Darsia.Im

/-- ONE spatial extraction by ANY tuple of Python slices (open-ended, negative, beyond the image —
all normalised like `slice.indices`) with a non-empty result: shape, data block, placement, voxel
size and all time / payload metadata of the sub-image. -/
theorem sub_placed (im sub : Img) (hcs : im.cs.ok) (sls : List PySlice)
    (h : im.subSlices sls = .ok sub) (hne : sub.nonempty = true) :
    let ns := List.zipWith sliceIdx im.cs.shape sls
    ∃ am, axisMap im.cs.dim = .ok am ∧
      sub.cs.shape = ns.map (fun s => s.2 - s.1) ∧
      sub.slabs = im.slabs.map (fun sl => { sl with idx := List.zipWith Patch.sliceL sl.idx ns }) ∧
      (∀ v : List Rat, v.length = im.cs.dim.toNat →
        coordWith am sub.cs v = coordWith am im.cs (List.zipWith (· + ·) v (ns.map fun s => ((s.1 : Nat) : Rat)))) ∧
      (∀ p, p < im.cs.dim.toNat → sub.cs.h p = im.cs.h p) ∧
      sub.time = im.time ∧ sub.date = im.date ∧ sub.ref = im.ref ∧ sub.series = im.series ∧ sub.scalar = im.scalar :=
  subSlices_placed im sub hcs sls h hne

/-- slicing a block of root indices yields the block shifted by the (normalised) slice starts. -/
theorem sub_block (off shape : List Nat) (sls : List PySlice) :
    List.zipWith Patch.sliceL (List.zipWith (fun o N => List.range' o N) off shape) (List.zipWith sliceIdx shape sls) =
      List.zipWith (fun o N => List.range' o N)
        (List.zipWith (· + ·) off ((List.zipWith sliceIdx shape sls).map (·.1)))
        ((List.zipWith sliceIdx shape sls).map fun s => s.2 - s.1) := zipWith_slice_block off shape sls

/-- offsets compose additively: a subregion of an image placed at `off` is placed at `off + start`. -/
theorem nest_offsets_add (root im sub : Img) (off : List Nat) (hP : Placed root im off) (sls : List PySlice)
    (h : im.subSlices sls = .ok sub) (hne : sub.nonempty = true) :
    Placed root sub (List.zipWith (· + ·) off ((List.zipWith sliceIdx im.cs.shape sls).map (·.1))) :=
  placed_sub root im sub off hP sls h hne

/-- time slicing / time intervals keep the spatial placement and carry the stamps of the slabs. -/
theorem time_extraction_placed (root im im' : Img) (off : List Nat) (hP : Placed root im off) :
    (∀ k, im.timeSlice k = .ok im' → Placed root im' off ∧ im'.series = false ∧ im'.slabs.length = 1) ∧
    (∀ s, im.timeInterval s = .ok im' → Placed root im' off) :=
  ⟨fun k h => placed_timeSlice root im im' off hP k h, fun s h => placed_timeInterval root im im' off hP s h⟩

/-- NESTING: any program of extraction steps — subregion by slices, by voxel corner points, by
physical corner points (clipped), time_slice, time_interval — of ANY length, in any order, leaves
the image placed in the root (one extraction with composed offsets), as long as no step raises or
yields an empty image. Induction over the program. -/
theorem nest (root : Img) (off0 : List Nat) (hroot : Placed root root off0) (steps : List Step) (im : Img)
    (h : root.runOk steps = some im) : ∃ off, Placed root im off :=
  placed_run root steps root im off0 hroot h

/-- NESTING WITH THE COMPOSED OFFSET MADE EXPLICIT: `runOff` accumulates the sum of the normalised slice starts of
the spatial steps (zero for the time steps); the image returned by the program is placed in the root at EXACTLY that
offset — one extraction with the composed offsets, not merely "some" offset. -/
theorem nest_offsets (root : Img) (off0 : List Nat) (hroot : Placed root root off0) (steps : List Step) (im : Img)
    (off : List Nat) (h : root.runOff off0 steps = some (im, off)) : Placed root im off ∧ root.runOk steps = some im :=
  placed_runOff root steps root im off0 off hroot h

/-- … and freshly constructed images satisfy the hypothesis of `nest` (offset zero). -/
theorem root_placed (rid : Nat) (cs : CS) (series scalar : Bool) (T : Nat) (time : Option (List (Option Rat)))
    (date : List (Option Int)) (root : Img) (h : mkRoot rid cs series scalar T time date = .ok root)
    (hcs : cs.ok) (hT : root.time.length = T) (hD : date.length = T)
    (hc : ∀ k : Nat, root.time[k]? = some none → date[k]? = some none) :
    Placed root root (List.replicate cs.dim.toNat 0) :=
  placed_root rid cs series scalar T time date root h hcs hT hD hc

/-- DEFINITIONAL UNFOLDING (kept for reference, proves nothing about behaviour): the CoordinateArray branch of
`Image.subregion` IS `coordinatesystem.voxel(points)` followed by the same min/max/clip expression as the VoxelArray
branch, and the model is written the same way. The substantive statements about physical boxes are
`physical_box_clipped` (which block a physical box selects, via `voxel ∘ coordinate = floor`) and `roi_clipping`. -/
theorem subCoords_unfold (im : Img) (pts : List (List Rat)) :
    im.subCoords pts = (im.cs.voxelB pts >>= fun vox => im.subVoxels vox) := by
  unfold Img.subCoords Img.subVoxels
  cases im.cs.voxelB pts <;> rfl

/-- a physical box whose corner points are the coordinates of arbitrary (fractional, possibly outside)
voxel positions `ws` selects exactly what the VoxelArray of the FLOORED positions selects — on reversed
and non-reversed axes alike, in every dimension (every physical point is the coordinate of some voxel
position, `voxel ∘ coordinate = floor`). -/
theorem physical_box_clipped (im : Img) (hcs : im.cs.ok) (ws : List (List Rat))
    (hw : ∀ w ∈ ws, w.length = im.cs.dim.toNat) :
    ∃ pts, im.cs.coordinateB ws = .ok pts ∧ im.subCoords pts = im.subVoxels (ws.map (·.map Rat.floor)) :=
  physical_box_floor im hcs ws hw

/-- CLIPPING of point ROIs (VoxelArray, and through the previous theorem CoordinateArray): on an axis of
`N` voxels on which the points' indices span `[lo, hi]` the code selects the normalised range
`boxRange N lo hi`; voxel `j` is selected iff `lo ≤ j < hi` and `j` is a voxel of the image; a ROI lying
entirely outside the image on that axis (`hi ≤ 0` or `lo ≥ N`) selects nothing (before the fix a ROI
entirely on the negative side selected `[0, N + hi)`: a negative slice stop counts from the end). -/
theorem roi_clipping (shape : List Nat) (pts : List (List Int)) (sls : List PySlice)
    (h : boxSlices shape pts = .ok sls) :
    sls.length = shape.length ∧ ∀ (d N : Nat), shape[d]? = some N → ∃ lo hi, colMin pts d = some lo ∧ colMax pts d = some hi ∧
      (List.zipWith sliceIdx shape sls)[d]? = some (boxRange N lo hi) ∧
      (∀ j : Nat, ((boxRange N lo hi).1 ≤ j ∧ j < (boxRange N lo hi).2) ↔ (lo ≤ (j : Int) ∧ (j : Int) < hi ∧ j < N)) ∧
      ((hi ≤ 0 ∨ (N : Int) ≤ lo) → (boxRange N lo hi).2 ≤ (boxRange N lo hi).1 ∨ (boxRange N lo hi).2 = 0) := by
  obtain ⟨hl, hg⟩ := boxSlices_ranges shape pts sls h
  refine ⟨hl, ?_⟩
  intro d N hd
  obtain ⟨lo, hi, a, b, c⟩ := hg d N hd
  exact ⟨lo, hi, a, b, c, fun j => clip_selects N lo hi j, roi_outside_selects_nothing N lo hi⟩

/-! non-vacuity: ROI spanning voxels −2..3 on an axis of 5 is clipped to [0, 3); entirely outside (−3..−1) selects nothing. -/
example : boxRange 5 (-2) 3 = (0, 3) ∧ boxRange 4 (-3) (-1) = (0, 0) ∧ boxRange 4 6 9 = (4, 4) := by decide

/-- stacking single-time images that carry relative times only and slicing again returns each
original: its data, its relative time, no date (this failed before the fix of `Image.append`). -/
theorem stack_slice_rel (cs : CS) (scalar : Bool) (xs : List (Slab × Rat)) (hn : 2 ≤ xs.length) (i : Nat)
    (hi : i < xs.length) :
    ∃ s, stack (xs.map (timed cs scalar)) = .ok s ∧ s.timeSlice (i : Int) = .ok (timed cs scalar xs[i]) :=
  stack_slice_rel' cs scalar xs hn i hi

/-- HOW THE STACK SENTENCE IS READ. "Stacking single-time images into a series and slicing it again returns the
originals with their dates and relative times" = data and DATES are returned exactly; the RELATIVE time of slice `i` is
relative to the reference date of the SERIES, which is the reference date of the first image. For dated images with
ARBITRARY stored relative times (incl. times in another unit, "both") and ARBITRARY reference dates, `stack` (no offset)
derives the times from the dates: slice `i` has time `date_i − ref_0` and reference `ref_0`. (The stored times of dated
images are NOT kept by `stack`; they are kept by `append(…, offset)`, see `append_offset_keeps_times`.) -/
theorem stack_slice_dated (cs : CS) (scalar : Bool) (x0 : Slab × Int × Rat × Int) (rest : List (Slab × Int × Rat × Int))
    (hr : rest ≠ []) (hsorted : List.Pairwise (· < ·) ((x0 :: rest).map (·.2.1))) (i : Nat) (hi : i < (x0 :: rest).length) :
    ∃ s, stack ((x0 :: rest).map (datedG cs scalar)) = .ok s ∧
      s.timeSlice (i : Int) = .ok ⟨cs, false, scalar, [((x0 :: rest)[i]).1],
        [some (secondsBetween ((x0 :: rest)[i]).2.1 x0.2.2.2)], [some ((x0 :: rest)[i]).2.1], some x0.2.2.2⟩ :=
  stack_slice_datedG cs scalar x0 rest hr hsorted i hi

/-- … hence, when all images share ONE reference date `r` and carry the times `date − r` (what the constructor derives
when `reference_date=r` is passed), slicing the stacked series returns every original EXACTLY — data, date, relative time
and reference date: the sentence as written. -/
theorem stack_slice_shared_reference (cs : CS) (scalar : Bool) (r : Int) (x0 : Slab × Int × Rat × Int)
    (rest : List (Slab × Int × Rat × Int)) (hr : rest ≠ [])
    (hshared : ∀ x ∈ x0 :: rest, x.2.2.2 = r ∧ x.2.2.1 = secondsBetween x.2.1 r)
    (hsorted : List.Pairwise (· < ·) ((x0 :: rest).map (·.2.1))) (i : Nat) (hi : i < (x0 :: rest).length) :
    ∃ s, stack ((x0 :: rest).map (datedG cs scalar)) = .ok s ∧
      s.timeSlice (i : Int) = .ok (datedG cs scalar ((x0 :: rest)[i])) := by
  obtain ⟨s, hs, ht⟩ := stack_slice_datedG cs scalar x0 rest hr hsorted i hi
  refine ⟨s, hs, ?_⟩
  rw [ht]
  have h0 := (hshared x0 (by simp)).1
  obtain ⟨hi1, hi2⟩ := hshared ((x0 :: rest)[i]) (List.getElem_mem hi)
  unfold datedG
  rw [h0, hi1, hi2]

/-- special case: every image carries only its date (reference = own date, time 0, what the constructor gives by default):
slice `i` has the date of image `i` and the time `date_i − date_0`. -/
theorem stack_slice_dates (cs : CS) (scalar : Bool) (x0 : Slab × Int) (rest : List (Slab × Int)) (hr : rest ≠ [])
    (hsorted : List.Pairwise (· < ·) ((x0 :: rest).map (·.2))) (i : Nat) (hi : i < (x0 :: rest).length) :
    ∃ s, stack ((x0 :: rest).map (dated cs scalar)) = .ok s ∧
      s.timeSlice (i : Int) = .ok ⟨cs, false, scalar, [((x0 :: rest)[i]).1],
        [some (secondsBetween ((x0 :: rest)[i]).2 x0.2)], [some ((x0 :: rest)[i]).2], some x0.2⟩ :=
  stack_slice_dates' cs scalar x0 rest hr hsorted i hi

def exCSa : CS := ⟨.d2, [1, 1], [1, 1], [0, 1]⟩

/-- append WITH an offset (0 included — `some 0` is an offset, not "no offset") keeps the stored
relative times of both images, those of the appended image shifted by the offset, whether or not the
images carry dates: the relative time of a slab is what was stored, not a function of its date. -/
theorem append_offset_keeps_times (im other s : Img) (off : Rat) (h : im.append other (some off) = .ok s)
    (ht : anyNone im.time = false) (ht' : anyNone other.time = false) :
    s.time = im.time ++ other.time.map (fun t => t.map (· + off)) ∧ s.date = im.date ++ other.date ∧
      s.slabs = im.slabs ++ other.slabs ∧ s.cs = im.cs ∧ s.scalar = im.scalar ∧ s.ref = im.ref ∧ s.series = true :=
  append_offset_fields im other s off h ht ht'

/-- `time_interval` hands the parent's STORED relative times and dates of the selected slabs to the
new image (no re-derivation from dates). -/
theorem time_interval_keeps_stored_times (im im' : Img) (sl : PySlice) (h : im.timeInterval sl = .ok im') :
    im'.time = Patch.sliceL im.time (sliceIdx im.slabs.length sl) ∧
    im'.date = Patch.sliceL im.date (sliceIdx im.slabs.length sl) ∧
    im'.slabs = Patch.sliceL im.slabs (sliceIdx im.slabs.length sl) ∧ im'.ref = im.ref ∧ im'.cs = im.cs :=
  timeInterval_fields im im' sl h

/-! ### the data claim on ARRAYS (`DarsiaModel.ImageArr`): pixel arrays are functions from the raw numpy
multi-index to a value tag; subregion / time_slice / time_interval / append / stack act on them by numpy's
index arithmetic (axis positions counted as the code counts them: leading axes for the ROI, from the END
for `[..., i]` / `[..., i, :]`, `axis = space_dim` for `np.stack`). -/

/-- DATA BLOCK THEOREM. For every freshly constructed image (scalar or vector payload, single image or
series) and EVERY program of extraction steps of any length that neither raises nor yields an empty image:
entry (t, v, c) of the resulting pixel array is the root's entry (root time index of slab t, v + off, c),
where `off` is the composed spatial offset of the placement invariant and the composed time map is read
off the slabs — i.e. `(run program root).data idx = root.data (map idx)`. The tag on the right is
written out: it names root array, root time index, root voxel and component. -/
theorem extract_data_eq (rid : Nat) (cs : CS) (series scalar : Bool) (T : Nat) (C : List Nat) (time : Option (List (Option Rat)))
    (date : List (Option Int)) (root : ImgA) (h : mkRootA rid cs series scalar T C time date = .ok root)
    (hcs : cs.ok) (hT : root.md.time.length = T) (hD : date.length = T)
    (hc : ∀ k : Nat, root.md.time[k]? = some none → date[k]? = some none)
    (steps : List Step) (im : ImgA) (hr : root.runOk steps = some im) :
    ∃ off, Placed root.md im.md off ∧ root.md.runOk steps = some im.md ∧
      ∀ (t : Nat) (sl : Slab), im.md.slabs[t]? = some sl → ∀ v : List Nat, v.length = cs.dim.toNat → ∀ c : List Nat,
        im.data t v c = root.data sl.t (List.zipWith (· + ·) v off) c ∧
        im.data t v c = ⟨rid, if series then sl.t else 0, List.zipWith (· + ·) v off, c⟩ := by
  obtain ⟨hm, _⟩ := mkRootA_md rid cs series scalar T C time date root h
  have hP0 := placed_root rid cs series scalar T time date root.md hm hcs hT hD hc
  have hcsEq : root.md.cs = cs := by rw [mkRoot_fields rid cs series scalar T time date root.md hm]
  have hD0 : DataInv root root (List.replicate cs.dim.toNat 0) :=
    dataInv_root root _ (by rw [hcsEq]) (fun t sl hsl => (mkRoot_slab_t rid cs series scalar T time date root.md hm t sl hsl).1)
  obtain ⟨off, hP, hDI, hmd⟩ := data_run root steps root im _ hP0 hD0 hr
  refine ⟨off, hP, hmd, ?_⟩
  intro t sl hsl v hv c
  have e := hDI t sl hsl v (by rw [hcsEq]; exact hv) c
  refine ⟨e, ?_⟩
  rw [e]
  exact root_data_tag rid cs series scalar T C time date root h sl.t _ c (by
    rw [List.length_zipWith, hv, hP.offLen, hcsEq]; simp)

/-- the same for any image that already satisfies the invariants (extraction from an extraction …). -/
theorem extract_data_inv (root im im' : ImgA) (off : List Nat) (hP : Placed root.md im.md off)
    (hD : DataInv root im off) (steps : List Step) (hr : im.runOk steps = some im') :
    ∃ off', Placed root.md im'.md off' ∧ DataInv root im' off' :=
  let ⟨o, a, b, _⟩ := data_run root steps im im' off hP hD hr
  ⟨o, a, b⟩

/-- `append` on arrays (`np.stack` of the time slabs of both images at `axis = space_dim`): slab `t` of the
result is slab `t` of the receiver, or slab `t − T_a` of the appended image — entry by entry, for scalar and
vector payloads, single images and series on either side. -/
theorem append_data_eq (a b s : ImgA) (off : Option Rat) (h : a.append b off = .ok s) (t : Nat) (v : List Nat) (c : List Nat)
    (hv : v.length = a.md.cs.dim.toNat) (ht : t < a.slices.length + b.slices.length) :
    s.data t v c = if t < a.slices.length then a.data t v c else b.data (t - a.slices.length) v c :=
  append_data a b s off h t v c hv ht

/-- `stack` of any number of single-time images then `time_slice(i)`: the pixel array of the result is the
pixel array of image `i`, entry by entry. -/
theorem stack_slice_data (imgs : List ImgA) (s s' : ImgA) (h : stackA imgs = .ok s) (d : Nat)
    (hs : ∀ o ∈ imgs, o.md.series = false ∧ o.md.slabs.length = 1 ∧ o.md.cs.dim.toNat = d)
    (i : Nat) (o : ImgA) (ho : imgs[i]? = some o) (h' : s.step (.tslice (i : Int)) = .ok s')
    (t : Nat) (v : List Nat) (hv : v.length = d) (c : List Nat) : s'.data t v c = o.data 0 v c := by
  obtain ⟨j, hj, hd⟩ := tslice_data s s' (i : Int) h'
  have := pyIndex_natCast _ _ _ hj
  subst this
  have hdim : v.length = s.md.cs.dim.toNat := by
    cases imgs with
    | nil => simp at ho
    | cons a0 rest => rw [stackA_cs a0 rest s h, (hs a0 (by simp)).2.2]; exact hv
  rw [hd t v c hdim]
  exact stackA_data imgs s h d hs v hv c j o ho

/-! non-vacuity: dated images appended with offset 0 keep their stored times [0, 0] (the date
differences would be [0, 60]); with no offset the times are derived from the dates. -/
example : ((dated exCSa true (⟨0, 0, []⟩, 100000000)).append (dated exCSa true (⟨1, 0, []⟩, 160000000)) (some 0)).toOption.map (·.time) =
    some [some 0, some 0] := by decide +kernel
example : ((dated exCSa true (⟨0, 0, []⟩, 100000000)).append (dated exCSa true (⟨1, 0, []⟩, 160000000)) none).toOption.map (·.time) =
    some [some 0, some 60] := by decide +kernel

/-! non-vacuity: a 2-D 4×6 series of three slabs with dates; a four-step program runs and is non-empty;
the hypotheses of `root_placed` hold for it. -/
def exCS : CS := ⟨.d2, [4, 6], [2, 3], [10, 12]⟩
def exRoot : Except Err Img := mkRoot 0 exCS true true 3 none [some 0, some 10000000, some 90025500000]
def exProg : List Step :=
  [.sub [(some 1, none), (none, some (-1))], .tinterval (some 1, none), .subVox [[0, 1], [5, 9]], .tslice (-1)]

example : exCS.ok := ⟨rfl, rfl, rfl, by decide, by decide +kernel⟩
example : ((exRoot.toOption.bind fun r => r.runOk exProg).map fun im => im.cs.shape) = some [3, 4] := by decide +kernel
example : ((exRoot.toOption.bind fun r => r.runOk exProg).map fun im => im.cs.origin) = some [21 / 2, 23 / 2] := by
  decide +kernel
example : ((exRoot.toOption.bind fun r => r.runOk exProg).map fun im => (im.time, im.date)) =
    some ([some (180051 / 2)], [some 90025500000]) := by decide +kernel
example : ((exRoot.toOption.bind fun r => r.runOk exProg).map fun im => im.slabs.map (·.idx)) =
    some [[[1, 2, 3], [1, 2, 3, 4]]] := by decide +kernel
example : exRoot.toOption.map (fun r => (r.time, r.date.length)) = some ([some 0, some 10, some (180051 / 2)], 3) := by
  decide +kernel

/-! non-vacuity: a vector-valued 2-D series; program sub → tinterval → tslice; entry (·, (1,2), 1) of the
result is root entry (time 2, voxel (2,2), component 1). -/
def exRootA : Except Err ImgA := mkRootA 7 exCS true false 3 [2, 2] none [some 0, some 10000000, some 90025500000]
example : ((exRootA.toOption.bind fun r => r.runOk [.sub [(some 1, none), (none, some (-1))], .tinterval (some 1, none), .tslice (-1)]).map
    fun im => im.data 0 [1, 2] [1, 0]) = some ⟨7, 2, [2, 2], [1, 0]⟩ := by decide +kernel

example : ((exRoot.toOption.bind fun r => r.runOff [0, 0] exProg).map fun x => x.2) = some [1, 1] := by decide +kernel

end Darsia.C02
