/-
C02 — extracted sub-images keep their data and their physical placement.

Model: `DarsiaModel.ImageMeta` (images = geometry + list of time slabs, each slab naming the root
array / root time index and the root indices it holds per axis; numpy slicing = drop/take; dates in
seconds, relative times rational). The invariant `Placed root im off` (DarsiaProofs.ImageMeta) says:
`im` holds exactly the root block starting at voxel `off`; every (fractional) voxel position `v` of
`im` has the coordinate of root position `v + off`; the voxel size is the root's; every time slab
carries the relative time and date of the root slab it was taken from; scalar/vector layout and
reference date are the root's.
-/
import DarsiaProofs.ImageMeta
namespace Darsia.C02
open Darsia Darsia.Im

/-- ONE spatial extraction by ANY tuple of Python slices (open-ended, negative, beyond the image —
all normalised like `slice.indices`) with a non-empty result: shape, data block, placement, voxel
size and all time / payload metadata of the sub-image. -/
theorem sub_placed (im sub : Img) (hcs : im.cs.ok) (sls : List PySlice)
    (h : im.subSlices sls = .ok sub) (hne : sub.nonempty = true) :
    let ns := List.zipWith sliceIdx im.cs.shape sls
    ∃ am, axisMap im.cs.dim = .ok am ∧
      sub.cs.shape = ns.map (fun s => s.2 - s.1) ∧
      sub.slabs = im.slabs.map (fun sl => { sl with idx := List.zipWith Patch.sliceL sl.idx ns }) ∧
      (∀ v : List Rat, v.length = im.cs.dim.toNat →
        coordWith am sub.cs v = coordWith am im.cs (List.zipWith (· + ·) v (ns.map fun s => ((s.1 : Nat) : Rat)))) ∧
      (∀ p, p < im.cs.dim.toNat → sub.cs.h p = im.cs.h p) ∧
      sub.time = im.time ∧ sub.date = im.date ∧ sub.ref = im.ref ∧ sub.series = im.series ∧ sub.scalar = im.scalar := by
  intro ns
  obtain ⟨hl, hshape⟩ := subSlices_shape im sub sls h
  have hnsLen : ns.length = im.cs.dim.toNat := by
    show (List.zipWith sliceIdx im.cs.shape sls).length = _
    rw [List.length_zipWith, hcs.shapeLen, hl]; simp
  have hlt : ∀ s ∈ ns, s.1 < s.2 := by
    intro s hs
    unfold Img.nonempty at hne
    rw [hshape, List.all_eq_true] at hne
    have := hne (s.2 - s.1) (List.mem_map.mpr ⟨s, hs, rfl⟩)
    simp at this; omega
  obtain ⟨am, ham, hwf, hspec⟩ := subSlices_spec im hcs sls hl (fun s hs => le_of_lt (hlt s hs))
  rw [hspec] at h; injection h with h; subst h
  obtain ⟨_, hamB⟩ := wf_bound hwf
  refine ⟨am, ham, rfl, rfl, ?_, ?_, rfl, rfl, rfl, rfl, rfl⟩
  · intro v hv
    exact subSpec_coord im ns am v (fun pr hpr => by rw [hnsLen]; exact hamB pr hpr) (by rw [hv, hnsLen]) hlt
  · intro p hp
    have hp' : p < ns.length := by rw [hnsLen]; exact hp
    exact subSpec_h im ns am p hp' (by
      apply hlt; unfold listGetD; rw [List.getElem?_eq_getElem hp']; exact List.getElem_mem hp')

/-- slicing a block of root indices yields the block shifted by the (normalised) slice starts. -/
theorem sub_block (off shape : List Nat) (sls : List PySlice) :
    List.zipWith Patch.sliceL (List.zipWith (fun o N => List.range' o N) off shape) (List.zipWith sliceIdx shape sls) =
      List.zipWith (fun o N => List.range' o N)
        (List.zipWith (· + ·) off ((List.zipWith sliceIdx shape sls).map (·.1)))
        ((List.zipWith sliceIdx shape sls).map fun s => s.2 - s.1) := zipWith_slice_block off shape sls

/-- offsets compose additively: a subregion of an image placed at `off` is placed at `off + start`. -/
theorem nest_offsets_add (root im sub : Img) (off : List Nat) (hP : Placed root im off) (sls : List PySlice)
    (h : im.subSlices sls = .ok sub) (hne : sub.nonempty = true) :
    Placed root sub (List.zipWith (· + ·) off ((List.zipWith sliceIdx im.cs.shape sls).map (·.1))) :=
  placed_sub root im sub off hP sls h hne

/-- time slicing / time intervals keep the spatial placement and carry the stamps of the slabs. -/
theorem time_extraction_placed (root im im' : Img) (off : List Nat) (hP : Placed root im off) :
    (∀ k, im.timeSlice k = .ok im' → Placed root im' off ∧ im'.series = false ∧ im'.slabs.length = 1) ∧
    (∀ s, im.timeInterval s = .ok im' → Placed root im' off) :=
  ⟨fun k h => placed_timeSlice root im im' off hP k h, fun s h => placed_timeInterval root im im' off hP s h⟩

/-- NESTING: any program of extraction steps — subregion by slices, by voxel corner points, by
physical corner points (clipped), time_slice, time_interval — of ANY length, in any order, leaves
the image placed in the root (one extraction with composed offsets), as long as no step raises or
yields an empty image. Induction over the program. -/
theorem nest (root : Img) (off0 : List Nat) (hroot : Placed root root off0) (steps : List Step) (im : Img)
    (h : root.runOk steps = some im) : ∃ off, Placed root im off :=
  placed_run root steps root im off0 hroot h

/-- … and freshly constructed images satisfy the hypothesis of `nest` (offset zero). -/
theorem root_placed (rid : Nat) (cs : CS) (series scalar : Bool) (T : Nat) (time : Option (List (Option Rat)))
    (date : List (Option Int)) (root : Img) (h : mkRoot rid cs series scalar T time date = .ok root)
    (hcs : cs.ok) (hT : root.time.length = T) (hD : date.length = T)
    (hc : ∀ k : Nat, root.time[k]? = some none → date[k]? = some none) :
    Placed root root (List.replicate cs.dim.toNat 0) :=
  placed_root rid cs series scalar T time date root h hcs hT hD hc

/-- a physical box selects the same block as the voxel box obtained by converting its corner
points to voxel indices. -/
theorem physical_eq_voxel_box (im : Img) (pts : List (List Rat)) :
    im.subCoords pts = (im.cs.voxelB pts >>= fun vox => im.subVoxels vox) := by
  unfold Img.subCoords Img.subVoxels
  cases im.cs.voxelB pts <;> rfl

/-- stacking single-time images that carry relative times only and slicing again returns each
original: its data, its relative time, no date (this failed before the fix of `Image.append`). -/
theorem stack_slice_rel (cs : CS) (scalar : Bool) (xs : List (Slab × Rat)) (hn : 2 ≤ xs.length) (i : Nat)
    (hi : i < xs.length) :
    ∃ s, stack (xs.map (timed cs scalar)) = .ok s ∧ s.timeSlice (i : Int) = .ok (timed cs scalar xs[i]) :=
  stack_slice_rel' cs scalar xs hn i hi

/-- stacking single-time images with strictly increasing dates and slicing again returns each
original's data and date, with relative time `date_i − date_0`. -/
theorem stack_slice_dates (cs : CS) (scalar : Bool) (x0 : Slab × Int) (rest : List (Slab × Int)) (hr : rest ≠ [])
    (hsorted : List.Pairwise (· < ·) ((x0 :: rest).map (·.2))) (i : Nat) (hi : i < (x0 :: rest).length) :
    ∃ s, stack ((x0 :: rest).map (dated cs scalar)) = .ok s ∧
      s.timeSlice (i : Int) = .ok ⟨cs, false, scalar, [((x0 :: rest)[i]).1],
        [some ((((x0 :: rest)[i]).2 - x0.2 : Int) : Rat)], [some ((x0 :: rest)[i]).2], some x0.2⟩ :=
  stack_slice_dates' cs scalar x0 rest hr hsorted i hi

def exCSa : CS := ⟨.d2, [1, 1], [1, 1], [0, 1]⟩

/-- append WITH an offset (0 included — `some 0` is an offset, not "no offset") keeps the stored
relative times of both images, those of the appended image shifted by the offset, whether or not the
images carry dates: the relative time of a slab is what was stored, not a function of its date. -/
theorem append_offset_keeps_times (im other s : Img) (off : Rat) (h : im.append other (some off) = .ok s)
    (ht : anyNone im.time = false) (ht' : anyNone other.time = false) :
    s.time = im.time ++ other.time.map (fun t => t.map (· + off)) ∧ s.date = im.date ++ other.date ∧
      s.slabs = im.slabs ++ other.slabs ∧ s.cs = im.cs ∧ s.scalar = im.scalar ∧ s.ref = im.ref ∧ s.series = true :=
  append_offset_fields im other s off h ht ht'

/-- `time_interval` hands the parent's STORED relative times and dates of the selected slabs to the
new image (no re-derivation from dates). -/
theorem time_interval_keeps_stored_times (im im' : Img) (sl : PySlice) (h : im.timeInterval sl = .ok im') :
    im'.time = Patch.sliceL im.time (sliceIdx im.slabs.length sl) ∧
    im'.date = Patch.sliceL im.date (sliceIdx im.slabs.length sl) ∧
    im'.slabs = Patch.sliceL im.slabs (sliceIdx im.slabs.length sl) ∧ im'.ref = im.ref ∧ im'.cs = im.cs :=
  timeInterval_fields im im' sl h

/-! non-vacuity: dated images appended with offset 0 keep their stored times [0, 0] (the date
differences would be [0, 60]); with no offset the times are derived from the dates. -/
example : ((dated exCSa true (⟨0, 0, []⟩, 100)).append (dated exCSa true (⟨1, 0, []⟩, 160)) (some 0)).toOption.map (·.time) =
    some [some 0, some 0] := by decide +kernel
example : ((dated exCSa true (⟨0, 0, []⟩, 100)).append (dated exCSa true (⟨1, 0, []⟩, 160)) none).toOption.map (·.time) =
    some [some 0, some 60] := by decide +kernel

/-! non-vacuity: a 2-D 4×6 series of three slabs with dates; a four-step program runs and is non-empty;
the hypotheses of `root_placed` hold for it. -/
def exCS : CS := ⟨.d2, [4, 6], [2, 3], [10, 12]⟩
def exRoot : Except Err Img := mkRoot 0 exCS true true 3 none [some 0, some 10, some 25]
def exProg : List Step :=
  [.sub [(some 1, none), (none, some (-1))], .tinterval (some 1, none), .subVox [[0, 1], [5, 9]], .tslice (-1)]

example : exCS.ok := ⟨rfl, rfl, rfl, by decide, by decide +kernel⟩
example : ((exRoot.toOption.bind fun r => r.runOk exProg).map fun im => im.cs.shape) = some [3, 4] := by decide +kernel
example : ((exRoot.toOption.bind fun r => r.runOk exProg).map fun im => im.cs.origin) = some [21 / 2, 23 / 2] := by
  decide +kernel
example : ((exRoot.toOption.bind fun r => r.runOk exProg).map fun im => (im.time, im.date)) =
    some ([some 25], [some 25]) := by decide +kernel
example : ((exRoot.toOption.bind fun r => r.runOk exProg).map fun im => im.slabs.map (·.idx)) =
    some [[[1, 2, 3], [1, 2, 3, 4]]] := by decide +kernel
example : exRoot.toOption.map (fun r => (r.time, r.date.length)) = some ([some 0, some 10, some 25], 3) := by
  decide +kernel

end Darsia.C02
