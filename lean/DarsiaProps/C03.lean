/-
C03 — geometric integration is the weighted voxel sum at any resolution and history.

Model: `DarsiaModel.Integrate` (`Geo` state machine with the cached voxel volume; `integrate true` is
`Geometry.integrate` as it is after the `fix:` commits, `integrate false` the scalar branch before the
first of them).  `specAt g d c = Σ_idx effVol g d.shape idx · d.val idx c` is the statement's
"sum of data times effective voxel volume", per trailing index `c` (time step / component);
`effVol` is defined in any dimension as Σ native volume × fraction of the native voxel inside the data cell.
All theorems hold for every geometry/data satisfying the stated guards; no size bounds.
-/
import DarsiaModel.Integrate
import DarsiaProofs.Integrate
namespace Darsia.C03
open Darsia

/-- (For scalar volumes this is a definitional unfolding of the model; the content is the array-volume case and the cache
invariant behind it.)  Integrating on a fresh object returns the sum of data × effective voxel volume, separately for every
trailing index.  Guards (`Geo.wf`, `Data.okFor`): positive extents, matching number of axes, array volumes
of the native shape, array volumes at a foreign resolution only in 2-D (elsewhere the code raises). -/
theorem integrate_fresh_eq_spec (g : Geo) (d : Data) (hg : g.wf) (hf : g.fresh) (hd : d.okFor g) :
    (step true g d).2 = .ok (spec g d) := by
  rw [(step_canonical g g d hg (inv_fresh g hg hf)).1]
  obtain ⟨h1, _, h3⟩ := hd
  unfold canonical
  have hl : ¬ d.shape.length ≠ g.numVoxels.length := by rw [h1, hg.1]; simp
  rw [if_neg hl]
  have : ¬ (g.vol.isArray = true ∧ g.dim ≠ 2 ∧ d.shape ≠ g.numVoxels) := fun ⟨a, b, c⟩ => b (h3 a c)
  rw [if_neg this]

/-- ... and the model has exactly two other outcomes: the documented `ValueError` (array volume at a foreign resolution
outside 2-D), and `Err.other`, which marks data with another number of axes than the geometry as OUTSIDE THE MODELLED
DOMAIN: the code has no guard there (numpy broadcasts, e.g. `Geometry(2,(4,4),[4,4]).integrate(np.ones(4))` returns 4.0);
such inputs are outside the property's quantifier, are not modelled and are not sent by the check. -/
theorem integrate_fresh_total (g : Geo) (d : Data) (hg : g.wf) (hf : g.fresh) :
    (step true g d).2 = .ok (spec g d) ∨ (step true g d).2 = .error .value ∨ (step true g d).2 = .error .other := by
  rw [(step_canonical g g d hg (inv_fresh g hg hf)).1]
  unfold canonical
  split
  · exact Or.inr (Or.inr rfl)
  · split
    · exact Or.inr (Or.inl rfl)
    · exact Or.inl rfl

/-- The effective voxel volumes are a partition of the geometry's volume: at every data resolution
(any shape, any dimension, integer factor or not) they add up to the total volume. -/
theorem effVol_total (g : Geo) (shape : List Nat) (hg : g.wf)
    (hl : shape.length = g.numVoxels.length) (hp : allPos shape = true) :
    sumBox shape (fun idx => effVol g shape idx) = g.totalVolume := by
  cases hv : g.vol with
  | scalar v =>
    simp only [effVol, Geo.totalVolume, hv]
    rw [sumBox_const, ← prodL_ratioProd g.numVoxels shape hl.symm hp]; ring
  | array s f =>
    have hs := hg.2.2 s f hv
    simp only [effVol, Geo.totalVolume, hv]
    rw [sumBox_comm]
    apply sumBox_congr
    intro i hi
    rw [sumBox_mul_left, overlapW_sum_dst s shape i (by rw [hs]; exact hl.symm) hp hi]; ring

/-- The integral is linear in the data. -/
theorem spec_linear (g : Geo) (a b : Rat) (d1 d2 : Data) (h : d2.shape = d1.shape) (c : Nat) :
    specAt g (Data.lin a d1 b d2) c = a * specAt g d1 c + b * specAt g d2 c := by
  simp only [specAt, Data.lin, h]
  rw [← sumBox_mul_left, ← sumBox_mul_left, ← sumBox_add]
  apply sumBox_congr
  intro idx _
  ring

/-- Scalar voxel volume (plain geometry, float weights), any dimension: a piecewise-constant field gives
the same integral when supplied on a grid refined by arbitrary positive integer factors per axis.  The
data grid `d.shape` is arbitrary (not tied to the native one), so this covers coarser-than-native,
finer-than-native and mixed resolutions. -/
theorem spec_scalar_resolution (g : Geo) (v : Rat) (hv : g.vol = .scalar v) (d : Data) (ks : List Nat)
    (hl : g.numVoxels.length = d.shape.length) (hk : d.shape.length = ks.length)
    (hp : allPos d.shape = true) (hkp : allPos ks = true) (c : Nat) :
    specAt g (d.replicate ks) c = specAt g d c := by
  simp only [specAt, effVol, hv, Data.replicate]
  rw [sumBox_div d.shape ks hk hkp (fun J => v * ratioProd g.numVoxels (mulShape d.shape ks) * d.val J c)]
  rw [← sumBox_mul_left]
  apply sumBox_congr
  intro J _
  rw [← ratioProd_mulShape g.numVoxels d.shape ks hl hk hp hkp]; ring

/-- Array voxel volume (2-D, where the code supports foreign resolutions): a field that is piecewise
constant on a grid coarser than the native one by integer factors `k1, k2` gives the same integral
when supplied at the coarse resolution `[m1, m2]` as at the native resolution `[m1·k1, m2·k2]`. -/
theorem spec_array_coarsen (g : Geo) (m1 m2 k1 k2 : Nat) (vf : List Nat → Rat)
    (hv : g.vol = .array [m1 * k1, m2 * k2] vf) (hm1 : 0 < m1) (hm2 : 0 < m2) (hk1 : 0 < k1) (hk2 : 0 < k2)
    (d : Data) (hd : d.shape = [m1, m2]) (c : Nat) :
    specAt g d c = specAt g (d.replicate [k1, k2]) c := by
  have hN : specAt g (d.replicate [k1, k2]) c
      = sumRange (m1 * k1) (fun i1 => sumRange (m2 * k2) fun i2 => vf [i1, i2] * d.val [i1 / k1, i2 / k2] c) := by
    simp only [specAt, Data.replicate, hd, mulShape]
    rw [sumBox_congr (g := fun idx => vf idx * d.val (divIdx idx [k1, k2]) c)]
    · simp [sumBox, divIdx]
    · intro idx hidx
      simp only [effVol, hv]
      rw [overlap_id _ vf idx hidx]
  have hC : specAt g d c = sumRange m1 (fun J1 => sumRange m2 fun J2 =>
      sumRange (m1 * k1) fun i1 => sumRange (m2 * k2) fun i2 =>
        vf [i1, i2] * ((if i1 / k1 = J1 then (1 : Rat) else 0) * ((if i2 / k2 = J2 then (1 : Rat) else 0) * 1))
          * d.val [J1, J2] c) := by
    simp only [specAt, hd, effVol, hv, sumBox, overlapW, areaW_coarsen _ _ _ _ hm1 hk1,
      areaW_coarsen _ _ _ _ hm2 hk2]
    apply sumRange_congr; intro J1 _
    apply sumRange_congr; intro J2 _
    rw [← sumRange_mul_right]
    apply sumRange_congr; intro i1 _
    rw [← sumRange_mul_right]
  rw [hN, hC, sum4_swap m1 m2 (m1 * k1) (m2 * k2)]
  apply sumRange_congr; intro i1 h1
  apply sumRange_congr; intro i2 h2
  exact sum2_pick m1 m2 (i1 / k1) (i2 / k2) ((Nat.div_lt_iff_lt_mul hk1).mpr h1)
    ((Nat.div_lt_iff_lt_mul hk2).mpr h2) (vf [i1, i2]) (fun J1 J2 => d.val [J1, J2] c)

/-- Array voxel volume (2-D): a field given at the native resolution `[n1, n2]` gives the same integral
when supplied on a grid refined by integer factors `k1, k2`. -/
theorem spec_array_refine (g : Geo) (n1 n2 k1 k2 : Nat) (vf : List Nat → Rat)
    (hv : g.vol = .array [n1, n2] vf) (hn1 : 0 < n1) (hn2 : 0 < n2) (hk1 : 0 < k1) (hk2 : 0 < k2)
    (d : Data) (hd : d.shape = [n1, n2]) (c : Nat) :
    specAt g (d.replicate [k1, k2]) c = specAt g d c := by
  have hk1q : (k1 : Rat) ≠ 0 := by positivity
  have hk2q : (k2 : Rat) ≠ 0 := by positivity
  have hN : specAt g d c = sumRange n1 (fun i1 => sumRange n2 fun i2 => vf [i1, i2] * d.val [i1, i2] c) := by
    simp only [specAt, hd]
    rw [sumBox_congr (g := fun idx => vf idx * d.val idx c)]
    · simp [sumBox]
    · intro idx hidx
      simp only [effVol, hv]
      rw [overlap_id _ vf idx hidx]
  have hF : specAt g (d.replicate [k1, k2]) c
      = sumRange (n1 * k1) (fun j1 => sumRange (n2 * k2) fun j2 =>
          (1 / (k1 : Rat) * (1 / (k2 : Rat))) * vf [j1 / k1, j2 / k2] * d.val [j1 / k1, j2 / k2] c) := by
    simp only [specAt, Data.replicate, hd, mulShape, effVol, hv, sumBox, overlapW, divIdx,
      areaW_refine _ _ _ _ hn1 hk1, areaW_refine _ _ _ _ hn2 hk2]
    apply sumRange_congr; intro j1 h1
    apply sumRange_congr; intro j2 h2
    have := sum2_pick n1 n2 (j1 / k1) (j2 / k2) ((Nat.div_lt_iff_lt_mul hk1).mpr h1)
      ((Nat.div_lt_iff_lt_mul hk2).mpr h2) (1 / (k1 : Rat) * (1 / (k2 : Rat))) (fun i1 i2 => vf [i1, i2])
    rw [← this]
    congr 1
    apply sumRange_congr; intro i1 _
    apply sumRange_congr; intro i2 _
    split_ifs <;> ring
  rw [hN, hF]
  rw [sumRange_div n1 k1 hk1 (fun a => sumRange (n2 * k2) fun j2 =>
      (1 / (k1 : Rat) * (1 / (k2 : Rat))) * vf [a, j2 / k2] * d.val [a, j2 / k2] c)]
  rw [← sumRange_mul_left]
  apply sumRange_congr; intro i1 _
  rw [sumRange_div n2 k2 hk2 (fun b => (1 / (k1 : Rat) * (1 / (k2 : Rat))) * vf [i1, b] * d.val [i1, b] c)]
  rw [← sumRange_mul_left, ← sumRange_mul_left]
  apply sumRange_congr; intro i2 _
  field_simp

/-- Array voxel volume, ANY dimension (1-D … n-D): a field that is piecewise constant on a grid `ms` coarser than the native
grid `ms ⊙ ks` by integer factors gives the same integral at the coarse and at the native resolution
(the effective volume of a coarse cell is the sum of the native volumes inside it). -/
theorem spec_array_coarsen_nd (g : Geo) (ms ks : List Nat) (vf : List Nat → Rat)
    (hv : g.vol = .array (mulShape ms ks) vf) (hl : ms.length = ks.length) (hm : allPos ms = true) (hk : allPos ks = true)
    (d : Data) (hd : d.shape = ms) (c : Nat) :
    specAt g d c = specAt g (d.replicate ks) c := by
  have hN : specAt g (d.replicate ks) c = sumBox (mulShape ms ks) (fun i => vf i * d.val (divIdx i ks) c) := by
    simp only [specAt, Data.replicate, hd]
    apply sumBox_congr
    intro idx hidx
    simp only [effVol, hv]
    rw [overlap_id _ vf idx hidx]
  have hC : specAt g d c = sumBox (mulShape ms ks) (fun i => sumBox ms fun J => vf i * (if divIdx i ks = J then d.val J c else 0)) := by
    simp only [specAt, hd, effVol, hv]
    rw [sumBox_comm]
    have : ∀ J, sumBox (mulShape ms ks) (fun i => vf i * overlapW (mulShape ms ks) ms i J) * d.val J c
        = sumBox (mulShape ms ks) (fun i => vf i * overlapW (mulShape ms ks) ms i J * d.val J c) := by
      intro J
      have e : (fun i => vf i * overlapW (mulShape ms ks) ms i J * d.val J c)
          = fun i => d.val J c * (vf i * overlapW (mulShape ms ks) ms i J) := by funext i; ring
      rw [e, sumBox_mul_left]; ring
    simp only [this]
    apply sumBox_congr; intro J hJ
    apply sumBox_congr; intro i hi
    rw [overlapW_coarsen ms ks i J hl hm hk
      ((inBox_length _ i hi).trans (mulShape_length ms ks hl)) (inBox_length ms J hJ)]
    split <;> ring
  rw [hN, hC]
  apply sumBox_congr; intro i hi
  have hin := inBox_divIdx ms ks i hl hk hi
  have e : (fun J => vf i * (if divIdx i ks = J then d.val J c else 0))
      = fun J => if divIdx i ks = J then vf i * d.val J c else 0 := by
    funext J; split <;> ring
  rw [e, sumBox_delta ms (divIdx i ks) (fun J => vf i * d.val J c) hin]

/-- Array voxel volume, ANY dimension: a field given at the native resolution `ns` gives the same integral when supplied
on a grid refined by integer factors `ks` (each fine cell carries `1/Πk` of the volume of its parent). -/
theorem spec_array_refine_nd (g : Geo) (ns ks : List Nat) (vf : List Nat → Rat)
    (hv : g.vol = .array ns vf) (hl : ns.length = ks.length) (hn : allPos ns = true) (hk : allPos ks = true)
    (d : Data) (hd : d.shape = ns) (c : Nat) :
    specAt g (d.replicate ks) c = specAt g d c := by
  have hP : (prodL ks : Rat) ≠ 0 := by
    have : 0 < prodL ks := by
      clear hl
      induction ks with
      | nil => simp [prodL]
      | cons k ks ih => rw [allPos_cons] at hk; simp only [prodL]; exact Nat.mul_pos hk.1 (ih hk.2)
    positivity
  have hN : specAt g d c = sumBox ns (fun i => vf i * d.val i c) := by
    simp only [specAt, hd]
    apply sumBox_congr; intro idx hidx
    simp only [effVol, hv]
    rw [overlap_id _ vf idx hidx]
  have hF : specAt g (d.replicate ks) c
      = sumBox (mulShape ns ks) (fun j => (fun I => 1 / (prodL ks : Rat) * (vf I * d.val I c)) (divIdx j ks)) := by
    simp only [specAt, Data.replicate, hd, effVol, hv]
    apply sumBox_congr; intro j hj
    have hin := inBox_divIdx ns ks j hl hk hj
    have e : sumBox ns (fun i => vf i * overlapW ns (mulShape ns ks) i j)
        = sumBox ns (fun i => if divIdx j ks = i then vf i * (1 / (prodL ks : Rat)) else 0) := by
      apply sumBox_congr; intro i hi
      rw [overlapW_refine ns ks i j hl hn hk (inBox_length ns i hi) ((inBox_length _ j hj).trans (mulShape_length ns ks hl))]
      split <;> ring
    rw [e, sumBox_delta ns (divIdx j ks) (fun i => vf i * (1 / (prodL ks : Rat))) hin]; ring
  rw [hN, hF, sumBox_div ns ks hl hk (fun I => 1 / (prodL ks : Rat) * (vf I * d.val I c)), ← sumBox_mul_left]
  apply sumBox_congr; intro i _
  field_simp

/-- Array voxel volume, ANY dimension, MIXED resolutions: every axis is either coarsened or refined by an integer factor
(`pureAxes kn kd`: per axis one of the two factors is 1).  A field that is piecewise constant on the common base grid `B`
gives the same integral when supplied at the data resolution `B ⊙ kd` as at the native resolution `B ⊙ kn`.
This contains `spec_array_coarsen_nd` (`kd = 1…`) and `spec_array_refine_nd` (`kn = 1…`) and the case repaired by the
shrink-then-enlarge `fix:` (one axis coarsened, the other refined). -/
theorem spec_array_mixed_nd (g : Geo) (B kn kd : List Nat) (vf : List Nat → Rat)
    (hv : g.vol = .array (mulShape B kn) vf) (h1 : B.length = kn.length) (h2 : B.length = kd.length)
    (hB : allPos B = true) (hn : allPos kn = true) (hk : allPos kd = true) (hp : pureAxes kn kd = true)
    (d : Data) (hd : d.shape = B) (c : Nat) :
    specAt g (d.replicate kd) c = specAt g (d.replicate kn) c := by
  have hP : (prodL kd : Rat) ≠ 0 := by
    have : 0 < prodL kd := by
      clear h2 hp
      induction kd with
      | nil => simp [prodL]
      | cons k ks ih => rw [allPos_cons] at hk; simp only [prodL]; exact Nat.mul_pos hk.1 (ih hk.2)
    positivity
  have hN : specAt g (d.replicate kn) c = sumBox (mulShape B kn) (fun i => vf i * d.val (divIdx i kn) c) := by
    simp only [specAt, Data.replicate, hd]
    apply sumBox_congr; intro idx hidx
    simp only [effVol, hv]
    rw [overlap_id _ vf idx hidx]
  have hD : specAt g (d.replicate kd) c = sumBox (mulShape B kn) (fun i => sumBox (mulShape B kd) fun j =>
      (fun b => if divIdx i kn = b then vf i * (1 / (prodL kd : Rat)) * d.val b c else 0) (divIdx j kd)) := by
    simp only [specAt, Data.replicate, hd, effVol, hv]
    rw [sumBox_comm]
    apply sumBox_congr; intro j hj
    have e : ∀ (S : Rat) (f : List Nat → Rat), sumBox (mulShape B kn) f * S = sumBox (mulShape B kn) (fun i => S * f i) := by
      intro S f; rw [sumBox_mul_left]; ring
    rw [e]
    apply sumBox_congr; intro i hi
    rw [overlapW_mixed B kn kd i j h1 h2 hB hn hk hp
      ((inBox_length _ i hi).trans (mulShape_length B kn h1)) ((inBox_length _ j hj).trans (mulShape_length B kd h2))]
    split <;> ring
  rw [hN, hD]
  apply sumBox_congr; intro i hi
  have hin := inBox_divIdx B kn i h1 hn hi
  rw [sumBox_div B kd h2 hk (fun b => if divIdx i kn = b then vf i * (1 / (prodL kd : Rat)) * d.val b c else 0),
    sumBox_delta B (divIdx i kn) (fun b => vf i * (1 / (prodL kd : Rat)) * d.val b c) hin]
  field_simp

/-- `darsia.weight(img, ratio)` with one factor per trailing index (the ndarray branch, used by `normalize` for vector /
series images; the float branch is the case of one trailing index): the integral scales by that factor -/
theorem weight_ratio_integral (g : Geo) (d : Data) (r : Nat → Rat) (c : Nat) :
    specAt g { d with val := fun idx k => d.val idx k * r k } c = r c * specAt g d c := by
  simp only [specAt]
  rw [← sumBox_mul_left]
  apply sumBox_congr; intro idx _; ring

/-- History independence, for ALL histories: whatever sequence of `integrate` calls (any shapes, any
data, raising calls included) was made on an object before, the next call returns exactly what the same
call returns on a fresh object. -/
theorem integrate_history_indep (g0 : Geo) (hwf : g0.wf) (hf : g0.fresh) (ops : List Data) (d : Data) :
    (step true (after true g0 ops) d).2 = (step true g0 d).2 := by
  have hi := inv_fresh g0 hwf hf
  rw [(step_canonical g0 _ d hwf (inv_after g0 hwf g0 hi ops)).1, (step_canonical g0 g0 d hwf hi).1]

/-- the same statement on the list of return values of a history: `out (run (ops ++ [d])) = out (run [d])` -/
theorem integrate_history_indep_outs (g0 : Geo) (hwf : g0.wf) (hf : g0.fresh) (ops : List Data) (d : Data) :
    (runOuts true g0 (ops ++ [d])).getLast? = (runOuts true g0 [d]).getLast? := by
  rw [runOuts_append, List.getLast?_append]
  simp [runOuts, integrate_history_indep g0 hwf hf ops d]

/-- every call of every history returns the specification -/
theorem integrate_reachable_eq_spec (g0 : Geo) (hwf : g0.wf) (hf : g0.fresh) (ops : List Data) (d : Data)
    (hd : d.okFor g0) : (step true (after true g0 ops) d).2 = .ok (spec g0 d) := by
  rw [integrate_history_indep g0 hwf hf ops d]
  exact integrate_fresh_eq_spec g0 d hwf hf hd

/-- composition with the model of the code: what `integrate` RETURNS is resolution independent wherever the code does not
raise — for every reachable state, data `d` on a grid and the same field replicated by integer factors `ks`, provided both
satisfy the guard `okFor` (array volumes: 2-D only — in 1-D / 3-D the code raises, a known finding) and the specification
values agree (`spec_scalar_resolution`, `spec_array_*_nd`) -/
theorem integrate_resolution_indep (g0 : Geo) (hwf : g0.wf) (hf : g0.fresh) (ops ops' : List Data) (d : Data) (ks : List Nat)
    (h1 : d.okFor g0) (h2 : (d.replicate ks).okFor g0) (hspec : ∀ c, specAt g0 (d.replicate ks) c = specAt g0 d c) :
    (step true (after true g0 ops) (d.replicate ks)).2 = (step true (after true g0 ops') d).2 := by
  rw [integrate_reachable_eq_spec g0 hwf hf ops _ h2, integrate_reachable_eq_spec g0 hwf hf ops' _ h1]
  congr 1
  simp only [spec, Data.replicate]
  apply List.map_congr_left
  intro c _
  exact hspec c

def ones (shape : List Nat) : Data := { shape := shape, ncomp := 1, val := fun _ _ => 1 }

/-- HISTORICAL (code before the first `fix:` commit; `refresh = false` is not tied to the current tree).
The scalar branch as it was before the fix (cache assigned only when the fetched shape differs from
the native one) is NOT history independent: on `Geometry(2, (4,4), [1,1])` the history
[native, coarse, native] of all-ones data returns 4 for the last call, a fresh object returns 1. -/
theorem stale_cache_history_dependent :
    ∃ (g0 : Geo) (ops : List Data) (d : Data), g0.wf ∧ g0.fresh ∧
      (step false (after false g0 ops) d).2 = .ok [4] ∧ (step false g0 d).2 = .ok [1] := by
  refine ⟨Geo.plain 2 [4, 4] [1, 1], [ones [4, 4], ones [2, 2]], ones [4, 4], ?_, ?_, ?_, ?_⟩
  · exact ⟨rfl, rfl, fun s f h => by simp [Geo.plain] at h⟩
  · simp [Geo.fresh, Geo.plain]
  · decide +kernel
  · decide +kernel

/-- `normalize(img, ref)` on any reachable state: the integral of the returned image equals the integral
of the reference, for every trailing index whose integral of `img` is non-zero (the code divides by it). -/
theorem normalize_equal_integrals (g0 : Geo) (hwf : g0.wf) (hf : g0.fresh) (ops : List Data)
    (img ref : Data) (himg : img.okFor g0) (hs : ref.shape = img.shape) (hn : ref.ncomp = img.ncomp)
    (g2 : Geo) (out : Data) (h : normalize true (after true g0 ops) img ref = .ok (g2, out)) :
    (step true g2 out).2 = .ok (spec g0 out) ∧ (step true g2 ref).2 = .ok (spec g0 ref) ∧
      ∀ c, c < img.ncomp → specAt g0 img c ≠ 0 → specAt g0 out c = specAt g0 ref c := by
  have href : ref.okFor g0 := by unfold Data.okFor at himg ⊢; rw [hs]; exact himg
  have hinv := inv_after g0 hwf g0 (inv_fresh g0 hwf hf) ops
  -- first call: the reference
  have s1 := step_canonical g0 _ ref hwf hinv
  have c1 : canonical g0 ref = .ok (spec g0 ref) := by
    rw [← (step_canonical g0 g0 ref hwf (inv_fresh g0 hwf hf)).1]; exact integrate_fresh_eq_spec g0 ref hwf hf href
  unfold normalize at h
  cases e1 : integrate true (after true g0 ops) ref with
  | error e => simp only [e1] at h; cases h
  | ok p1 =>
    obtain ⟨g1, iref⟩ := p1
    simp only [e1] at h
    simp only [step, e1] at s1
    rw [c1] at s1
    have hiref : iref = spec g0 ref := by injection s1.1
    -- second call: the image
    have s2 := step_canonical g0 g1 img hwf s1.2
    have c2 : canonical g0 img = .ok (spec g0 img) := by
      rw [← (step_canonical g0 g0 img hwf (inv_fresh g0 hwf hf)).1]; exact integrate_fresh_eq_spec g0 img hwf hf himg
    cases e2 : integrate true g1 img with
    | error e => simp only [e2] at h; cases h
    | ok p2 =>
      obtain ⟨g2', iimg⟩ := p2
      simp only [e2] at h
      simp only [step, e2] at s2
      rw [c2] at s2
      have hiimg : iimg = spec g0 img := by injection s2.1
      simp only [Except.ok.injEq, Prod.mk.injEq] at h
      obtain ⟨hg2, hout⟩ := h
      subst hg2
      have hout_shape : out.shape = img.shape := by rw [← hout]
      have hokout : out.okFor g0 := by unfold Data.okFor at himg ⊢; rw [hout_shape]; exact himg
      have cO : canonical g0 out = .ok (spec g0 out) := by
        rw [← (step_canonical g0 g0 out hwf (inv_fresh g0 hwf hf)).1]; exact integrate_fresh_eq_spec g0 out hwf hf hokout
      refine ⟨?_, ?_, ?_⟩
      · rw [(step_canonical g0 _ out hwf s2.2).1, cO]
      · rw [(step_canonical g0 _ ref hwf s2.2).1, c1]
      · intro c hc hne
        have h1 : listGetD iref c 0 = specAt g0 ref c := by
          rw [hiref]; exact listGetD_map_range ref.ncomp c _ (by rw [hn]; exact hc)
        have h2 : listGetD iimg c 0 = specAt g0 img c := by
          rw [hiimg]; exact listGetD_map_range img.ncomp c _ hc
        rw [← hout]
        show sumBox img.shape (fun idx => effVol g0 img.shape idx *
            (img.val idx c * (listGetD iref c 0 / listGetD iimg c 0))) = specAt g0 ref c
        rw [h1, h2]
        generalize specAt g0 ref c = R
        have hI : sumBox img.shape (fun idx => effVol g0 img.shape idx * img.val idx c) = specAt g0 img c := rfl
        generalize specAt g0 img c = I at hne hI
        have : (fun idx => effVol g0 img.shape idx * (img.val idx c * (R / I)))
            = fun idx => (R / I) * (effVol g0 img.shape idx * img.val idx c) := by
          funext idx; ring
        rw [this, sumBox_mul_left, hI, div_mul_cancel₀ _ hne]

/-! ### the constructors produce geometries satisfying the guards -/

/-- `Geometry(space_dim, num_voxels, dimensions)` with positive voxel counts is well formed and fresh -/
theorem plain_wf_fresh (dim : Nat) (nv : List Nat) (dims : List Rat) (h : nv.length = dim) (hp : allPos nv = true) :
    (Geo.plain dim nv dims).wf ∧ (Geo.plain dim nv dims).fresh := by
  have ht : nv.take dim = nv := List.take_of_length_le (by omega)
  refine ⟨⟨?_, ?_, ?_⟩, ?_⟩
  · simp [Geo.plain, ht, h]
  · simp [Geo.plain, ht, hp]
  · intro s f hv; simp [Geo.plain] at hv
  · simp [Geo.fresh, Geo.plain]

/-- `WeightedGeometry` / `ExtrudedGeometry` / `PorousGeometry` / `ExtrudedPorousGeometry` with a float weight or
an array weight of the native shape: the constructor succeeds and the object is well formed and fresh -/
theorem weighted_wf_fresh (w : Weight) (dim : Nat) (nv : List Nat) (dims : List Rat) (h : nv.length = dim)
    (hp : allPos nv = true) (hw : ∀ s f, w = .array s f → s = nv) :
    ∃ g, Geo.weighted w dim nv dims = .ok g ∧ g.wf ∧ g.fresh := by
  have ht : nv.take dim = nv := List.take_of_length_le (by omega)
  cases w with
  | scalar x =>
    refine ⟨_, rfl, ⟨?_, ?_, ?_⟩, ?_⟩
    · simp [ht, h]
    · simp [ht, hp]
    · intro s f hv; simp at hv
    · simp [Geo.fresh]
  | array s f =>
    have hs : s = nv := hw s f rfl
    have hl : ¬ s.length ≠ dim := by rw [hs, h]; simp
    have e : Geo.weighted (.array s f) dim nv dims = .ok
        { dim := dim, numVoxels := nv.take dim,
          vol := .array s fun i => voxelVolume (nv.take dim) dims * f i,
          cached := .array s fun i => voxelVolume (nv.take dim) dims * f i } := by
      simp only [Geo.weighted, hl, if_false]
    refine ⟨_, e, ⟨?_, ?_, ?_⟩, ?_⟩
    · simp [ht, h]
    · simp [ht, hp]
    · intro s' f' hv; simp at hv; rw [ht, ← hs]; exact hv.1.symm
    · simp [Geo.fresh]

/-- every weighted kind (Weighted / Extruded / Porous): the effective voxel volume is voxel volume × weight -/
theorem weighted_volume (w : Weight) (dim : Nat) (nv : List Nat) (dims : List Rat) (g : Geo)
    (h : Geo.weighted w dim nv dims = .ok g) (idx : List Nat) :
    g.vol.at idx = voxelVolume (nv.take dim) dims * w.at idx ∧ Geo.extruded w dim nv dims = .ok g ∧ Geo.porous w dim nv dims = .ok g := by
  refine ⟨?_, h, h⟩
  cases w with
  | scalar x => simp only [Geo.weighted] at h; cases h; rfl
  | array s f =>
    simp only [Geo.weighted] at h
    split at h
    · cases h
    · cases h; rfl

/-- ExtrudedPorous: the weight is porosity × depth (floats, arrays or Images of one shape) -/
theorem weight_mul_at (p d w : Weight) (h : p.mul d = .ok w) (idx : List Nat) : w.at idx = p.at idx * d.at idx := by
  cases p <;> cases d <;> simp only [Weight.mul] at h
  · cases h; rfl
  · cases h; rfl
  · cases h; rfl
  · split at h
    · cases h; rfl
    · cases h

theorem extrudedPorous_volume (p d : Weight) (dim : Nat) (nv : List Nat) (dims : List Rat) (g : Geo)
    (h : Geo.extrudedPorous p d dim nv dims = .ok g) (idx : List Nat) :
    g.vol.at idx = voxelVolume (nv.take dim) dims * (p.at idx * d.at idx) := by
  simp only [Geo.extrudedPorous, bind, Except.bind] at h
  cases hw : p.mul d with
  | error e => rw [hw] at h; cases h
  | ok w =>
    rw [hw] at h
    rw [(weighted_volume w dim nv dims g h idx).1, weight_mul_at p d w hw idx]

theorem extrudedPorous_wf_fresh (p d w : Weight) (dim : Nat) (nv : List Nat) (dims : List Rat) (hw : p.mul d = .ok w)
    (h : nv.length = dim) (hp : allPos nv = true) (hs : ∀ s f, w = .array s f → s = nv) :
    ∃ g, Geo.extrudedPorous p d dim nv dims = .ok g ∧ g.wf ∧ g.fresh := by
  obtain ⟨g, hg, h1, h2⟩ := weighted_wf_fresh w dim nv dims h hp hs
  exact ⟨g, by simp only [Geo.extrudedPorous, bind, Except.bind, hw]; exact hg, h1, h2⟩

/-! ### non-vacuity -/

/-- a 2-D geometry with a non-constant array volume -/
def exGeo : Geo :=
  let f : List Nat → Rat := fun i => match i with | [a, b] => ((a + 2 * b + 1 : Nat) : Rat) / 4 | _ => 0
  { dim := 2, numVoxels := [2, 4], vol := .array [2, 4] f, cached := .array [2, 4] f }

def exData : Data := { shape := [1, 8], ncomp := 2, val := fun idx c => match idx with | [_, b] => ((b + c : Nat) : Rat) | _ => 0 }

/-- the guards are satisfiable by an array-volume geometry with data at a coarsened+refined resolution,
and the model then returns non-trivial, distinct, non-zero integrals for the two trailing indices -/
example : exGeo.wf ∧ exGeo.fresh ∧ exData.okFor exGeo ∧ exGeo.vol.isArray = true ∧
    (step true exGeo exData).2 = .ok [83 / 2, 101 / 2] := by
  refine ⟨⟨rfl, rfl, fun s f h => by cases h; rfl⟩, ⟨rfl, fun _ => rfl⟩, ⟨rfl, rfl, fun _ _ => rfl⟩, rfl, ?_⟩
  decide +kernel

/-- the refined model and the pre-fix model differ only on histories: on a fresh object they agree -/
example : (step false (Geo.plain 2 [4, 4] [1, 1]) (ones [2, 2])).2 = (step true (Geo.plain 2 [4, 4] [1, 1]) (ones [2, 2])).2 := by
  decide +kernel

end Darsia.C03
