/-
C08 — all linear-solve formulations and back-ends solve the same system.

Algebra: any field `K`, any finite index types of faces `F` and cells `C`, an abstract divergence
matrix `D`, an arbitrary pinned cell `k`, `W = diag w` with non-zero entries (positive in the code).
Dispatch: `DarsiaGen.Dispatch` is re-tabulated from the running code on every check (G1).
CSC surgery: theorems about the array-level model `DarsiaModel.Csc` of the hand-written removal of
the pinned row/column.
-/
import DarsiaProofs.Saddle
import Mathlib.Algebra.BigOperators.Fin
import Mathlib.Algebra.Field.Rat
import Mathlib.Tactic.FinCases
import Mathlib.Tactic.NormNum
import DarsiaProofs.Csc
import DarsiaProofs.CscGeneral
import DarsiaProofs.SaddleBridge
import DarsiaProofs.SolverCache
import DarsiaProofs.Options
import DarsiaGen.OptionsGen
import DarsiaProps.C06
import DarsiaProps.C07
import DarsiaProofs.FV
import DarsiaGen.Dispatch
namespace Darsia.C08
open Darsia Darsia.Saddle

variable {K : Type*} [Field K] {F C : Type*} [Fintype F] [Fintype C] [DecidableEq C]

/-- **Schur-complement equivalence** (`eliminate_flux`, `compute_flux_update`): `(u, p, lam)` solves the
full block system `[[W, −Dᵀ, 0],[D, 0, −cᵀ],[0, c, 0]] (u,p,lam) = (g,f,r)` iff `(p, lam)` solves the
flux-eliminated system `[[D W⁻¹ Dᵀ, −cᵀ],[c, 0]] (p,lam) = (f − D W⁻¹ g, r)` and `u = W⁻¹ (g + Dᵀ p)`. -/
theorem flux_reduced_equiv {w : F → K} (hw : ∀ e, w e ≠ 0) (D : C → F → K) (k : C)
    (g : F → K) (f : C → K) (r : K) (u : F → K) (p : C → K) (lam : K) :
    Full w D k g f r u p lam ↔ (Reduced w D k g f r p lam ∧ u = fluxUpdate w D g p) :=
  Saddle.flux_reduced_equiv hw D k g f r u p lam

/-- **pressure formulation** (`eliminate_lagrange_multiplier`): under `1ᵀD = 0`, a zero-mean mass source
and a zero last right-hand-side entry, the flux-eliminated system is equivalent to the pinned system
(row/column `k` and the multiplier row/column dropped) together with `p k = 0` and `lam = 0`. -/
theorem pressure_equiv {w : F → K} {D : C → F → K} (hD : ColSumZero D) (k : C) (g : F → K)
    {f : C → K} (hf : ∑ c, f c = 0) (p : C → K) (lam : K) :
    Reduced w D k g f 0 p lam ↔ (lam = 0 ∧ Pinned w D k g f p) :=
  Saddle.pressure_equiv hD k g hf p lam

/-- the three formulations have the same solutions: what `linear_solve` returns through the
"pressure" branch (`p` from the pinned system, `p k = 0`, `lam = 0`, `u = W⁻¹(g + Dᵀp)`) is exactly a
solution of the original full system, and conversely. -/
theorem full_iff_pinned {w : F → K} (hw : ∀ e, w e ≠ 0) {D : C → F → K} (hD : ColSumZero D) (k : C)
    (g : F → K) {f : C → K} (hf : ∑ c, f c = 0) (u : F → K) (p : C → K) (lam : K) :
    Full w D k g f 0 u p lam ↔ (lam = 0 ∧ Pinned w D k g f p ∧ u = fluxUpdate w D g p) :=
  Saddle.full_iff_pinned hw hD k g hf u p lam

/-- **uniqueness**: positive flux weights (ordered field) and a connected grid (`KerDTConst`: the kernel of `Dᵀ` are the
constant cell fields) ⇒ the full block system has at most one solution. Together with the equivalences above: all
formulations return THE same flux, pressure and multiplier, not merely members of the same solution set.
(`KerDTConst` is DERIVED for the finite-volume divergence of every tensor grid below: `fv_kerDT_const`,
`fv_full_system_unique`.) -/
theorem full_system_unique {K : Type*} [Field K] [LinearOrder K] [IsStrictOrderedRing K] {F C : Type*} [Fintype F]
    [Fintype C] [DecidableEq C] {w : F → K} (hw : ∀ e, 0 < w e) {D : C → F → K} (hker : KerDTConst D) {k : C}
    {g : F → K} {f : C → K} {r : K} {u u' : F → K} {p p' : C → K} {lam lam' : K}
    (h : Full w D k g f r u p lam) (h' : Full w D k g f r u' p' lam') : u = u' ∧ p = p' ∧ lam = lam' :=
  Saddle.full_unique hw hker h h'

/-- non-vacuity of `KerDTConst`: two cells joined by one face -/
example : KerDTConst (K := ℚ) (F := Fin 1) (C := Fin 2) (fun c _ => if c = 0 then 1 else -1) := by
  intro p hp c c'
  have h := hp 0
  simp [divT, Fin.sum_univ_two] at h
  have h01 : p 0 = p 1 := by linarith
  fin_cases c <;> fin_cases c' <;> simp [h01]

/-- linearity in the data: a solution for `(g, f, r)` scaled by `a` is a solution for the scaled right-hand side, for
every magnitude `a` (the oracle therefore solves the same systems at several magnitudes of the right-hand side) -/
theorem full_system_homogeneous {w : F → K} {D : C → F → K} {k : C} {g : F → K} {f : C → K} {r : K}
    {u : F → K} {p : C → K} {lam : K} (a : K) (h : Full w D k g f r u p lam) :
    Full w D k (fun e => a * g e) (fun c => a * f c) (a * r) (fun e => a * u e) (fun c => a * p c) (a * lam) :=
  Saddle.full_homogeneous a h

/-- the zero-mean hypothesis of `pressure_equiv` is necessary: in the flux-eliminated system the
multiplier equals minus the total source. -/
theorem reduced_lambda_eq_neg_total {w : F → K} {D : C → F → K} (hD : ColSumZero D) {k : C} {g : F → K}
    {f : C → K} {r : K} {p : C → K} {lam : K} (h : Reduced w D k g f r p lam) : lam = -∑ c, f c := by
  have hs : ∑ c, ((∑ c', schur w D c c' * p c') - ind k c lam) = ∑ c, redRhs w D g f c :=
    Finset.sum_congr rfl fun c _ => h.mass c
  rw [Finset.sum_sub_distrib, sum_schur_mul hD, sum_ind, sum_redRhs hD] at hs
  linear_combination -hs

/-- non-vacuity: two cells joined by one face of weight 2, source `(1, −1)`, cell 1 pinned:
`u = 1`, `p = (2, 0)`, `lam = 0` solves the full system, and the divergence has zero column sums -/
example : Full (K := ℚ) (F := Fin 1) (C := Fin 2) (fun _ => 2) (fun c _ => if c = 0 then 1 else -1) 1
    (fun _ => 0) (fun c => if c = 0 then 1 else -1) 0 (fun _ => 1) (fun c => if c = 0 then 2 else 0) 0 := by
  refine ⟨fun e => ?_, fun c => ?_, ?_⟩
  · simp [divT, Fin.sum_univ_two]
  · fin_cases c <;> simp [div, ind, Fin.sum_univ_one]
  · simp

example : ColSumZero (K := ℚ) (F := Fin 1) (C := Fin 2) (fun c _ => if c = 0 then 1 else -1) := by
  intro e; simp [Fin.sum_univ_two]

/-! ### bridge: the executable model (what the driver computes) IS the abstract system

`DarsiaModel.Saddle` builds every matrix by tabulating an entry formula over ℚ; the theorems below identify
its operators with the abstract ones for the index sets `Fin nf`, `Fin nc` (`wF`, `DF` = the model's weights and
divergence read as functions on `Fin`), so that `flux_reduced_equiv` / `pressure_equiv` apply to the driver's output. -/

open Darsia.SaddleBridge in
/-- `assembleFull` (the model of `sps.bmat([[W, −Dᵀ, 0],[D, 0, −cᵀ],[0, c, 0]])`): `A [u|p|lam] = [g|f|r]` in
the model ⇔ the abstract `Full` predicate -/
theorem model_full_is_abstract (w : Saddle.Vec) (D : Saddle.Mat) (k : Nat) (hk : k < D.size)
    (u p g f : Nat → ℚ) (lam r : ℚ) :
    Saddle.mulVec (Saddle.assembleFull w D k) (Saddle.tabV (w.size + D.size + 1) (cat3 w.size D.size u p lam))
        = Saddle.tabV (w.size + D.size + 1) (cat3 w.size D.size g f r)
      ↔ Saddle.Full (wF w) (DF w D) ⟨k, hk⟩ (fun e => g e.val) (fun c => f c.val) r
          (fun e => u e.val) (fun c => p c.val) lam :=
  full_iff w D k hk u p g f lam r

open Darsia.SaddleBridge in
/-- `eliminateFlux` (model of `eliminate_flux`): the reduced matrix / rhs it builds ARE the abstract Schur system -/
theorem model_reduced_is_abstract (w : Saddle.Vec) (D : Saddle.Mat) (k : Nat) (hk : k < D.size)
    (p g f : Nat → ℚ) (lam r : ℚ) :
    (let E := Saddle.eliminateFlux (Saddle.assembleFull w D k) (Saddle.assembleFull w D k)
        (Saddle.tabV (w.size + D.size + 1) (cat3 w.size D.size g f r)) w.size
     Saddle.mulVec E.1 (Saddle.tabV (D.size + 1) (cat2 D.size p lam)) = E.2.1)
      ↔ Saddle.Reduced (wF w) (DF w D) ⟨k, hk⟩ (fun e => g e.val) (fun c => f c.val) r (fun c => p c.val) lam :=
  reduced_iff w D k hk p g f lam r

open Darsia.SaddleBridge in
/-- `eliminateMultiplier` (model of `eliminate_lagrange_multiplier`, dense `dropRowCol`): its rows are the Schur
complement with row / column `k` skipped -/
theorem model_pinned_rows (w : Saddle.Vec) (D : Saddle.Mat) (k : Nat) (hk : k < D.size) (g f y : Nat → ℚ) (r : ℚ) :
    (let E := Saddle.eliminateFlux (Saddle.assembleFull w D k) (Saddle.assembleFull w D k)
        (Saddle.tabV (w.size + D.size + 1) (cat3 w.size D.size g f r)) w.size
     Saddle.mulVec (Saddle.dropRowCol E.1 k) (Saddle.tabV (D.size - 1) y) = Saddle.dropVec E.2.1 k)
      ↔ ∀ i, i < D.size - 1 →
          sumTo (D.size - 1) (fun j => schurN w D (Saddle.up k i) (Saddle.up k j) * y j)
            = redRhsN w D g f (Saddle.up k i) :=
  pinned_rows w D k hk g f y r

open Darsia.SaddleBridge in
/-- **what the driver computes solves the original full system**, for each of the three formulations. No assumption on
the inner solver: the model's Gauss–Jordan result is checked in exact arithmetic (`solveChecked`) before it is used, so a
returned `x` always rests on inner vectors that solve the systems the model built; the theorem then shows that those
systems are the right ones. Hypotheses: non-zero flux weights; for the pressure branch `1ᵀD = 0`, `Σ f = 0`, `r = 0`. -/
theorem model_linearSolve_sound (form : Saddle.Form) (w : Saddle.Vec) (D : Saddle.Mat)
    (k : Nat) (hw : ∀ e, e < w.size → w.getD e 0 ≠ 0) (hk : k < D.size)
    (hD : ∀ e, e < w.size → sumTo D.size (fun c => D.get c e) = 0)
    (rhs x : Saddle.Vec) (hr : rhs.size = w.size + D.size + 1)
    (hf : sumTo D.size (fun c => rhs.getD (w.size + c) 0) = 0) (hr0 : rhs.getD (w.size + D.size) 0 = 0)
    (h : Saddle.linearSolve form (Saddle.assembleFull w D k) (Saddle.assembleFull w D k) rhs w.size k none = .ok x) :
    Saddle.mulVec (Saddle.assembleFull w D k) x = rhs :=
  linearSolve_sound w D k form hw hk hD rhs x hr hf hr0 h

/-- non-vacuity of `model_linearSolve_sound`: on the two-cell grid (one face of weight 2, source `(1, −1)`, cell 1 pinned)
every formulation of the model returns `[u | p | lam] = [1 | 2 0 | 0]` -/
example : ∀ form ∈ [Saddle.Form.full, .fluxReduced, .pressure],
    Saddle.linearSolve form (Saddle.assembleFull #[2] #[#[1], #[-1]] 1) (Saddle.assembleFull #[2] #[#[1], #[-1]] 1)
      #[0, 1, -1, 0] 1 1 none = .ok #[1, 2, 0, 0] := by decide +kernel

open Darsia.SaddleBridge in
/-- `1ᵀD = 0` is not assumed for the finite-volume divergence of a tensor grid: it is C06's theorem
`div_column_sum_zero` (builder b), imported -/
theorem fv_divergence_colsum_zero (shape : List Nat) (h : List Rat) (e : Nat) (he : e < numFaces shape) :
    sumTo (fvDiv shape h).size (fun c => (fvDiv shape h).get c e) = 0 := by
  rw [fvDiv_size]
  rw [sumTo_congr (g := fun c => divEntry shape h c e) (fun c hc => fvDiv_get shape h c e hc he)]
  exact C06.div_column_sum_zero shape h e he

open Darsia.SaddleBridge in
/-- … hence on every tensor grid (any shape, any voxel sizes) and for all non-zero face weights the three
formulations of the model return solutions of the full system -/
theorem model_linearSolve_sound_fv (form : Saddle.Form) (shape : List Nat) (h : List Rat)
    (w : Saddle.Vec) (hwn : w.size = numFaces shape) (k : Nat) (hw : ∀ e, e < w.size → w.getD e 0 ≠ 0)
    (hk : k < numCells shape) (rhs x : Saddle.Vec) (hr : rhs.size = w.size + numCells shape + 1)
    (hf : sumTo (numCells shape) (fun c => rhs.getD (w.size + c) 0) = 0)
    (hr0 : rhs.getD (w.size + numCells shape) 0 = 0)
    (hs : Saddle.linearSolve form (Saddle.assembleFull w (fvDiv shape h) k) (Saddle.assembleFull w (fvDiv shape h) k) rhs w.size k none = .ok x) :
    Saddle.mulVec (Saddle.assembleFull w (fvDiv shape h) k) x = rhs := by
  have hsz := fvDiv_size shape h
  apply linearSolve_sound w (fvDiv shape h) k form hw (by rw [hsz]; exact hk) _ rhs x
    (by rw [hsz]; exact hr) (by rw [hsz]; exact hf) (by rw [hsz]; exact hr0) hs
  intro e he
  exact fv_divergence_colsum_zero shape h e (by omega)

open Darsia.SaddleBridge in
/-- non-vacuity of `model_linearSolve_sound_fv`: the 1-D grid with two cells of size 1 (builder b's `divEntry`), face weight 2,
source `(1, −1)`, cell 1 pinned: all three formulations of the model return `[1 | 2 0 | 0]` -/
example : ∀ form ∈ [Saddle.Form.full, .fluxReduced, .pressure],
    Saddle.linearSolve form (Saddle.assembleFull #[2] (fvDiv [2] [1]) 1) (Saddle.assembleFull #[2] (fvDiv [2] [1]) 1)
      #[0, 1, -1, 0] 1 1 none = .ok #[1, 2, 0, 0] := by decide +kernel

/-! ### uniqueness on finite-volume grids: `KerDTConst` derived, not assumed -/

/-- index bookkeeping: the all-zero multi-index is cell 0 -/
theorem encF_zero_of_all_zero : ∀ (shape idx : List Nat), (∀ a, idx.getD a 0 = 0) → encF shape idx = 0
  | [], _, _ => by simp [encF]
  | _ :: _, [], _ => by simp [encF]
  | n :: ns, i :: is, h => by
    have h0 : i = 0 := by simpa using h 0
    have ht : ∀ a, is.getD a 0 = 0 := fun a => by simpa using h (a + 1)
    simp [encF, h0, encF_zero_of_all_zero ns is ht]


/-- **the cell graph of a box is connected** (from C07 `rev_conn_inverse`, `conn_neighbors`: every cell other than cell 0 has a
lower neighbour with a smaller number): a cell field taking equal values on the two cells of every face is constant -/
theorem cell_graph_connected (shape : List Nat) (p : Nat → Rat)
    (hface : ∀ f, f < numFaces shape → p (conn shape f).1 = p (conn shape f).2) :
    ∀ c, c < numCells shape → p c = p 0 := by
  intro c
  induction c using Nat.strong_induction_on with
  | _ c ih =>
    intro hc
    by_cases h0 : c = 0
    · rw [h0]
    · have hex : ∃ a, a < shape.length ∧ 1 ≤ (decF shape c).getD a 0 := by
        by_contra hcon
        have hall : ∀ a, (decF shape c).getD a 0 = 0 := by
          intro a
          by_cases ha : a < shape.length
          · by_contra hne
            exact hcon ⟨a, ha, by omega⟩
          · have hl := inBox_length shape _ (decF_inBox shape c hc)
            rw [List.getD_eq_getElem?_getD, List.getElem?_eq_none (by omega)]; rfl
        have := encF_zero_of_all_zero shape _ hall
        rw [encF_decF shape c hc] at this
        exact h0 this
      obtain ⟨a, ha, hpos⟩ := hex
      have hrev : rev shape a c 0 = ((faceNum shape a (unbump (decF shape c) a) : Nat) : Int) := by
        simp only [rev, if_true, hpos]
      obtain ⟨hf, hax, hc2⟩ := ((C07.rev_conn_inverse shape a c _ ha hc).2).1 hrev
      obtain ⟨_, hl1, _, hstr, hlt, _⟩ := C07.conn_neighbors shape _ hf
      have heq := hface _ hf
      rw [hc2] at heq hlt
      rw [← heq]
      exact ih _ hlt hl1


open Darsia.SaddleBridge Darsia.Saddle in
/-- **`KerDTConst` for the finite-volume divergence of every tensor grid** with non-degenerate face areas: from C06
`div_column` (`(Dᵀp)_f = area·(p_lo − p_hi)`) and the connectedness of the cell graph (C07 `rev_conn_inverse`,
`conn_neighbors`: every cell other than cell 0 has a lower neighbour with a smaller number) -/
theorem fv_kerDT_const (shape : List Nat) (h : List Rat) (w : Vec) (hw : w.size = numFaces shape)
    (harea : ∀ f, f < numFaces shape → area h (faceAxis shape f) ≠ 0) :
    KerDTConst (DF w (fvDiv shape h)) := by
  intro p hz
  have hsz := fvDiv_size shape h
  -- extend `p` to all naturals
  let P : Nat → ℚ := fun c => if hc : c < (fvDiv shape h).size then p ⟨c, hc⟩ else 0
  have hP : ∀ c : Fin (fvDiv shape h).size, P c.val = p c := fun c => by simp [P, c.isLt]
  have hface : ∀ f, f < numFaces shape → P (conn shape f).1 = P (conn shape f).2 := by
    intro f hf
    have hzf := hz ⟨f, by omega⟩
    unfold Saddle.divT at hzf
    have e1 : (∑ c : Fin (fvDiv shape h).size, DF w (fvDiv shape h) c ⟨f, by omega⟩ * p c)
        = sumTo (numCells shape) (fun c => P c * divEntry shape h c f) := by
      rw [← hsz, sumTo_eq_sum]
      apply Finset.sum_congr rfl
      intro c _
      simp only [DF]
      rw [fvDiv_get shape h c.val f (by have := c.isLt; omega) hf, hP c]
      ring
    rw [e1, div_column shape h P f hf] at hzf
    have := harea f hf
    have hsub : P (conn shape f).1 - P (conn shape f).2 = 0 := by
      rcases mul_eq_zero.1 hzf with h0 | h0
      · exact absurd h0 this
      · exact h0
    linarith
  have hconst := cell_graph_connected shape P hface
  intro c c'
  rw [← hP c, ← hP c', hconst c.val (by have := c.isLt; omega), hconst c'.val (by have := c'.isLt; omega)]

open Darsia.SaddleBridge in
/-- hence, on EVERY tensor grid with non-degenerate face areas and for positive face weights, the full block system built on
the finite-volume divergence has at most one solution: all formulations return THE same flux, pressure and multiplier -/
theorem fv_full_system_unique (shape : List Nat) (h : List Rat) (w : Saddle.Vec) (hw : w.size = numFaces shape)
    (harea : ∀ f, f < numFaces shape → area h (faceAxis shape f) ≠ 0) (hpos : ∀ e : Fin w.size, 0 < wF w e)
    (k : Fin (fvDiv shape h).size) {g : Fin w.size → ℚ} {f : Fin (fvDiv shape h).size → ℚ} {r : ℚ}
    {u u' : Fin w.size → ℚ} {p p' : Fin (fvDiv shape h).size → ℚ} {lam lam' : ℚ}
    (h1 : Saddle.Full (wF w) (DF w (fvDiv shape h)) k g f r u p lam)
    (h2 : Saddle.Full (wF w) (DF w (fvDiv shape h)) k g f r u' p' lam') : u = u' ∧ p = p' ∧ lam = lam' :=
  Saddle.full_unique hpos (fv_kerDT_const shape h w hw harea) h1 h2

/-! ### dispatch (generated acceptance matrix; `decide` over a table re-tabulated from the running code = an exhaustive
observation of the dispatch on a 2×2 grid in Lean form, not a theorem about the source) -/

/-- every formulation named in the documentation constructs and completes a `linear_solve` with the
default (direct) back-end -/
theorem documented_formulations_usable :
    ∀ f ∈ Gen.documentedFormulations, Gen.accept f .direct = .ok () := by decide

/-- the default formulation works with every installed back-end -/
theorem pressure_all_backends :
    ∀ b ∈ [Gen.Backend.direct, .amg, .cg], Gen.accept .pressure b = .ok () := by decide

/-- the flux-eliminated formulation constructs and runs with every installed back-end under both accepted
spellings (that AMG / CG do not *solve* the indefinite reduced system on larger grids is the recorded
finding `C08:linear_solve:formulation=flux_reduced:linear_solver=amg|cg:residual-vs-full-system`, a
numerical matter outside this table) -/
theorem flux_reduced_all_backends_run :
    ∀ f ∈ [Gen.Formulation.flux_reduced, .flux_dash_reduced], ∀ b ∈ [Gen.Backend.direct, .amg, .cg],
      Gen.accept f b = .ok () := by decide

/-- no spelling accepted by the constructor falls through the branches of `linear_solve`: what is
accepted either completes, or is refused by an explicit assert (full formulation with an iterative
back-end), or needs the PETSc back-end that is not installed here. -/
theorem accepted_spellings_handled :
    ∀ f ∈ Gen.Formulation.all, ∀ b ∈ Gen.Backend.all, Gen.construct f b = .ok () →
      Gen.accept f b = .ok () ∨ Gen.accept f b = .error .assertion ∨ b = .ksp := by decide

/-- bookkeeping of the generated vocabulary (definitional: both lists are emitted from the same extraction): every back-end
name the constructor's assert accepts is one of the documented ones -/
theorem documented_backends_complete :
    ∀ b ∈ Gen.Backend.all, b ∈ Gen.documentedBackends := by decide

/-! ### the cached solver (`linear_solve(matrix, rhs, reuse_solver)`, `setup_*_solver`)

`DarsiaModel.SolverCache`: the cached `self.linear_solver` per formulation × back-end (LU / AMG hierarchy = snapshot of the
matrix at set-up; `CG(M)` = reference to `M`, which for "pressure" is the in-place updated `fully_reduced_jacobian`), a
refinement of builder e's `Stateful.WObj` (C16). A solve reports the matrix whose operator the INNER solve of the formulation
uses (`used`: full matrix / Schur system / pinned Schur system; the right-hand side, the reduced right-hand side and the flux
recovery always belong to the current call, so a stale `used` yields a hybrid that solves neither system). -/

open Darsia.SolverCache in
/-- **reuse_sound**: after a call that set the solver up on matrix `m` (no reuse requested, or first use), a call with
`reuse_solver = True` on the SAME matrix returns the solution of the current system, without a new set-up -/
theorem reuse_sound {f : SolverCache.Formulation} {b : SolverCache.Backend} (h : ¬(f = .full ∧ b ≠ .direct))
    (st : SolverCache.State) (m : MatId) (r0 : Bool) (hs : (!r0 || st.solver.isNone) = true) :
    ∀ st1 o1, SolverCache.linearSolve f b st m r0 = .ok (st1, o1) →
      ∀ st2 o2, SolverCache.linearSolve f b st1 m true = .ok (st2, o2) → o2.used = m ∧ o2.setup = false ∧ st2 = st1 :=
  SolverCache.reuse_sound h st m r0 hs

open Darsia.SolverCache in
/-- **which stale combinations are possible, exactly**: the returned vector solves the system handed in unless reuse is
requested, a solver exists, and it holds a snapshot of a different matrix -/
theorem stale_iff {f : SolverCache.Formulation} {b : SolverCache.Backend} (h : ¬(f = .full ∧ b ≠ .direct))
    (st : SolverCache.State) (m : MatId) (reuse : Bool) :
    ∀ st' o, SolverCache.linearSolve f b st m reuse = .ok (st', o) →
      (o.used = m ↔ ¬(reuse = true ∧ ∃ s m', st.solver = some s ∧ s.solves = some m' ∧ m' ≠ m)) :=
  SolverCache.used_current_iff h st m reuse

/-- negative witnesses: reuse after a matrix change returns the solution of the OLD system with the direct, the AMG and
the flux-reduced CG solver (snapshots) … -/
theorem reuse_after_matrix_change_is_stale :
    ∀ p ∈ [(SolverCache.Formulation.full, SolverCache.Backend.direct), (.pressure, .direct), (.pressure, .amg),
           (.fluxReduced, .direct), (.fluxReduced, .amg), (.fluxReduced, .cg)],
      (SolverCache.run p.1 p.2 SolverCache.fresh [((1, 0), false), ((2, 0), true)]).map (fun r => r.2.map (·.used))
        = .ok [(1, 0), (1, 0)] := by decide

/-- … while "pressure" × CG can never be stale: along any call sequence on one object every returned vector solves the
system handed in (only its preconditioner may belong to an older matrix) -/
theorem pressure_cg_never_stale (calls : List (SolverCache.MatId × Bool)) :
    ∀ st' os, SolverCache.run .pressure .cg SolverCache.fresh calls = .ok (st', os) →
      ∀ p ∈ calls.zip os, p.2.used = p.1.1 :=
  SolverCache.pressure_cg_never_stale calls SolverCache.fresh (by intro s hs; simp [SolverCache.fresh] at hs)

open Darsia.SolverCache in
/-- the snapshot solvers refine builder e's `WObj` (C16): same matrix, same set-up flag, related states -/
theorem cache_refines_WObj {f : SolverCache.Formulation} {b : SolverCache.Backend} (h : ¬(f = .full ∧ b ≠ .direct))
    (hlive : ¬(f = .pressure ∧ b = .cg)) (st : SolverCache.State) (w : Stateful.WObj) (hr : SolverCache.Rel st w)
    (m : MatId) (reuse : Bool) :
    ∃ st' o, SolverCache.linearSolve f b st m reuse = .ok (st', o) ∧
      (o.used.1, o.used.2, o.setup) = (w.linearSolve m reuse).2 ∧ SolverCache.Rel st' (w.linearSolve m reuse).1 :=
  SolverCache.refines_WObj h hlive st w hr m reuse

/-! ### option resolution: no state shared between solver objects

`DarsiaModel.Options`: resolved options = defaults ⊕ user (`dict.update`); `Gen.amgBinding` is extracted from the AST of
`setup_amg_options` on every check (dictionary literal / copy = `fresh`, module-level object bound by reference = `shared`). -/

/-- generated obligation: the AMG defaults are built afresh in every call -/
theorem amg_defaults_built_afresh : Gen.amgBinding = .fresh := by decide

/-- hence what a solver object resolves is a function of (defaults, its own user options) only: no object used earlier in
the process — whatever options it was given — changes it -/
theorem options_do_not_leak {κ ν : Type} [DecidableEq κ] (w : Options.World κ ν) (history : List (Options.Opts κ ν))
    (user : Options.Opts κ ν) :
    Options.resolveAfter Gen.amgBinding w history user = Options.update w.defaults user := by
  rw [amg_defaults_built_afresh]
  exact Options.fresh_no_leak w history user

/-- witness for the other shape: with a module-level default bound by reference, one object's user option (`max_coarse := 3`)
is what a later default object resolves -/
theorem shared_defaults_leak :
    Options.resolveAfter (κ := Nat) (ν := Nat) .shared ⟨[(0, 100)]⟩ [[(0, 3)]] [] = [(0, 3)] ∧
    Options.resolveAfter (κ := Nat) (ν := Nat) .fresh ⟨[(0, 100)]⟩ [[(0, 3)]] [] = [(0, 100)] := by decide

/-! ### CSC surgery (`setup_eliminate_lagrange_multiplier`, `eliminate_lagrange_multiplier`)

`DarsiaModel.Csc.surgery` follows the numpy operations one by one (`np.arange`, `np.where`, `np.unique`,
`np.delete`, index shift, the `indptr[row+1:] -= 1` loop, `np.unique(indptr)`, the length assert).
`patternOk` is the decidable well-formedness the code silently relies on (monotone `indptr` from 0 to nnz,
the multiplier column only couples to row `k`, no other column is emptied); the check evaluates it on the
pattern of every grid shape. -/

/-- **general theorem**: for EVERY well-formed pattern and arbitrary data (weights) the array surgery
succeeds, removes exactly two columns, and entry `(i, j)` of the result is entry `(up k i, up k j)` of the
input — rows and columns `k` and `last` are dropped (`up k` skips index `k`; `last` is never reached). -/
theorem csc_surgery_dense {α : Type} [Add α] [OfNat α 0] (m : Csc.CSC α) (k : Nat)
    (hp : Csc.patternOk m.indices m.indptr k = true) (hlen : m.data.length = m.indices.length) :
    ∃ r, Csc.surgery m k = .ok r ∧ r.ncols + 2 = m.ncols ∧
      ∀ i j, j < r.ncols → Csc.entry r i j = Csc.entry m (Csc.up k i) (Csc.up k j) :=
  Csc.surgery_dense m k hp hlen

/-- the same in matrix form: `toDense (surgery m k) = dropRowCol (toDense m) {k, last}` (dense matrices as
column-major lists; `dropRowCol` deletes list positions `k` and `last` in both directions) -/
theorem csc_surgery_toDense {α : Type} [Add α] [OfNat α 0] (m : Csc.CSC α) (k : Nat)
    (hp : Csc.patternOk m.indices m.indptr k = true) (hlen : m.data.length = m.indices.length) :
    ∃ r, Csc.surgery m k = .ok r ∧
      Csc.toDenseT r (m.ncols - 2) = Csc.dropRowCol 0 (Csc.toDenseT m m.ncols) k (m.ncols - 1) :=
  Csc.surgery_toDense m k hp hlen

/-- the structural part in closed form: `rm_indices`, the shifted row indices of the kept entries and the new
`indptr` = number of kept positions below each surviving column boundary -/
theorem csc_surgery_arrays (I P : List Nat) (k : Nat) (hp : Csc.patternOk I P k = true) :
    Csc.surgeryPattern I P k = .ok (Csc.rmIndices I P k, Csc.newIndices I P k, Csc.newIndptr I P k) :=
  (Csc.wf_of_patternOk hp).surgeryPattern_ok

/-- certificate route (kept from round 1; now a special case of `csc_surgery_dense`): if the sparsity pattern passes the
decidable per-pattern certificate, the arrays produced by the surgery represent the matrix with rows/columns `k`, `last` dropped. -/
theorem csc_surgery_dense_partial {α : Type} [Add α] [OfNat α 0] (m r : Csc.CSC α) (k : Nat)
    (hlen : m.data.length = m.indices.length)
    (hs : Csc.surgery m k = .ok r) (hc : Csc.surgeryCheck m.indices m.indptr k = true) :
    ∀ i j, i < r.ncols → j < r.ncols → Csc.entry r i j = Csc.entry m (Csc.up k i) (Csc.up k j) :=
  Csc.surgery_dense_of_check m r k hlen hs hc

/-- `cached_pattern_reuse`: refreshing only the data through the cached `rm_indices` (what every later
`eliminate_lagrange_multiplier` call does) is the surgery of the matrix with the new data. -/
theorem cached_pattern_reuse {α : Type} [OfNat α 0] (m r : Csc.CSC α) (k : Nat) (newData : List α)
    (hs : Csc.surgery m k = .ok r) :
    Csc.surgery ⟨newData, m.indices, m.indptr⟩ k
      = .ok (Csc.refresh r (Csc.rmIndices m.indices m.indptr k) newData) := by
  unfold Csc.surgery at hs ⊢
  cases hp : Csc.surgeryPattern m.indices m.indptr k with
  | error e => rw [hp] at hs; cases hs
  | ok t =>
    obtain ⟨rm, indices', indptr'⟩ := t
    rw [hp] at hs
    simp only [Except.ok.injEq] at hs
    subst hs
    have hrm : rm = Csc.rmIndices m.indices m.indptr k := by
      unfold Csc.surgeryPattern at hp
      simp only at hp
      split at hp
      · simp only [Except.ok.injEq, Prod.mk.injEq] at hp; exact hp.1.symm
      · cases hp
    simp only [Csc.refresh, hrm]

/-- non-vacuity: the flux-reduced pattern of the 1-D grid with three cells (pinned cell 1; columns
`[0,1] [0,1,2,3] [1,2] [1]`) passes `patternOk` and the certificate, and the surgery yields the 2×2
matrix of the two free cells. -/
example : Csc.patternOk [0, 1, 0, 1, 2, 3, 1, 2, 1] [0, 2, 6, 8, 9] 1 = true ∧
    Csc.surgeryCheck [0, 1, 0, 1, 2, 3, 1, 2, 1] [0, 2, 6, 8, 9] 1 = true ∧
    Csc.surgery (α := Int) ⟨[1, 2, 3, 4, 5, 6, 7, 8, 9], [0, 1, 0, 1, 2, 3, 1, 2, 1], [0, 2, 6, 8, 9]⟩ 1
      = .ok ⟨[1, 8], [0, 1], [0, 1, 2]⟩ := by decide

/-- the assert fires (instead of a silently wrong matrix) when a third column is emptied -/
example : Csc.surgery (α := Int) ⟨[1, 2, 3, 4], [1, 0, 1, 1], [0, 1, 3, 4]⟩ 1 = .error .assertion := by decide

end Darsia.C08
