/-
C08 — all linear-solve formulations and back-ends solve the same system.

Algebra: any field `K`, any finite index types of faces `F` and cells `C`, an abstract divergence
matrix `D`, an arbitrary pinned cell `k`, `W = diag w` with non-zero entries (positive in the code).
Dispatch: `DarsiaGen.Dispatch` is re-tabulated from the running code on every check (G1).
CSC surgery: theorems about the array-level model `DarsiaModel.Csc` of the hand-written removal of
the pinned row/column.
-/
import DarsiaProofs.Saddle
import Mathlib.Algebra.BigOperators.Fin
import Mathlib.Algebra.Field.Rat
import Mathlib.Tactic.FinCases
import Mathlib.Tactic.NormNum
import DarsiaProofs.Csc
import DarsiaGen.Dispatch
namespace Darsia.C08
open Darsia Darsia.Saddle

variable {K : Type*} [Field K] {F C : Type*} [Fintype F] [Fintype C] [DecidableEq C]

/-- **Schur-complement equivalence** (`eliminate_flux`, `compute_flux_update`): `(u, p, lam)` solves the
full block system `[[W, −Dᵀ, 0],[D, 0, −cᵀ],[0, c, 0]] (u,p,lam) = (g,f,r)` iff `(p, lam)` solves the
flux-eliminated system `[[D W⁻¹ Dᵀ, −cᵀ],[c, 0]] (p,lam) = (f − D W⁻¹ g, r)` and `u = W⁻¹ (g + Dᵀ p)`. -/
theorem flux_reduced_equiv {w : F → K} (hw : ∀ e, w e ≠ 0) (D : C → F → K) (k : C)
    (g : F → K) (f : C → K) (r : K) (u : F → K) (p : C → K) (lam : K) :
    Full w D k g f r u p lam ↔ (Reduced w D k g f r p lam ∧ u = fluxUpdate w D g p) :=
  Saddle.flux_reduced_equiv hw D k g f r u p lam

/-- **pressure formulation** (`eliminate_lagrange_multiplier`): under `1ᵀD = 0`, a zero-mean mass source
and a zero last right-hand-side entry, the flux-eliminated system is equivalent to the pinned system
(row/column `k` and the multiplier row/column dropped) together with `p k = 0` and `lam = 0`. -/
theorem pressure_equiv {w : F → K} {D : C → F → K} (hD : ColSumZero D) (k : C) (g : F → K)
    {f : C → K} (hf : ∑ c, f c = 0) (p : C → K) (lam : K) :
    Reduced w D k g f 0 p lam ↔ (lam = 0 ∧ Pinned w D k g f p) :=
  Saddle.pressure_equiv hD k g hf p lam

/-- the three formulations have the same solutions: what `linear_solve` returns through the
"pressure" branch (`p` from the pinned system, `p k = 0`, `lam = 0`, `u = W⁻¹(g + Dᵀp)`) is exactly a
solution of the original full system, and conversely. -/
theorem full_iff_pinned {w : F → K} (hw : ∀ e, w e ≠ 0) {D : C → F → K} (hD : ColSumZero D) (k : C)
    (g : F → K) {f : C → K} (hf : ∑ c, f c = 0) (u : F → K) (p : C → K) (lam : K) :
    Full w D k g f 0 u p lam ↔ (lam = 0 ∧ Pinned w D k g f p ∧ u = fluxUpdate w D g p) :=
  Saddle.full_iff_pinned hw hD k g hf u p lam

/-- the zero-mean hypothesis of `pressure_equiv` is necessary: in the flux-eliminated system the
multiplier equals minus the total source. -/
theorem reduced_lambda_eq_neg_total {w : F → K} {D : C → F → K} (hD : ColSumZero D) {k : C} {g : F → K}
    {f : C → K} {r : K} {p : C → K} {lam : K} (h : Reduced w D k g f r p lam) : lam = -∑ c, f c := by
  have hs : ∑ c, ((∑ c', schur w D c c' * p c') - ind k c lam) = ∑ c, redRhs w D g f c :=
    Finset.sum_congr rfl fun c _ => h.mass c
  rw [Finset.sum_sub_distrib, sum_schur_mul hD, sum_ind, sum_redRhs hD] at hs
  linear_combination -hs

/-- non-vacuity: two cells joined by one face of weight 2, source `(1, −1)`, cell 1 pinned:
`u = 1`, `p = (2, 0)`, `lam = 0` solves the full system, and the divergence has zero column sums -/
example : Full (K := ℚ) (F := Fin 1) (C := Fin 2) (fun _ => 2) (fun c _ => if c = 0 then 1 else -1) 1
    (fun _ => 0) (fun c => if c = 0 then 1 else -1) 0 (fun _ => 1) (fun c => if c = 0 then 2 else 0) 0 := by
  refine ⟨fun e => ?_, fun c => ?_, ?_⟩
  · simp [divT, Fin.sum_univ_two]
  · fin_cases c <;> simp [div, ind, Fin.sum_univ_one]
  · simp

example : ColSumZero (K := ℚ) (F := Fin 1) (C := Fin 2) (fun c _ => if c = 0 then 1 else -1) := by
  intro e; simp [Fin.sum_univ_two]

/-! ### dispatch (generated acceptance matrix) -/

/-- every formulation named in the documentation constructs and completes a `linear_solve` with the
default (direct) back-end -/
theorem documented_formulations_usable :
    ∀ f ∈ Gen.documentedFormulations, Gen.accept f .direct = .ok () := by decide

/-- the default formulation works with every installed back-end -/
theorem pressure_all_backends :
    ∀ b ∈ [Gen.Backend.direct, .amg, .cg], Gen.accept .pressure b = .ok () := by decide

/-- the flux-eliminated formulation constructs and runs with every installed back-end under both accepted
spellings (that AMG / CG do not *solve* the indefinite reduced system on larger grids is the recorded
finding `C08:linear_solve:formulation=flux_reduced:linear_solver=amg|cg:residual-vs-full-system`, a
numerical matter outside this table) -/
theorem flux_reduced_all_backends_run :
    ∀ f ∈ [Gen.Formulation.flux_reduced, .flux_dash_reduced], ∀ b ∈ [Gen.Backend.direct, .amg, .cg],
      Gen.accept f b = .ok () := by decide

/-- no spelling accepted by the constructor falls through the branches of `linear_solve`: what is
accepted either completes, or is refused by an explicit assert (full formulation with an iterative
back-end), or needs the PETSc back-end that is not installed here. -/
theorem accepted_spellings_handled :
    ∀ f ∈ Gen.Formulation.all, ∀ b ∈ Gen.Backend.all, Gen.construct f b = .ok () →
      Gen.accept f b = .ok () ∨ Gen.accept f b = .error .assertion ∨ b = .ksp := by decide

/-- unknown option values are refused at construction -/
theorem documented_backends_complete :
    ∀ b ∈ Gen.Backend.all, b ∈ Gen.documentedBackends := by decide

/-! ### CSC surgery (`setup_eliminate_lagrange_multiplier`, `eliminate_lagrange_multiplier`)

Full statement aimed at (NOT proved in this generality):
  `∀ m k, patternOk m.indices m.indptr k → ∃ r, surgery m k = .ok r ∧ r.ncols + 2 = m.ncols ∧
     ∀ i j < r.ncols, entry r i j = entry m (up k i) (up k j)`
i.e. for every well-formed CSC matrix whose multiplier row/column couples to the pinned cell only and in
which no other column is emptied, the array surgery equals dropping rows/columns `{k, last}` of the dense
matrix. What is proved: the same conclusion from the decidable per-pattern certificate `surgeryCheck`
(instead of `patternOk`), for arbitrary data; the check evaluates `patternOk` and `surgeryCheck` with the
model on every grid shape of the C07 range and compares the model's arrays with the implementation's. -/

/-- **partial**: for any data (weights) and any additive structure, if the sparsity pattern passes the
certificate, the arrays produced by the surgery represent the matrix with rows/columns `k`, `last` dropped. -/
theorem csc_surgery_dense_partial {α : Type} [Add α] [OfNat α 0] (m r : Csc.CSC α) (k : Nat)
    (hlen : m.data.length = m.indices.length)
    (hs : Csc.surgery m k = .ok r) (hc : Csc.surgeryCheck m.indices m.indptr k = true) :
    ∀ i j, i < r.ncols → j < r.ncols → Csc.entry r i j = Csc.entry m (Csc.up k i) (Csc.up k j) :=
  Csc.surgery_dense_of_check m r k hlen hs hc

/-- `cached_pattern_reuse`: refreshing only the data through the cached `rm_indices` (what every later
`eliminate_lagrange_multiplier` call does) is the surgery of the matrix with the new data. -/
theorem cached_pattern_reuse {α : Type} [OfNat α 0] (m r : Csc.CSC α) (k : Nat) (newData : List α)
    (hs : Csc.surgery m k = .ok r) :
    Csc.surgery ⟨newData, m.indices, m.indptr⟩ k
      = .ok (Csc.refresh r (Csc.rmIndices m.indices m.indptr k) newData) := by
  unfold Csc.surgery at hs ⊢
  cases hp : Csc.surgeryPattern m.indices m.indptr k with
  | error e => rw [hp] at hs; cases hs
  | ok t =>
    obtain ⟨rm, indices', indptr'⟩ := t
    rw [hp] at hs
    simp only [Except.ok.injEq] at hs
    subst hs
    have hrm : rm = Csc.rmIndices m.indices m.indptr k := by
      unfold Csc.surgeryPattern at hp
      simp only at hp
      split at hp
      · simp only [Except.ok.injEq, Prod.mk.injEq] at hp; exact hp.1.symm
      · cases hp
    simp only [Csc.refresh, hrm]

/-- non-vacuity: the flux-reduced pattern of the 1-D grid with three cells (pinned cell 1; columns
`[0,1] [0,1,2,3] [1,2] [1]`) passes `patternOk` and the certificate, and the surgery yields the 2×2
matrix of the two free cells. -/
example : Csc.patternOk [0, 1, 0, 1, 2, 3, 1, 2, 1] [0, 2, 6, 8, 9] 1 = true ∧
    Csc.surgeryCheck [0, 1, 0, 1, 2, 3, 1, 2, 1] [0, 2, 6, 8, 9] 1 = true ∧
    Csc.surgery (α := Int) ⟨[1, 2, 3, 4, 5, 6, 7, 8, 9], [0, 1, 0, 1, 2, 3, 1, 2, 1], [0, 2, 6, 8, 9]⟩ 1
      = .ok ⟨[1, 8], [0, 1], [0, 1, 2]⟩ := by decide

/-- the assert fires (instead of a silently wrong matrix) when a third column is emptied -/
example : Csc.surgery (α := Int) ⟨[1, 2, 3, 4], [1, 0, 1, 1], [0, 1, 3, 4]⟩ 1 = .error .assertion := by decide

end Darsia.C08
