/-
C04 — Wasserstein solvers return mass-conserving fluxes, self-consistent results and an honest
convergence status, also when an inner step fails.

Status part: theorems about the loop model `DarsiaModel.SolveLoop` for EVERY environment
`env : Nat → Event` (event sequence) and EVERY `num_iter`; the shape of the code (as found / repaired) is
generated from the AST of the two `_solve` methods (`DarsiaGen.SolveLoopGen`).
Algebraic part: any field, any finite face / cell index sets, abstract divergence `D` with `1ᵀD = 0`.
-/
import DarsiaProofs.Saddle
import DarsiaProofs.SolveLoop
import DarsiaGen.SolveLoopGen
namespace Darsia.C04
open Darsia Darsia.SolveLoop

/-! ### status: honest `converged`, distance = cost of the returned flux, faults -/

/-- generated obligation: both `_solve` methods have the repaired shape (explicit flag set only on the
criteria `break`; handler restores the last valid iterate and its distance; distance initialised with the
cost of the initial iterate). Everything below is re-proved against what the AST extraction found. -/
theorem code_is_repaired : ∀ m, Gen.shapeOf m = .repaired := by
  intro m; cases m <;> decide

/-- `converged` is reported only if the stopping criteria were met: the last executed pass `i` completed,
evaluated the criteria to true (which the code does only for `iter > 1`), and every earlier pass completed. -/
theorem converged_sound (m : Method) (n : Nat) (env : Nat → Event) :
    converged (Gen.shapeOf m) n env (run (Gen.shapeOf m) m n env) = .ok true →
      ∃ i, i < n ∧ 1 < i ∧ env i = .ok true ∧ (run (Gen.shapeOf m) m n env).iter = some i ∧
        AllOkBefore env i := by
  rw [code_is_repaired m]
  intro h
  have hg := good_run env m n
  unfold converged at h
  split at h
  · cases h
  · simp only [Except.ok.injEq] at h
    exact hg.flagged h

/-- the reported distance is the transport cost of exactly the returned iterate -/
theorem distance_is_cost_of_returned_flux (m : Method) (n : Nat) (env : Nat → Event) :
    (run (Gen.shapeOf m) m n env).distTag = some (run (Gen.shapeOf m) m n env).solTag := by
  rw [code_is_repaired m]
  exact (good_run env m n).consistent

/-- the status is always defined (also for `num_iter = 0`) -/
theorem converged_total (m : Method) (n : Nat) (env : Nat → Event) :
    ∃ b, converged (Gen.shapeOf m) n env (run (Gen.shapeOf m) m n env) = .ok b := by
  rw [code_is_repaired m]
  unfold converged
  split
  · exact ⟨false, rfl⟩
  · exact ⟨_, rfl⟩

/-- if an inner step fails at any iteration that is reached, the run is flagged non-converged -/
theorem fault_flags_nonconverged (m : Method) (n : Nat) (env : Nat → Event) (j : Nat)
    (hr : Reaches env j) (_hj : j < n) (hf : (env j).isFail = true) :
    converged (Gen.shapeOf m) n env (run (Gen.shapeOf m) m n env) = .ok false := by
  obtain ⟨b, hb⟩ := converged_total m n env
  cases b with
  | false => exact hb
  | true =>
    exfalso
    obtain ⟨i, _, hi1, hei, _, hall⟩ := converged_sound m n env hb
    rcases Nat.lt_trichotomy j i with h | h | h
    · obtain ⟨b, hb'⟩ := hall j h
      rw [hb'] at hf; cases hf
    · subst h; rw [hei] at hf; cases hf
    · obtain ⟨b, hb', hnb⟩ := hr i h
      rw [hei] at hb'
      cases hb'
      exact hnb ⟨hi1, rfl⟩

/-- … and the result still describes the last valid iterate: solution and distance are those of iterate
`j` (the `j` completed passes), `number_iterations` is the index of the failing pass. -/
theorem fault_returns_last_valid_iterate (m : Method) (n : Nat) (env : Nat → Event) (j : Nat)
    (hr : Reaches env j) (hj : j < n) (hf : (env j).isFail = true) :
    (run (Gen.shapeOf m) m n env).solTag = j ∧ (run (Gen.shapeOf m) m n env).distTag = some j ∧
      (run (Gen.shapeOf m) m n env).iter = some j := by
  rw [code_is_repaired m]
  have := runFrom_fault hr hf n 0 (init .repaired m) (by simp [init]) (Nat.zero_le j) (by omega)
    (by simp [init]) (by simp [init]) (by simp [init])
  exact ⟨this.1, this.2.1, this.2.2.1⟩

/-- a NaN distance (Bregman's early return) is never reported as converged -/
theorem nan_not_converged (m : Method) (n : Nat) (env : Nat → Event) (j : Nat)
    (hi : (run (Gen.shapeOf m) m n env).iter = some j) (hs : (run (Gen.shapeOf m) m n env).stopped = true)
    (hn : env j = .nan) :
    converged (Gen.shapeOf m) n env (run (Gen.shapeOf m) m n env) = .ok false := by
  unfold converged endedByNan
  simp [hi, hs, hn]

/-- non-vacuity: with `num_iter = 6` and criteria met at pass 3 the repaired loop reports convergence with
iterate 4; a failure at pass 1 returns iterate 1, not converged -/
example : let r := run .repaired .newton 6 (envOf [.ok false, .ok false, .ok false, .ok true])
    converged .repaired 6 (envOf [.ok false, .ok false, .ok false, .ok true]) r = .ok true ∧
      r.solTag = 4 ∧ r.distTag = some 4 := by decide

example : let r := run .repaired .bregman 6 (envOf [.ok false, .failAfterUpdate])
    converged .repaired 6 (envOf [.ok false, .failAfterUpdate]) r = .ok false ∧
      r.solTag = 1 ∧ r.distTag = some 1 := by decide

/-! ### the code as found violated all three statements (witnesses) -/

/-- as found: a failure of the very first inner solve is reported as `converged = True` … -/
theorem asFound_converged_unsound :
    converged .asFound 5 (fun _ => .failBeforeUpdate) (run .asFound .newton 5 fun _ => .failBeforeUpdate)
      = .ok true := by decide

/-- … with distance the literal `0` (no iterate) next to the non-trivial initial flux (iterate 0) -/
theorem asFound_distance_not_cost :
    (run .asFound .bregman 5 fun _ => .failBeforeUpdate).distTag = none ∧
      (run .asFound .bregman 5 fun _ => .failBeforeUpdate).solTag = 0 := by decide

/-- as found: a failure after the update leaves the new iterate with the previous iterate's distance -/
theorem asFound_stale_distance :
    (run .asFound .newton 5 (envOf [.ok false, .failAfterUpdate])).distTag = some 1 ∧
      (run .asFound .newton 5 (envOf [.ok false, .failAfterUpdate])).solTag = 2 ∧
      converged .asFound 5 (envOf [.ok false, .failAfterUpdate])
        (run .asFound .newton 5 (envOf [.ok false, .failAfterUpdate])) = .ok true := by decide

/-- as found: Newton with `num_iter = 0` raised `UnboundLocalError` instead of returning the initial iterate -/
theorem asFound_newton_zero_iter_raises (env : Nat → Event) :
    converged .asFound 0 env (run .asFound .newton 0 env) = .error .unbound := by
  simp [converged, run, runFrom, init, endedByNan]

/-! ### algebra: mass balance (all grids, all positive weights) -/

open Darsia.Saddle
variable {K : Type*} [Field K] {F C : Type*} [Fintype F] [Fintype C] [DecidableEq C]

/-- `1ᵀD = 0 ∧ Σ f = 0` and the second block row ⇒ the multiplier vanishes -/
theorem lambda_zero {D : C → F → K} (hD : ColSumZero D) {k : C} {f : C → K} (hf : ∑ c, f c = 0)
    {u : F → K} {lam : K} (h : Balanced D k f u lam) : lam = 0 :=
  Saddle.lambda_zero hD hf h

/-- the flux block of any solution of the second block row satisfies the discrete mass balance `D u = f` -/
theorem mass_balance_of_solution {D : C → F → K} (hD : ColSumZero D) {k : C} {f : C → K}
    (hf : ∑ c, f c = 0) {u : F → K} {lam : K} (h : Balanced D k f u lam) : ∀ c, div D u c = f c :=
  Saddle.mass_balance_of_solution hD hf h

/-- every iterate produced by full Newton updates (any number of them) is balanced -/
theorem newton_preserves_balance (D : C → F → K) (k : C) (f : C → K)
    (u du : ℕ → F → K) (lam dlam : ℕ → K)
    (hu : ∀ n, u (n + 1) = fun e => u n e + du n e) (hl : ∀ n, lam (n + 1) = lam n + dlam n)
    (hupd : ∀ n c, div D (du n) c - ind k c (dlam n) = f c - (div D (u n) c - ind k c (lam n))) :
    ∀ n, Balanced D k f (u (n + 1)) (lam (n + 1)) :=
  Saddle.newton_preserves_balance D k f u du lam dlam hu hl hupd

/-- Anderson mixing is an affine combination with weights summing to one … -/
theorem affine_comb_preserves_balance {I : Type*} (s : Finset I) (D : C → F → K) (f : C → K)
    (u : I → F → K) (a : I → K) (ha : ∑ i ∈ s, a i = 1) (hu : ∀ i ∈ s, ∀ c, div D (u i) c = f c) :
    ∀ c, div D (fun e => ∑ i ∈ s, a i * u i e) c = f c :=
  Saddle.affine_comb_preserves_balance s D f u a ha hu

/-- … in exactly the form coded in `AndersonAcceleration.__call__` (`xkp1 = gk − Gk γ`) -/
theorem anderson_preserves_balance {I : Type*} (s : Finset I) (D : C → F → K) (f : C → K)
    (g : F → K) (a b : I → F → K) (γ : I → K) (hg : ∀ c, div D g c = f c)
    (ha : ∀ i ∈ s, ∀ c, div D (a i) c = f c) (hb : ∀ i ∈ s, ∀ c, div D (b i) c = f c) :
    ∀ c, div D (fun e => g e - ∑ i ∈ s, (a i e - b i e) * γ i) c = f c :=
  Saddle.anderson_preserves_balance s D f g a b γ hg ha hb

/-- every Bregman iterate's flux is the flux block of a solution of a full system with mass source `f`,
whatever the weights and the flux right-hand side: balanced -/
theorem bregman_flux_balanced {w : F → K} {D : C → F → K} (hD : ColSumZero D) {k : C} {g : F → K}
    {f : C → K} (hf : ∑ c, f c = 0) {r : K} {u : F → K} {p : C → K} {lam : K}
    (h : Full w D k g f r u p lam) : ∀ c, div D u c = f c :=
  Saddle.mass_balance_of_solution hD hf h.mass

/-- third block row: the pressure of the reference cell equals the last right-hand-side entry, and a
Newton update (right-hand side `0 − p k`) keeps it pinned at zero -/
theorem pressure_pinned {w : F → K} {D : C → F → K} {k : C} {g : F → K} {f : C → K} {r : K}
    {u : F → K} {p : C → K} {lam : K} (h : Full w D k g f r u p lam) : p k = r := h.pin

theorem newton_keeps_pressure_pinned {w : F → K} {D : C → F → K} {k : C} {g : F → K} {f : C → K}
    {du : F → K} {p dp : C → K} {dlam : K} (h : Full w D k g f (0 - p k) du dp dlam) :
    p k + dp k = 0 := by rw [h.pin]; ring

end Darsia.C04
