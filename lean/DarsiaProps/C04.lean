/-
C04 — Wasserstein solvers return mass-conserving fluxes, self-consistent results and an honest
convergence status, also when an inner step fails.

Status part: theorems about the loop model `DarsiaModel.SolveLoop` for EVERY environment
`env : Nat → Event` (event sequence) and EVERY `num_iter`; the shape of the code (as found / repaired) is
generated from the AST of the two `_solve` methods (`DarsiaGen.SolveLoopGen`).
Algebraic part: any field, any finite face / cell index sets, abstract divergence `D` with `1ᵀD = 0`.
-/
import DarsiaProofs.Saddle
import DarsiaProofs.SolveLoop
import DarsiaProofs.WassersteinAux
import DarsiaProofs.Anderson
import DarsiaProofs.SaddleBridge
import DarsiaGen.SolveLoopGen
namespace Darsia.C04
open Darsia Darsia.SolveLoop

/-! ### status: honest `converged`, distance = cost of the returned flux, faults at every program point

`Gen.codeOf m` is extracted from the AST of the running `_solve` methods: the statements of the try body in source
order with their effect on the returned iterate / distance, what the handler restores, how `converged` is computed,
how the distance and the loop variable are initialised. `Event.fail branch pos` raises at statement `pos` of body
`branch`: the theorems quantify over ALL environments, hence over a fault at ANY statement of ANY pass. -/

/-- generated obligation: both `_solve` methods have the sound shape (explicit flag set only on the criteria
`break`; handler restores the last valid iterate and its distance; distance initialised with the cost of the initial
iterate; loop variable bound before the loop). Everything below is re-proved against what the AST extraction found. -/
theorem code_is_sound : ∀ m, (Gen.codeOf m).sound = true := by
  intro m; cases m <;> decide

/-- `converged` is reported only if the stopping criteria were met: the last executed pass `i` completed,
evaluated the criteria to true (which the code does only for `iter > 1`), and every earlier pass completed. -/
theorem converged_sound (m : Method) (n : Nat) (env : Nat → Event) :
    converged (Gen.codeOf m) n env (run (Gen.codeOf m) n env) = .ok true →
      ∃ i br, i < n ∧ 1 < i ∧ env i = .ok br true ∧ (run (Gen.codeOf m) n env).iter = some i ∧
        AllOkBefore env i := by
  intro h
  have hs := code_is_sound m
  have hg := good_run hs env n
  obtain ⟨_, _, h3, _, _, _⟩ := sound_fields hs
  unfold converged at h
  rw [h3] at h
  split at h
  · cases h
  · simp only [if_true, Except.ok.injEq] at h
    exact hg.flagged h

/-- the reported distance is the transport cost of exactly the returned iterate -/
theorem distance_is_cost_of_returned_flux (m : Method) (n : Nat) (env : Nat → Event) :
    (run (Gen.codeOf m) n env).distTag = some (run (Gen.codeOf m) n env).solTag :=
  (good_run (code_is_sound m) env n).consistent

/-- the status is always defined (also for `num_iter = 0`) -/
theorem converged_total (m : Method) (n : Nat) (env : Nat → Event) :
    ∃ b, converged (Gen.codeOf m) n env (run (Gen.codeOf m) n env) = .ok b := by
  obtain ⟨_, _, h3, _, _, _⟩ := sound_fields (code_is_sound m)
  unfold converged
  rw [h3]
  split
  · exact ⟨false, rfl⟩
  · exact ⟨_, rfl⟩

/-- if an inner step fails — at ANY statement of the loop body — in any pass that is reached, the run is flagged
non-converged -/
theorem fault_flags_nonconverged (m : Method) (n : Nat) (env : Nat → Event) (j : Nat)
    (hr : Reaches env j) (_hj : j < n) (hf : (env j).isFail = true) :
    converged (Gen.codeOf m) n env (run (Gen.codeOf m) n env) = .ok false := by
  obtain ⟨b, hb⟩ := converged_total m n env
  cases b with
  | false => exact hb
  | true =>
    exfalso
    obtain ⟨i, br, _, hi1, hei, _, hall⟩ := converged_sound m n env hb
    rcases Nat.lt_trichotomy j i with h | h | h
    · obtain ⟨br', b, hb'⟩ := hall j h
      rw [hb'] at hf; cases hf
    · subst h; rw [hei] at hf; cases hf
    · obtain ⟨br', b, hb', hnb⟩ := hr i h
      rw [hei] at hb'
      cases hb'
      exact hnb ⟨hi1, rfl⟩

/-- … and the result still describes the last valid iterate: solution and distance are those of iterate `j` (the `j`
completed passes), `number_iterations` is the index of the failing pass. -/
theorem fault_returns_last_valid_iterate (m : Method) (n : Nat) (env : Nat → Event) (j : Nat)
    (hr : Reaches env j) (hj : j < n) (hf : (env j).isFail = true) :
    (run (Gen.codeOf m) n env).solTag = j ∧ (run (Gen.codeOf m) n env).distTag = some j ∧
      (run (Gen.codeOf m) n env).iter = some j := by
  have hs := code_is_sound m
  obtain ⟨_, _, _, h4, _, _⟩ := sound_fields hs
  have := runFrom_fault hs hr hf n 0 (init (Gen.codeOf m)) (by simp [init]) (Nat.zero_le j) (by omega)
    (by simp [init]) (by simp [init, h4]) (by simp [init]) (by simp [init])
  exact ⟨this.1, this.2.1, this.2.2.1⟩

/-- the order of the statements matters for the obligation `code_is_sound`: a body that evaluates the distance BEFORE its
last write of the iterate (e.g. `l1_dissipation` before the Anderson mixing), or a handler restoring from an alias of an
iterate that is updated in place, is not sound — even with all other fields as in the repaired code -/
theorem order_and_copy_matter :
    ({ repairedNewton with bodies := [[⟨.linearSolve, .none⟩, ⟨.setSolution, .writeSol⟩, ⟨.distance, .writeDist⟩,
        ⟨.anderson, .writeSol⟩, ⟨.criteria, .criteria⟩]] } : LoopCode).sound = false ∧
    ({ repairedNewton with saveIsCopy := false } : LoopCode).sound = false ∧
    -- and the model then predicts the stale distance / the overwritten iterate:
    (run { repairedNewton with bodies := [[⟨.linearSolve, .none⟩, ⟨.setSolution, .writeSol⟩, ⟨.distance, .writeDist⟩,
        ⟨.anderson, .writeSol⟩, ⟨.criteria, .criteria⟩]] } 1 (envOf [.ok 0 false])).distTag = some 0 ∧
    (run { repairedNewton with saveIsCopy := false } 2 (envOf [.ok 0 false, .fail 0 4])).solTag = 2 := by decide

/-- the program point of the fault is irrelevant for the running code: raising at statement `a` of body `b` or at
statement `a'` of body `b'` leaves the same state (for every state in which the saved distance is fresh, as it is in every
reachable running state: `Good.saved`) (the as-found code below distinguishes them) -/
theorem fault_point_irrelevant (m : Method) (s : LoopState)
    (hsv : (Gen.codeOf m).saveDistBeforeTry = false → s.savedDist = s.distTag) (i b a b' a' : Nat) :
    step (Gen.codeOf m) s i (.fail b a) = step (Gen.codeOf m) s i (.fail b' a') := by
  rw [step_fail (code_is_sound m) s hsv, step_fail (code_is_sound m) s hsv]

/-- what the handler restores the distance from must be kept fresh by the code itself: re-bound at the top of every pass
(Newton) or committed by the last statement of every body (Bregman's `old_distance = new_distance`). A Bregman-shaped
code whose bodies lack that commit is not sound, and the model then predicts the defect: after a fault in pass 2 the
last valid iterate 2 is returned with the distance of iterate 0 -/
theorem commit_matters :
    let c : LoopCode := { bodies := [[⟨.linearSolve, .none⟩, ⟨.setSolution, .writeSol⟩, ⟨.distance, .writeDist⟩,
                                       ⟨.criteria, .criteria⟩]],
                          restoreSol := true, restoreDist := true, flagOnBreak := true, distInit := true, iterInit := true,
                          saveIsCopy := true, saveDistBeforeTry := false, post := .guarded }
    c.sound = false ∧
      (run c 5 (envOf [.ok 0 false, .ok 0 false, .fail 0 0])).solTag = 2 ∧
      (run c 5 (envOf [.ok 0 false, .ok 0 false, .fail 0 0])).distTag = some 0 := by decide

/-- the post-loop block: a failure of Bregman's (guarded) pressure post-processing leaves distance, iterate, status as
they are and only replaces the pressure by the NaN marker; Newton has nothing after the loop that can fail -/
theorem post_loop_failure_only_marks_pressure (s : LoopState) (postFails : Bool) :
    finish (Gen.codeOf .bregman) s postFails
        = .ok { state := s, pressure := if postFails then none else some s.solTag } ∧
      finish (Gen.codeOf .newton) s postFails = .ok { state := s, pressure := some s.solTag } := by
  refine ⟨finish_guarded (by decide) s postFails, ?_⟩
  have : (Gen.codeOf .newton).post = .none := by decide
  unfold finish
  rw [this]

/-- a NaN distance (Bregman's early return) is never reported as converged -/
theorem nan_not_converged (m : Method) (n : Nat) (env : Nat → Event) (j : Nat)
    (hi : (run (Gen.codeOf m) n env).iter = some j) (hs : (run (Gen.codeOf m) n env).stopped = true)
    (hn : env j = .nan) :
    converged (Gen.codeOf m) n env (run (Gen.codeOf m) n env) = .ok false := by
  unfold converged endedByNan
  simp [hi, hs, hn]

/-- non-vacuity: with `num_iter = 6` and criteria met at pass 3 a sound loop reports convergence with iterate 4; a
failure of the distance evaluation in pass 1 returns iterate 1, not converged -/
example : let c := repairedNewton
    let e1 := envOf [.ok 0 false, .ok 0 false, .ok 0 false, .ok 0 true]
    let e2 := envOf [.ok 0 false, .fail 0 4]
    c.sound = true ∧ converged c 6 e1 (run c 6 e1) = .ok true ∧ (run c 6 e1).solTag = 4 ∧
      converged c 6 e2 (run c 6 e2) = .ok false ∧ (run c 6 e2).solTag = 1 ∧ (run c 6 e2).distTag = some 1 := by
  decide

/-! ### the code as found violated all three statements (witnesses) -/

/-- as found: a failure of the very first inner solve (statement 1 of the Newton body) is reported as
`converged = True` … -/
theorem asFound_converged_unsound :
    converged asFoundNewton 5 (fun _ => .fail 0 1) (run asFoundNewton 5 fun _ => .fail 0 1) = .ok true := by decide

/-- … with distance the literal `0` (no iterate) next to the non-trivial initial flux (iterate 0) -/
theorem asFound_distance_not_cost :
    (run asFoundBregman 5 fun _ => .fail 1 0).distTag = none ∧
      (run asFoundBregman 5 fun _ => .fail 1 0).solTag = 0 := by decide

/-- as found: a failure after the update (in the distance evaluation, statement 4) leaves the new iterate with the
previous iterate's distance; the same failure before the update (statement 1) does not — the program point was
observable -/
theorem asFound_stale_distance :
    (run asFoundNewton 5 (envOf [.ok 0 false, .fail 0 4])).distTag = some 1 ∧
      (run asFoundNewton 5 (envOf [.ok 0 false, .fail 0 4])).solTag = 2 ∧
      (run asFoundNewton 5 (envOf [.ok 0 false, .fail 0 1])).solTag = 1 ∧
      converged asFoundNewton 5 (envOf [.ok 0 false, .fail 0 4])
        (run asFoundNewton 5 (envOf [.ok 0 false, .fail 0 4])) = .ok true := by decide

/-- as found: Newton with `num_iter = 0` raised `UnboundLocalError` instead of returning the initial iterate -/
theorem asFound_newton_zero_iter_raises (env : Nat → Event) :
    converged asFoundNewton 0 env (run asFoundNewton 0 env) = .error .unbound := by
  simp [converged, run, runFrom, init, endedByNan, asFoundNewton]

/-! ### algebra: mass balance (all grids, all positive weights) -/

open Darsia.Saddle
variable {K : Type*} [Field K] {F C : Type*} [Fintype F] [Fintype C] [DecidableEq C]

/-- `1ᵀD = 0 ∧ Σ f = 0` and the second block row ⇒ the multiplier vanishes -/
theorem lambda_zero {D : C → F → K} (hD : ColSumZero D) {k : C} {f : C → K} (hf : ∑ c, f c = 0)
    {u : F → K} {lam : K} (h : Balanced D k f u lam) : lam = 0 :=
  Saddle.lambda_zero hD hf h

/-- the flux block of any solution of the second block row satisfies the discrete mass balance `D u = f` -/
theorem mass_balance_of_solution {D : C → F → K} (hD : ColSumZero D) {k : C} {f : C → K}
    (hf : ∑ c, f c = 0) {u : F → K} {lam : K} (h : Balanced D k f u lam) : ∀ c, div D u c = f c :=
  Saddle.mass_balance_of_solution hD hf h

/-- every iterate produced by full Newton updates (any number of them) is balanced -/
theorem newton_preserves_balance (D : C → F → K) (k : C) (f : C → K)
    (u du : ℕ → F → K) (lam dlam : ℕ → K)
    (hu : ∀ n, u (n + 1) = fun e => u n e + du n e) (hl : ∀ n, lam (n + 1) = lam n + dlam n)
    (hupd : ∀ n c, div D (du n) c - ind k c (dlam n) = f c - (div D (u n) c - ind k c (lam n))) :
    ∀ n, Balanced D k f (u (n + 1)) (lam (n + 1)) :=
  Saddle.newton_preserves_balance D k f u du lam dlam hu hl hupd

open Darsia.SaddleBridge in
/-- `jacobian(solution)`, `_update_regularization(flux)` and `darcy_init` are the same block assembly with different
flux-flux blocks: every entry outside the flux-flux block — in particular the whole mass-balance row — is independent of
the weights, i.e. the SAME matrix row in every iterate -/
theorem mass_row_same_in_every_iterate (w w' : Saddle.Vec) (hw : w'.size = w.size) (D : Saddle.Mat) (k i j : Nat)
    (hij : w.size ≤ i ∨ w.size ≤ j) : Saddle.fullEntry w' D k i j = Saddle.fullEntry w D k i j :=
  assemble_offdiag_independent w w' hw D k i j hij

open Darsia.SaddleBridge in
/-- the hypothesis `hupd` of `newton_preserves_balance` DISCHARGED from the model: for the Newton system as coded
(`J(w') δ = rhs − J(w') x`, arbitrary weights `w'` of this iterate) the mass-balance rows of the update read
`D du − cᵀ dlam = f − (D u − cᵀ lam)` -/
theorem newton_update_satisfies_hupd (w' : Saddle.Vec) (D : Saddle.Mat) (k : Nat) (hk : k < D.size)
    (u p du dp g f : Nat → ℚ) (lam dlam r : ℚ)
    (h : Saddle.mulVec (Saddle.assembleFull w' D k) (Saddle.tabV (w'.size + D.size + 1) (cat3 w'.size D.size du dp dlam))
        = Saddle.tabV (w'.size + D.size + 1) (fun i => cat3 w'.size D.size g f r i -
            (Saddle.mulVec (Saddle.assembleFull w' D k)
              (Saddle.tabV (w'.size + D.size + 1) (cat3 w'.size D.size u p lam))).getD i 0)) :
    ∀ c : Fin D.size,
      Saddle.div (DF w' D) (fun e => du e.val) c - Saddle.ind ⟨k, hk⟩ c dlam
        = f c.val - (Saddle.div (DF w' D) (fun e => u e.val) c - Saddle.ind ⟨k, hk⟩ c lam) :=
  newton_update_hupd w' D k hk u p du dp g f lam dlam r h

open Darsia.SaddleBridge in
/-- … so every iterate of the model's Newton iteration — any number of steps, arbitrary positive or non-positive weights in
every step — satisfies the mass-balance row `D u − cᵀ lam = f` -/
theorem newton_model_preserves_balance (D : Saddle.Mat) (k nf : Nat) (ws : Nat → Saddle.Vec)
    (hws : ∀ n, (ws n).size = nf) (g f : Nat → ℚ) (r : ℚ) (u du p dp : Nat → Nat → ℚ) (lam dlam : Nat → ℚ)
    (hu : ∀ n e, u (n + 1) e = u n e + du n e) (hl : ∀ n, lam (n + 1) = lam n + dlam n)
    (hstep : ∀ n, Saddle.mulVec (Saddle.assembleFull (ws n) D k)
          (Saddle.tabV (nf + D.size + 1) (cat3 nf D.size (du n) (dp n) (dlam n)))
        = Saddle.tabV (nf + D.size + 1) (fun i => cat3 nf D.size g f r i -
            (Saddle.mulVec (Saddle.assembleFull (ws n) D k)
              (Saddle.tabV (nf + D.size + 1) (cat3 nf D.size (u n) (p n) (lam n)))).getD i 0)) :
    ∀ n c, c < D.size →
      sumTo nf (fun e => D.get c e * u (n + 1) e) - (if c = k then lam (n + 1) else 0) = f c :=
  SaddleBridge.newton_model_preserves_balance D k nf ws hws g f r u du p dp lam dlam hu hl hstep

/-- Anderson mixing is an affine combination with weights summing to one … -/
theorem affine_comb_preserves_balance {I : Type*} (s : Finset I) (D : C → F → K) (f : C → K)
    (u : I → F → K) (a : I → K) (ha : ∑ i ∈ s, a i = 1) (hu : ∀ i ∈ s, ∀ c, div D (u i) c = f c) :
    ∀ c, div D (fun e => ∑ i ∈ s, a i * u i e) c = f c :=
  Saddle.affine_comb_preserves_balance s D f u a ha hu

/-- … in exactly the form coded in `AndersonAcceleration.__call__` (`xkp1 = gk − Gk γ`) -/
theorem anderson_preserves_balance {I : Type*} (s : Finset I) (D : C → F → K) (f : C → K)
    (g : F → K) (a b : I → F → K) (γ : I → K) (hg : ∀ c, div D g c = f c)
    (ha : ∀ i ∈ s, ∀ c, div D (a i) c = f c) (hb : ∀ i ∈ s, ∀ c, div D (b i) c = f c) :
    ∀ c, div D (fun e => g e - ∑ i ∈ s, (a i e - b i e) * γ i) c = f c :=
  Saddle.anderson_preserves_balance s D f g a b γ hg ha hb

/-- the accelerator AS CODED (`DarsiaModel.Anderson.call`: reset at inner iteration 0, history columns `F[:,col] = fk − fkm1`,
`G[:,col] = gk − gkm1`, weights from an arbitrary least-squares routine, `xkp1 = gk − G[:, :mk] γ`): over a whole run
starting at iteration 0, if every image `gk` handed in satisfies a linear constraint `Σ_e a_e v_e = φ` (a row of
`D u = f`), so does every iterate it returns — whatever the least-squares solve returns (also when it blows up: the
defect recorded for Anderson is one of floating-point cancellation, not of the algebra). -/
theorem anderson_run_preserves_balance (n : Nat) (a : Nat → Rat) (φ : Rat) (depth : Nat) (restart : Option Nat)
    (lstsq : List Anderson.V → Anderson.V → List Rat) (gs fs : Nat → Anderson.V)
    (hg : ∀ k, Anderson.row n a (gs k) = φ) :
    ∀ k, Anderson.row n a
      (Anderson.call depth restart lstsq (Anderson.runSt depth restart lstsq gs fs k) (gs k) (fs k) k).1 = φ :=
  Anderson.run_preserves n a φ depth restart lstsq gs fs hg

/-- the same for the accelerator with its column filter (difference columns of `F` that vanish relative to the current
increment are left out of the least-squares problem, their weights are 0): the filtered mixing is `call` with a wrapped
least-squares routine, so it is still an affine combination and keeps every linear constraint of the images -/
theorem anderson_filtered_run_preserves_balance (n : Nat) (a : Nat → Rat) (φ : Rat) (dim depth : Nat) (restart : Option Nat)
    (lstsq : List Anderson.V → Anderson.V → List Rat) (gs fs : Nat → Anderson.V)
    (hg : ∀ k, Anderson.row n a (gs k) = φ) :
    ∀ k, Anderson.row n a
      (Anderson.callFiltered dim depth restart lstsq
        (Anderson.runSt depth restart (Anderson.filteredLstsq dim lstsq) gs fs k) (gs k) (fs k) k).1 = φ :=
  Anderson.run_preserves n a φ depth restart (Anderson.filteredLstsq dim lstsq) gs fs hg

/-- every Bregman iterate's flux is the flux block of a solution of a full system with mass source `f`,
whatever the weights and the flux right-hand side: balanced -/
theorem bregman_flux_balanced {w : F → K} {D : C → F → K} (hD : ColSumZero D) {k : C} {g : F → K}
    {f : C → K} (hf : ∑ c, f c = 0) {r : K} {u : F → K} {p : C → K} {lam : K}
    (h : Full w D k g f r u p lam) : ∀ c, div D u c = f c :=
  Saddle.mass_balance_of_solution hD hf h.mass

/-- third block row: the pressure of the reference cell equals the last right-hand-side entry, and a
Newton update (right-hand side `0 − p k`) keeps it pinned at zero -/
theorem pressure_pinned {w : F → K} {D : C → F → K} {k : C} {g : F → K} {f : C → K} {r : K}
    {u : F → K} {p : C → K} {lam : K} (h : Full w D k g f r u p lam) : p k = r := h.pin

theorem newton_keeps_pressure_pinned {w : F → K} {D : C → F → K} {k : C} {g : F → K} {f : C → K}
    {du : F → K} {p dp : C → K} {dlam : K} (h : Full w D k g f (0 - p k) du dp dlam) :
    p k + dp k = 0 := by rw [h.pin]; ring

/-! ### auxiliary outputs derive from the returned flat solution (`__call__`) -/

open Darsia.WAux

/-- **aux_from_solution**: cell flux, weighted flux, pressure, transport density and distance returned by
`__call__` are determined by the dofs of the flat solution `_solve` returned: two flat solutions that agree on the
flux and pressure dofs give the same outputs at every cell of the grid (nothing else — no hidden state, no other
iterate — enters). -/
theorem aux_from_solution (N : (Nat → Rat) → Rat) (shape : List Nat) (h : List Rat) (nq : Nat) (wq : Nat → Rat)
    (ptq : Nat → List Rat) (wgt : List Nat → Nat → Rat) (x x' : Nat → Rat)
    (hx : ∀ i, i < numFaces shape + numCells shape → x i = x' i) (idx : List Nat) (hidx : inBox shape idx = true) :
    (callOut N shape h nq wq ptq wgt x).flux idx = (callOut N shape h nq wq ptq wgt x').flux idx ∧
    (callOut N shape h nq wq ptq wgt x).weightedFlux idx = (callOut N shape h nq wq ptq wgt x').weightedFlux idx ∧
    (callOut N shape h nq wq ptq wgt x).pressure idx = (callOut N shape h nq wq ptq wgt x').pressure idx ∧
    (callOut N shape h nq wq ptq wgt x).density idx = (callOut N shape h nq wq ptq wgt x').density idx ∧
    (callOut N shape h nq wq ptq wgt x).distance = (callOut N shape h nq wq ptq wgt x').distance := by
  have hf : ∀ f, f < numFaces shape → x f = x' f := fun f hf => hx f (by omega)
  have hc := encF_lt shape idx hidx
  refine ⟨?_, cellVec_congr hf wgt _ hidx, hx _ (by unfold numCells; omega), ?_, cost_congr N h hf nq wq ptq wgt⟩
  · funext a; exact faceToCell_congr hf _ hidx a
  · exact transportDensity_congr N hf nq wq ptq wgt hc

/-- flux-type outputs (cell flux, weighted flux, transport density, distance) read the flux dofs only: they do not
change with the pressure or the multiplier … -/
theorem aux_flux_outputs_from_flux_dofs (N : (Nat → Rat) → Rat) (shape : List Nat) (h : List Rat) (nq : Nat)
    (wq : Nat → Rat) (ptq : Nat → List Rat) (wgt : List Nat → Nat → Rat) (x x' : Nat → Rat)
    (hx : ∀ f, f < numFaces shape → x f = x' f) (idx : List Nat) (hidx : inBox shape idx = true) :
    (callOut N shape h nq wq ptq wgt x).flux idx = (callOut N shape h nq wq ptq wgt x').flux idx ∧
    (callOut N shape h nq wq ptq wgt x).weightedFlux idx = (callOut N shape h nq wq ptq wgt x').weightedFlux idx ∧
    (callOut N shape h nq wq ptq wgt x).density idx = (callOut N shape h nq wq ptq wgt x').density idx ∧
    (callOut N shape h nq wq ptq wgt x).distance = (callOut N shape h nq wq ptq wgt x').distance := by
  refine ⟨?_, cellVec_congr hx wgt _ hidx, transportDensity_congr N hx nq wq ptq wgt (encF_lt shape idx hidx),
    cost_congr N h hx nq wq ptq wgt⟩
  funext a; exact faceToCell_congr hx _ hidx a

/-- … and the pressure output is the `order="F"` reshape of the pressure dofs: cell number `c` lands at the
multi-index `decF shape c`; in particular the pinned cell `k` shows `x (num_faces + k)` (= 0 by `pressure_pinned`). -/
theorem aux_pressure_reshape (N : (Nat → Rat) → Rat) (shape : List Nat) (h : List Rat) (nq : Nat) (wq : Nat → Rat)
    (ptq : Nat → List Rat) (wgt : List Nat → Nat → Rat) (x : Nat → Rat) (c : Nat) (hc : c < numCells shape) :
    (callOut N shape h nq wq ptq wgt x).pressure (decF shape c) = x (numFaces shape + c) := by
  show x (numFaces shape + encF shape (decF shape c)) = _
  rw [encF_decF shape c hc]

/-- the reported distance is the cell-volume-weighted sum of the returned transport density -/
theorem aux_distance_is_integral_of_density (N : (Nat → Rat) → Rat) (shape : List Nat) (h : List Rat) (nq : Nat)
    (wq : Nat → Rat) (ptq : Nat → List Rat) (wgt : List Nat → Nat → Rat) (x : Nat → Rat) :
    (callOut N shape h nq wq ptq wgt x).distance
      = sumTo (numCells shape) fun c => vol h * (callOut N shape h nq wq ptq wgt x).density (decF shape c) := by
  show cost N shape h nq wq ptq wgt x = _
  unfold cost
  apply sumTo_congr
  intro c hc
  show _ = vol h * transportDensity N shape nq wq ptq wgt x (encF shape (decF shape c))
  rw [encF_decF shape c hc]

/-- the weighted flux is the cell flux scaled by the cell weight, component by component -/
theorem aux_weighted_flux (N : (Nat → Rat) → Rat) (shape : List Nat) (h : List Rat) (nq : Nat) (wq : Nat → Rat)
    (ptq : Nat → List Rat) (wgt : List Nat → Nat → Rat) (x : Nat → Rat) (idx : List Nat) (a : Nat) :
    (callOut N shape h nq wq ptq wgt x).weightedFlux idx a
      = wgt idx a * (callOut N shape h nq wq ptq wgt x).flux idx a := rfl

end Darsia.C04
