/-
C12 — colour balancing recovers exact colour maps and composes correctly.

Composition is proved for all matrices over any commutative ring (row-vector convention of `apply_balance`).
The optimiser (scipy Powell) is NOT modelled: what is proved about the fits is that the least-squares objective
is ≥ 0 everywhere and = 0 at the true map whenever the destination swatches are an exact image of the sources
(so an exact map is a global minimiser: it is recoverable); that Powell gets there within tolerance and never
increases the objective is observed by the check on the implementation.
-/
import DarsiaModel.Balance
import DarsiaProofs.Balance
import DarsiaGen.ColorDtypes
namespace Darsia.C12
open Darsia.Affine Darsia.Balance

variable {α : Type}

/-- `composeSpec` is sequential application: first the accumulated balance, then the stage balance. -/
theorem compose_spec_correct [CommRing α] (prev : Bal α) (s : Stage α) (x : V3 α) :
    (composeSpec prev s).apply x = s.bal.apply (prev.apply x) := by
  simp only [composeSpec, Bal.apply, vecMul_mul, vecMul_add, add_assoc', Stage.bal]

/-- what the (fixed) code accumulates is the specification, for every stage mode. -/
theorem compose_code_eq_spec [CommRing α] (prev : Bal α) (s : Stage α) :
    composeCode prev s = composeSpec prev s := by
  apply Bal.ext'
  · rfl
  · simp only [composeCode, composeSpec, Stage.bal]
    split <;> simp [add_zero']

/-- staged = sequential: after any sequence of stages (any modes, any fitted matrices) applying the
accumulated balance equals applying the stage balances one after the other. -/
theorem staged_eq_sequential [CommRing α] (stages : List (Stage α)) (x : V3 α) :
    (runCode stages).apply x = applySeq stages x := by
  have gen : ∀ (B : Bal α) (y : V3 α), (stages.foldl composeCode B).apply y
      = stages.foldl (fun y s => s.bal.apply y) (B.apply y) := by
    induction stages with
    | nil => intro B y; rfl
    | cons s rest ih =>
      intro B y
      simp only [List.foldl_cons, ih, compose_code_eq_spec, compose_spec_correct]
  simp only [runCode, applySeq, gen, id_apply]

/-- DEFECT of the unfixed tree, as a theorem: accumulating `A_new @ A_prev` (and leaving the translation
untouched in non-affine stages) is not sequential application. Witness: a diagonal stage followed by a
linear stage (non-commuting dyadic matrices). -/
theorem old_compose_not_sequential :
    ∃ (stages : List (Stage Rat)) (x : V3 Rat), (runCodeOld stages).apply x ≠ applySeq stages x :=
  ⟨[⟨.diagonal, ⟨2, 0, 0, 0, 1, 0, 0, 0, 1/2⟩, ⟨0, 0, 0⟩⟩, ⟨.linear, ⟨1, 1/2, 0, 0, 1, 0, 1/4, 0, 1⟩, ⟨0, 0, 0⟩⟩],
    ⟨1, 1, 1⟩, by decide +kernel⟩

/-- … and an affine stage followed by a non-affine one loses the update of the translation. -/
theorem old_compose_translation_stale :
    ∃ (stages : List (Stage Rat)) (x : V3 Rat), (runCodeOld stages).apply x ≠ applySeq stages x :=
  ⟨[⟨.affine, ⟨1, 0, 0, 0, 1, 0, 0, 0, 1⟩, ⟨1, 0, 0⟩⟩, ⟨.diagonal, ⟨2, 0, 0, 0, 2, 0, 0, 0, 2⟩, ⟨0, 0, 0⟩⟩],
    ⟨0, 0, 0⟩, by decide +kernel⟩

/-- why diagonal-then-diagonal passed on the unfixed tree: for commuting stage matrices and a zero accumulated
translation the old accumulation coincides with the specification. -/
theorem old_compose_eq_spec_of_commute [CommRing α] (prev : Bal α) (s : Stage α)
    (hc : M3.mul s.A prev.A = M3.mul prev.A s.A) (hb : prev.b = V3.zero) :
    composeCodeOld prev s = composeSpec prev s := by
  apply Bal.ext'
  · exact hc
  · simp only [composeCodeOld, composeSpec, Stage.bal, hb, vecMul_zero]
    split
    · ext <;> simp [M3.mulVec, V3.zero, V3.add]
    · simp [add_zero']

/-- diagonal matrices commute (instance of the hypothesis above). -/
theorem diag_commute [CommRing α] (a b c d e f : α) :
    M3.mul (⟨a, 0, 0, 0, b, 0, 0, 0, c⟩ : M3 α) ⟨d, 0, 0, 0, e, 0, 0, 0, f⟩
      = M3.mul ⟨d, 0, 0, 0, e, 0, 0, 0, f⟩ ⟨a, 0, 0, 0, b, 0, 0, 0, c⟩ := by
  ext <;> simp [M3.mul] <;> ring

/-- exact maps are recoverable (objective part): if every destination swatch is the image of its source
swatch under `truth`, the least-squares objective vanishes at `truth` … -/
theorem residual_at_truth_zero [CommRing α] (truth : Bal α) (src : List (V3 α)) :
    residual truth (src.map fun s => (s, truth.apply s)) = 0 := by
  induction src with
  | nil => rfl
  | cons s rest ih =>
    simp only [List.map_cons, residual, ih, V3.sub, V3.dot]; ring

/-- … and is nowhere negative, so `truth` is a global minimiser of what `find_balance` minimises. -/
theorem residual_nonneg [Field α] [LinearOrder α] [IsStrictOrderedRing α] (B : Bal α)
    (pairs : List (V3 α × V3 α)) : 0 ≤ residual B pairs := by
  induction pairs with
  | nil => simp [residual]
  | cons p rest ih =>
    obtain ⟨s, d⟩ := p
    simp only [residual, V3.dot]
    have h1 := mul_self_nonneg (V3.sub (B.apply s) d).x
    have h2 := mul_self_nonneg (V3.sub (B.apply s) d).y
    have h3 := mul_self_nonneg (V3.sub (B.apply s) d).z
    linarith

/-- (corollary of `compose_code_eq_spec` and `compose_spec_correct`, restated for one stage.) what the code accumulates after a
stage, applied to x, is the stage balance applied to the pre-balanced x. -/
theorem staged_truth_reproduces [CommRing α] (prev : Bal α) (s : Stage α) (x : V3 α) :
    (composeCode prev s).apply x = s.bal.apply (prev.apply x) := by
  rw [compose_code_eq_spec, compose_spec_correct]

/-! non-vacuity -/
example : (runCode [⟨.diagonal, ⟨2, 0, 0, 0, 1, 0, 0, 0, 1/2⟩, ⟨0, 0, 0⟩⟩,
    ⟨.affine, ⟨1, 1/2, 0, 0, 1, 0, 1/4, 0, 1⟩, ⟨1, 2, 3⟩⟩] : Bal Rat).apply ⟨1, 1, 1⟩ = ⟨25/8, 4, 7/2⟩ := by
  decide +kernel
example : residual (Bal.id : Bal Rat) [(⟨1, 0, 0⟩, ⟨0, 0, 0⟩)] = 1 := by decide +kernel

/-! ## Round 2: array layouts and the ColorCorrection pipeline -/

/-- reshape commutes with the row-vector action: flattening a balanced R×C×3 array is balancing the flat N×3 array
(`apply_balance(s).reshape(-1, 3) = apply_balance(s.reshape(-1, 3))`, e.g. 4×6×3 ↔ 24×3). -/
theorem apply_flatten_commute [CommRing α] (B : Bal α) (g : List (List (V3 α))) :
    (applyGrid B g).flatten = applyFlat B g.flatten := by
  simp only [applyGrid, applyFlat, List.map_flatten]

theorem chunkAux_map {β γ : Type} (f : β → γ) (n fuel : Nat) (l : List β) :
    chunkAux n fuel (l.map f) = (chunkAux n fuel l).map (List.map f) := by
  induction fuel generalizing l with
  | zero => rfl
  | succ k ih =>
    simp only [chunkAux, List.isEmpty_map]
    split
    · rfl
    · rw [← List.map_drop, ih, List.map_cons, List.map_take]

/-- … and the other direction: reshaping a balanced flat N×3 array into rows of length C is balancing the reshaped
array (`apply_balance(s.reshape(-1, C, 3)) = apply_balance(s).reshape(-1, C, 3)`). -/
theorem apply_chunk_commute [CommRing α] (B : Bal α) (n : Nat) (l : List (V3 α)) :
    chunk n (applyFlat B l) = applyGrid B (chunk n l) := by
  simp only [chunk, applyFlat, applyGrid, List.length_map, chunkAux_map]

/-- row slicing commutes with balancing: the grey row `swatches[-1]` and the colour rows `swatches[:-1]` of the balanced
grid are the balanced grey row / colour rows. -/
theorem apply_rows_commute [CommRing α] (B : Bal α) (g : List (List (V3 α))) :
    (applyGrid B g).dropLast = applyGrid B g.dropLast ∧
    (applyGrid B g).getLast? = g.getLast?.map (applyFlat B) := by
  constructor
  · simp only [applyGrid, List.map_dropLast]
  · simp only [applyGrid, List.getLast?_map]; rfl

/-- ColorCorrection pipeline (white balance, then colour balance): every corrected pixel is the colour stage's balance
applied to the white-balanced pixel; without white balancing it is the colour stage alone. -/
theorem pipeline_is_composition [CommRing α] (wbOn : Bool) (wb col : Stage α) (img : List (List (V3 α))) :
    pipeline wbOn wb col img =
      img.map fun row => row.map fun x => col.bal.apply (if wbOn then wb.bal.apply x else x) := by
  simp only [pipeline, applyGrid]
  congr 1; funext row; congr 1; funext x
  rw [staged_eq_sequential]
  cases wbOn <;> simp [pipelineStages, applySeq]

/-- explicit form with a diagonal white balance D and an affine colour balance (A, b): x ↦ x·D·A + b. -/
theorem pipeline_explicit [CommRing α] (D A : M3 α) (b x : V3 α) :
    (runCode (pipelineStages true ⟨.diagonal, D, V3.zero⟩ ⟨.affine, A, b⟩)).apply x
      = V3.add (vecMul x (M3.mul D A)) b := by
  rw [staged_eq_sequential]
  simp [pipelineStages, applySeq, Stage.bal, Bal.apply, vecMul_mul, add_zero']

/-- (a rewrite of its hypothesis through `pipeline_is_composition`; no further content.) exact fits reproduce the colour rows: if the colour stage maps every white-balanced colour swatch exactly onto its
reference, the corrected colour swatches ARE the references (the grey row is in general not preserved by the
second stage — white balance is only a pre-conditioner). -/
theorem pipeline_colour_rows_exact [CommRing α] (wb col : Stage α) (ref : V3 α → V3 α) (rows : List (List (V3 α)))
    (h : ∀ row ∈ rows, ∀ s ∈ row, col.bal.apply (wb.bal.apply s) = ref s) :
    pipeline true wb col rows = rows.map fun row => row.map ref := by
  rw [pipeline_is_composition]
  apply List.map_congr_left; intro row hr
  apply List.map_congr_left; intro s hs
  simpa using h row hr s hs

example : chunk 2 [1, 2, 3, 4, 5, 6] = [[1, 2], [3, 4], [5, 6]] := by decide
example : pipeline true ⟨.diagonal, ⟨2, 0, 0, 0, 1, 0, 0, 0, 1/2⟩, ⟨0, 0, 0⟩⟩
    ⟨.affine, ⟨1, 1/2, 0, 0, 1, 0, 1/4, 0, 1⟩, ⟨1, 2, 3⟩⟩ [[(⟨1, 1, 1⟩ : V3 Rat)]] = [[⟨25/8, 4, 7/2⟩]] := by
  decide +kernel

/-- the stage order is part of the pipeline: fitting / composing colour balance first and white balance second is a
different map in general (witness), so "white balance, then colour balance" cannot be swapped silently. -/
theorem pipeline_order_matters :
    ∃ (wb col : Stage Rat) (x : V3 Rat), (runCode [wb, col]).apply x ≠ (runCode [col, wb]).apply x :=
  ⟨⟨.diagonal, ⟨2, 0, 0, 0, 1, 0, 0, 0, 1/2⟩, ⟨0, 0, 0⟩⟩, ⟨.affine, ⟨1, 1/2, 0, 0, 1, 0, 1/4, 0, 1⟩, ⟨1, 2, 3⟩⟩,
    ⟨1, 1, 1⟩, by decide +kernel⟩

/-- one-shot entry points (`balance(img, src, dst)`, shortcut functions): after the fit they return `apply_balance` of
the fitted balance, translation included, on every pixel of a flat or gridded array. -/
theorem call_is_apply_after_fit [CommRing α] (s : Stage α) (img : List (List (V3 α))) :
    applyGrid (runCode [s]) img = img.map fun row => row.map s.bal.apply := by
  simp only [applyGrid]
  congr 1; funext row; congr 1; funext x
  rw [staged_eq_sequential]; simp [applySeq]

/-! ## Round 3: converse and optimiser contract -/

section contract
variable [Field α] [LinearOrder α] [IsStrictOrderedRing α]

theorem dot_self_eq_zero (r : V3 α) (h : V3.dot r r = 0) : r.x = 0 ∧ r.y = 0 ∧ r.z = 0 := by
  simp only [V3.dot] at h
  have h1 := mul_self_nonneg r.x
  have h2 := mul_self_nonneg r.y
  have h3 := mul_self_nonneg r.z
  refine ⟨mul_self_eq_zero.mp (by linarith), mul_self_eq_zero.mp (by linarith), mul_self_eq_zero.mp (by linarith)⟩

/-- CONVERSE: a balance whose least-squares objective vanishes reproduces every destination swatch exactly (so "minimiser
of an exactly solvable fit ⇒ reproduces the destinations"). -/
theorem residual_zero_reproduces (B : Bal α) (pairs : List (V3 α × V3 α)) (h : residual B pairs = 0) :
    ∀ p ∈ pairs, B.apply p.1 = p.2 := by
  induction pairs with
  | nil => intro p hp; simp at hp
  | cons q rest ih =>
    obtain ⟨s, d⟩ := q
    simp only [residual] at h
    have hr := residual_nonneg B rest
    have hd : 0 ≤ V3.dot (V3.sub (B.apply s) d) (V3.sub (B.apply s) d) := by
      simp only [V3.dot]
      have h1 := mul_self_nonneg (V3.sub (B.apply s) d).x
      have h2 := mul_self_nonneg (V3.sub (B.apply s) d).y
      have h3 := mul_self_nonneg (V3.sub (B.apply s) d).z
      linarith
    have hd0 : V3.dot (V3.sub (B.apply s) d) (V3.sub (B.apply s) d) = 0 := by linarith
    have hrest : residual B rest = 0 := by linarith
    intro p hp
    rcases List.mem_cons.mp hp with rfl | hp'
    · obtain ⟨hx, hy, hz⟩ := dot_self_eq_zero _ hd0
      simp only [V3.sub] at hx hy hz
      ext <;> [exact sub_eq_zero.mp hx; exact sub_eq_zero.mp hy; exact sub_eq_zero.mp hz]
    · exact ih hrest p hp'

/-- residual = 0 ⇔ every destination reproduced. -/
theorem residual_zero_iff (B : Bal α) (pairs : List (V3 α × V3 α)) :
    residual B pairs = 0 ↔ ∀ p ∈ pairs, B.apply p.1 = p.2 := by
  refine ⟨residual_zero_reproduces B pairs, ?_⟩
  intro h
  induction pairs with
  | nil => rfl
  | cons q rest ih =>
    obtain ⟨s, d⟩ := q
    have hq := h (s, d) (by simp)
    simp only at hq
    simp only [residual, hq, ih (fun p hp => h p (by simp [hp])), V3.sub, V3.dot]; ring

/-- ε-BRIDGE: objective within tolerance ⇒ every destination within tolerance. If the least-squares objective of a balance is
at most ε, the squared distance of every balanced source swatch to its destination is at most ε (each term of a sum of
non-negative terms is bounded by the sum). This connects what a float optimiser actually delivers (objective ~1e-10, never 0)
to the statement "reproduces the destinations within tolerance": max-norm error ≤ √ε. -/
theorem residual_le_bound (B : Bal α) (pairs : List (V3 α × V3 α)) (ε : α) (h : residual B pairs ≤ ε) :
    ∀ p ∈ pairs, V3.dot (V3.sub (B.apply p.1) p.2) (V3.sub (B.apply p.1) p.2) ≤ ε := by
  induction pairs generalizing ε with
  | nil => intro p hp; simp at hp
  | cons q rest ih =>
    obtain ⟨s, d⟩ := q
    simp only [residual] at h
    have hr := residual_nonneg B rest
    have hd : 0 ≤ V3.dot (V3.sub (B.apply s) d) (V3.sub (B.apply s) d) := by
      simp only [V3.dot]
      have h1 := mul_self_nonneg (V3.sub (B.apply s) d).x
      have h2 := mul_self_nonneg (V3.sub (B.apply s) d).y
      have h3 := mul_self_nonneg (V3.sub (B.apply s) d).z
      linarith
    intro p hp
    rcases List.mem_cons.mp hp with rfl | hp'
    · simp only; linarith
    · exact ih (ε - V3.dot (V3.sub (B.apply s) d) (V3.sub (B.apply s) d)) (by linarith) p hp' |>.trans (by linarith)

/-- … in particular each coordinate: |component error|² ≤ ε. -/
theorem residual_le_bound_component (B : Bal α) (pairs : List (V3 α × V3 α)) (ε : α) (h : residual B pairs ≤ ε) :
    ∀ p ∈ pairs, (V3.sub (B.apply p.1) p.2).x * (V3.sub (B.apply p.1) p.2).x ≤ ε ∧
      (V3.sub (B.apply p.1) p.2).y * (V3.sub (B.apply p.1) p.2).y ≤ ε ∧
      (V3.sub (B.apply p.1) p.2).z * (V3.sub (B.apply p.1) p.2).z ≤ ε := by
  intro p hp
  have hb := residual_le_bound B pairs ε h p hp
  simp only [V3.dot] at hb
  have h1 := mul_self_nonneg (V3.sub (B.apply p.1) p.2).x
  have h2 := mul_self_nonneg (V3.sub (B.apply p.1) p.2).y
  have h3 := mul_self_nonneg (V3.sub (B.apply p.1) p.2).z
  exact ⟨by linarith, by linarith, by linarith⟩

/-- (idealised limit of `residual_le_bound`, ε = 0: no float optimiser output satisfies the hypothesis exactly.) on an exactly
solvable fit (destinations = `truth` applied to the sources) ANY balance whose objective is not larger than the truth's reproduces
the destinations exactly. -/
theorem exact_fit_reproduces (truth B : Bal α) (src : List (V3 α))
    (hB : residual B (src.map fun s => (s, truth.apply s)) ≤ residual truth (src.map fun s => (s, truth.apply s))) :
    ∀ s ∈ src, B.apply s = truth.apply s := by
  rw [residual_at_truth_zero] at hB
  have h0 : residual B (src.map fun s => (s, truth.apply s)) = 0 := le_antisymm hB (residual_nonneg _ _)
  intro s hs
  exact residual_zero_reproduces B _ h0 (s, truth.apply s) (List.mem_map.mpr ⟨s, hs, rfl⟩)

end contract

/-- clipping (`clip = True`) keeps every corrected value in [0, 1] and leaves values already there unchanged. -/
theorem clip01_range (x : Rat) : 0 ≤ clip01 x ∧ clip01 x ≤ 1 ∧ (0 ≤ x → x ≤ 1 → clip01 x = x) := by
  unfold clip01
  refine ⟨le_max_left _ _, max_le (by norm_num) (min_le_right _ _), fun h0 h1 => ?_⟩
  rw [min_eq_left h1, max_eq_right h0]

/-! ## Round 4: dtype path of `ColorCorrection.correct_array` (G1 table, re-tabulated from the running code) -/

/-- (`decide` over a table READ from the implementation; the dtype path is not a clause of C12 - an observation kept as a regression
obligation.) every accepted input gives a float32 result: inactive corrections for every tabulated dtype, active ones (both
balancing branches) for uint8, uint16, float32, float64. -/
theorem color_dtype_float32 :
    (∀ dt ∈ Gen.CDT.all, ∀ colour ∈ [true, false], Gen.colorCorrectionDtype dt false colour = .ok .f32) ∧
    (∀ dt ∈ [Gen.CDT.u8, .u16, .f32, .f64], ∀ colour ∈ [true, false], Gen.colorCorrectionDtype dt true colour = .ok .f32) := by
  decide

/-- (same status as `color_dtype_float32`.) every other tabulated dtype is rejected by an active correction with a ValueError
(never converted silently). -/
theorem color_dtype_rejects :
    ∀ dt ∈ [Gen.CDT.i16, .i64, .b], ∀ colour ∈ [true, false], Gen.colorCorrectionDtype dt true colour = .error .value := by
  decide

/-! ## Round 6: `reset()` on long-lived balance objects -/

/-- `reset()` forgets the whole history: whatever was fitted before (incl. a non-zero translation), the operations after the
last reset act like on a fresh object. -/
theorem reset_forgets_history [CommRing α] (pre post : List (BalOp α)) :
    runOps (pre ++ [.reset] ++ post) = runOps post := by
  simp only [runOps, List.foldl_append, List.foldl_cons, List.foldl_nil, balStep]

/-- without resets the operations are the staged accumulation of `runCode`. -/
theorem runOps_stages [CommRing α] (stages : List (Stage α)) : runOps (stages.map BalOp.stage) = runCode stages := by
  simp only [runOps, runCode, List.foldl_map, balStep]

/-- right after `reset()` the balance is the identity map on colours. -/
theorem reset_is_identity [CommRing α] (pre : List (BalOp α)) (x : V3 α) : (runOps (pre ++ [.reset])).apply x = x := by
  simp only [runOps, List.foldl_append, List.foldl_cons, List.foldl_nil, balStep, id_apply]

end Darsia.C12
