/-
C19 — patching tiles an image exactly.

Model: `DarsiaModel.Patches` (index grids; numpy slicing = drop/take) on top of `DarsiaModel.Coord`.
All theorems hold for every extent `N`, every patch count `n ≥ 1` and every overlap `ov ≤ pv`;
the tiling theorems hold for EVERY patch size `pv` with `n · pv ≥ N` (so they do not depend on how
`pv` was rounded), and `pv = ⌈N/n⌉` satisfies that.
-/
import DarsiaProofs.Patches
import DarsiaProofs.PatchesImg
namespace Darsia.C19
open Darsia Darsia.Patch Darsia.Im

/-- patch size: the code computes `pv = -(-N // n)` (`pvInt`, integer arithmetic, since fix 3bb4cd3); this theorem records
that it is `⌈N/n⌉`, equals — in exact arithmetic — the metric formula `ceil((D/n)/(D/N))` the code used before (whose float
evaluation was the defect), and satisfies `N ≤ n·pv < N + n`. -/
theorem pv_eq_ceil (D : Rat) (N n : Nat) (hD : 0 < D) (hN : 0 < N) (hn : 0 < n) :
    pvRat D N n = (pvInt N n : Int) ∧ N ≤ n * pvInt N n ∧ n * pvInt N n < N + n :=
  ⟨pvRat_eq_pvInt D N n hD hN hn, pvInt_bounds N n hn⟩

/-- relative overlaps in [0, 1] give `0 ≤ ov ≤ pv` (the guard of the tiling theorems). -/
theorem ov_le_pv (rel D : Rat) (N n : Nat) (hD : 0 < D) (hN : 0 < N) (hn : 0 < n) (h0 : 0 ≤ rel) (h1 : rel ≤ 1) :
    0 ≤ ovRat rel D N n ∧ ovRat rel D N n ≤ (pvInt N n : Int) := ov_bounds rel D N n hD hN hn h0 h1

/-- `patches[i][j].img[relative_rois_without_overlap[i][j]]` is the block of the base image with
rows `[min(i·pv, N0), min((i+1)·pv, N0))` and columns likewise — whatever the overlap. -/
theorem rel_roi_is_interior (a0 a1 : Axis) (h0 : a0.ov ≤ a0.pv) (h1 : a1.ov ≤ a1.pv) (i j : Nat) :
    pieceImg a0 a1 i j =
      grid (List.range' (min (i * a0.pv) a0.N) (min ((i + 1) * a0.pv) a0.N - min (i * a0.pv) a0.N))
           (List.range' (min (j * a1.pv) a1.N) (min ((j + 1) * a1.pv) a1.N - min (j * a1.pv) a1.N)) := by
  rw [pieceImg_eq, piece_eq a0 i h0, piece_eq a1 j h1]

/-- the interiors tile each axis: concatenated in order they are exactly `0, 1, …, N-1`
(no gap, no double cover), for every `N`, `n`, `pv`, `ov` with `ov ≤ pv` and `n·pv ≥ N`. -/
theorem interiors_partition (a : Axis) (hov : a.ov ≤ a.pv) (hcover : a.N ≤ a.n * a.pv) :
    (List.range a.n).flatMap a.piece = List.range a.N := pieces_partition a hov hcover

/-- … and in particular for the patch size the code uses. -/
theorem interiors_partition_pv (N n ov : Nat) (hn : 0 < n) (hov : ov ≤ pvInt N n) :
    (List.range n).flatMap (Axis.piece ⟨N, n, pvInt N n, ov⟩) = List.range N :=
  pieces_partition ⟨N, n, pvInt N n, ov⟩ hov (pvInt_bounds N n hn).1

/-- re-assembly reproduces the image: `Patches.assemble()` is the identity index grid. -/
theorem assemble_id (a0 a1 : Axis) (h0 : a0.ov ≤ a0.pv) (h1 : a1.ov ≤ a1.pv)
    (c0 : a0.N ≤ a0.n * a0.pv) (c1 : a1.N ≤ a1.n * a1.pv) (hn1 : 0 < a1.n) :
    assemble a0 a1 = baseGrid a0 a1 := by
  rw [assemble_eq a0 a1 hn1, pieces_partition a0 h0 c0, pieces_partition a1 h1 c1]; rfl

/-- each patch is the contiguous block of the base image that starts at its (clipped) ROI corner:
entry (r, c) of patch (i, j) is base entry (lo0 + r, lo1 + c). With `ov = 0` the corner is the
advertised `global_corners_voxels` corner `(i·pv, j·pv)` whenever that lies in the image. -/
theorem patch_is_subimage (a0 a1 : Axis) (i j : Nat) :
    patchImg a0 a1 i j =
      grid (List.range' (min (i * a0.pv - a0.ov) a0.N) (min ((i + 1) * a0.pv + a0.ov) a0.N - min (i * a0.pv - a0.ov) a0.N))
           (List.range' (min (j * a1.pv - a1.ov) a1.N) (min ((j + 1) * a1.pv + a1.ov) a1.N - min (j * a1.pv - a1.ov) a1.N)) := by
  rw [patchImg_eq]; unfold Axis.data Axis.roi; rw [sliceL_range, sliceL_range]

/-- the hard-coded layout of the physical patch centres (`+x` with the column index, `−y` with the
row index) is the base image's coordinate system: the advertised physical centre of patch (i, j) is
`coordinate` of the fractional voxel `((i+½)·N0/n0, (j+½)·N1/n1)`, and the advertised voxel centre
(`voxel` of it) is its componentwise floor. -/
theorem centres_voxel_physical_agree (cs : CS) (hcs : cs.ok) (hd : cs.dim = .d2) (n0 n1 i j : Nat)
    (hn0 : 0 < n0) (hn1 : 0 < n1) :
    let w := [((i : Rat) + 1 / 2) * (((listGetD cs.shape 0 0 : Nat) : Rat) / (n0 : Rat)),
              ((j : Rat) + 1 / 2) * (((listGetD cs.shape 1 0 : Nat) : Rat) / (n1 : Rat))]
    cs.coordinate w = .ok (centerCart cs n0 n1 i j) ∧ centerVox cs n0 n1 i j = .ok (w.map Rat.floor) := by
  intro w
  have ham : axisMap .d2 = .ok [(1, false), (0, true)] := by decide
  have hwf : AxisMap.wf [(1, false), (0, true)] .d2 = true := by decide
  have hco : coordWith [(1, false), (0, true)] cs w = centerCart cs n0 n1 i j := by
    have hs := hcs.shapeLen
    have hp := hcs.shapePos
    obtain ⟨d, shape, dims, origin⟩ := cs
    simp only at hd; subst hd
    obtain ⟨N0, N1, rfl⟩ := len2 hs
    have q0 : ((N0 : Nat) : Rat) ≠ 0 := by exact_mod_cast (Nat.pos_iff_ne_zero.mp (hp N0 (by simp)))
    have q1 : ((N1 : Nat) : Rat) ≠ 0 := by exact_mod_cast (Nat.pos_iff_ne_zero.mp (hp N1 (by simp)))
    have m0 : (n0 : Rat) ≠ 0 := by exact_mod_cast (Nat.pos_iff_ne_zero.mp hn0)
    have m1 : (n1 : Rat) ≠ 0 := by exact_mod_cast (Nat.pos_iff_ne_zero.mp hn1)
    simp only [w, coordWith, centerCart, List.zipIdx, List.map, coordAx, CS.h, listGetD, sgn,
      List.getElem?_cons_zero, List.getElem?_cons_succ, Option.getD_some, if_true, Bool.false_eq_true, if_false]
    congr 1
    · field_simp
    · congr 1; field_simp
  refine ⟨?_, ?_⟩
  · simp only [CS.coordinate, hd, ham, Except.map]; rw [hco]
  · simp only [centerVox, CS.voxel, hd, ham, Except.map]
    rw [← hco, voxel_coord_floor_with cs hcs _ (by rw [hd]; exact hwf) w (by rw [hd]; rfl)]

/-- when the patch count divides the extent: voxel corners and physical corners coincide, and the
advertised voxel centre lies in the interior of its patch. -/
theorem corners_centres_agree_of_dvd (D : Rat) (n k i : Nat) (hD : 0 < D) (hn : 0 < n) (hk : 0 < k) :
    cornerMetricVox D (n * k) n i = ((i * pvInt (n * k) n : Nat) : Rat) ∧
    ((i * pvInt (n * k) n : Nat) : Int) ≤ Rat.floor (((i : Rat) + 1 / 2) * (((n * k : Nat) : Rat) / (n : Rat))) ∧
    Rat.floor (((i : Rat) + 1 / 2) * (((n * k : Nat) : Rat) / (n : Rat))) < (((i + 1) * pvInt (n * k) n : Nat) : Int) :=
  ⟨corner_agree_of_dvd D n k i hD hn hk, center_in_patch_of_dvd n k i hn hk⟩

/-- KNOWN FINDING (negative result, concrete witness): when `n ∤ N` the advertised voxel corners
`i·⌈N/n⌉` and the advertised physical corners `i·D/n` are different points — N = 7, n = 3, i = 1:
voxel corner 3, physical corner at 7/3 voxels (in voxel 2). The full statement
"corners in voxel and physical units agree" therefore holds only in the `_of_dvd` form above. -/
theorem corners_voxel_physical_disagree_witness :
    Axis.cornerLo ⟨7, 3, pvInt 7 3, 0⟩ 1 = 3 ∧ cornerMetricVox 1 7 3 1 = 7 / 3 ∧
      Rat.floor (cornerMetricVox 1 7 3 1) = 2 := by decide +kernel

/-- END TO END: for every well-formed 2-D geometry, positive patch counts and relative overlap in [0, 1], the axes the code
derives (`axesOf`: `pv = ⌈N/n⌉`, `ov = ceil(rel·(D/n)/(D/N))`) make `assemble()` the identity grid — `interiors_partition_pv`,
`ov_le_pv` and `assemble_id` composed, no hypothesis on `pv`/`ov` left. -/
theorem assemble_patches_id (cs : CS) (hcs : cs.ok) (hd : cs.dim = .d2) (n0 n1 : Nat) (hn0 : 0 < n0) (hn1 : 0 < n1)
    (rel : Rat) (h0 : 0 ≤ rel) (h1 : rel ≤ 1) :
    assemble (axesOf cs n0 n1 rel).1 (axesOf cs n0 n1 rel).2 = baseGrid (axesOf cs n0 n1 rel).1 (axesOf cs n0 n1 rel).2 :=
  assemble_axesOf cs hcs hd n0 n1 hn0 hn1 rel h0 h1

/-- GUARD of the model's `hstack` (`zipWith (++)`, which would silently truncate where `np.hstack` raises on unequal row
counts): in `assemble` every strip is stacked from pieces with the SAME number of rows — the number of rows of the interior
of row-patch `i`, independent of the column patch `j` — so numpy's error path is never taken and no truncation happens. -/
theorem hstack_rows_agree (a0 a1 : Axis) (i j : Nat) : (pieceImg a0 a1 i j).length = (a0.piece i).length := by
  rw [pieceImg_eq]; simp [grid]

/-- the advertised voxel corners (`global_corners_voxels`: `cornerLo = i·pv`, `cornerHi = min(N, (i+1)·pv)`) delimit the
interior of the patch, whatever the overlap, for every patch that starts inside the image; and the patch WITH overlap is
the block `[max(cornerLo − ov, 0), min((i+1)·pv + ov, N))` (`patch_is_subimage`). -/
theorem corners_delimit_interior (a : Axis) (i : Nat) (hov : a.ov ≤ a.pv) (hin : i * a.pv ≤ a.N) :
    a.piece i = List.range' (a.cornerLo i) (a.cornerHi i - a.cornerLo i) := piece_eq_corners a i hov hin

/-- KNOWN FINDING (negative, concrete witness): when `n ∤ N` the advertised voxel CENTRE of a patch, `⌊(i+½)·N/n⌋`, can lie
outside the interior of that patch: N = 7, n = 3, i = 2: centre voxel 5, interior of patch 2 is `[6]`. -/
theorem centre_outside_patch_witness :
    Rat.floor (((2 : Rat) + 1 / 2) * ((7 : Rat) / 3)) = 5 ∧ Axis.piece ⟨7, 3, pvInt 7 3, 0⟩ 2 = [6] := by decide +kernel

/-! ### round 2: patches as images (metadata + pixel array, scalar and vector payload), counting form, blending -/

/-- PER-PATCH METADATA AND DATA = the C02 sub-image theorem instantiated at `rois[i][j]`: a non-empty patch (i, j)
of a 2-D single-time image (scalar or vector payload) has shape `stop − start` (ROI clipped to the image), every
(fractional) voxel position `v` of the patch has the base coordinate of `v + start`, the voxel size is the base's,
time/date/payload flags are the base's, and entry (v, c) of its pixel array is base entry (v + start, c). -/
theorem patch_metadata (base P : ImgA) (a0 a1 : Axis) (i j : Nat) (hcs : base.md.cs.ok) (hd : base.md.cs.dim = .d2)
    (hsh : base.md.cs.shape = [a0.N, a1.N]) (h : patchOf base a0 a1 i j = .ok P) (hne : P.md.nonempty = true) :
    let start := [min (a0.roi i).1 a0.N, min (a1.roi j).1 a1.N]
    ∃ am, axisMap .d2 = .ok am ∧
      P.md.cs.shape = [min (a0.roi i).2 a0.N - min (a0.roi i).1 a0.N, min (a1.roi j).2 a1.N - min (a1.roi j).1 a1.N] ∧
      (∀ v : List Rat, v.length = 2 → coordWith am P.md.cs v = coordWith am base.md.cs (List.zipWith (· + ·) v (start.map fun s => ((s : Nat) : Rat)))) ∧
      (∀ p, p < 2 → P.md.cs.h p = base.md.cs.h p) ∧
      P.md.time = base.md.time ∧ P.md.date = base.md.date ∧ P.md.scalar = base.md.scalar ∧
      (∀ (t : Nat) (v : List Nat) (c : List Nat), v.length = 2 → P.data t v c = base.data t (List.zipWith (· + ·) v start) c) := by
  intro start
  unfold patchOf at h
  simp only [bind, Except.bind] at h
  split at h
  · exact absurd h (by simp)
  · have hm : base.md.subSlices (patchSlices a0 a1 i j) = .ok P.md := by
      unfold ImgA.subSlices at h
      simp only [bind, Except.bind, pure, Except.pure] at h
      split at h
      · exact absurd h (by simp)
      · next m hm => injection h with h; subst h; exact hm
    have hns : List.zipWith sliceIdx base.md.cs.shape (patchSlices a0 a1 i j) =
        [(min (a0.roi i).1 a0.N, min (a0.roi i).2 a0.N), (min (a1.roi j).1 a1.N, min (a1.roi j).2 a1.N)] := by
      rw [hsh]; simp only [patchSlices, List.zipWith_cons_cons, List.zipWith_nil_right, sliceIdx_nat]
    have := subSlices_placed base.md P.md hcs (patchSlices a0 a1 i j) hm hne
    simp only [hns, hd] at this
    obtain ⟨am, ham, s1, _, s3, s4, s5, s6, _, _, s10⟩ := this
    refine ⟨am, ham, by simpa using s1, ?_, ?_, s5, s6, s10, ?_⟩
    · intro v hv; simpa [Dim.toNat, start] using s3 v (by simpa [Dim.toNat] using hv)
    · intro p hp; exact s4 p (by simpa [Dim.toNat] using hp)
    · intro t v c hv
      have := subSlices_data base P (patchSlices a0 a1 i j) h (by rw [hsh, hd]; rfl) t v (by rw [hd]; exact hv) c
      rw [hns] at this
      exact this

/-- `Patches` refuses 3-D images and space-time images (NotImplementedError), whatever the patch counts. -/
theorem patches_refuse_3d_and_series (base : ImgA) (a0 a1 : Axis) (i j : Nat)
    (h : base.md.cs.dim = .d3 ∨ base.md.series = true) : patchOf base a0 a1 i j = .error .notImpl := by
  unfold patchOf buildGuard
  rcases h with h | h
  · simp [h, bind, Except.bind]
  · by_cases h3 : base.md.cs.dim = .d3 <;> simp [h, h3, bind, Except.bind]

/-- COUNTING form of the tiling: every pixel of an axis lies in the interior of EXACTLY ONE patch. -/
theorem interiors_cover_once (a : Axis) (hov : a.ov ≤ a.pv) (hcover : a.N ≤ a.n * a.pv) (x : Nat) (hx : x < a.N) :
    ((List.range a.n).map fun k => (a.piece k).count x).sum = 1 := cover_count_one a hov hcover x hx

/-- KNOWN FINDING (negative): `blend_and_assemble` as the code stands raises on every call (`_prepare_weights` reads
`self.pw`, `self.ph`, `self.ow`, … and `base.num_pixels_width`, which no longer exist), so neither
"zero overlap ⇒ equals assemble()" nor "blending unmodified patches reproduces the image" holds for the code. -/
theorem blend_and_assemble_unusable (a0 a1 : Axis) : blendAndAssemble a0 a1 = .error .other := rfl  -- definitional: the model records the error class; the exact exception (AttributeError on `pw`) is pinned by the known-finding signature

/-- SPECIFICATION a repaired blending has to meet (not the code): weights that sum to one at a pixel, applied to
patches that all hold the base value there, give the base value; the interior indicators (zero-overlap blending,
i.e. `assemble`) are such weights on every pixel of the image. -/
theorem blend_spec_partial (a : Axis) (hov : a.ov ≤ a.pv) (hcover : a.N ≤ a.n * a.pv) (x : Nat) (hx : x < a.N) :
    ((List.range a.n).map (interiorWeight a x)).sum = 1 ∧
    ∀ (w val : Nat → Rat) (b : Rat), ((List.range a.n).map w).sum = 1 → (∀ k, k < a.n → w k ≠ 0 → val k = b) →
      blendAt w val a.n = b :=
  ⟨interiorWeight_sum_one a hov hcover x hx, fun w val b h1 hv => blend_partition_of_unity w val a.n b h1 hv⟩

/-- `Patches.position`: with at least two patches per axis, the first patch is left/bottom, the last right/top and all others
internal — a total classification; with ONE patch per axis the single patch is classified left/bottom only (the `elif`). -/
theorem position_classifies (n0 n1 i j : Nat) (hi : i < n0) (hj : j < n1) :
    ((position n0 n1 i j).1 = .left ↔ i = 0) ∧ ((position n0 n1 i j).1 = .right ↔ (i = n0 - 1 ∧ i ≠ 0)) ∧
    ((position n0 n1 i j).2 = .bottom ↔ j = 0) ∧ ((position n0 n1 i j).2 = .top ↔ (j = n1 - 1 ∧ j ≠ 0)) := by
  unfold position
  refine ⟨?_, ?_, ?_, ?_⟩
  · by_cases h : i = 0 <;> simp [h]; split <;> simp
  · by_cases h : i = 0
    · simp [h]
    · have : 0 < n0 := by omega
      by_cases h2 : i = n0 - 1 <;> simp [h, h2, this]
  · by_cases h : j = 0 <;> simp [h]; split <;> simp
  · by_cases h : j = 0
    · simp [h]
    · have : 0 < n1 := by omega
      by_cases h2 : j = n1 - 1 <;> simp [h, h2, this]

/-- the public tables enumerate every patch exactly once, rows outer, columns inner. -/
theorem patch_order (n0 n1 : Nat) :
    (patchOrder n0 n1).length = n0 * n1 ∧ ∀ i j, i < n0 → j < n1 → (patchOrder n0 n1)[i * n1 + j]? = some (i, j) := by
  constructor
  · unfold patchOrder
    induction n0 with
    | zero => simp
    | succ k ih => rw [List.range_succ, List.flatMap_append, List.length_append, ih]; simp; ring
  · intro i j hi hj
    unfold patchOrder
    induction n0 generalizing i with
    | zero => omega
    | succ k ih =>
      rw [List.range_succ, List.flatMap_append]
      have hlen : ((List.range k).flatMap fun i => (List.range n1).map fun j => (i, j)).length = k * n1 := by
        clear ih hi
        induction k with
        | zero => simp
        | succ m ihm => rw [List.range_succ, List.flatMap_append, List.length_append, ihm]; simp; ring
      by_cases hik : i < k
      · have hlt : i * n1 + j < k * n1 := by
          have : (i + 1) * n1 ≤ k * n1 := Nat.mul_le_mul_right _ hik
          have e : (i + 1) * n1 = i * n1 + n1 := by ring
          omega
        rw [List.getElem?_append_left (by rw [hlen]; exact hlt)]
        exact ih i hik
      · have e : i = k := by omega
        subst e
        rw [List.getElem?_append_right (by rw [hlen]; omega), hlen]
        simp [hj]

/-- float bridge for the overlap `ov = num_voxels(rel · D/n)` = `ceil` of a float quotient whose exact value is `x = rel·N/n`:
an evaluation error `|e| < δ` cannot change `⌈x⌉` unless `x` is within `δ` of an integer from below or IS an integer (breakpoint);
the check measures `e` on every general-stream configuration and counts the breakpoint cases. -/
theorem ov_ceil_bridge (x e δ : Rat) (hlo : ((x.ceil : Int) : Rat) - 1 + δ ≤ x) (hhi : x ≤ ((x.ceil : Int) : Rat) - δ)
    (he : |e| < δ) : Rat.ceil (x + e) = Rat.ceil x := ceil_stable x e δ hlo hhi he

/-! non-vacuity: 7 × 10 voxels, 3 × 4 patches, overlaps 1 and 2 -/
def exA0 : Axis := ⟨7, 3, pvInt 7 3, 1⟩
def exA1 : Axis := ⟨10, 4, pvInt 10 4, 2⟩
example : exA0.ov ≤ exA0.pv ∧ exA1.ov ≤ exA1.pv ∧ exA0.N ≤ exA0.n * exA0.pv ∧ exA1.N ≤ exA1.n * exA1.pv := by decide
example : assemble exA0 exA1 = baseGrid exA0 exA1 := by decide
example : exA0.piece 2 = [6] ∧ exA0.data 1 = [2, 3, 4, 5, 6] ∧ exA1.piece 3 = [9] := by decide
example : pvRat (3 / 2) 7 3 = 3 ∧ ovRat (1 / 4) (3 / 2) 7 3 = 1 := by decide +kernel

end Darsia.C19
