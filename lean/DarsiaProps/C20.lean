/-
C20 — matrix and Cartesian axis conventions are coherent in every dimension.

All table theorems are about `DarsiaGen.IndexingTables`, which is re-tabulated from the running
code on every check (G1): they are re-proved against what the code does now.
-/
import DarsiaModel.Indexing
import DarsiaGen.IndexingTables
import DarsiaProofs.Slice
namespace Darsia.C20
open Darsia

/-- `to_matrix_indexing` is usable for every Cartesian axis of every dimension and agrees with
the coordinate system's table `interpret_indexing` about the matrix position of that axis. -/
theorem to_matrix_agrees_interpret :
    ∀ d ∈ Dim.all, ∀ a ∈ d.cartAxes,
      ∃ m ∈ d.matAxes, ∃ r ∈ [true, false], Gen.toMatrix (.name a) d.cart = .ok m ∧
        Gen.interpret a d.mat = .ok (m.pos, r) := by decide

/-- `to_cartesian_indexing` likewise, in the opposite direction. -/
theorem to_cartesian_agrees_interpret :
    ∀ d ∈ Dim.all, ∀ m ∈ d.matAxes,
      ∃ a ∈ d.cartAxes, ∃ r ∈ [true, false], Gen.toCartesian (.name m) d.mat = .ok a ∧
        Gen.interpret a d.mat = .ok (m.pos, r) := by decide

/-- translating an axis there and back is the identity (both directions). -/
theorem there_and_back :
    ∀ d ∈ Dim.all,
      (∀ a ∈ d.cartAxes, (Gen.toMatrix (.name a) d.cart >>= fun m => Gen.toCartesian (.name m) d.mat) = .ok a) ∧
      (∀ m ∈ d.matAxes, (Gen.toCartesian (.name m) d.mat >>= fun a => Gen.toMatrix (.name a) d.cart) = .ok m) := by
  decide

/-- integer axis arguments mean the axis of that position (`"xyz"[n]`, `"ijk"[n]`). -/
theorem int_axis_eq_named :
    ∀ d ∈ Dim.all, ∀ n : Fin 3, n.val < d.toNat →
      Gen.toMatrix (.idx n) d.cart = Gen.toMatrix (.name (cartAx n.val)) d.cart ∧
      Gen.toCartesian (.idx n) d.mat = Gen.toCartesian (.name (matAx n.val)) d.mat := by decide

/-- the two halves of `interpret_indexing` (image in matrix indexing asked about a Cartesian axis,
image in Cartesian indexing asked about a matrix axis) describe the same correspondence and the
same orientation. -/
theorem interpret_coherent :
    ∀ d ∈ Dim.all, ∀ a ∈ d.cartAxes,
      ∃ p ∈ List.range d.toNat, ∃ r ∈ [true, false], Gen.interpret a d.mat = .ok (p, r) ∧
        Gen.interpret (matAx p) d.cart = .ok (a.pos, r) := by decide

/-- Cartesian axis ↦ matrix position is a bijection in every dimension. -/
theorem interpret_bijective :
    ∀ d ∈ Dim.all, ∀ p ∈ List.range d.toNat,
      ∃ a ∈ d.cartAxes, ∃ r ∈ [true, false], Gen.interpret a d.mat = .ok (p, r) ∧
        ∀ b ∈ d.cartAxes, (∃ r' ∈ [true, false], Gen.interpret b d.mat = .ok (p, r')) → b = a := by decide

/-- The layout helper `matrixToCartesianIndexing` is, axis by axis, exactly what the coordinate
system says: Cartesian axis `a` of the output is matrix axis `pos`, flipped iff reversed. -/
theorem layout_matches_interpret :
    ∀ d ∈ Dim.all,
      (d.cartAxes.mapM fun a => Gen.interpret a d.mat) = Gen.m2c d := by decide

/-- ... hence it places each voxel where the coordinate system says it is: for every shape and
every in-range Cartesian multi-index `c`, the entry at `c` is taken from the voxel `v` with
`v[pos a] = c[a]` (or `N[pos a] - 1 - c[a]` on reversed axes). Stated on the index map. -/
theorem layout_places_voxels (d : Dim) (hd : d ∈ Dim.all) (spec : LayoutSpec) (h : Gen.m2c d = .ok spec)
    (shape out : List Nat) (hs : shape.length = d.toNat) (ho : out.length = d.toNat) :
    ∀ a, (ha : a < d.toNat) → ∃ p r, Gen.interpret (cartAx a) d.mat = .ok (p, r) ∧
      listGetD (spec.pull shape out) p 0 =
        (if r then listGetD shape p 0 - 1 - listGetD out a 0 else listGetD out a 0) := by
  match d, shape, out with
  | .d1, [n0], [c0] =>
    simp only [Gen.m2c] at h; cases h
    intro a ha; match a with
    | 0 => exact ⟨_, _, rfl, by simp [LayoutSpec.pull, listGetD, List.range, List.range.loop, List.zipIdx]⟩
  | .d2, [n0, n1], [c0, c1] =>
    simp only [Gen.m2c] at h; cases h
    intro a ha; match a with
    | 0 => exact ⟨_, _, rfl, by simp [LayoutSpec.pull, listGetD, List.range, List.range.loop, List.zipIdx]⟩
    | 1 => exact ⟨_, _, rfl, by simp [LayoutSpec.pull, listGetD, List.range, List.range.loop, List.zipIdx]⟩
  | .d3, [n0, n1, n2], [c0, c1, c2] =>
    simp only [Gen.m2c] at h; cases h
    intro a ha; match a with
    | 0 => exact ⟨_, _, rfl, by simp [LayoutSpec.pull, listGetD, List.range, List.range.loop, List.zipIdx]⟩
    | 1 => exact ⟨_, _, rfl, by simp [LayoutSpec.pull, listGetD, List.range, List.range.loop, List.zipIdx]⟩
    | 2 => exact ⟨_, _, rfl, by simp [LayoutSpec.pull, listGetD, List.range, List.range.loop, List.zipIdx]⟩
  | .d1, [], _ | .d1, _ :: _ :: _, _ | .d1, [_], [] | .d1, [_], _ :: _ :: _ => simp_all [Dim.toNat]
  | .d2, [], _ | .d2, [_], _ | .d2, _ :: _ :: _ :: _, _ | .d2, [_, _], [] | .d2, [_, _], [_]
  | .d2, [_, _], _ :: _ :: _ :: _ => simp_all [Dim.toNat]
  | .d3, [], _ | .d3, [_], _ | .d3, [_, _], _ | .d3, _ :: _ :: _ :: _ :: _, _ | .d3, [_, _, _], []
  | .d3, [_, _, _], [_] | .d3, [_, _, _], [_, _] | .d3, [_, _, _], _ :: _ :: _ :: _ :: _ => simp_all [Dim.toNat]

/-- the two layout helpers are mutual inverses, for every shape and every in-range index:
pulling an output index of `c2m ∘ m2c` back through both maps returns it. -/
theorem layout_inverse (d : Dim) (s1 s2 : LayoutSpec) (h1 : Gen.m2c d = .ok s1) (h2 : Gen.c2m d = .ok s2)
    (shape v : List Nat) (hv : inBox shape v = true) (hs : shape.length = d.toNat) :
    s2.outShape (s1.outShape shape) = shape ∧
    s1.pull shape (s2.pull (s1.outShape shape) v) = v := by
  match d, shape, v with
  | .d1, [n0], [v0] =>
    simp only [Gen.m2c, Gen.c2m] at h1 h2; cases h1; cases h2
    simp [LayoutSpec.pull, LayoutSpec.outShape, listGetD, List.range, List.range.loop, List.zipIdx]
  | .d2, [n0, n1], [v0, v1] =>
    simp only [Gen.m2c, Gen.c2m] at h1 h2; cases h1; cases h2
    simp [inBox] at hv
    simp [LayoutSpec.pull, LayoutSpec.outShape, listGetD, List.range, List.range.loop, List.zipIdx]
    all_goals omega
  | .d3, [n0, n1, n2], [v0, v1, v2] =>
    simp only [Gen.m2c, Gen.c2m] at h1 h2; cases h1; cases h2
    simp [inBox] at hv
    simp [LayoutSpec.pull, LayoutSpec.outShape, listGetD, List.range, List.range.loop, List.zipIdx]
    all_goals omega
  | .d1, [], _ | .d1, _ :: _ :: _, _ | .d1, [_], [] | .d1, [_], _ :: _ :: _ => simp_all [Dim.toNat, inBox]
  | .d2, [], _ | .d2, [_], _ | .d2, _ :: _ :: _ :: _, _ | .d2, [_, _], [] | .d2, [_, _], [_]
  | .d2, [_, _], _ :: _ :: _ :: _ => simp_all [Dim.toNat, inBox]
  | .d3, [], _ | .d3, [_], _ | .d3, [_, _], _ | .d3, _ :: _ :: _ :: _ :: _, _ | .d3, [_, _, _], []
  | .d3, [_, _, _], [_] | .d3, [_, _, _], [_, _] | .d3, [_, _, _], _ :: _ :: _ :: _ :: _ => simp_all [Dim.toNat, inBox]

/-- … and in the other direction: converting a Cartesian-layout array to matrix layout and back returns it
(`m2c (c2m B) = B`), for every shape of `B` and every in-range index. Together with `layout_inverse` the two helpers are
mutual inverses. -/
theorem layout_inverse' (d : Dim) (s1 s2 : LayoutSpec) (h1 : Gen.m2c d = .ok s1) (h2 : Gen.c2m d = .ok s2)
    (shape v : List Nat) (hv : inBox shape v = true) (hs : shape.length = d.toNat) :
    s1.outShape (s2.outShape shape) = shape ∧
    s2.pull shape (s1.pull (s2.outShape shape) v) = v := by
  match d, shape, v with
  | .d1, [n0], [v0] =>
    simp only [Gen.m2c, Gen.c2m] at h1 h2; cases h1; cases h2
    simp [LayoutSpec.pull, LayoutSpec.outShape, listGetD, List.range, List.range.loop, List.zipIdx]
  | .d2, [n0, n1], [v0, v1] =>
    simp only [Gen.m2c, Gen.c2m] at h1 h2; cases h1; cases h2
    simp [inBox] at hv
    simp [LayoutSpec.pull, LayoutSpec.outShape, listGetD, List.range, List.range.loop, List.zipIdx]
    all_goals omega
  | .d3, [n0, n1, n2], [v0, v1, v2] =>
    simp only [Gen.m2c, Gen.c2m] at h1 h2; cases h1; cases h2
    simp [inBox] at hv
    simp [LayoutSpec.pull, LayoutSpec.outShape, listGetD, List.range, List.range.loop, List.zipIdx]
    all_goals omega
  | .d1, [], _ | .d1, _ :: _ :: _, _ | .d1, [_], [] | .d1, [_], _ :: _ :: _ => simp_all [Dim.toNat, inBox]
  | .d2, [], _ | .d2, [_], _ | .d2, _ :: _ :: _ :: _, _ | .d2, [_, _], [] | .d2, [_, _], [_]
  | .d2, [_, _], _ :: _ :: _ :: _ => simp_all [Dim.toNat, inBox]
  | .d3, [], _ | .d3, [_], _ | .d3, [_, _], _ | .d3, _ :: _ :: _ :: _ :: _, _ | .d3, [_, _, _], []
  | .d3, [_, _, _], [_] | .d3, [_, _, _], [_, _] | .d3, [_, _, _], _ :: _ :: _ :: _ :: _ => simp_all [Dim.toNat, inBox]

/-- The hypotheses of the three layout theorems are met in EVERY dimension: both helpers are tabulated as a permutation
plus flips of the right rank (if a helper stopped being one, the tabulation records an error and this obligation fails —
the layout theorems can therefore not become vacuous unnoticed). -/
theorem layout_specs_exist :
    ∀ d ∈ Dim.all, (Gen.m2c d).toOption.map List.length = some d.toNat ∧
      (Gen.c2m d).toOption.map List.length = some d.toNat := by decide

/-- Addressing an axis by its Cartesian name or by its matrix index selects the same axis, in
slicing (`Image.slice`) and in reduction (`AxisReduction`), and that axis is the one the
coordinate system assigns to the name. -/
theorem slice_reduce_name_eq_index :
    ∀ d ∈ Dim.all, ∀ a ∈ d.cartAxes,
      ∃ p ∈ [(0 : Fin 3), 1, 2], ∃ r ∈ [true, false], Gen.interpret a d.mat = .ok (p.val, r) ∧
        Gen.sliceAxis (.name a) d = .ok p.val ∧ Gen.sliceAxis (.idx p) d = .ok p.val ∧
        Gen.reduceAxis (.name a) d = .ok (p.val, a.pos) ∧ Gen.reduceAxis (.idx p) d = .ok (p.val, a.pos) := by
  decide

/-- base extents of the image the slice table was tabulated on (2 x 3 x 5) -/
def baseExtent : Nat → Nat | 0 => 2 | 1 => 3 | _ => 5

/-- Slicing by Cartesian name at the physical centre of voxel `v` (coordinate computed from the axis table, the origin
and the voxel size — on reversed axes the coordinate DEcreases with the index) selects exactly index `v` of the matrix
axis the coordinate system assigns to the name: name-addressing and index-addressing select the same data. Tabulated
from the running `Image.slice` on the base shape for every dimension, axis and voxel. -/
theorem slice_by_name_selects_voxel :
    ∀ d ∈ Dim.all, ∀ a ∈ d.cartAxes, ∃ p ∈ List.range 3, ∃ r ∈ [true, false],
      Gen.interpret a d.mat = .ok (p, r) ∧ ∀ v ∈ List.range (baseExtent p), Gen.sliceSel a d v = .ok v := by
  decide

/-- NAME = INDEX FOR ALL SHAPES (model `DarsiaModel.Slice` of `Image.slice` on the C01 coordinate-system model): for every
well-formed geometry (any dimension 1–3, any shape, dimensions, origin), every Cartesian axis name `a`, every voxel layer
`v` of the matrix axis `p` the coordinate system assigns to `a` and every offset `t ∈ [0, 1)` inside that layer,
`Image.slice(cut, a)` with `cut` = the coordinate of that point (on reversed axes the coordinate DEcreases with the index)
selects exactly what `Image.slice(v, p)` selects: the same matrix axis and the same index. The code converts the vector that
is ZERO in all other components — generally a point outside the image; `voxel_named_component_only` (DarsiaProofs.Slice)
shows the other components cannot matter. Uses `to_matrix_agrees_interpret` (generated tables) and the floor round trip
of C01. `slice_by_name_selects_voxel` below remains as the tabulated check of the running code on one shape. -/
theorem slice_name_eq_index (cs : CS) (hcs : cs.ok) (a : Ax) (ha : a ∈ cs.dim.cartAxes) (v : Nat) (t : Rat)
    (ht0 : 0 ≤ t) (ht1 : t < 1) :
    ∃ p r, Gen.interpret a cs.dim.mat = .ok (p, r) ∧ p < cs.dim.toNat ∧
      (v < listGetD cs.shape p 0 →
        sliceByName cs a (layerCoordinate cs a.pos (p, r) v t) = sliceByIndex cs p v ∧
        sliceByIndex cs p v = .ok (p, (v : Int))) := by
  have hd : cs.dim ∈ Dim.all := by cases cs.dim <;> decide
  obtain ⟨m, hmm, r, _, hm, hint⟩ := to_matrix_agrees_interpret cs.dim hd a ha
  have hmat : m.isCart = false := by
    revert hmm; cases cs.dim <;> cases m <;> decide
  have hp : m.pos < cs.dim.toNat := by
    revert hmm; cases cs.dim <;> cases m <;> decide
  refine ⟨m.pos, r, hint, hp, fun _ => ?_⟩
  have hidx : sliceByIndex cs m.pos (v : Int) = .ok (m.pos, (v : Int)) := by simp [sliceByIndex, hp]
  exact ⟨by rw [hidx]; exact sliceByName_layer cs hcs a ha m r hm hint hmat v t ht0 ht1, hidx⟩

/-- non-vacuity of `slice_name_eq_index`: a 3-D 2×3×5 geometry with a far origin; name `y` (matrix axis 2, reversed),
layer 4, offset ¾. -/
example : sliceByName ⟨.d3, [2, 3, 5], [1, 3 / 2, 10], [1000000, -7, 1 / 8]⟩ .y
    (layerCoordinate ⟨.d3, [2, 3, 5], [1, 3 / 2, 10], [1000000, -7, 1 / 8]⟩ 1 (2, true) 4 (3 / 4)) = .ok (2, 4) := by
  decide +kernel

/-- non-vacuity: the 3-D tables are populated (the hypotheses of the layout theorems are met). -/
example : (Gen.m2c .d3).toOption.map List.length = some 3 ∧ (Gen.c2m .d3).toOption.map List.length = some 3 := by decide

end Darsia.C20
